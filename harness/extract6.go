package main

// C01 / C15: the import rules of internal/codegen/golang/imports.go, per file kind, as data:
// (type-name prefix tested with strings.HasPrefix, import path added). Shapes recognised in the body of
// modelImports / interfaceImports / queryImports:
//   if uses("P") { std["path"] = … }                      / if i.usesType("P") { … }
//   if uses("P") && !override… { pkg[ImportSpec{Path: "path"}] = … }
//   for typeName, pkg := range stdlibTypes { if uses(typeName) { std[pkg] = … } }
//   if sliceScan() { pkg[ImportSpec{Path: "path"}] = … }    (recorded as the pseudo prefix "[]")
// Every other call of uses / usesType in those bodies makes the translation fail closed.

import (
	"go/ast"
	"sort"
	"strings"
)

func lchars(s string) string {
	var parts []string
	for _, r := range s {
		switch r {
		case '\'':
			parts = append(parts, `'\''`)
		case '\\':
			parts = append(parts, `'\\'`)
		default:
			parts = append(parts, "'"+string(r)+"'")
		}
	}
	return "[" + strings.Join(parts, ", ") + "]"
}

type importRule struct{ prefix, path string }

func usesArg(e ast.Expr) (string, bool, bool) { // (literal, isIdentTypeName, ok)
	ce, ok := e.(*ast.CallExpr)
	if !ok || len(ce.Args) != 1 {
		return "", false, false
	}
	fn := exprString(ce.Fun)
	if fn != "uses" && fn != "i.usesType" {
		return "", false, false
	}
	if s, ok := strLit(ce.Args[0]); ok {
		return s, false, true
	}
	if id, ok := ce.Args[0].(*ast.Ident); ok && id.Name == "typeName" {
		return "", true, true
	}
	return "", false, false
}

// the import path an if-body adds: std["p"] = … or pkg[ImportSpec{Path: "p"}] = …
func addedPath(body *ast.BlockStmt) (string, bool) {
	if len(body.List) != 1 {
		return "", false
	}
	as, ok := body.List[0].(*ast.AssignStmt)
	if !ok || len(as.Lhs) != 1 {
		return "", false
	}
	ix, ok := as.Lhs[0].(*ast.IndexExpr)
	if !ok {
		return "", false
	}
	if s, ok := strLit(ix.Index); ok {
		return s, true
	}
	if id, ok := ix.Index.(*ast.Ident); ok && id.Name == "pkg" {
		return "<stdlibTypes>", true
	}
	if cl, ok := ix.Index.(*ast.CompositeLit); ok {
		for _, el := range cl.Elts {
			if kv, ok := el.(*ast.KeyValueExpr); ok && exprString(kv.Key) == "Path" {
				if s, ok := strLit(kv.Value); ok {
					return s, true
				}
			}
		}
	}
	return "", false
}

func importRulesOf(f *ast.File, fn string, stdlib [][2]string) []importRule {
	fd := findFunc(f, fn)
	if fd == nil {
		untr("imports.go: %s not found", fn)
		return nil
	}
	var rules []importRule
	seenCalls := 0
	handled := 0
	ast.Inspect(fd.Body, func(n ast.Node) bool {
		if ce, ok := n.(*ast.CallExpr); ok {
			f := exprString(ce.Fun)
			if f == "uses" || f == "i.usesType" || f == "sliceScan" {
				seenCalls++
			}
		}
		ifs, ok := n.(*ast.IfStmt)
		if !ok {
			return true
		}
		// the condition: uses(X) possibly && !something; or the custom-override condition (… && uses(o.GoTypeName))
		cond := ifs.Cond
		var first ast.Expr = cond
		if be, ok := cond.(*ast.BinaryExpr); ok && be.Op.String() == "&&" {
			first = be.X
			if strings.Contains(exprString(be.Y), "o.GoTypeName") {
				handled++ // the custom-override rule: modelled by hand (overrides are C15's data)
				return true
			}
		}
		if exprString(first) == "sliceScan()" {
			if p, ok := addedPath(ifs.Body); ok {
				rules = append(rules, importRule{"[]", p})
				handled++
			}
			return true
		}
		lit, isVar, ok := usesArg(first)
		if !ok {
			return true
		}
		p, pok := addedPath(ifs.Body)
		if !pok {
			return true
		}
		handled++
		if isVar {
			for _, kv := range stdlib {
				rules = append(rules, importRule{kv[0], kv[1]})
			}
		} else {
			rules = append(rules, importRule{lit, p})
		}
		return true
	})
	if handled != seenCalls {
		untr("imports.go: %s has %d uses/usesType/sliceScan calls, %d in a recognised rule shape", fn, seenCalls, handled)
	}
	sort.Slice(rules, func(i, j int) bool {
		if rules[i].prefix != rules[j].prefix {
			return rules[i].prefix < rules[j].prefix
		}
		return rules[i].path < rules[j].path
	})
	return rules
}

func extractImports() string {
	_, imp := parseFile("internal/codegen/golang/imports.go")
	var b strings.Builder
	b.WriteString(genHeader + "namespace Sqlc.Gen\n")
	if imp == nil {
		untr("imports.go not parsed")
		b.WriteString("end Sqlc.Gen\n")
		return b.String()
	}
	// stdlibTypes again (kept local so that this file is self-contained)
	var std [][2]string
	for _, d := range imp.Decls {
		if gd, ok := d.(*ast.GenDecl); ok {
			for _, sp := range gd.Specs {
				if vs, ok := sp.(*ast.ValueSpec); ok && len(vs.Names) == 1 && vs.Names[0].Name == "stdlibTypes" && len(vs.Values) == 1 {
					if cl, ok := vs.Values[0].(*ast.CompositeLit); ok {
						for _, el := range cl.Elts {
							kv := el.(*ast.KeyValueExpr)
							k, _ := strLit(kv.Key)
							v, _ := strLit(kv.Value)
							std = append(std, [2]string{k, v})
						}
					}
				}
			}
		}
	}
	sort.Slice(std, func(i, j int) bool { return std[i][0] < std[j][0] })
	b.WriteString("/-- per file kind: (type-name prefix as characters, import path as characters); the prefix \"[]\" stands for sliceScan() -/\n")
	b.WriteString("def importRules : List (String × List (List Char × List Char)) := [\n")
	for i, fn := range []string{"modelImports", "interfaceImports", "queryImports"} {
		rs := importRulesOf(imp, fn, std)
		var parts []string
		for _, r := range rs {
			parts = append(parts, "("+lchars(r.prefix)+", "+lchars(r.path)+")")
		}
		sep := ","
		if i == 2 {
			sep = ""
		}
		b.WriteString("  (" + lstr(fn) + ", [" + strings.Join(parts, ",\n    ") + "])" + sep + "\n")
	}
	b.WriteString("]\n")
	// the Go types the engines' type switches can answer, as characters
	pg, _, _ := extractTypeSwitch("internal/codegen/golang/postgresql_type.go", "postgresType")
	my, tiny, _ := extractTypeSwitch("internal/codegen/golang/mysql_type.go", "mysqlType")
	seen := map[string]bool{}
	var tys []string
	add := func(t string) {
		if !seen[t] {
			seen[t] = true
			tys = append(tys, t)
		}
	}
	for _, a := range append(append([]typeArm{}, pg...), my...) {
		add(a.nn)
		add(a.nul)
	}
	if tiny != nil {
		add(tiny.nn)
		add(tiny.nul)
	}
	sort.Strings(tys)
	var parts []string
	for _, t := range tys {
		parts = append(parts, lchars(t))
	}
	b.WriteString("/-- every Go type an arm of postgresType / mysqlType returns -/\n")
	b.WriteString("def armGoTypes : List (List Char) := [\n  " + strings.Join(parts, ",\n  ") + "\n]\n")
	b.WriteString("end Sqlc.Gen\n")
	return b.String()
}
