package main

// DDL history generator shared by C08, C14, C05, C07, C10: operations over a small universe of names,
// rendered as PostgreSQL text (so that the real parser and translate() sit inside the comparison)
// and, in parallel, as the *intended* operation record which the Lean model consumes.

import (
	"fmt"
	"strings"
)

type ColDef struct {
	Name    string `json:"name"`
	Type    string `json:"type"` // as written
	NotNull bool   `json:"notnull"`
	PK      bool   `json:"pk"`
}

type AlterCmd struct {
	Kind      string `json:"kind"` // add | drop | type | setnn | dropnn
	Col       string `json:"col"`
	Type      string `json:"type,omitempty"`
	NotNull   bool   `json:"notnull,omitempty"`
	MissingOk bool   `json:"missingok,omitempty"` // DROP COLUMN IF EXISTS / ADD COLUMN IF NOT EXISTS
}

type QName struct {
	Schema string `json:"schema"`
	Name   string `json:"name"`
}

type Op struct {
	Op      string     `json:"op"`
	Schema  string     `json:"schema"` // "" = unqualified
	Name    string     `json:"name"`
	New     string     `json:"new,omitempty"`
	Guard   bool       `json:"guard"` // IF EXISTS / IF NOT EXISTS
	Names   []QName    `json:"names,omitempty"`
	Cols    []ColDef   `json:"cols,omitempty"`
	TablePK []string   `json:"tablepk,omitempty"`
	Cmds    []AlterCmd `json:"cmds,omitempty"`
	Vals    []string   `json:"vals,omitempty"`
	Col     string     `json:"col,omitempty"`
	Val     string     `json:"val,omitempty"`
	Pos     string     `json:"pos,omitempty"` // "", "before", "after"
	Ref     string     `json:"ref,omitempty"`
	On      string     `json:"on,omitempty"`
	Text    *string    `json:"text"` // comment text; nil = NULL
	SQL     string     `json:"sql"`
}

func qn(schema, name string) string {
	if schema == "" {
		return name
	}
	return schema + "." + name
}

func sqlStr(s string) string { return "'" + strings.ReplaceAll(s, "'", "''") + "'" }

func (o *Op) render() {
	g := func(yes, s string) string {
		if yes != "" {
			return s + " "
		}
		return ""
	}
	ine, ie := "", ""
	if o.Guard {
		ine, ie = "x", "x"
	}
	switch o.Op {
	case "createSchema":
		o.SQL = "CREATE SCHEMA " + g(ine, "IF NOT EXISTS") + o.Name
	case "dropSchema":
		var ns []string
		for _, n := range o.Names {
			ns = append(ns, n.Name)
		}
		o.SQL = "DROP SCHEMA " + g(ie, "IF EXISTS") + strings.Join(ns, ", ")
	case "createTable":
		var parts []string
		for _, c := range o.Cols {
			s := c.Name + " " + c.Type
			if c.NotNull {
				s += " NOT NULL"
			}
			if c.PK {
				s += " PRIMARY KEY"
			}
			parts = append(parts, s)
		}
		if len(o.TablePK) > 0 {
			parts = append(parts, "PRIMARY KEY ("+strings.Join(o.TablePK, ", ")+")")
		}
		o.SQL = "CREATE TABLE " + g(ine, "IF NOT EXISTS") + qn(o.Schema, o.Name) + " (" + strings.Join(parts, ", ") + ")"
	case "dropTable":
		var ns []string
		for _, n := range o.Names {
			ns = append(ns, qn(n.Schema, n.Name))
		}
		o.SQL = "DROP TABLE " + g(ie, "IF EXISTS") + strings.Join(ns, ", ")
	case "renameTable":
		o.SQL = "ALTER TABLE " + qn(o.Schema, o.Name) + " RENAME TO " + o.New
	case "setSchema":
		o.SQL = "ALTER TABLE " + qn(o.Schema, o.Name) + " SET SCHEMA " + o.New
	case "alterTable":
		var parts []string
		for _, c := range o.Cmds {
			switch c.Kind {
			case "add":
				s := "ADD COLUMN " + g(map[bool]string{true: "x"}[c.MissingOk], "IF NOT EXISTS") + c.Col + " " + c.Type
				if c.NotNull {
					s += " NOT NULL"
				}
				parts = append(parts, s)
			case "drop":
				parts = append(parts, "DROP COLUMN "+g(map[bool]string{true: "x"}[c.MissingOk], "IF EXISTS")+c.Col)
			case "type":
				parts = append(parts, "ALTER COLUMN "+c.Col+" TYPE "+c.Type)
			case "setnn":
				parts = append(parts, "ALTER COLUMN "+c.Col+" SET NOT NULL")
			case "dropnn":
				parts = append(parts, "ALTER COLUMN "+c.Col+" DROP NOT NULL")
			}
		}
		o.SQL = "ALTER TABLE " + qn(o.Schema, o.Name) + " " + strings.Join(parts, ", ")
	case "renameColumn":
		o.SQL = "ALTER TABLE " + qn(o.Schema, o.Name) + " RENAME COLUMN " + o.Col + " TO " + o.New
	case "createEnum":
		var vs []string
		for _, v := range o.Vals {
			vs = append(vs, sqlStr(v))
		}
		o.SQL = "CREATE TYPE " + qn(o.Schema, o.Name) + " AS ENUM (" + strings.Join(vs, ", ") + ")"
	case "createComposite":
		o.SQL = "CREATE TYPE " + qn(o.Schema, o.Name) + " AS (f1 int, f2 text)"
	case "addValue":
		s := "ALTER TYPE " + qn(o.Schema, o.Name) + " ADD VALUE " + g(ine, "IF NOT EXISTS") + sqlStr(o.Val)
		if o.Pos == "before" {
			s += " BEFORE " + sqlStr(o.Ref)
		} else if o.Pos == "after" {
			s += " AFTER " + sqlStr(o.Ref)
		}
		o.SQL = s
	case "renameValue":
		o.SQL = "ALTER TYPE " + qn(o.Schema, o.Name) + " RENAME VALUE " + sqlStr(o.Val) + " TO " + sqlStr(o.New)
	case "dropType":
		var ns []string
		for _, n := range o.Names {
			ns = append(ns, qn(n.Schema, n.Name))
		}
		o.SQL = "DROP TYPE " + g(ie, "IF EXISTS") + strings.Join(ns, ", ")
	case "comment":
		txt := "NULL"
		if o.Text != nil {
			txt = sqlStr(*o.Text)
		}
		switch o.On {
		case "schema":
			o.SQL = "COMMENT ON SCHEMA " + o.Name + " IS " + txt
		case "table":
			o.SQL = "COMMENT ON TABLE " + qn(o.Schema, o.Name) + " IS " + txt
		case "column":
			o.SQL = "COMMENT ON COLUMN " + qn(o.Schema, o.Name) + "." + o.Col + " IS " + txt
		case "type":
			o.SQL = "COMMENT ON TYPE " + qn(o.Schema, o.Name) + " IS " + txt
		}
	default:
		panic("render: " + o.Op)
	}
}

// ---------------------------------------------------------------- generator (light state, for biasing only)
type gTable struct {
	cols []string
}
type gSchema struct {
	tables map[string]*gTable
	types  map[string][]string // enum labels; nil slice marker "\x00composite" for composite
}
type gState struct {
	schemas map[string]*gSchema
	order   []string
}

type DDLGen struct {
	r        *Rng
	st       gState
	Schemas  []string
	Tables   []string
	Columns  []string
	Types    []string
	Labels   []string
	ColTypes []string
	// knobs: probability (percent) of deliberately "interesting/possibly invalid" random picks
	Wild int
	// avoid constructs that hit known findings (used by consumers that need a clean catalog)
	Safe bool
}

func NewDDLGen(r *Rng) *DDLGen {
	g := &DDLGen{r: r,
		Schemas:  []string{"public", "s1", "s2"},
		Tables:   []string{"t1", "t2", "t3", "e1"},
		Columns:  []string{"a", "b", "c", "d"},
		Types:    []string{"e1", "e2", "c1", "t1"},
		Labels:   []string{"x", "y", "z", "w"},
		ColTypes: []string{"int", "text", "bigint", "boolean", "varchar(10)", "timestamptz", "uuid", "numeric(10,2)", "int[]", "text[]", "e1", "e2", "s1.e1", "smallint", "bytea", "jsonb", "date"},
		Wild:     25,
	}
	g.st.schemas = map[string]*gSchema{"public": {tables: map[string]*gTable{}, types: map[string][]string{}}}
	g.st.order = []string{"public"}
	return g
}

func (g *DDLGen) schemaRef(existing bool) (string, string) {
	// returns (written qualifier, effective schema)
	var s string
	if existing && len(g.st.order) > 0 && !g.r.Chance(g.Wild) {
		s = g.st.order[g.r.Intn(len(g.st.order))]
	} else {
		s = g.r.Pick(g.Schemas)
	}
	if s == "public" && g.r.Chance(70) {
		return "", "public"
	}
	return s, s
}

func keys(m map[string]*gTable) []string {
	var ks []string
	for _, n := range []string{"t1", "t2", "t3", "e1", "e2", "c1"} {
		if _, ok := m[n]; ok {
			ks = append(ks, n)
		}
	}
	return ks
}
func tkeys(m map[string][]string) []string {
	var ks []string
	for _, n := range []string{"e1", "e2", "c1", "t1", "t2", "t3"} {
		if _, ok := m[n]; ok {
			ks = append(ks, n)
		}
	}
	return ks
}

func (g *DDLGen) pickTable() (string, string, string, *gTable) {
	w, s := g.schemaRef(true)
	if !g.r.Chance(g.Wild) {
		if w2, s2, ok := g.schemaWith(true); ok {
			w, s = w2, s2
		}
	}
	sc := g.st.schemas[s]
	if sc != nil && len(sc.tables) > 0 && !g.r.Chance(g.Wild) {
		ks := keys(sc.tables)
		n := ks[g.r.Intn(len(ks))]
		return w, s, n, sc.tables[n]
	}
	n := g.r.Pick(g.Tables)
	var t *gTable
	if sc != nil {
		t = sc.tables[n]
	}
	return w, s, n, t
}

func (g *DDLGen) pickCol(t *gTable, existing bool) string {
	if t != nil && existing && len(t.cols) > 0 && !g.r.Chance(g.Wild) {
		return t.cols[g.r.Intn(len(t.cols))]
	}
	return g.r.Pick(g.Columns)
}

func (g *DDLGen) colType() string { return g.r.Pick(g.ColTypes) }

// Next returns the next operation and updates the light state optimistically.
func (g *DDLGen) Next() Op {
	r := g.r
	var o Op
	for {
		k := r.Intn(100)
		if !r.Chance(g.Wild) {
			needTables := (k >= 32 && k < 71)
			needTypes := (k >= 83 && k < 95)
			needSchemas := (k >= 8 && k < 12)
			if needTables && !g.anyTables() {
				continue
			}
			if needTypes && !g.anyTypes() {
				continue
			}
			if needSchemas && len(g.st.order) < 2 {
				continue
			}
		}
		switch {
		case k < 8:
			o = Op{Op: "createSchema", Name: r.Pick(g.Schemas), Guard: r.Chance(35)}
			if g.Safe && o.Guard {
				continue
			}
			if _, ok := g.st.schemas[o.Name]; !ok {
				g.st.schemas[o.Name] = &gSchema{tables: map[string]*gTable{}, types: map[string][]string{}}
				g.st.order = append(g.st.order, o.Name)
			}
		case k < 12:
			n := 1 + r.Intn(2)
			o = Op{Op: "dropSchema", Guard: r.Chance(40)}
			for i := 0; i < n; i++ {
				s := r.Pick(g.Schemas[1:])
				o.Names = append(o.Names, QName{Name: s})
				delete(g.st.schemas, s)
				var no []string
				for _, x := range g.st.order {
					if x != s {
						no = append(no, x)
					}
				}
				g.st.order = no
			}
		case k < 32:
			w, s := g.schemaRef(true)
			o = Op{Op: "createTable", Schema: w, Name: r.Pick(g.Tables), Guard: r.Chance(25)}
			nc := 1 + r.Intn(4)
			if nc > len(g.Columns) {
				nc = len(g.Columns)
			}
			perm := r.Perm(len(g.Columns))
			t := &gTable{}
			for i := 0; i < nc; i++ {
				c := ColDef{Name: g.Columns[perm[i]], Type: g.colType(), NotNull: r.Chance(40), PK: false}
				if i == 0 && r.Chance(30) {
					c.PK = true
				}
				o.Cols = append(o.Cols, c)
				t.cols = append(t.cols, c.Name)
			}
			if !g.Safe && r.Chance(6) { // duplicate column name
				o.Cols = append(o.Cols, ColDef{Name: o.Cols[0].Name, Type: g.colType()})
			}
			if !o.Cols[0].PK && r.Chance(20) {
				o.TablePK = []string{o.Cols[r.Intn(len(o.Cols))].Name}
			}
			if sc := g.st.schemas[s]; sc != nil {
				if _, ok := sc.tables[o.Name]; !ok {
					sc.tables[o.Name] = t
				}
			}
		case k < 38:
			o = Op{Op: "dropTable", Guard: r.Chance(40)}
			n := 1 + r.Intn(2)
			for i := 0; i < n; i++ {
				w, s, name, _ := g.pickTable()
				o.Names = append(o.Names, QName{Schema: w, Name: name})
				if sc := g.st.schemas[s]; sc != nil {
					delete(sc.tables, name)
				}
			}
		case k < 43:
			w, s, name, t := g.pickTable()
			o = Op{Op: "renameTable", Schema: w, Name: name, New: r.Pick(g.Tables)}
			if sc := g.st.schemas[s]; sc != nil && t != nil {
				if _, ok := sc.tables[o.New]; !ok {
					delete(sc.tables, name)
					sc.tables[o.New] = t
				}
			}
		case k < 47:
			w, s, name, t := g.pickTable()
			_, ns := g.schemaRef(true)
			o = Op{Op: "setSchema", Schema: w, Name: name, New: ns}
			if sc, nsc := g.st.schemas[s], g.st.schemas[ns]; sc != nil && nsc != nil && t != nil && s != ns {
				if _, ok := nsc.tables[name]; !ok {
					delete(sc.tables, name)
					nsc.tables[name] = t
				}
			}
		case k < 65:
			w, _, name, t := g.pickTable()
			o = Op{Op: "alterTable", Schema: w, Name: name}
			n := 1
			if r.Chance(25) {
				n = 2 + r.Intn(2)
			}
			for i := 0; i < n; i++ {
				var c AlterCmd
				switch r.Intn(5) {
				case 0:
					c = AlterCmd{Kind: "add", Col: g.pickCol(t, r.Chance(20)), Type: g.colType(), NotNull: r.Chance(30), MissingOk: r.Chance(20)}
					if g.Safe {
						c.MissingOk = false
					}
					if t != nil {
						has := false
						for _, x := range t.cols {
							if x == c.Col {
								has = true
							}
						}
						if !has {
							t.cols = append(t.cols, c.Col)
						}
					}
				case 1:
					c = AlterCmd{Kind: "drop", Col: g.pickCol(t, true), MissingOk: r.Chance(30)}
					if t != nil {
						var nc []string
						for _, x := range t.cols {
							if x != c.Col {
								nc = append(nc, x)
							}
						}
						t.cols = nc
					}
				case 2:
					c = AlterCmd{Kind: "type", Col: g.pickCol(t, true), Type: g.colType()}
				case 3:
					c = AlterCmd{Kind: "setnn", Col: g.pickCol(t, true)}
				default:
					c = AlterCmd{Kind: "dropnn", Col: g.pickCol(t, true)}
				}
				o.Cmds = append(o.Cmds, c)
			}
		case k < 71:
			w, _, name, t := g.pickTable()
			o = Op{Op: "renameColumn", Schema: w, Name: name, Col: g.pickCol(t, true), New: r.Pick(g.Columns)}
			if t != nil {
				has := false
				for _, x := range t.cols {
					if x == o.New {
						has = true
					}
				}
				if !has {
					for i, x := range t.cols {
						if x == o.Col {
							t.cols[i] = o.New
						}
					}
				}
			}
		case k < 80:
			w, s := g.schemaRef(true)
			o = Op{Op: "createEnum", Schema: w, Name: r.Pick(g.Types)}
			n := 1 + r.Intn(3)
			perm := r.Perm(len(g.Labels))
			for i := 0; i < n; i++ {
				o.Vals = append(o.Vals, g.Labels[perm[i]])
			}
			if !g.Safe && r.Chance(5) {
				o.Vals = append(o.Vals, o.Vals[0])
			}
			if sc := g.st.schemas[s]; sc != nil {
				if _, ok := sc.types[o.Name]; !ok {
					sc.types[o.Name] = o.Vals
				}
			}
		case k < 83:
			if g.Safe {
				continue
			}
			w, s := g.schemaRef(true)
			o = Op{Op: "createComposite", Schema: w, Name: r.Pick(g.Types)}
			if sc := g.st.schemas[s]; sc != nil {
				if _, ok := sc.types[o.Name]; !ok {
					sc.types[o.Name] = []string{}
				}
			}
		case k < 88:
			w, s := g.schemaRef(true)
			if !r.Chance(g.Wild) {
				if w2, s2, ok := g.schemaWith(false); ok {
					w, s = w2, s2
				}
			}
			name := r.Pick(g.Types)
			if sc := g.st.schemas[s]; sc != nil && len(sc.types) > 0 && !r.Chance(g.Wild) {
				ks := tkeys(sc.types)
				name = ks[r.Intn(len(ks))]
			}
			o = Op{Op: "addValue", Schema: w, Name: name, Val: r.Pick(g.Labels), Guard: r.Chance(30)}
			if !g.Safe && r.Chance(30) {
				o.Pos = r.Pick([]string{"before", "after"})
				o.Ref = r.Pick(g.Labels)
				if sc := g.st.schemas[s]; sc != nil && len(sc.types[name]) > 0 && r.Chance(80) {
					o.Ref = sc.types[name][r.Intn(len(sc.types[name]))]
				}
			}
		case k < 91:
			w, s := g.schemaRef(true)
			name := r.Pick(g.Types)
			old := r.Pick(g.Labels)
			if sc := g.st.schemas[s]; sc != nil && len(sc.types) > 0 && !r.Chance(g.Wild) {
				ks := tkeys(sc.types)
				name = ks[r.Intn(len(ks))]
				if len(sc.types[name]) > 0 {
					old = sc.types[name][r.Intn(len(sc.types[name]))]
				}
			}
			o = Op{Op: "renameValue", Schema: w, Name: name, Val: old, New: r.Pick(g.Labels)}
		case k < 95:
			o = Op{Op: "dropType", Guard: r.Chance(40)}
			n := 1 + r.Intn(2)
			for i := 0; i < n; i++ {
				w, s := g.schemaRef(true)
				if !r.Chance(g.Wild) {
					if w2, s2, ok := g.schemaWith(false); ok {
						w, s = w2, s2
					}
				}
				name := r.Pick(g.Types)
				if sc := g.st.schemas[s]; sc != nil && len(sc.types) > 0 && !r.Chance(g.Wild) {
					ks := tkeys(sc.types)
					name = ks[r.Intn(len(ks))]
				}
				o.Names = append(o.Names, QName{Schema: w, Name: name})
				if sc := g.st.schemas[s]; sc != nil {
					delete(sc.types, name)
				}
			}
		default:
			o = Op{Op: "comment", On: r.Pick([]string{"schema", "table", "column", "type"})}
			if r.Chance(80) {
				t := r.Pick([]string{"first", "second comment", "it's"})
				o.Text = &t
			}
			switch o.On {
			case "schema":
				_, s := g.schemaRef(true)
				o.Name = s
			case "table":
				w, _, name, _ := g.pickTable()
				o.Schema, o.Name = w, name
			case "column":
				w, _, name, t := g.pickTable()
				o.Schema, o.Name, o.Col = w, name, g.pickCol(t, true)
			case "type":
				w, s := g.schemaRef(true)
				if !r.Chance(g.Wild) {
					if w2, s2, ok := g.schemaWith(false); ok {
						w, s = w2, s2
					}
				}
				name := r.Pick(g.Types)
				if sc := g.st.schemas[s]; sc != nil && len(sc.types) > 0 && !r.Chance(g.Wild) {
					ks := tkeys(sc.types)
					name = ks[r.Intn(len(ks))]
				}
				o.Schema, o.Name = w, name
			}
		}
		break
	}
	o.render()
	return o
}

func (g *DDLGen) anyTables() bool {
	for _, s := range g.st.schemas {
		if len(s.tables) > 0 {
			return true
		}
	}
	return false
}
func (g *DDLGen) anyTypes() bool {
	for _, s := range g.st.schemas {
		if len(s.types) > 0 {
			return true
		}
	}
	return false
}

// schemaWith returns a schema (written, effective) that currently has tables (or types)
func (g *DDLGen) schemaWith(tables bool) (string, string, bool) {
	var cands []string
	for _, n := range g.st.order {
		s := g.st.schemas[n]
		if s == nil {
			continue
		}
		if (tables && len(s.tables) > 0) || (!tables && len(s.types) > 0) {
			cands = append(cands, n)
		}
	}
	if len(cands) == 0 {
		return "", "", false
	}
	s := cands[g.r.Intn(len(cands))]
	if s == "public" && g.r.Chance(70) {
		return "", "public", true
	}
	return s, s, true
}

// SyncFrom rebuilds the generator's light state from a dump of the real catalog, so that the bias
// towards applicable statements follows what the implementation actually holds.
func (g *DDLGen) SyncFrom(d []DSchema) {
	g.st.schemas = map[string]*gSchema{}
	g.st.order = nil
	for _, s := range d {
		if s.Name == "pg_temp" {
			continue
		}
		if _, dup := g.st.schemas[s.Name]; dup {
			continue
		}
		gs := &gSchema{tables: map[string]*gTable{}, types: map[string][]string{}}
		for _, t := range s.Tables {
			gt := &gTable{}
			for _, c := range t.Cols {
				gt.cols = append(gt.cols, c.Name)
			}
			gs.tables[t.Name] = gt
		}
		for _, t := range s.Types {
			gs.types[t.Name] = append([]string{}, t.Vals...)
		}
		g.st.schemas[s.Name] = gs
		g.st.order = append(g.st.order, s.Name)
	}
}

func (g *DDLGen) History(n int) []Op {
	ops := make([]Op, 0, n)
	for i := 0; i < n; i++ {
		ops = append(ops, g.Next())
	}
	return ops
}

func historySQL(ops []Op) string {
	var b strings.Builder
	for _, o := range ops {
		b.WriteString(o.SQL)
		b.WriteString(";\n")
	}
	return b.String()
}

var _ = fmt.Sprintf
