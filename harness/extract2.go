package main

import (
	"fmt"
	"go/ast"
	"go/token"
	"reflect"
	"sort"
	"strings"
)

// ---------------------------------------------------------------- C12: shape of the package loop in cmd.Generate
func branchAction(body []ast.Stmt) (setsErrored bool, action string) {
	action = "fallthrough"
	for _, st := range body {
		switch s := st.(type) {
		case *ast.AssignStmt:
			if len(s.Lhs) == 1 && exprString(s.Lhs[0]) == "errored" && exprString(s.Rhs[0]) == "true" {
				setsErrored = true
			}
		case *ast.BranchStmt:
			if s.Tok == token.BREAK {
				action = "brk"
			} else if s.Tok == token.CONTINUE {
				action = "cont"
			}
		case *ast.ReturnStmt:
			action = "ret"
		}
	}
	return
}

func extractDriver() string {
	_, f := parseFile("internal/cmd/generate.go")
	fd := findFunc(f, "Generate")
	var b strings.Builder
	b.WriteString(genHeader + "namespace Sqlc.Gen\n")
	parseSets, genSets := false, false
	parseAct, genAct := "missing", "missing"
	gate, gateNil, finalRetOutput := false, false, false
	outputWritesOutsideSuccess := 0
	outputWrites := 0
	if fd == nil {
		untr("cmd.Generate not found")
	} else {
		// locate `for _, sql := range pairs`
		var loop *ast.RangeStmt
		loopIdx := -1
		for i, st := range fd.Body.List {
			if rs, ok := st.(*ast.RangeStmt); ok && exprString(rs.X) == "pairs" {
				loop = rs
				loopIdx = i
			}
		}
		if loop == nil {
			untr("cmd.Generate: package loop `range pairs` not found")
		} else {
			seenParse, seenGen := false, false
			for _, st := range loop.Body.List {
				switch s := st.(type) {
				case *ast.IfStmt:
					c := exprString(s.Cond)
					if c == "failed" {
						parseSets, parseAct = branchAction(s.Body.List)
						seenParse = true
					} else if c == "err != nil" && seenParse {
						genSets, genAct = branchAction(s.Body.List)
						seenGen = true
					}
				case *ast.RangeStmt:
					// for n, source := range files { output[filename] = source }
					ast.Inspect(s, func(n ast.Node) bool {
						if as, ok := n.(*ast.AssignStmt); ok && len(as.Lhs) == 1 {
							if ix, ok := as.Lhs[0].(*ast.IndexExpr); ok && exprString(ix.X) == "output" {
								outputWrites++
								if !(seenParse && seenGen) {
									outputWritesOutsideSuccess++
								}
							}
						}
						return true
					})
				}
			}
			if !seenParse || !seenGen {
				untr("cmd.Generate: parse-failure or codegen-failure branch not found in the package loop")
			}
			// statement after the loop: if errored { return nil, ... }
			if loopIdx+1 < len(fd.Body.List) {
				if ifs, ok := fd.Body.List[loopIdx+1].(*ast.IfStmt); ok && exprString(ifs.Cond) == "errored" {
					gate = true
					if len(ifs.Body.List) == 1 {
						if r, ok := ifs.Body.List[0].(*ast.ReturnStmt); ok && len(r.Results) == 2 && exprString(r.Results[0]) == "nil" && exprString(r.Results[1]) != "nil" {
							gateNil = true
						}
					}
				}
			}
			if loopIdx+2 < len(fd.Body.List) {
				if r, ok := fd.Body.List[loopIdx+2].(*ast.ReturnStmt); ok && len(r.Results) == 2 && exprString(r.Results[0]) == "output" && exprString(r.Results[1]) == "nil" {
					finalRetOutput = true
				}
			}
		}
		// any write to output outside the loop?
		total := 0
		ast.Inspect(fd, func(n ast.Node) bool {
			if as, ok := n.(*ast.AssignStmt); ok && len(as.Lhs) == 1 {
				if ix, ok := as.Lhs[0].(*ast.IndexExpr); ok && exprString(ix.X) == "output" {
					total++
				}
			}
			return true
		})
		outputWritesOutsideSuccess += total - outputWrites
	}
	b.WriteString("/-- facts read off cmd.Generate's package loop -/\n")
	b.WriteString("def parseFailSetsErrored : Bool := " + lbool(parseSets) + "\n")
	b.WriteString("def parseFailAction : String := " + lstr(parseAct) + "\n")
	b.WriteString("def genFailSetsErrored : Bool := " + lbool(genSets) + "\n")
	b.WriteString("def genFailAction : String := " + lstr(genAct) + "\n")
	b.WriteString("def gateAfterLoop : Bool := " + lbool(gate) + "\n")
	b.WriteString("def gateReturnsNilAndError : Bool := " + lbool(gateNil) + "\n")
	b.WriteString("def finalReturnIsOutput : Bool := " + lbool(finalRetOutput) + "\n")
	b.WriteString(fmt.Sprintf("def outputWritesOffSuccessPath : Nat := %d\n", outputWritesOutsideSuccess))

	// cmd.go: genCmd / checkCmd
	_, c := parseFile("internal/cmd/cmd.go")
	genExit, genWritesAfterCheck, checkExit, checkWrites := false, false, false, 0
	if c != nil {
		for _, d := range c.Decls {
			gd, ok := d.(*ast.GenDecl)
			if !ok {
				continue
			}
			for _, sp := range gd.Specs {
				vs, ok := sp.(*ast.ValueSpec)
				if !ok || len(vs.Names) != 1 {
					continue
				}
				name := vs.Names[0].Name
				if name != "genCmd" && name != "checkCmd" {
					continue
				}
				ast.Inspect(vs, func(n ast.Node) bool {
					fl, ok := n.(*ast.FuncLit)
					if !ok {
						return true
					}
					sawGenerate, sawExitOnErr := false, false
					for _, st := range fl.Body.List {
						hasGen := false
						ast.Inspect(st, func(m ast.Node) bool {
							if call, ok := m.(*ast.CallExpr); ok && exprString(call.Fun) == "Generate" {
								hasGen = true
							}
							return true
						})
						if hasGen {
							sawGenerate = true
						}
						if ifs, ok := st.(*ast.IfStmt); ok && sawGenerate && strings.HasSuffix(exprString(ifs.Cond), "err != nil") {
							for _, bs := range ifs.Body.List {
								if es, ok := bs.(*ast.ExprStmt); ok && exprString(es.X) == "os.Exit(1)" {
									sawExitOnErr = true
								}
							}
						}
						writes := 0
						ast.Inspect(st, func(m ast.Node) bool {
							if call, ok := m.(*ast.CallExpr); ok {
								fn := exprString(call.Fun)
								if fn == "ioutil.WriteFile" || fn == "os.WriteFile" || fn == "os.Create" || fn == "os.MkdirAll" || fn == "os.OpenFile" {
									writes++
								}
							}
							return true
						})
						if name == "genCmd" && writes > 0 && sawExitOnErr {
							genWritesAfterCheck = true
						}
						if name == "genCmd" && writes > 0 && !sawExitOnErr {
							untr("genCmd writes before checking Generate's error")
						}
						if name == "checkCmd" {
							checkWrites += writes
						}
					}
					if name == "genCmd" {
						genExit = sawExitOnErr
					} else {
						checkExit = sawExitOnErr
					}
					return false
				})
			}
		}
	}
	b.WriteString("def genCmdExitsOnError : Bool := " + lbool(genExit) + "\n")
	b.WriteString("def genCmdWritesOnlyAfterCheck : Bool := " + lbool(genWritesAfterCheck) + "\n")
	b.WriteString("def checkCmdExitsOnError : Bool := " + lbool(checkExit) + "\n")
	b.WriteString(fmt.Sprintf("def checkCmdWriteCalls : Nat := %d\n", checkWrites))
	// printFileErr: how a diagnostic's file name, line and column reach the output
	nameExpr, format, fargs := "missing", "missing", "missing"
	if pf := findFunc(f, "printFileErr"); pf == nil || len(pf.Body.List) != 2 {
		untr("cmd.printFileErr: not two statements (name := …; Fprintf)")
	} else {
		if as, ok := pf.Body.List[0].(*ast.AssignStmt); ok && len(as.Lhs) == 1 && len(as.Rhs) == 1 {
			nameExpr = exprString(as.Lhs[0]) + " := " + exprString(as.Rhs[0])
		}
		if es, ok := pf.Body.List[1].(*ast.ExprStmt); ok {
			if call, ok := es.X.(*ast.CallExpr); ok && exprString(call.Fun) == "fmt.Fprintf" && len(call.Args) >= 2 {
				format = exprString(call.Args[1])
				var as []string
				for _, a := range call.Args[2:] {
					as = append(as, exprString(a))
				}
				fargs = strings.Join(as, ", ")
			}
		}
	}
	b.WriteString("def printFileErrName : String := " + lstr(nameExpr) + "\n")
	b.WriteString("def printFileErrFormat : String := " + lstr(format) + "\n")
	b.WriteString("def printFileErrArgs : String := " + lstr(fargs) + "\n")
	b.WriteString("end Sqlc.Gen\n")
	return b.String()
}

// ---------------------------------------------------------------- C16: config facts
type fieldFact struct{ name, typ, json, yaml string }

func structFields(f *ast.File, name string) []fieldFact {
	var out []fieldFact
	if f == nil {
		return nil
	}
	for _, d := range f.Decls {
		gd, ok := d.(*ast.GenDecl)
		if !ok {
			continue
		}
		for _, sp := range gd.Specs {
			ts, ok := sp.(*ast.TypeSpec)
			if !ok || ts.Name.Name != name {
				continue
			}
			st, ok := ts.Type.(*ast.StructType)
			if !ok {
				continue
			}
			for _, fl := range st.Fields.List {
				tag := ""
				if fl.Tag != nil {
					tag, _ = strLit(fl.Tag)
				}
				st := reflect.StructTag(tag)
				j := strings.Split(st.Get("json"), ",")[0]
				y := strings.Split(st.Get("yaml"), ",")[0]
				for _, n := range fl.Names {
					out = append(out, fieldFact{n.Name, exprString(fl.Type), j, y})
				}
			}
		}
	}
	return out
}

func fieldsLean(name string, fs []fieldFact) string {
	var b strings.Builder
	b.WriteString("def " + name + " : List (String × String × String × String) := [\n")
	for i, f := range fs {
		sep := ","
		if i == len(fs)-1 {
			sep = ""
		}
		b.WriteString(fmt.Sprintf("  (%s, %s, %s, %s)%s\n", lstr(f.name), lstr(f.typ), lstr(f.json), lstr(f.yaml), sep))
	}
	b.WriteString("]\n")
	return b.String()
}

func extractConfig() string {
	_, v1 := parseFile("internal/config/v_one.go")
	_, cf := parseFile("internal/config/config.go")
	var b strings.Builder
	b.WriteString(genHeader + "namespace Sqlc.Gen\n")
	b.WriteString("/-- (field, type, json tag, yaml tag) -/\n")
	b.WriteString(fieldsLean("v1PackageFields", structFields(v1, "v1PackageSettings")))
	b.WriteString(fieldsLean("sqlGoFields", structFields(cf, "SQLGo")))
	b.WriteString(fieldsLean("sqlFields", structFields(cf, "SQL")))
	b.WriteString(fieldsLean("v1TopFields", structFields(v1, "V1GenerateSettings")))
	// Translate(): flows  target field <- pkg.Source
	var flows [][2]string
	var topFlows [][2]string
	if fd := findFunc(v1, "Translate"); fd != nil {
		ast.Inspect(fd, func(n ast.Node) bool {
			cl, ok := n.(*ast.CompositeLit)
			if !ok {
				return true
			}
			tn := exprString(cl.Type)
			if tn != "SQL" && tn != "SQLGo" && tn != "GenGo" {
				return true
			}
			for _, el := range cl.Elts {
				kv, ok := el.(*ast.KeyValueExpr)
				if !ok {
					continue
				}
				src := exprString(kv.Value)
				if strings.HasPrefix(src, "pkg.") {
					flows = append(flows, [2]string{tn + "." + exprString(kv.Key), strings.TrimPrefix(src, "pkg.")})
				} else if strings.HasPrefix(src, "c.") {
					topFlows = append(topFlows, [2]string{tn + "." + exprString(kv.Key), strings.TrimPrefix(src, "c.")})
				}
			}
			return true
		})
	} else {
		untr("V1GenerateSettings.Translate not found")
	}
	pr := func(name string, fl [][2]string) {
		b.WriteString("def " + name + " : List (String × String × String) := [")
		for i, f := range fl {
			if i > 0 {
				b.WriteString(", ")
			}
			parts := strings.SplitN(f[0], ".", 2)
			b.WriteString("(" + lstr(parts[0]) + ", " + lstr(parts[1]) + ", " + lstr(f[1]) + ")")
		}
		b.WriteString("]\n")
	}
	b.WriteString("/-- assignments inside Translate(): (target struct, target field, source field of the v1 package) -/\n")
	pr("translateFlows", flows)
	pr("translateTopFlows", topFlows)
	// Combine(): which sources feed cs.Overrides / cs.Rename, in order
	var comb []string
	if fd := findFunc(cf, "Combine"); fd != nil {
		ast.Inspect(fd, func(n ast.Node) bool {
			if as, ok := n.(*ast.AssignStmt); ok && len(as.Lhs) == 1 {
				l := exprString(as.Lhs[0])
				if l == "cs.Overrides" || l == "cs.Rename" {
					comb = append(comb, l+" <- "+exprString(as.Rhs[0]))
				}
			}
			return true
		})
	} else {
		untr("config.Combine not found")
	}
	b.WriteString("def combineFlows : List String := " + lstrs(comb) + "\n")
	b.WriteString("end Sqlc.Gen\n")
	_ = sort.Strings
	return b.String()
}
