package main

// The translator: go/ast fact extractors over /repo's *current* sources.  Every extractor fails
// closed: source it cannot match is emitted as an `untranslatable` entry, which the Lean side turns
// into a failing obligation (Gen.untranslatable = []).

import (
	"fmt"
	"go/ast"
	"go/parser"
	"go/token"
	"io/ioutil"
	"os"
	"path/filepath"
	"sort"
	"strconv"
	"strings"
)

const repoRoot = "/repo"

type leanFile struct {
	name string
	b    strings.Builder
}

var untranslatable []string

func untr(format string, a ...interface{}) {
	untranslatable = append(untranslatable, fmt.Sprintf(format, a...))
}

func lstr(s string) string {
	// Lean string literal
	var b strings.Builder
	b.WriteByte('"')
	for _, r := range s {
		switch {
		case r == '"':
			b.WriteString("\\\"")
		case r == '\\':
			b.WriteString("\\\\")
		case r == '\n':
			b.WriteString("\\n")
		case r == '\t':
			b.WriteString("\\t")
		case r < 0x20 || r == 0x7f:
			b.WriteString(fmt.Sprintf("\\x%02x", r))
		default:
			b.WriteRune(r)
		}
	}
	b.WriteByte('"')
	return b.String()
}

func lstrs(xs []string) string {
	q := make([]string, len(xs))
	for i, x := range xs {
		q[i] = lstr(x)
	}
	return "[" + strings.Join(q, ", ") + "]"
}

func lbytes(s string) string {
	q := make([]string, len(s))
	for i := 0; i < len(s); i++ {
		q[i] = strconv.Itoa(int(s[i]))
	}
	return "[" + strings.Join(q, ", ") + "]"
}

func lbytess(xs []string) string {
	q := make([]string, len(xs))
	for i, x := range xs {
		q[i] = lbytes(x)
	}
	return "[" + strings.Join(q, ", ") + "]"
}

func lbool(b bool) string {
	if b {
		return "true"
	}
	return "false"
}

func parseFile(rel string) (*token.FileSet, *ast.File) {
	fset := token.NewFileSet()
	f, err := parser.ParseFile(fset, filepath.Join(repoRoot, rel), nil, parser.ParseComments)
	if err != nil {
		untr("parse %s: %v", rel, err)
		return fset, nil
	}
	return fset, f
}

func findFunc(f *ast.File, name string) *ast.FuncDecl {
	if f == nil {
		return nil
	}
	for _, d := range f.Decls {
		if fd, ok := d.(*ast.FuncDecl); ok && fd.Name.Name == name {
			return fd
		}
	}
	return nil
}

func strLit(e ast.Expr) (string, bool) {
	bl, ok := e.(*ast.BasicLit)
	if !ok || bl.Kind != token.STRING {
		return "", false
	}
	s, err := strconv.Unquote(bl.Value)
	if err != nil {
		return "", false
	}
	return s, true
}

func writeIfChanged(path, content string) {
	old, err := ioutil.ReadFile(path)
	if err == nil && string(old) == content {
		return
	}
	if err := ioutil.WriteFile(path, []byte(content), 0644); err != nil {
		fmt.Fprintln(os.Stderr, "write", path, err)
		os.Exit(3)
	}
}

const genHeader = "-- REGENERATED from /repo by `vh extract` on every run. Do not edit.\n"

func extractAll(outdir string) {
	os.MkdirAll(outdir, 0755)
	files := map[string]string{}
	files["Markers.lean"] = extractMarkers()
	files["TypeTables.lean"] = extractTypeTables()
	files["Reserved.lean"] = extractReserved()
	files["MetaFacts.lean"] = extractMeta()
	files["DriverFacts.lean"] = extractDriver()
	files["ConfigFacts.lean"] = extractConfig()
	files["Sites.lean"] = extractSites()
	files["OrderSites.lean"] = extractOrder()
	files["TemplateFacts.lean"] = extractTemplate()
	files["Operators.lean"] = extractOperators()
	files["ImportFacts.lean"] = extractImports()
	files["ValidationFacts.lean"] = extractValidation()
	sort.Strings(untranslatable)
	files["Untranslatable.lean"] = genHeader + "namespace Sqlc.Gen\n/-- source shapes the translator could not match; the obligation `untranslatable = []` is part of every check -/\ndef untranslatable : List String := " + lstrs(untranslatable) + "\nend Sqlc.Gen\n"
	// delete stale files
	ents, _ := ioutil.ReadDir(outdir)
	for _, e := range ents {
		if _, ok := files[e.Name()]; !ok {
			os.Remove(filepath.Join(outdir, e.Name()))
		}
	}
	for n, c := range files {
		writeIfChanged(filepath.Join(outdir, n), c)
	}
	for _, u := range untranslatable {
		fmt.Fprintln(os.Stderr, "untranslatable:", u)
	}
}

// ---------------------------------------------------------------- C14: rollback markers
func extractMarkers() string {
	_, f := parseFile("internal/migrations/migrations.go")
	var markers []string
	fd := findFunc(f, "RemoveRollbackStatements")
	shapeOK := false
	if fd != nil {
		// expected: a single `for s.Scan() { if strings.HasPrefix(s.Text(), "<lit>") { break } ...; lines = append(lines, s.Text()) }`
		ast.Inspect(fd, func(n ast.Node) bool {
			fs, ok := n.(*ast.ForStmt)
			if !ok {
				return true
			}
			shapeOK = true
			for _, st := range fs.Body.List {
				switch s := st.(type) {
				case *ast.IfStmt:
					call, ok := s.Cond.(*ast.CallExpr)
					if !ok || len(call.Args) != 2 || len(s.Body.List) != 1 || s.Else != nil {
						untr("migrations: unexpected if shape")
						shapeOK = false
						continue
					}
					if br, ok := s.Body.List[0].(*ast.BranchStmt); !ok || br.Tok != token.BREAK {
						untr("migrations: if body is not break")
						shapeOK = false
					}
					sel, ok := call.Fun.(*ast.SelectorExpr)
					if !ok || sel.Sel.Name != "HasPrefix" {
						untr("migrations: condition is not strings.HasPrefix")
						shapeOK = false
						continue
					}
					lit, ok := strLit(call.Args[1])
					if !ok {
						untr("migrations: marker is not a literal")
						shapeOK = false
						continue
					}
					markers = append(markers, lit)
				case *ast.AssignStmt:
					// lines = append(lines, s.Text())
				default:
					untr("migrations: unexpected statement %T in scan loop", st)
					shapeOK = false
				}
			}
			return false
		})
	}
	if fd == nil || !shapeOK {
		untr("migrations.RemoveRollbackStatements: scan loop not found or of unexpected shape")
	}
	// IsDown suffix
	down := ""
	if fd := findFunc(f, "IsDown"); fd != nil {
		ast.Inspect(fd, func(n ast.Node) bool {
			if call, ok := n.(*ast.CallExpr); ok {
				if sel, ok := call.Fun.(*ast.SelectorExpr); ok && sel.Sel.Name == "HasSuffix" && len(call.Args) == 2 {
					if l, ok := strLit(call.Args[1]); ok {
						down = l
					}
				}
			}
			return true
		})
	}
	if down == "" {
		untr("migrations.IsDown: suffix literal not found")
	}
	// Glob filter literals
	_, g := parseFile("internal/sql/sqlpath/read.go")
	var suffix, hidden string
	if fd := findFunc(g, "Glob"); fd != nil {
		ast.Inspect(fd, func(n ast.Node) bool {
			if call, ok := n.(*ast.CallExpr); ok {
				if sel, ok := call.Fun.(*ast.SelectorExpr); ok && len(call.Args) == 2 {
					if l, ok := strLit(call.Args[1]); ok {
						if sel.Sel.Name == "HasSuffix" {
							suffix = l
						}
						if sel.Sel.Name == "HasPrefix" {
							hidden = l
						}
					}
				}
			}
			return true
		})
	} else {
		untr("sqlpath.Glob not found")
	}
	var b strings.Builder
	b.WriteString(genHeader + "namespace Sqlc.Gen\n")
	b.WriteString("/-- literal prefixes that end the `up` part of a migration (internal/migrations/migrations.go) -/\n")
	b.WriteString("def rollbackMarkers : List String := " + lstrs(markers) + "\n")
	b.WriteString("def rollbackMarkersB : List (List UInt8) := " + lbytess(markers) + "\n")
	b.WriteString("def downSuffixB : List UInt8 := " + lbytes(down) + "\n")
	b.WriteString("def globSuffixB : List UInt8 := " + lbytes(suffix) + "\n")
	b.WriteString("def globHiddenPrefixB : List UInt8 := " + lbytes(hidden) + "\n")
	b.WriteString("def downSuffix : String := " + lstr(down) + "\n")
	b.WriteString("def globSuffix : String := " + lstr(suffix) + "\n")
	b.WriteString("def globHiddenPrefix : String := " + lstr(hidden) + "\n")
	b.WriteString("end Sqlc.Gen\n")
	return b.String()
}

// ---------------------------------------------------------------- C09: type tables
type typeArm struct {
	spellings []string
	nn, nul   string
}

// body forms accepted:  return "X"   |   if notNull { return "A" } ; return "B"
func armResult(body []ast.Stmt, where string) (string, string, bool) {
	retLit := func(s ast.Stmt) (string, bool) {
		r, ok := s.(*ast.ReturnStmt)
		if !ok || len(r.Results) != 1 {
			return "", false
		}
		return strLit(r.Results[0])
	}
	if len(body) == 1 {
		if l, ok := retLit(body[0]); ok {
			return l, l, true
		}
	}
	if len(body) == 2 {
		if ifs, ok := body[0].(*ast.IfStmt); ok && ifs.Else == nil && len(ifs.Body.List) == 1 {
			if id, ok := ifs.Cond.(*ast.Ident); ok && id.Name == "notNull" {
				a, ok1 := retLit(ifs.Body.List[0])
				b, ok2 := retLit(body[1])
				if ok1 && ok2 {
					return a, b, true
				}
			}
		}
	}
	return "", "", false
}

func extractTypeSwitch(rel, fn string) (arms []typeArm, tiny1 *typeArm, defaultSeen bool) {
	_, f := parseFile(rel)
	fd := findFunc(f, fn)
	if fd == nil {
		untr("%s: func %s not found", rel, fn)
		return
	}
	// first statements: columnType := col.DataType ; notNull := col.NotNull || col.IsArray
	sawNN := false
	for _, st := range fd.Body.List {
		if as, ok := st.(*ast.AssignStmt); ok && len(as.Lhs) == 1 {
			if id, ok := as.Lhs[0].(*ast.Ident); ok && id.Name == "notNull" {
				if be, ok := as.Rhs[0].(*ast.BinaryExpr); ok && be.Op == token.LOR {
					l, _ := be.X.(*ast.SelectorExpr)
					r, _ := be.Y.(*ast.SelectorExpr)
					if l != nil && r != nil && l.Sel.Name == "NotNull" && r.Sel.Name == "IsArray" {
						sawNN = true
					}
				}
			}
		}
	}
	if !sawNN {
		untr("%s.%s: `notNull := col.NotNull || col.IsArray` not found", rel, fn)
	}
	var sw *ast.SwitchStmt
	for _, st := range fd.Body.List {
		if s, ok := st.(*ast.SwitchStmt); ok {
			sw = s
		}
	}
	if sw == nil {
		untr("%s.%s: switch not found", rel, fn)
		return
	}
	if id, ok := sw.Tag.(*ast.Ident); !ok || id.Name != "columnType" {
		untr("%s.%s: switch tag is not columnType", rel, fn)
	}
	for _, cs := range sw.Body.List {
		cc := cs.(*ast.CaseClause)
		if cc.List == nil {
			defaultSeen = true
			continue
		}
		var sp []string
		for _, e := range cc.List {
			l, ok := strLit(e)
			if !ok {
				untr("%s.%s: non-literal case label", rel, fn)
				continue
			}
			sp = append(sp, l)
		}
		nn, nul, ok := armResult(cc.Body, fn)
		if ok {
			arms = append(arms, typeArm{sp, nn, nul})
			continue
		}
		// mysql tinyint: if col.Length != nil && *col.Length == 1 { A } else { B }
		if len(cc.Body) == 1 {
			if ifs, ok := cc.Body[0].(*ast.IfStmt); ok && ifs.Else != nil {
				if eb, ok := ifs.Else.(*ast.BlockStmt); ok {
					a1, a2, okA := armResult(ifs.Body.List, fn)
					b1, b2, okB := armResult(eb.List, fn)
					cond := exprString(ifs.Cond)
					if okA && okB && cond == "col.Length != nil && *col.Length == 1" {
						tiny1 = &typeArm{sp, a1, a2}
						arms = append(arms, typeArm{sp, b1, b2})
						continue
					}
				}
			}
		}
		untr("%s.%s: arm %v has an unrecognised body", rel, fn, sp)
	}
	return
}

func exprString(e ast.Expr) string {
	switch x := e.(type) {
	case *ast.Ident:
		return x.Name
	case *ast.BasicLit:
		return x.Value
	case *ast.SelectorExpr:
		return exprString(x.X) + "." + x.Sel.Name
	case *ast.StarExpr:
		return "*" + exprString(x.X)
	case *ast.UnaryExpr:
		return x.Op.String() + exprString(x.X)
	case *ast.BinaryExpr:
		return exprString(x.X) + " " + x.Op.String() + " " + exprString(x.Y)
	case *ast.ParenExpr:
		return "(" + exprString(x.X) + ")"
	case *ast.CallExpr:
		var a []string
		for _, y := range x.Args {
			a = append(a, exprString(y))
		}
		return exprString(x.Fun) + "(" + strings.Join(a, ", ") + ")"
	case *ast.IndexExpr:
		return exprString(x.X) + "[" + exprString(x.Index) + "]"
	case *ast.CompositeLit:
		return "<lit>"
	}
	return fmt.Sprintf("<%T>", e)
}

func armsLean(name string, arms []typeArm) string {
	var b strings.Builder
	b.WriteString("def " + name + " : List (List String × String × String) := [\n")
	for i, a := range arms {
		sep := ","
		if i == len(arms)-1 {
			sep = ""
		}
		b.WriteString(fmt.Sprintf("  (%s, %s, %s)%s\n", lstrs(a.spellings), lstr(a.nn), lstr(a.nul), sep))
	}
	b.WriteString("]\n")
	return b.String()
}

func extractTypeTables() string {
	pg, _, pgDef := extractTypeSwitch("internal/codegen/golang/postgresql_type.go", "postgresType")
	my, tiny, myDef := extractTypeSwitch("internal/codegen/golang/mysql_type.go", "mysqlType")
	if !pgDef || !myDef {
		untr("type switch without default arm")
	}
	var b strings.Builder
	b.WriteString(genHeader + "namespace Sqlc.Gen\n")
	b.WriteString("/-- one entry per `case` arm of postgresType: (spellings, result when notNull, result when nullable) -/\n")
	b.WriteString(armsLean("pgTypeArms", pg))
	b.WriteString("/-- likewise for mysqlType; the `tinyint` entry is the display-length ≠ 1 branch -/\n")
	b.WriteString(armsLean("mysqlTypeArms", my))
	if tiny != nil {
		b.WriteString(armsLean("mysqlTinyint1", []typeArm{*tiny}))
	} else {
		b.WriteString("def mysqlTinyint1 : List (List String × String × String) := []\n")
	}
	// goType: array prefix
	_, f := parseFile("internal/codegen/golang/go_type.go")
	arr := ""
	if fd := findFunc(f, "goType"); fd != nil {
		ast.Inspect(fd, func(n ast.Node) bool {
			if ifs, ok := n.(*ast.IfStmt); ok && exprString(ifs.Cond) == "col.IsArray" && len(ifs.Body.List) == 1 {
				if r, ok := ifs.Body.List[0].(*ast.ReturnStmt); ok && len(r.Results) == 1 {
					if be, ok := r.Results[0].(*ast.BinaryExpr); ok {
						if l, ok := strLit(be.X); ok && exprString(be.Y) == "typ" {
							arr = l
						}
					}
				}
			}
			return true
		})
	}
	if arr == "" {
		untr("goType: `if col.IsArray { return \"[]\" + typ }` not found")
	}
	b.WriteString("def arrayPrefix : String := " + lstr(arr) + "\n")
	// stdlibTypes map
	_, imp := parseFile("internal/codegen/golang/imports.go")
	var std [][2]string
	if imp != nil {
		for _, d := range imp.Decls {
			gd, ok := d.(*ast.GenDecl)
			if !ok {
				continue
			}
			for _, sp := range gd.Specs {
				vs, ok := sp.(*ast.ValueSpec)
				if !ok || len(vs.Names) != 1 || vs.Names[0].Name != "stdlibTypes" || len(vs.Values) != 1 {
					continue
				}
				cl, ok := vs.Values[0].(*ast.CompositeLit)
				if !ok {
					continue
				}
				for _, el := range cl.Elts {
					kv := el.(*ast.KeyValueExpr)
					k, _ := strLit(kv.Key)
					v, _ := strLit(kv.Value)
					std = append(std, [2]string{k, v})
				}
			}
		}
	}
	if len(std) == 0 {
		untr("imports.go: stdlibTypes not found")
	}
	sort.Slice(std, func(i, j int) bool { return std[i][0] < std[j][0] })
	b.WriteString("def stdlibTypes : List (String × String) := [")
	for i, kv := range std {
		if i > 0 {
			b.WriteString(", ")
		}
		b.WriteString("(" + lstr(kv[0]) + ", " + lstr(kv[1]) + ")")
	}
	b.WriteString("]\n")
	b.WriteString("end Sqlc.Gen\n")
	return b.String()
}

// ---------------------------------------------------------------- C07: reserved words
func extractKeywordSwitch(rel string) ([]string, bool) {
	_, f := parseFile(rel)
	fd := findFunc(f, "IsReservedKeyword")
	if fd == nil {
		untr("%s: IsReservedKeyword not found", rel)
		return nil, false
	}
	var words []string
	lower := false
	ok := false
	for _, st := range fd.Body.List {
		sw, isSw := st.(*ast.SwitchStmt)
		if !isSw {
			continue
		}
		if exprString(sw.Tag) == "strings.ToLower(s)" {
			lower = true
		}
		ok = true
		for _, cs := range sw.Body.List {
			cc := cs.(*ast.CaseClause)
			if cc.List == nil {
				// default: return false
				if len(cc.Body) != 1 {
					untr("%s: default arm shape", rel)
				}
				continue
			}
			if len(cc.Body) != 0 {
				untr("%s: non-empty case body", rel)
			}
			for _, e := range cc.List {
				if l, isLit := strLit(e); isLit {
					words = append(words, l)
				} else {
					untr("%s: non-literal keyword", rel)
				}
			}
		}
	}
	if !ok {
		untr("%s: switch not found", rel)
	}
	return words, lower
}

func extractReserved() string {
	var b strings.Builder
	b.WriteString(genHeader + "namespace Sqlc.Gen\n")
	for _, e := range []struct{ name, rel string }{
		{"pgReserved", "internal/engine/postgresql/reserved.go"},
		{"mysqlReserved", "internal/engine/dolphin/reserved.go"},
		{"sqliteReserved", "internal/engine/sqlite/reserved.go"},
	} {
		w, lower := extractKeywordSwitch(e.rel)
		b.WriteString("def " + e.name + " : List String := [\n")
		for i := 0; i < len(w); i += 8 {
			j := i + 8
			if j > len(w) {
				j = len(w)
			}
			q := make([]string, 0, 8)
			for _, x := range w[i:j] {
				q = append(q, lstr(x))
			}
			b.WriteString("  " + strings.Join(q, ", "))
			if j < len(w) {
				b.WriteString(",")
			}
			b.WriteString("\n")
		}
		b.WriteString("]\n")
		b.WriteString("def " + e.name + "Lowercases : Bool := " + lbool(lower) + "\n")
	}
	b.WriteString("end Sqlc.Gen\n")
	return b.String()
}

// ---------------------------------------------------------------- C11: metadata constants
func extractMeta() string {
	_, f := parseFile("internal/metadata/meta.go")
	consts := map[string]string{}
	if f != nil {
		for _, d := range f.Decls {
			gd, ok := d.(*ast.GenDecl)
			if !ok || gd.Tok != token.CONST {
				continue
			}
			for _, sp := range gd.Specs {
				vs := sp.(*ast.ValueSpec)
				for i, n := range vs.Names {
					if i < len(vs.Values) {
						if l, ok := strLit(vs.Values[i]); ok {
							consts[n.Name] = l
						}
					}
				}
			}
		}
	}
	var names []string
	for k := range consts {
		names = append(names, k)
	}
	sort.Strings(names)
	var cmds []string
	for _, n := range names {
		if strings.HasPrefix(n, "Cmd") {
			cmds = append(cmds, consts[n])
		}
	}
	// the accepted set in Parse: `case CmdOne, CmdMany, ...:`
	var accepted []string
	var prefixes []string
	if fd := findFunc(f, "Parse"); fd != nil {
		ast.Inspect(fd, func(n ast.Node) bool {
			switch x := n.(type) {
			case *ast.CaseClause:
				for _, e := range x.List {
					if id, ok := e.(*ast.Ident); ok {
						if v, ok := consts[id.Name]; ok {
							accepted = append(accepted, v)
						}
					}
				}
			case *ast.AssignStmt:
				if len(x.Lhs) == 1 && exprString(x.Lhs[0]) == "prefix" && len(x.Rhs) == 1 {
					if l, ok := strLit(x.Rhs[0]); ok {
						prefixes = append(prefixes, l)
					}
				}
			}
			return true
		})
	} else {
		untr("metadata.Parse not found")
	}
	sort.Strings(accepted)
	if len(accepted) == 0 || len(prefixes) == 0 {
		untr("metadata.Parse: accepted commands or prefixes not found")
	}
	// per-engine CommentSyntax
	type cs struct{ dash, hash, slash bool }
	engines := []struct{ name, rel string }{
		{"postgresql", "internal/engine/postgresql/parse.go"},
		{"mysql", "internal/engine/dolphin/parse.go"},
		{"sqlite", "internal/engine/sqlite/parse.go"},
	}
	var b strings.Builder
	b.WriteString(genHeader + "namespace Sqlc.Gen\n")
	b.WriteString("def cmdConstants : List String := " + lstrs(cmds) + "\n")
	b.WriteString("def cmdAccepted : List String := " + lstrs(accepted) + "\n")
	b.WriteString("def cmdAcceptedB : List (List UInt8) := " + lbytess(accepted) + "\n")
	b.WriteString("def namePrefixes : List String := " + lstrs(prefixes) + "\n")
	b.WriteString("/-- (engine, dash, hash, slashStar) from each parser's CommentSyntax() -/\n")
	b.WriteString("def commentSyntax : List (String × Bool × Bool × Bool) := [")
	for i, e := range engines {
		_, pf := parseFile(e.rel)
		var c cs
		found := false
		if fd := findFunc(pf, "CommentSyntax"); fd != nil {
			ast.Inspect(fd, func(n ast.Node) bool {
				if cl, ok := n.(*ast.CompositeLit); ok {
					found = true
					for _, el := range cl.Elts {
						if kv, ok := el.(*ast.KeyValueExpr); ok {
							v := exprString(kv.Value) == "true"
							switch exprString(kv.Key) {
							case "Dash":
								c.dash = v
							case "Hash":
								c.hash = v
							case "SlashStar":
								c.slash = v
							}
						}
					}
				}
				return true
			})
		}
		if !found {
			untr("%s: CommentSyntax literal not found", e.rel)
		}
		if i > 0 {
			b.WriteString(", ")
		}
		b.WriteString(fmt.Sprintf("(%s, %s, %s, %s)", lstr(e.name), lbool(c.dash), lbool(c.hash), lbool(c.slash)))
	}
	b.WriteString("]\n")
	// validate.Cmd: commands that need RETURNING
	_, vf := parseFile("internal/sql/validate/cmd.go")
	var needRet []string
	if fd := findFunc(vf, "Cmd"); fd != nil && len(fd.Body.List) > 0 {
		if ifs, ok := fd.Body.List[0].(*ast.IfStmt); ok {
			ast.Inspect(ifs.Cond, func(n ast.Node) bool {
				if be, ok := n.(*ast.BinaryExpr); ok && be.Op == token.EQL {
					if l, ok := strLit(be.Y); ok {
						needRet = append(needRet, l)
					}
				}
				return true
			})
		}
	}
	sort.Strings(needRet)
	if len(needRet) == 0 {
		untr("validate.Cmd: guard not recognised")
	}
	b.WriteString("def cmdNeedsReturning : List String := " + lstrs(needRet) + "\n")
	b.WriteString("end Sqlc.Gen\n")
	return b.String()
}

// ---------------------------------------------------------------- operators (sql/lang)
func extractOperators() string {
	_, f := parseFile("internal/sql/lang/operator.go")
	get := func(fn string) []string {
		var out []string
		fd := findFunc(f, fn)
		if fd == nil {
			untr("lang.%s not found", fn)
			return nil
		}
		ast.Inspect(fd, func(n ast.Node) bool {
			if cc, ok := n.(*ast.CaseClause); ok {
				for _, e := range cc.List {
					if l, ok := strLit(e); ok {
						out = append(out, l)
					}
				}
			}
			return true
		})
		return out
	}
	var b strings.Builder
	b.WriteString(genHeader + "namespace Sqlc.Gen\n")
	b.WriteString("def comparisonOperators : List String := " + lstrs(get("IsComparisonOperator")) + "\n")
	b.WriteString("def mathematicalOperators : List String := " + lstrs(get("IsMathematicalOperator")) + "\n")
	b.WriteString("end Sqlc.Gen\n")
	return b.String()
}
