package main

import (
	"fmt"
	"os"
	"os/exec"
	"strings"
)

func init() { props["C13"] = runC13 }

// `vh genhash <dir>`: generate in a fresh process and print the file hashes (used to compare runs
// across processes: each process gets fresh map seeds)
func genHashMain(dir string) {
	res := generateDir(dir)
	fmt.Fprintf(protoFile, "%v\n", res.OK())
	for _, kv := range fileHashes(res.Files) {
		fmt.Fprintf(protoFile, "%s %s\n", kv[0], kv[1])
	}
}

func freshProcessHashes(files map[string]string) string {
	dir := writeTree(files)
	defer os.RemoveAll(dir)
	self, _ := os.Executable()
	out, err := exec.Command(self, "genhash", dir).Output()
	if err != nil {
		return "error: " + err.Error()
	}
	return string(out)
}

func hashesString(res GenResult) string {
	s := fmt.Sprintf("%v\n", res.OK())
	for _, kv := range fileHashes(res.Files) {
		s += kv[0] + " " + kv[1] + "\n"
	}
	return s
}

func permuted(r *Rng, xs []string) []string {
	p := r.Perm(len(xs))
	out := make([]string, len(xs))
	for i, j := range p {
		out[i] = xs[j]
	}
	return out
}

func runC13(r *Rng, n int, tier string) {
	// every corpus statement before and after a fixed set of plain readers of every table: compiling one query
	// must not change what another query generates
	corpusProject(NewRng(1)) // fills corpusOK
	for _, eng := range []string{"postgresql", "mysql"} {
		list, schema := l2CorpusPG, corpusPG
		tables := []string{"authors", "books", "venues", "nodes"}
		ph := "$1"
		if eng == "mysql" {
			list, schema = l2CorpusMy, corpusMy
			tables = []string{"authors", "books", "venues"}
			ph = "?"
		}
		var readers strings.Builder
		for ti, t := range tables {
			fmt.Fprintf(&readers, "-- name: ReadAll%d :many\nSELECT * FROM %s;\n\n-- name: ReadOne%d :one\nSELECT * FROM %s WHERE id = %s;\n\n-- name: ReadID%d :many\nSELECT id FROM %s;\n\n", ti, t, ti, t, ph, ti, t)
		}
		for _, idx := range corpusOK[eng] {
			st := list[idx]
			x := fmt.Sprintf("-- name: K%d %s\n%s;\n\n", idx, st.cmd, st.sql)
			first := map[string]string{"schema.sql": schema, "query.sql": x + readers.String(), "sqlc.json": confV1(eng, "")}
			last := map[string]string{"schema.sql": schema, "query.sql": readers.String() + x, "sqlc.json": confV1(eng, "")}
			a, b := generate(first), generate(last)
			oracle := ""
			var detail J
			if a.OK() != b.OK() || hashesString(a) != hashesString(b) {
				oracle = fmt.Sprintf("compiling `%s` before the other queries of the package changes what they generate", st.sql)
				if a.OK() && b.OK() {
					oracle += ": " + diffFiles(b.Files, a.Files)
				}
				detail = J{"first": first, "last": last}
			}
			emit(Case{ID: fmt.Sprintf("pair-%s-%d", eng, idx), Kind: "determinism", In: J{"files": first}, Impl: J{"ok": a.OK()}, Oracle: oracle, Detail: detail, Tags: []string{"order-pair", eng}})
		}
	}
	for i := 0; i < n; i++ {
		engine := "postgresql"
		if r.Chance(25) {
			engine = "mysql"
		}
		p := genProject(r, engine)
		if i%3 == 2 {
			// the fixed statement corpus as a project: every shape class takes part in the order-independence
			// checks (a query that writes to shared catalog state shows up as order dependence)
			p = corpusProject(r)
			engine = p.Engine
		}
		if r.Chance(40) {
			// overrides that need imports, and tags: more map-ordered code paths
			p.Overrides = append(p.Overrides, `{"db_type":"text","go_type":"github.com/example/custom.Text"}`, `{"db_type":"pg_catalog.int8","go_type":"github.com/other/big.Int","nullable":true}`)
			p.Opts["emit_json_tags"] = true
			p.Opts["emit_db_tags"] = true
			if p.RawSchema == "" && engine == "postgresql" && r.Bool() {
				// several overrides that all match one column (by column under two spellings, by type): which
				// one applies is decided by their order in the configuration, on every run
				t0 := p.Tables[0].Name
				p.Overrides = append(p.Overrides,
					fmt.Sprintf(`{"column":"%s.id","go_type":"github.com/example/custom.ByName"}`, t0),
					fmt.Sprintf(`{"column":"public.%s.id","go_type":"github.com/example/custom.ByQualifiedName"}`, t0),
					`{"db_type":"pg_catalog.int8","go_type":"github.com/other/big.Wide"}`)
			}
		}
		twin := false
		if p.RawSchema == "" && (i%4 == 1 || r.Chance(20)) {
			// a table and its twin (same columns, another name — an archive table): projections that mix the two
			// have exactly the shape of the first table's model without being its row, next to queries that are
			t0 := p.Tables[0]
			tw := PTable{Name: t0.Name + "_archive", Cols: append([]PCol{}, t0.Cols...)}
			p.Tables = append(p.Tables, tw)
			var mixed, plain, fromTwin []string
			for k, c := range t0.Cols {
				plain = append(plain, c.Name)
				fromTwin = append(fromTwin, "b."+c.Name)
				if k%2 == 1 {
					mixed = append(mixed, "b."+c.Name)
				} else {
					mixed = append(mixed, "a."+c.Name)
				}
			}
			p.Queries = append(p.Queries,
				PQuery{Name: "TwinMixed", Cmd: ":many", SQL: fmt.Sprintf("SELECT %s FROM %s a JOIN %s b ON a.id = b.id", strings.Join(mixed, ", "), t0.Name, tw.Name)},
				PQuery{Name: "TwinPlain", Cmd: ":many", SQL: fmt.Sprintf("SELECT %s FROM %s", strings.Join(plain, ", "), t0.Name)},
				PQuery{Name: "TwinOther", Cmd: ":many", SQL: fmt.Sprintf("SELECT %s FROM %s a JOIN %s b ON a.id = b.id", strings.Join(fromTwin, ", "), t0.Name, tw.Name)},
				PQuery{Name: "TwinStar", Cmd: ":many", SQL: fmt.Sprintf("SELECT * FROM %s", tw.Name)})
			twin = true
		}
		if p.RawSchema == "" && i%3 == 1 {
			// an override whose import path is a standard-library package that a built-in type mapping imports too
			p.Tables = append(p.Tables, PTable{Name: "jobs", Cols: []PCol{{Name: "id", Type: "bigint", NotNull: true}, {Name: "timeout", Type: "bigint", NotNull: true},
				{Name: "started_at", Type: map[string]string{"postgresql": "timestamptz", "mysql": "datetime"}[engine], NotNull: true}, {Name: "payload", Type: map[string]string{"postgresql": "jsonb", "mysql": "json"}[engine], NotNull: true}}})
			p.Overrides = append(p.Overrides, `{"column":"jobs.timeout","go_type":{"import":"time","type":"Duration"}}`, `{"column":"jobs.id","go_type":{"import":"encoding/json","type":"Number"}}`)
			p.Queries = append(p.Queries, PQuery{Name: "JobTimes", Cmd: ":many", SQL: "SELECT id, timeout, started_at, payload FROM jobs"},
				PQuery{Name: "JobTimeout", Cmd: ":one", SQL: "SELECT timeout FROM jobs WHERE started_at = " + p.ph(1)})
		}
		collide := false
		var known []string
		if p.RawSchema == "" && engine == "postgresql" && r.Chance(35) {
			// independent declarations whose generated identifiers coincide: whatever the generator does about
			// the clash, it must not depend on which declaration comes first
			collide = true
			switch r.Intn(4) {
			case 0:
				p.Enums = append(p.Enums, PEnum{"foo", []string{"bar_baz", "qux"}}, PEnum{"foo_bar", []string{"baz"}})
			case 1:
				p.Enums = append(p.Enums, PEnum{"level", []string{"a-b", "c"}}, PEnum{"level_a", []string{"b"}}, PEnum{"le", []string{"vel_c"}})
			case 2:
				known = []string{"dupStructOrder"}
				p.Tables = append(p.Tables, PTable{Name: "item", Cols: []PCol{{Name: "id", Type: "bigint", NotNull: true}}},
					PTable{Name: "items", Cols: []PCol{{Name: "id", Type: "bigint", NotNull: true}, {Name: "label", Type: "text"}}})
			default:
				p.Enums = append(p.Enums, PEnum{"shape", []string{"round"}})
				p.Tables = append(p.Tables, PTable{Name: "shapes", Cols: []PCol{{Name: "id", Type: "bigint", NotNull: true}, {Name: "kind", Type: "shape"}}},
					PTable{Name: "shape_round", Cols: []PCol{{Name: "id", Type: "bigint", NotNull: true}}})
			}
		}
		base := p.Files()
		ref := generate(base)
		tags := []string{engine}
		if collide {
			tags = append(tags, "colliding-identifiers")
		}
		if twin {
			tags = append(tags, "twin-table")
		}
		oracle := ""
		var detail J
		fail := func(msg string, files map[string]string, got GenResult) {
			if oracle == "" {
				oracle = msg
				if ref.OK() && got.OK() {
					msg += ": " + diffFiles(ref.Files, got.Files)
					oracle = msg
				}
				detail = J{"files": files, "got_err": firstLine(got.Stderr + got.Panic), "ref_err": firstLine(ref.Stderr + ref.Panic)}
			}
		}
		same := func(got GenResult) bool {
			return got.OK() == ref.OK() && hashesString(got) == hashesString(ref) && (ref.OK() || firstLine(got.Stderr) == firstLine(ref.Stderr))
		}
		// (a) repeated runs, same process (Go re-randomises every map range) and a fresh process
		reps := 4
		if tier == "thorough" {
			reps = 12
		}
		for k := 0; k < reps; k++ {
			if got := generate(base); !same(got) {
				fail(fmt.Sprintf("run %d of the same input differs from the first run", k+2), base, got)
			}
		}
		if i%5 == 0 {
			if h := freshProcessHashes(base); h != hashesString(ref) {
				if oracle == "" {
					oracle = "a fresh process produces different output for the same input: " + firstLine(h)
					detail = J{"files": base}
				}
			}
			tags = append(tags, "fresh-process")
		}
		if ref.OK() {
			// (b) permute the queries inside the file
			for k := 0; k < 3 && len(p.Queries) > 1; k++ {
				perm := r.Perm(len(p.Queries))
				var qs []PQuery
				for _, j := range perm {
					qs = append(qs, p.Queries[j])
				}
				files := p.Files()
				files["query.sql"] = p.QueryFile(qs)
				if got := generate(files); !same(got) {
					fail(fmt.Sprintf("reordering the queries inside the file (%v) changes the output", perm), files, got)
				}
				tags = append(tags, "query-perm")
			}
			// (c) permute independent declarations: enums among themselves, tables among themselves
			enums, tables := p.SchemaDecls()
			for k := 0; k < 3 && len(tables)+len(enums) > 1; k++ {
				files := p.Files()
				files["schema.sql"] = strings.Join(append(append(permuted(r, enums), permuted(r, tables)...), p.DependentDecls()...), "\n") + "\n"
				if got := generate(files); !same(got) {
					fail("reordering independent table / enum declarations changes the output", files, got)
				}
				tags = append(tags, "decl-perm")
			}
			// (d) move one query to another query file: only those two files' code may change
			if len(p.Queries) > 1 {
				mv := r.Intn(len(p.Queries))
				var a, b []PQuery
				for j, q := range p.Queries {
					if j == mv {
						b = append(b, q)
					} else {
						a = append(a, q)
					}
				}
				files := map[string]string{"schema.sql": p.Schema(), "q/query.sql": p.QueryFile(a), "q/zmoved.sql": p.QueryFile(b), "sqlc.json": p.ConfigV1(`"schema.sql"`, `"q"`)}
				got := generate(files)
				if !got.OK() {
					fail("moving a query to a second query file makes generation fail", files, got)
				} else {
					for _, f := range []string{"db/models.go", "db/db.go", "db/querier.go"} {
						if got.Files[f] != ref.Files[f] {
							fail("moving a query to another file changes "+f, files, got)
						}
					}
					// the union of method bodies is unchanged
					refM, gotM := methodTexts(ref.Files), methodTexts(got.Files)
					if refM != gotM && oracle == "" {
						oracle = "moving a query to another file changes the generated methods / constants themselves"
						detail = J{"files": files}
					}
				}
				tags = append(tags, "file-move")
			}
			// (e) the same project with one more setting (a rename entry), in THIS process — which has generated
			// the project without it — and in a fresh one: what an earlier run did must not show
			if p.RawSchema == "" && i%3 == 0 {
				pr := p
				pr.Rename = map[string]string{}
				for k, v := range p.Rename {
					pr.Rename[k] = v
				}
				t0 := p.Tables[0]
				pr.Rename[t0.Cols[len(t0.Cols)-1].Name] = "RenamedLast"
				pr.Rename[strings.TrimSuffix(t0.Name, "s")] = "RenamedModel"
				files := pr.Files()
				here := generate(files)
				if here.OK() {
					if h := freshProcessHashes(files); h != hashesString(here) && oracle == "" {
						oracle = "with a rename entry added, this process (which generated the project without it before) and a fresh process produce different output"
						detail = J{"files": files}
					}
					again := generate(p.Files())
					if !same(again) {
						fail("generating the project again after a variant of it with a rename entry differs from the first run", p.Files(), again)
					}
				}
				tags = append(tags, "settings-variant")
			}
		} else {
			tags = append(tags, "failing-input")
		}
		emit(Case{ID: fmt.Sprintf("det-%d", i), Kind: "determinism", In: J{"files": base}, Impl: J{"ok": ref.OK()}, Oracle: oracle, Detail: detail, Tags: tags, Known: known})
	}
}

// methodTexts: everything of the query files except the header/import block, sorted by declaration
func methodTexts(files map[string]string) string {
	var decls []string
	for _, k := range sortedKeys(files) {
		if !strings.HasSuffix(k, ".sql.go") {
			continue
		}
		src := files[k]
		if i := strings.Index(src, "\nconst "); i >= 0 {
			src = src[i:]
		} else if i := strings.Index(src, "\nfunc "); i >= 0 {
			src = src[i:]
		}
		for _, d := range strings.Split(src, "\n\n") {
			if strings.TrimSpace(d) != "" {
				decls = append(decls, strings.TrimSpace(d))
			}
		}
	}
	sortStrings(decls)
	return strings.Join(decls, "\n\n")
}

var corpusOK map[string][]int

// corpusProject: 3–8 corpus statements (those sqlc accepts) over the corpus schema
func corpusProject(r *Rng) Project {
	if corpusOK == nil {
		corpusOK = map[string][]int{}
		for eng, list := range map[string][]corpusStmt{"postgresql": l2CorpusPG, "mysql": l2CorpusMy} {
			schema := corpusPG
			if eng == "mysql" {
				schema = corpusMy
			}
			for i, st := range list {
				q := fmt.Sprintf("-- name: K%d %s\n%s;\n", i, st.cmd, st.sql)
				if res := generate(map[string]string{"schema.sql": schema, "query.sql": q, "sqlc.json": confV1(eng, "")}); res.OK() {
					corpusOK[eng] = append(corpusOK[eng], i)
				}
			}
		}
	}
	eng := "postgresql"
	list, schema := l2CorpusPG, corpusPG
	if r.Chance(20) {
		eng, list, schema = "mysql", l2CorpusMy, corpusMy
	}
	p := Project{Engine: eng, RawSchema: schema, Opts: map[string]bool{}, Rename: map[string]string{}}
	ok := corpusOK[eng]
	perm := r.Perm(len(ok))
	k := 3 + r.Intn(6)
	if k > len(ok) {
		k = len(ok)
	}
	for _, j := range perm[:k] {
		st := list[ok[j]]
		p.Queries = append(p.Queries, PQuery{Name: fmt.Sprintf("K%d", ok[j]), Cmd: st.cmd, SQL: st.sql})
	}
	for _, o := range []string{"emit_json_tags", "emit_prepared_queries", "emit_interface"} {
		p.Opts[o] = r.Chance(30)
	}
	return p
}
