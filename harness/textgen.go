package main

import "strings"

// shared text generators for the L0 streams (C04, C11, C17)

var sqlLines = []string{
	"SELECT id, name FROM authors", "WHERE id = $1", "  AND name = 'x -- not a comment'", "-- a comment", "   -- indented comment",
	"/* block */", "/* multi", "line */", "ORDER BY name;", "", "   ", "SELECT 'é', \"ü\" FROM t;", "-- héllo wörld — dash", "INSERT INTO t (a) VALUES ($1);",
	"-", "--", "a-", "x = y - -1", "SELECT '$1', '*', '@x';", "\tUPDATE t SET a = @a WHERE b = sqlc.arg(b);", "-- name: Foo :one", "/* name: Bar :many */",
	"# name: Baz :exec", "日本語のコメント", "SELECT * FROM t -- trailing", " nbsp", " ",
}

func genSQLText(r *Rng) string {
	n := r.Intn(8)
	var ls []string
	for i := 0; i < n; i++ {
		ls = append(ls, r.Pick(sqlLines))
	}
	s := strings.Join(ls, "\n")
	if r.Chance(40) {
		s += "\n"
	}
	if r.Chance(10) {
		s += "-"
	}
	if r.Chance(5) {
		s = s + string([]byte{0xff, 0xc3})
	}
	return s
}
