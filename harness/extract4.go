package main

import (
	"fmt"
	"go/ast"
	"go/parser"
	"go/token"
	"io/ioutil"
	"path/filepath"
	"sort"
	"strings"
)

// ---------------------------------------------------------------- C19 / C13 / C18: site extraction over whole packages
var sitePackages = []string{
	"internal/cmd", "internal/compiler", "internal/codegen", "internal/codegen/golang", "internal/codegen/kotlin", "internal/codegen/python",
	"internal/config", "internal/sql/rewrite", "internal/sql/sqlpath", "internal/sql/catalog", "internal/sql/validate", "internal/sql/named",
	"internal/sql/astutils", "internal/source", "internal/migrations", "internal/multierr", "internal/metadata", "internal/opts", "internal/debug",
	"internal/inflection", "internal/core", "internal/sql/sqlerr", "internal/sql/lang",
	"internal/engine/postgresql", "internal/engine/dolphin", "internal/engine/sqlite",
}

type pkgFiles struct {
	dir   string
	fset  *token.FileSet
	files map[string]*ast.File
}

func loadPkg(dir string) *pkgFiles {
	fset := token.NewFileSet()
	p := &pkgFiles{dir: dir, fset: fset, files: map[string]*ast.File{}}
	ents, err := ioutil.ReadDir(filepath.Join(repoRoot, dir))
	if err != nil {
		untr("cannot list %s", dir)
		return p
	}
	for _, e := range ents {
		n := e.Name()
		if e.IsDir() || !strings.HasSuffix(n, ".go") || strings.HasSuffix(n, "_test.go") || strings.HasSuffix(n, "_verif.go") {
			continue
		}
		f, err := parser.ParseFile(fset, filepath.Join(repoRoot, dir, n), nil, 0)
		if err != nil {
			untr("parse %s/%s: %v", dir, n, err)
			continue
		}
		p.files[n] = f
	}
	return p
}

func parserParse(fset *token.FileSet, path string) (*ast.File, error) {
	return parser.ParseFile(fset, path, nil, 0)
}

func sortedFileNames(p *pkgFiles) []string {
	var ns []string
	for n := range p.files {
		ns = append(ns, n)
	}
	sort.Strings(ns)
	return ns
}

// package-level variables and the statements that write them outside of their declaration / init()
func globalWrites() (vars []string, writes []string) {
	for _, dir := range sitePackages {
		p := loadPkg(dir)
		pkgVars := map[string]bool{}
		for _, n := range sortedFileNames(p) {
			for _, d := range p.files[n].Decls {
				if gd, ok := d.(*ast.GenDecl); ok && gd.Tok == token.VAR {
					for _, sp := range gd.Specs {
						for _, nm := range sp.(*ast.ValueSpec).Names {
							if nm.Name != "_" {
								pkgVars[nm.Name] = true
								vars = append(vars, dir+"."+nm.Name)
							}
						}
					}
				}
			}
		}
		if len(pkgVars) == 0 {
			continue
		}
		for _, n := range sortedFileNames(p) {
			f := p.files[n]
			var decls []ast.Decl
			for _, d := range f.Decls {
				decls = append(decls, d)
				// function literals in package-level initialisers (cobra commands, …) are code too
				if gd, ok := d.(*ast.GenDecl); ok && gd.Tok == token.VAR {
					ast.Inspect(gd, func(nd ast.Node) bool {
						if fl, ok := nd.(*ast.FuncLit); ok {
							decls = append(decls, &ast.FuncDecl{Name: ast.NewIdent("<func literal in var initialiser>"), Type: fl.Type, Body: fl.Body})
							return false
						}
						return true
					})
				}
			}
			for _, d := range decls {
				fd, ok := d.(*ast.FuncDecl)
				if !ok || fd.Body == nil {
					continue
				}
				if fd.Name.Name == "init" && fd.Recv == nil {
					continue
				}
				// local declarations shadow package variables
				locals := map[string]bool{}
				if fd.Type.Params != nil {
					for _, fl := range fd.Type.Params.List {
						for _, nm := range fl.Names {
							locals[nm.Name] = true
						}
					}
				}
				if fd.Recv != nil {
					for _, fl := range fd.Recv.List {
						for _, nm := range fl.Names {
							locals[nm.Name] = true
						}
					}
				}
				ast.Inspect(fd.Body, func(nd ast.Node) bool {
					switch x := nd.(type) {
					case *ast.AssignStmt:
						if x.Tok == token.DEFINE {
							for _, l := range x.Lhs {
								if id, ok := l.(*ast.Ident); ok {
									locals[id.Name] = true
								}
							}
						}
					case *ast.ValueSpec:
						for _, nm := range x.Names {
							locals[nm.Name] = true
						}
					case *ast.RangeStmt:
						if x.Tok == token.DEFINE {
							if id, ok := x.Key.(*ast.Ident); ok {
								locals[id.Name] = true
							}
							if id, ok := x.Value.(*ast.Ident); ok {
								locals[id.Name] = true
							}
						}
					}
					return true
				})
				root := func(e ast.Expr) string {
					for {
						switch x := e.(type) {
						case *ast.Ident:
							return x.Name
						case *ast.IndexExpr:
							e = x.X
						case *ast.SelectorExpr:
							e = x.X
						case *ast.StarExpr:
							e = x.X
						case *ast.ParenExpr:
							e = x.X
						default:
							return ""
						}
					}
				}
				note := func(e ast.Expr, how string) {
					r := root(e)
					if r != "" && pkgVars[r] && !locals[r] {
						writes = append(writes, fmt.Sprintf("%s/%s: %s writes %s (%s)", dir, n, fd.Name.Name, r, how))
					}
				}
				ast.Inspect(fd.Body, func(nd ast.Node) bool {
					switch x := nd.(type) {
					case *ast.AssignStmt:
						if x.Tok != token.DEFINE {
							for _, l := range x.Lhs {
								note(l, "assignment")
							}
						}
					case *ast.IncDecStmt:
						note(x.X, "inc/dec")
					case *ast.UnaryExpr:
						if x.Op == token.AND {
							note(x.X, "address taken")
						}
					case *ast.CallExpr:
						// x.Do(...), x.Lock(), x.Store(...) on a package-level variable
						if sel, ok := x.Fun.(*ast.SelectorExpr); ok {
							switch sel.Sel.Name {
							case "Do", "Lock", "Unlock", "Store", "Add", "Swap", "CompareAndSwap", "Set":
								note(sel.X, "method "+sel.Sel.Name)
							}
						}
					}
					return true
				})
			}
		}
	}
	sort.Strings(vars)
	sort.Strings(writes)
	return
}

func extractSites() string {
	vars, writes := globalWrites()
	var b strings.Builder
	b.WriteString(genHeader + "namespace Sqlc.Gen\n")
	b.WriteString(fmt.Sprintf("/-- package-level variables of the packages reachable from cmd.Generate: %d -/\n", len(vars)))
	b.WriteString("def packageVars : List String := " + lstrs(vars) + "\n")
	b.WriteString("/-- statements outside init()/declarations that write (or take the address of, or lock) one of them -/\n")
	b.WriteString("def globalWrites : List String := " + lstrs(writes) + "\n")
	b.WriteString("end Sqlc.Gen\n")
	return b.String()
}
