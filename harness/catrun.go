package main

import (
	"errors"
	"fmt"
	"strings"

	"github.com/kyleconroy/sqlc/internal/engine/dolphin"
	"github.com/kyleconroy/sqlc/internal/engine/postgresql"
	"github.com/kyleconroy/sqlc/internal/sql/ast"
	"github.com/kyleconroy/sqlc/internal/sql/catalog"
	"github.com/kyleconroy/sqlc/internal/sql/sqlerr"
)

// canonical dump of the real catalog (everything except pg_catalog), in catalog order
type DCol struct {
	Name    string `json:"name"`
	TSchema string `json:"tschema"`
	TName   string `json:"tname"`
	NotNull bool   `json:"notnull"`
	Array   bool   `json:"array"`
	Comment string `json:"comment"`
}
type DTable struct {
	Name    string `json:"name"`
	RelSchema string `json:"relschema"`
	Cols    []DCol `json:"cols"`
	Comment string `json:"comment"`
}
type DType struct {
	Kind    string   `json:"kind"` // enum | composite
	Name    string   `json:"name"`
	Vals    []string `json:"vals"`
	Comment string   `json:"comment"`
}
type DSchema struct {
	Name    string   `json:"name"`
	Tables  []DTable `json:"tables"`
	Types   []DType  `json:"types"`
	Comment string   `json:"comment"`
}

func dumpCatalog(c *catalog.Catalog) []DSchema {
	out := []DSchema{}
	for _, s := range c.Schemas {
		if s.Name == "pg_catalog" {
			continue
		}
		ds := DSchema{Name: s.Name, Comment: s.Comment, Tables: []DTable{}, Types: []DType{}}
		for _, t := range s.Tables {
			dt := DTable{Name: t.Rel.Name, RelSchema: t.Rel.Schema, Comment: t.Comment, Cols: []DCol{}}
			for _, col := range t.Columns {
				dt.Cols = append(dt.Cols, DCol{col.Name, col.Type.Schema, col.Type.Name, col.IsNotNull, col.IsArray, col.Comment})
			}
			ds.Tables = append(ds.Tables, dt)
		}
		for _, ty := range s.Types {
			switch t := ty.(type) {
			case *catalog.Enum:
				v := append([]string{}, t.Vals...)
				ds.Types = append(ds.Types, DType{"enum", t.Name, v, t.Comment})
			case *catalog.CompositeType:
				ds.Types = append(ds.Types, DType{"composite", t.Name, []string{}, t.Comment})
			}
		}
		out = append(out, ds)
	}
	return out
}

func errKind(err error) string {
	if err == nil {
		return ""
	}
	var e *sqlerr.Error
	if errors.As(err, &e) {
		k := "other"
		if errors.Is(err, sqlerr.Exists) {
			k = "exists"
		} else if errors.Is(err, sqlerr.NotFound) {
			k = "notfound"
		}
		return k + ":" + e.Code
	}
	return "other:"
}

type catStep struct {
	Err  string    `json:"err"` // "" ok
	Msg  string    `json:"-"`
	Dump []DSchema `json:"dump,omitempty"`
}

// pgParse parses a script with the real PostgreSQL front end
func pgParse(sql string) ([]ast.Statement, error) {
	return postgresql.NewParser().Parse(strings.NewReader(sql))
}

// runHistory applies the statements of `sql` one by one to a fresh PostgreSQL catalog, stopping at
// the first error; one step record per statement applied.
func runHistory(sql string, dumpEvery bool) (steps []catStep, parseErr string, panicked string) {
	defer func() {
		if p := recover(); p != nil {
			panicked = fmt.Sprint(p)
		}
	}()
	stmts, err := pgParse(sql)
	if err != nil {
		return nil, err.Error(), ""
	}
	c := postgresql.NewCatalog()
	for i, st := range stmts {
		err := c.Update(st)
		if err != nil {
			steps = append(steps, catStep{Err: errKind(err), Msg: err.Error()})
			return
		}
		s := catStep{}
		if dumpEvery || i == len(stmts)-1 {
			s.Dump = dumpCatalog(c)
		}
		steps = append(steps, s)
	}
	return
}

// typeInfo: what the real parser turns a written column type into (schema, name, isArray) — parser
// glue that enters the model as data.
var typeInfoCache = map[string][3]string{}

func typeInfo(written string) [3]string {
	if v, ok := typeInfoCache[written]; ok {
		return v
	}
	stmts, err := pgParse("CREATE TABLE zz (c " + written + ");")
	res := [3]string{"?", "?", "false"}
	if err == nil && len(stmts) == 1 {
		if ct, ok := stmts[0].Raw.Stmt.(*ast.CreateTableStmt); ok && len(ct.Cols) == 1 {
			res = [3]string{ct.Cols[0].TypeName.Schema, ct.Cols[0].TypeName.Name, fmt.Sprint(ct.Cols[0].IsArray)}
		}
	}
	typeInfoCache[written] = res
	return res
}

func parseEngine(engine, sql string) (int, error) {
	if engine == "mysql" {
		st, err := dolphin.NewParser().Parse(strings.NewReader(sql))
		return len(st), err
	}
	st, err := pgParse(sql)
	return len(st), err
}
