package main

import (
	"fmt"
	"strings"

	"github.com/kyleconroy/sqlc/internal/source"
)

func init() { props["C04"] = runC04 }

func mutateCase(id, raw string, edits []source.Edit, tags []string) Case {
	var ej []J
	for _, e := range edits {
		ej = append(ej, J{"loc": e.Location, "old": hx(e.Old), "new": hx(e.New)})
	}
	if ej == nil {
		ej = []J{}
	}
	cp := append([]source.Edit{}, edits...)
	impl := J{}
	func() {
		defer func() {
			if p := recover(); p != nil {
				impl["err"] = "panic"
			}
		}()
		out, err := source.Mutate(raw, cp)
		if err != nil {
			if strings.Contains(err.Error(), "out of bounds") {
				impl["err"] = "outOfBounds"
			} else {
				impl["err"] = "emptyEdit"
			}
		} else {
			impl["out"] = hx(out)
		}
	}()
	return Case{ID: id, Kind: "mutate", In: J{"raw": hx(raw), "edits": ej}, Impl: impl, Tags: tags}
}

func stripCase(id, sql string) Case {
	out, comments, _ := source.StripComments(sql)
	cs := []string{}
	for _, c := range comments {
		cs = append(cs, hx(c))
	}
	return Case{ID: id, Kind: "strip", In: J{"sql": hx(sql)}, Impl: J{"sql": hx(out), "comments": cs}}
}

// ---- end-to-end statements with documented rewrites
type c04stmt struct {
	name     string
	cmd      string
	text     string   // statement text as written (without the annotation line and without ';')
	docs     []string // full-line `--` comments that must become the doc comment
	known    string
	tags     []string
}

var c04Schema = "CREATE TABLE authors (id bigint NOT NULL, name text NOT NULL, bio text);\nCREATE TABLE books (id bigint NOT NULL, author_id bigint NOT NULL, title text NOT NULL, \"order\" int);\n"

func genC04Stmt(r *Rng, idx int, mysql bool) c04stmt {
	st := c04stmt{name: fmt.Sprintf("Q%d", idx)}
	named := r.Chance(45)
	style := r.Intn(3) // one named-parameter spelling per statement (sqlc rejects mixtures)
	castAt := r.Chance(50)
	np := 0
	usedNames := []string{}
	param := func(col string) string {
		if named {
			nm := col
			if r.Chance(30) && len(usedNames) > 0 {
				nm = usedNames[r.Intn(len(usedNames))]
			} else {
				usedNames = append(usedNames, nm)
			}
			st.tags = append(st.tags, "named")
			if mysql {
				return "sqlc.arg(" + nm + ")"
			}
			switch style {
			case 0:
				if castAt {
					ty := "text"
					if nm == "id" || nm == "author_id" {
						ty = "bigint"
					}
					return "@" + nm + "::" + ty
				}
				return "@" + nm
			case 1:
				if r.Chance(15) {
					// the same call, spelled with white space / quotes the database accepts
					st.tags = append(st.tags, "odd-spelling")
					return r.Pick([]string{"sqlc.arg( " + nm + " )", "sqlc.arg(\n  " + nm + "\n)", "sqlc.arg(\"" + nm + "\")", "sqlc.arg (" + nm + ")"})
				}
				return "sqlc.arg(" + nm + ")"
			default:
				if r.Chance(15) {
					st.tags = append(st.tags, "odd-spelling")
					return r.Pick([]string{"sqlc.arg( '" + nm + "' )", "sqlc.arg('" + nm + "' )", "sqlc.arg(\n'" + nm + "')"})
				}
				return "sqlc.arg('" + nm + "')"
			}
		}
		if mysql {
			return "?"
		}
		np++
		return fmt.Sprintf("$%d", np)
	}
	lit := r.Pick([]string{"'x'", "'-- not a comment'", "'$1'", "'*'", "'@x'", "'é—ü'", "'it''s'", "'sqlc.arg(x)'",
		// literals that span lines: the blanks that start their continuation lines belong to the token
		"'Dear customer,\n      thank you'", "'- item\n    - sub-item\n  end'", "'a\n\t\tb'"})
	var lines []string
	comment := func() {
		if r.Chance(30) {
			c := r.Pick([]string{" plain doc", " héllo", " second line", " $1 * @x"})
			lines = append(lines, "--"+c)
			st.docs = append(st.docs, c)
		}
	}
	kindSel := r.Intn(6)
	if !mysql && named && r.Chance(12) {
		kindSel = 6
	}
	if named && r.Chance(25) {
		kindSel = 7
	}
	switch kindSel {
	case 6:
		// KNOWN FINDING paramOrder: numbering follows the AST walk (offset before count, CTE after the body)
		st.cmd = ":many"
		st.tags = append(st.tags, "limit-offset-named")
		if r.Bool() {
			lines = append(lines, "SELECT id FROM authors ORDER BY id")
			lines = append(lines, "LIMIT "+param("lim")+" OFFSET "+param("off"))
		} else {
			lines = append(lines, "WITH c AS (SELECT id FROM authors WHERE name = "+param("name")+")")
			lines = append(lines, "SELECT c.id FROM c JOIN books b ON b.author_id = c.id WHERE b.title = "+param("title"))
		}
	case 7:
		// several names, re-used after other names were allocated in between
		st.cmd = ":many"
		st.tags = append(st.tags, "name-reuse")
		lines = append(lines, "SELECT a.id FROM authors a")
		lines = append(lines, "WHERE a.name = "+param("name")+" AND a.id > "+param("id")+" AND a.bio <> "+param("name"))
		comment()
		lines = append(lines, "  AND a.id < "+param("id")+" AND a.bio = "+param("bio")+" AND a.name <> "+param("name"))
	case 0:
		st.cmd = ":many"
		tg := r.Pick([]string{"*", "a.*", "id, name", "a.*, b.title", "*, " + lit + " AS l", "count(*)", "id, *"})
		from := "authors a"
		if strings.Contains(tg, "b.") || r.Chance(25) {
			from = "authors a JOIN books b ON b.author_id = a.id"
			if tg == "*" || strings.HasPrefix(tg, "id, name") || strings.HasPrefix(tg, "*,") || tg == "id, *" {
				tg = "a.*, b.title"
			}
		}
		if strings.Contains(tg, "*") {
			st.tags = append(st.tags, "star")
		}
		lines = append(lines, "SELECT "+tg)
		comment()
		lines = append(lines, "FROM "+from)
		if r.Chance(30) {
			lines = append(lines, "WHERE a.name = "+param("name")+" AND a.id > "+param("id")+" AND a.bio <> "+param("name"))
			lines = append(lines, "  AND a.id < "+param("id")+" AND a.bio = "+param("bio"))
		} else if r.Chance(70) {
			lines = append(lines, "WHERE a.name = "+param("name")+" /* inline */ AND a.bio <> "+lit)
			if r.Chance(40) {
				lines = append(lines, "  AND a.id > "+param("id")+" -- trailing comment")
				lines = append(lines, "  AND a.id > 0")
			}
		}
	case 1:
		st.cmd = ":one"
		lines = append(lines, "SELECT a.name, "+lit+" AS l FROM authors a")
		comment()
		lines = append(lines, "WHERE a.id = "+param("id")+" AND a.name = "+param("name"))
	case 2:
		st.cmd = ":exec"
		lines = append(lines, "INSERT INTO authors (id, name, bio)")
		comment()
		lines = append(lines, "VALUES ("+param("id")+", "+param("name")+", "+lit+")")
	case 3:
		st.cmd = ":one"
		if mysql {
			st.cmd = ":exec"
			lines = append(lines, "UPDATE authors SET name = "+param("name")+", bio = "+lit)
			lines = append(lines, "WHERE id = "+param("id"))
		} else {
			lines = append(lines, "UPDATE authors SET name = "+param("name")+", bio = "+lit)
			comment()
			lines = append(lines, "WHERE id = "+param("id")+" RETURNING *")
			st.tags = append(st.tags, "star")
		}
	case 4:
		st.cmd = ":exec"
		lines = append(lines, "DELETE FROM books")
		lines = append(lines, "WHERE author_id = "+param("author_id")+" AND title = "+param("title"))
	default:
		st.cmd = ":many"
		if mysql {
			lines = append(lines, "SELECT b.* FROM books b WHERE b.title = "+param("title"))
			st.tags = append(st.tags, "star")
		} else {
			castAt = false
			lines = append(lines, "SELECT "+lit+"::text AS l, b.* FROM books b")
			lines = append(lines, "WHERE b.title = "+param("title")+"::text OR b.\"order\" = 1")
			st.tags = append(st.tags, "star")
		}
	}
	if len(lines) > 1 && r.Chance(15) {
		// a line that starts with a (closed) block comment and goes on with SQL
		k := 1 + r.Intn(len(lines)-1)
		if !strings.HasPrefix(lines[k], "--") {
			lines[k] = r.Pick([]string{"/* note */ ", "/*+ hint */ ", "/**/ "}) + lines[k]
			st.tags = append(st.tags, "line-starts-with-block-comment")
		}
	}
	indent := r.Pick([]string{"", "  ", "\t"})
	for i := range lines {
		if !strings.HasPrefix(lines[i], "--") {
			lines[i] = indent + lines[i]
		}
	}
	st.text = strings.Join(lines, "\n")
	return st
}

func runC04(r *Rng, n int, tier string) {
	// ---- Mutate
	for i := 0; i < n; i++ {
		raw := genSQLText(r)
		if len(raw) < 4 {
			raw = "SELECT * FROM t WHERE a = @a"
		}
		var edits []source.Edit
		tags := []string{}
		if r.Chance(75) {
			// well-formed, non-overlapping edits at random offsets, appended in random order
			k := 1 + r.Intn(4)
			pos := 0
			for j := 0; j < k && pos < len(raw); j++ {
				pos += r.Intn(len(raw)-pos+1) / 2
				if pos >= len(raw) {
					break
				}
				ln := 1 + r.Intn(3)
				if pos+ln > len(raw) {
					ln = len(raw) - pos
				}
				edits = append(edits, source.Edit{Location: pos, Old: raw[pos : pos+ln], New: r.Pick([]string{"$1", "$12", "?", "a, b, c", "x"})})
				pos += ln
			}
			p := r.Perm(len(edits))
			sh := make([]source.Edit, len(edits))
			for a, b := range p {
				sh[a] = edits[b]
			}
			edits = sh
			tags = append(tags, "wellformed")
		} else {
			k := r.Intn(3)
			for j := 0; j <= k; j++ {
				edits = append(edits, source.Edit{Location: r.Intn(len(raw)+6) - 2, Old: r.Pick([]string{"", "x", "ab", "*"}), New: r.Pick([]string{"", "y", "$1"})})
			}
			tags = append(tags, "malformed")
		}
		emit(mutateCase(fmt.Sprintf("mut-%d", i), raw, edits, tags))
	}
	emit(mutateCase("mut-none", "abc", nil, []string{"fixed"}))
	// ---- StripComments
	for i := 0; i < n; i++ {
		s := genSQLText(r)
		if r.Chance(30) {
			s = r.Pick([]string{"\n\n", "  ", "\t\n"}) + s
		}
		emit(stripCase(fmt.Sprintf("strip-%d", i), s))
	}
	// ---- end to end
	ne := n
	for i := 0; i < ne; i++ {
		mysql := r.Chance(25)
		engine := "postgresql"
		schema := c04Schema
		if mysql {
			engine = "mysql"
			schema = "CREATE TABLE authors (id bigint NOT NULL, name text NOT NULL, bio text);\nCREATE TABLE books (id bigint NOT NULL, author_id bigint NOT NULL, title text NOT NULL, `order` int);\n"
		}
		k := 1 + r.Intn(4)
		var sts []c04stmt
		var file strings.Builder
		header := false
		if r.Chance(30) {
			file.WriteString("-- file header é\n\n")
			header = true
		}
		for j := 0; j < k; j++ {
			st := genC04Stmt(r, j+1, mysql)
			if j == 0 && header {
				st.docs = append([]string{" file header é"}, st.docs...)
			}
			sts = append(sts, st)
			pre := ""
			if r.Chance(25) {
				c := " leading doc " + st.name
				pre = "--" + c + "\n"
				if j == 0 && header {
					sts[j].docs = append([]string{sts[j].docs[0], c}, sts[j].docs[1:]...)
				} else {
					sts[j].docs = append([]string{c}, sts[j].docs...)
				}
			}
			file.WriteString(pre + "-- name: " + st.name + " " + st.cmd + "\n" + st.text + ";\n")
			if r.Chance(40) {
				file.WriteString("\n")
			}
		}
		qtext := file.String()
		crlf := i%4 == 3
		if crlf {
			// the same file as written by a Windows editor
			qtext = strings.ReplaceAll(qtext, "\n", "\r\n")
		}
		files := map[string]string{"schema.sql": schema, "query.sql": qtext, "sqlc.json": confV1(engine, "")}
		res := generate(files)
		var stj []J
		impl := J{"ok": res.OK()}
		var tags []string
		if crlf {
			tags = append(tags, "crlf")
		}
		if res.OK() {
			sum := summarize(res.Files)
			for _, st := range sts {
				cn := strings.ToLower(st.name[:1]) + st.name[1:]
				c := sum.Consts[cn]
				emb := c
				if nl := strings.Index(c, "\n"); nl >= 0 {
					emb = c[nl+1:]
				}
				var doc []string
				if m := sum.method(st.name); m != nil {
					for _, d := range m.Doc {
						doc = append(doc, strings.TrimPrefix(d, "//"))
					}
				}
				if doc == nil {
					doc = []string{}
				}
				docs := st.docs
				if docs == nil {
					docs = []string{}
				}
				_, perr := parseEngine(engine, strings.TrimSpace(emb)+";")
				stj = append(stj, J{"name": st.name, "source": hx(st.text), "embedded": hx(emb), "docs": docs, "gotdocs": doc, "reparses": perr == nil})
				tags = append(tags, st.tags...)
			}
		} else {
			impl["err"] = strings.ReplaceAll(strings.TrimSpace(res.Stderr+res.Err+res.Panic), "\n", " // ")
		}
		impl["stmts"] = stj
		var known []string
		for _, st := range sts {
			for _, t := range st.tags {
				if t == "odd-spelling" {
					known = []string{"namedArgSpelling"}
				}
			}
		}
		emit(Case{ID: fmt.Sprintf("e2e-%d", i), Kind: "e2e", In: J{"engine": engine, "files": files}, Impl: impl, Tags: append(tags, engine), Known: known})
	}
	// known finding: literal continuation line that looks like a comment
	{
		q := "-- name: K :one\nSELECT 'first line\n-- second line of the literal' AS l FROM authors WHERE id = $1;\n"
		files := map[string]string{"schema.sql": c04Schema, "query.sql": q, "sqlc.json": confV1("postgresql", "")}
		res := generate(files)
		impl := J{"ok": res.OK()}
		var stj []J
		if res.OK() {
			sum := summarize(res.Files)
			c := sum.Consts["k"]
			emb := c[strings.Index(c, "\n")+1:]
			doc := []string{}
			if m := sum.method("K"); m != nil {
				for _, d := range m.Doc {
					doc = append(doc, strings.TrimPrefix(d, "//"))
				}
			}
			_, perr := parseEngine("postgresql", strings.TrimSpace(emb)+";")
			stj = append(stj, J{"name": "K", "source": hx("SELECT 'first line\n-- second line of the literal' AS l FROM authors WHERE id = $1"), "embedded": hx(emb), "docs": []string{}, "gotdocs": doc, "reparses": perr == nil})
		}
		impl["stmts"] = stj
		emit(Case{ID: "e2e-commentlike", Kind: "e2e", In: J{"engine": "postgresql", "files": files}, Impl: impl, Known: []string{"commentLikeLine"}, Tags: []string{"known"}})
	}
}
