package main

// C20 — the Go, Kotlin and Python back-ends agree on every query's interface. One v2 configuration with the
// three targets over the same schema and queries; the emitted Go is read with go/ast (gosummary.go), the
// Python with Python's own ast module (pyobs.py: also the syntax check), the Kotlin with a small reader of
// the fixed shapes its template emits.

import (
	"bytes"
	"encoding/json"
	"fmt"
	"os/exec"
	"path/filepath"
	"regexp"
	"sort"
	"strings"
)

func init() { props["C20"] = runC20 }

type ifaceCol struct {
	Name     string `json:"name"`
	Nullable string `json:"nullable"` // "yes" | "no" | "?" (the target language cannot say)
	Array    bool   `json:"array"`
	Type     string `json:"type"`
}

type ifaceQuery struct {
	SQL     string     `json:"sql"`
	Params  []ifaceCol `json:"params"`  // in the language's own order
	Results []ifaceCol `json:"results"` // in column order
	Binds   []string   `json:"binds,omitempty"` // Kotlin: the parameter each positional bind passes, in order
	Missing bool       `json:"missing,omitempty"`
}

func normName(s string) string { return strings.ToLower(strings.ReplaceAll(s, "_", "")) }

var reNameLine = regexp.MustCompile(`^-- name: [^\n]*\n`)

func stripNameLine(s string) string { return strings.TrimSpace(reNameLine.ReplaceAllString(s, "")) }

// ---------------------------------------------------------------- Go
func goNullable(t string) string {
	switch {
	case strings.HasPrefix(t, "sql.Null"), strings.HasPrefix(t, "pq.Null"):
		return "yes"
	case t == "interface{}", t == "json.RawMessage", t == "[]byte", t == "uuid.UUID", t == "net.IP", t == "net.HardwareAddr", t == "int16":
		return "?"
	case strings.HasPrefix(t, "[]"):
		return "?"
	}
	return "no"
}

func goIface(sum PkgSummary, name, cmd string) ifaceQuery {
	m := sum.method(name)
	if m == nil {
		return ifaceQuery{Missing: true}
	}
	var q ifaceQuery
	cn := strings.ToLower(name[:1]) + name[1:]
	q.SQL = stripNameLine(sum.Consts[cn])
	mk := func(n, t string) ifaceCol {
		return ifaceCol{Name: normName(n), Nullable: goNullable(t), Array: strings.HasPrefix(t, "[]") && t != "[]byte", Type: t}
	}
	if st := sum.structNamed(name + "Params"); st != nil {
		for _, f := range st.Fields {
			q.Params = append(q.Params, mk(f.Name, f.Type))
		}
	} else {
		for _, p := range m.Params {
			q.Params = append(q.Params, mk(p.Name, p.Type))
		}
	}
	if len(m.Results) > 1 || (len(m.Results) == 1 && m.Results[0] != "error") {
		r := strings.TrimPrefix(m.Results[0], "[]")
		if m.Results[0] == "[]byte" {
			r = "[]byte"
		}
		if st := sum.structNamed(r); st != nil {
			for _, f := range st.Fields {
				q.Results = append(q.Results, mk(f.Name, f.Type))
			}
		} else if len(m.Scan) > 0 {
			// a lone column: the method's result type, one "[]" less for :many
			t := m.Results[0]
			if cmd == ":many" {
				t = strings.TrimPrefix(t, "[]")
			}
			q.Results = append(q.Results, mk("", t))
		}
	}
	return q
}

// ---------------------------------------------------------------- Kotlin
var reKtConst = regexp.MustCompile("(?s)const val (\\w+) = \"\"\"-- name: [^\\n]*\\n(.*?)\\n\"\"\"")
var reKtClass = regexp.MustCompile(`(?s)data class (\w+) \(\n(.*?)\n\)`)
var reKtField = regexp.MustCompile(`val (\w+): ([^,\n]+)`)
var reKtFun = regexp.MustCompile(`(?s)override fun (\w+)\((.*?)\)(?:: ([^\n{]+?))? \{\n(.*?)\n  \}\n`)
var reKtBind = regexp.MustCompile(`stmt\.set\w+\((\d+), (.*)\)`)
var reKtGet = regexp.MustCompile(`results\.get\w+\((\d+)`)
var reIdent = regexp.MustCompile(`[A-Za-z_][A-Za-z0-9_]*`)

func ktCol(n, t string) ifaceCol {
	t = strings.TrimSpace(t)
	c := ifaceCol{Name: normName(n), Nullable: "no", Type: t}
	if strings.HasSuffix(t, "?") {
		c.Nullable = "yes"
	}
	c.Array = strings.HasPrefix(t, "List<")
	return c
}

func ktIface(files map[string]string, name string) ifaceQuery {
	impl, models := "", ""
	for n, c := range files {
		switch filepath.Base(n) {
		case "QueriesImpl.kt":
			impl = c
		case "Models.kt":
			models = c
		}
	}
	classes := map[string][]ifaceCol{}
	for _, src := range []string{models, impl} {
		for _, m := range reKtClass.FindAllStringSubmatch(src, -1) {
			var fs []ifaceCol
			for _, f := range reKtField.FindAllStringSubmatch(m[2], -1) {
				fs = append(fs, ktCol(f[1], f[2]))
			}
			classes[m[1]] = fs
		}
	}
	fn := strings.ToLower(name[:1]) + name[1:]
	var q ifaceQuery
	found := false
	for _, m := range reKtConst.FindAllStringSubmatch(impl, -1) {
		if m[1] == fn {
			q.SQL = strings.TrimSpace(m[2])
		}
	}
	for _, m := range reKtFun.FindAllStringSubmatch(impl, -1) {
		if m[1] != fn {
			continue
		}
		found = true
		var pnames []string
		for _, p := range strings.Split(m[2], ",") {
			p = strings.TrimSpace(p)
			if p == "" {
				continue
			}
			kv := strings.SplitN(p, ":", 2)
			if len(kv) == 2 {
				q.Params = append(q.Params, ktCol(strings.TrimSpace(kv[0]), kv[1]))
				pnames = append(pnames, strings.TrimSpace(kv[0]))
			}
		}
		ret := strings.TrimSpace(m[3])
		base := strings.TrimSuffix(strings.TrimSuffix(strings.TrimPrefix(ret, "List<"), ">"), "?")
		if strings.HasPrefix(ret, "List<List<") {
			base = strings.TrimSuffix(strings.TrimPrefix(ret, "List<"), ">")
		}
		if fs, ok := classes[base]; ok {
			q.Results = fs
		} else if n := len(reKtGet.FindAllString(m[4], -1)); n > 0 {
			// a lone column: its type is the return type (element type for :many)
			t := ret
			if strings.Contains(m[4], "mutableListOf") {
				t = strings.TrimSuffix(strings.TrimPrefix(ret, "List<"), ">")
			}
			c := ktCol("", t)
			if !strings.Contains(m[4], "mutableListOf") {
				// :one answers null for "no row" (one `?`); the column's own nullability is the SECOND `?`
				inner := ktCol("", strings.TrimSuffix(t, "?"))
				c.Nullable = inner.Nullable
			}
			q.Results = []ifaceCol{c}
		}
		for _, b := range reKtBind.FindAllStringSubmatch(m[4], -1) {
			who := "?"
			for _, id := range reIdent.FindAllString(b[2], -1) {
				for _, pn := range pnames {
					if id == pn {
						who = normName(pn)
					}
				}
			}
			q.Binds = append(q.Binds, who)
		}
	}
	q.Missing = !found
	return q
}

// ---------------------------------------------------------------- Python
type pyFile struct {
	OK      bool                         `json:"ok"`
	Err     string                       `json:"err"`
	Consts  map[string]string            `json:"consts"`
	Funcs   map[string]pyFunc            `json:"funcs"`
	Classes map[string][][2]string       `json:"classes"`
}
type pyFunc struct {
	Params [][2]string `json:"params"`
	Call   []string    `json:"call"`
	Ret    string      `json:"ret"`
}

func pyObserve(dir string, files map[string]string) (map[string]pyFile, string) {
	var paths []string
	for n := range files {
		if strings.HasSuffix(n, ".py") {
			paths = append(paths, filepath.Join(dir, n))
		}
	}
	sort.Strings(paths)
	if len(paths) == 0 {
		return nil, "no python files"
	}
	cmd := exec.Command("python3", append([]string{filepath.Join(harnessDir(), "pyobs.py")}, paths...)...)
	var out, errb bytes.Buffer
	cmd.Stdout, cmd.Stderr = &out, &errb
	if err := cmd.Run(); err != nil {
		return nil, "pyobs: " + err.Error() + " " + firstLine(errb.String())
	}
	res := map[string]pyFile{}
	if err := json.Unmarshal(out.Bytes(), &res); err != nil {
		return nil, "pyobs json: " + err.Error()
	}
	return res, ""
}

func pyCol(n, t string) ifaceCol {
	c := ifaceCol{Name: normName(n), Nullable: "no", Type: t}
	if strings.HasPrefix(t, "Optional[") {
		c.Nullable = "yes"
	}
	c.Array = strings.Contains(t, "List[")
	return c
}

var reSnake1 = regexp.MustCompile(`(.)([A-Z][a-z]+)`)
var reSnake2 = regexp.MustCompile(`([a-z0-9])([A-Z])`)

func snake(s string) string {
	s = reSnake1.ReplaceAllString(s, "${1}_${2}")
	s = reSnake2.ReplaceAllString(s, "${1}_${2}")
	return strings.ToLower(s)
}

func pyIface(obs map[string]pyFile, name string) ifaceQuery {
	var q ifaceQuery
	q.Missing = true
	classes := map[string][][2]string{}
	for _, f := range obs {
		for cn, fs := range f.Classes {
			classes[cn] = fs
		}
	}
	for _, f := range obs {
		for fnName, fn := range f.Funcs {
			if normName(fnName) != normName(snake(name)) {
				continue
			}
			q.Missing = false
			for _, c := range fn.Call {
				if v, ok := f.Consts[c]; ok {
					q.SQL = stripNameLine(v)
				}
			}
			for _, p := range fn.Params[1:] {
				if st, ok := classes[p[1]]; ok && strings.HasSuffix(p[1], "Params") {
					for _, fl := range st {
						q.Params = append(q.Params, pyCol(fl[0], fl[1]))
					}
				} else {
					q.Params = append(q.Params, pyCol(p[0], p[1]))
				}
			}
			// result: the model class named in the call, or the lone type inside the return annotation
			if len(fn.Call) > 0 {
				cn := strings.TrimPrefix(fn.Call[0], "models.")
				if st, ok := classes[cn]; ok && !isUpperConst(fn.Call[0]) {
					for _, fl := range st {
						q.Results = append(q.Results, pyCol(fl[0], fl[1]))
					}
				}
			}
			if q.Results == nil {
				inner := fn.Ret
				for _, w := range []string{"sqlc.ReturnType[", "sqlc.IteratorReturn["} {
					if strings.HasPrefix(inner, w) {
						inner = strings.TrimSuffix(strings.TrimPrefix(inner, w), "]")
					}
				}
				if inner != "None" && inner != "int" || strings.Contains(fn.Ret, "Iterator") {
					if !(strings.Contains(fmt.Sprint(fn.Call), "execute_rowcount") || strings.Contains(fmt.Sprint(fn.Call), "execute_none")) && inner != "sqlc.Cursor" {
						t := inner
						if strings.HasPrefix(t, "Optional[") && !strings.Contains(fn.Ret, "Iterator") {
							// :one wraps the lone column's type in Optional for "no row": the column's own
							// nullability is not visible here
							// (the column's own nullability is the Optional INSIDE that one)
							t = strings.TrimSuffix(strings.TrimPrefix(t, "Optional["), "]")
							q.Results = []ifaceCol{pyCol("", t)}
						} else {
							q.Results = []ifaceCol{pyCol("", t)}
						}
					}
				}
			}
		}
	}
	return q
}

func isUpperConst(s string) bool { return s == strings.ToUpper(s) }

// ---------------------------------------------------------------- the comparison
var reDollar = regexp.MustCompile(`\$(\d+)`)

func sortedNames(cs []ifaceCol) []string {
	var ns []string
	for _, c := range cs {
		ns = append(ns, c.Name)
	}
	sort.Strings(ns)
	return ns
}

func byName(cs []ifaceCol) map[string]ifaceCol {
	m := map[string]ifaceCol{}
	for _, c := range cs {
		m[c.Name] = c
	}
	return m
}

func c20Compare(name string, g, k, p ifaceQuery) []string {
	var bad []string
	if g.Missing || k.Missing || p.Missing {
		return []string{fmt.Sprintf("%s: method missing in a back-end (go=%v kotlin=%v python=%v)", name, g.Missing, k.Missing, p.Missing)}
	}
	if want := reDollar.ReplaceAllString(g.SQL, "?"); k.SQL != want {
		bad = append(bad, fmt.Sprintf("%s: Kotlin embeds %q, Go embeds %q", name, k.SQL, g.SQL))
	}
	if p.SQL != g.SQL {
		bad = append(bad, fmt.Sprintf("%s: Python embeds %q, Go embeds %q", name, p.SQL, g.SQL))
	}
	gn, kn, pn := sortedNames(g.Params), sortedNames(k.Params), sortedNames(p.Params)
	pyDup := false
	for i := 1; i < len(pn); i++ {
		if pn[i] == pn[i-1] {
			pyDup = true
		}
	}
	switch {
	case pyDup:
		bad = append(bad, fmt.Sprintf("%s: Python exposes two parameters under one name %v (Go %v)", name, pn, gn))
		if fmt.Sprint(gn) != fmt.Sprint(kn) {
			bad = append(bad, fmt.Sprintf("%s: parameters differ: go %v, kotlin %v", name, gn, kn))
		}
	case fmt.Sprint(gn) != fmt.Sprint(kn) || fmt.Sprint(gn) != fmt.Sprint(pn):
		bad = append(bad, fmt.Sprintf("%s: parameters differ: go %v, kotlin %v, python %v", name, gn, kn, pn))
	default:
		gm, km, pm := byName(g.Params), byName(k.Params), byName(p.Params)
		for _, n := range gn {
			if km[n].Array != pm[n].Array || gm[n].Array != km[n].Array {
				bad = append(bad, fmt.Sprintf("%s: parameter %s array-ness: go %s, kotlin %s, python %s", name, n, gm[n].Type, km[n].Type, pm[n].Type))
			}
			if km[n].Nullable != pm[n].Nullable || (gm[n].Nullable != "?" && gm[n].Nullable != km[n].Nullable) {
				bad = append(bad, fmt.Sprintf("%s: parameter %s nullability: go %s, kotlin %s, python %s", name, n, gm[n].Type, km[n].Type, pm[n].Type))
			}
		}
	}
	if len(g.Results) != len(k.Results) || len(g.Results) != len(p.Results) {
		bad = append(bad, fmt.Sprintf("%s: result columns: go %d, kotlin %d, python %d", name, len(g.Results), len(k.Results), len(p.Results)))
	} else {
		for i := range g.Results {
			gc, kc, pc := g.Results[i], k.Results[i], p.Results[i]
			if len(g.Results) > 1 && (gc.Name != kc.Name || gc.Name != pc.Name) {
				bad = append(bad, fmt.Sprintf("%s: result column %d is named go %s, kotlin %s, python %s", name, i, gc.Name, kc.Name, pc.Name))
			}
			if gc.Array != kc.Array || kc.Array != pc.Array {
				bad = append(bad, fmt.Sprintf("%s: result column %d array-ness: go %s, kotlin %s, python %s", name, i, gc.Type, kc.Type, pc.Type))
			}
			if (pc.Nullable != "?" && kc.Nullable != "?" && kc.Nullable != pc.Nullable) || (gc.Nullable != "?" && kc.Nullable != "?" && gc.Nullable != kc.Nullable) {
				bad = append(bad, fmt.Sprintf("%s: result column %d nullability: go %s, kotlin %s, python %s", name, i, gc.Type, kc.Type, pc.Type))
			}
		}
	}
	// Kotlin binds: as many as `?` marks, the k-th passes what the k-th placeholder of the source denotes
	marks := strings.Count(k.SQL, "?")
	if len(k.Binds) != marks {
		bad = append(bad, fmt.Sprintf("%s: Kotlin binds %d values for %d `?` marks", name, len(k.Binds), marks))
	} else {
		var nums []int
		for _, m := range reDollar.FindAllStringSubmatch(g.SQL, -1) {
			n := 0
			fmt.Sscanf(m[1], "%d", &n)
			nums = append(nums, n)
		}
		// (1) structure: two binds pass the same parameter exactly when their placeholders carry the same number
		structural := len(nums) == len(k.Binds)
		for i := range nums {
			for j := range nums {
				if structural && i < j && (nums[i] == nums[j]) != (k.Binds[i] == k.Binds[j]) {
					structural = false
				}
			}
		}
		if !structural {
			bad = append(bad, fmt.Sprintf("%s: Kotlin positional binds %v do not follow the placeholders %v", name, k.Binds, nums))
		} else {
			// (2) names: the parameter bound at a placeholder is named like the Go / Python parameter of that number
			for i, n := range nums {
				if n >= 1 && n <= len(g.Params) && g.Params[n-1].Name != k.Binds[i] {
					bad = append(bad, fmt.Sprintf("%s: placeholder $%d is parameter %s in Go, Kotlin binds %s there (binds %v for placeholders %v)", name, n, g.Params[n-1].Name, k.Binds[i], k.Binds, nums))
					break
				}
			}
		}
	}
	return bad
}

var c20Types = []struct {
	t    string
	arr  bool
}{{"bigint", false}, {"int", false}, {"text", false}, {"boolean", false}, {"text[]", true}, {"timestamptz", false}, {"double precision", false}}

func genC20(r *Rng) (string, []PQuery, []string) {
	cols := []PCol{{Name: "id", Type: "bigint", NotNull: true}}
	names := []string{"name", "note", "lo", "hi", "flag", "tags", "created_at", "score", "backup_id", "owner"}
	perm := r.Perm(len(names))
	for i := 0; i < 3+r.Intn(4); i++ {
		ty := c20Types[r.Intn(len(c20Types))]
		cols = append(cols, PCol{Name: names[perm[i]], Type: ty.t, NotNull: r.Bool(), Array: ty.arr})
	}
	t := PTable{Name: "items", Cols: cols}
	c := func() PCol { return cols[1+r.Intn(len(cols)-1)] }
	var qs []PQuery
	var tags []string
	docs := []string{"-- plain words", "-- ends with a \"quote\"", "-- a path C:\\", "-- \"\"\"triple\"\"\" inside", "-- it's 100% `fine` ${x}", "-- trailing backslash \\", "-- héllo — ü"}
	add := func(tag, cmd, sql string) {
		if r.Chance(35) {
			// full-line comments under the annotation: documentation in every target language
			sql = r.Pick(docs) + "\n" + sql
			if r.Chance(30) {
				sql = r.Pick(docs) + "\n" + sql
			}
		}
		qs = append(qs, PQuery{Name: fmt.Sprintf("Q%d%s", len(qs), strings.Title(strings.ReplaceAll(tag, "-", ""))), Cmd: cmd, SQL: sql})
		tags = append(tags, tag)
	}
	a, b, d := c(), c(), c()
	n := 2 + r.Intn(4)
	for i := 0; i < n; i++ {
		switch r.Intn(22) {
		case 20, 21:
			// one result column, nullable or not, every command that returns rows
			add("lone-column-plain", []string{":many", ":one"}[i%2], fmt.Sprintf("SELECT %s FROM items", d.Name))
		case 18, 19:
			// many placeholder occurrences (more than a dozen), the first ones used again at the end next to
			// other columns: what a parameter is called and typed after is decided by its FIRST use
			m := 9 + r.Intn(8)
			var conds []string
			for k := 1; k <= m; k++ {
				conds = append(conds, fmt.Sprintf("%s = $%d", cols[(k-1)%len(cols)].Name, k))
			}
			for k := 0; k < 2+r.Intn(3); k++ {
				conds = append(conds, fmt.Sprintf("%s = $%d", cols[(k+2)%len(cols)].Name, 1+r.Intn(2)))
			}
			add("many-occurrences", ":many", "SELECT id FROM items WHERE "+strings.Join(conds, " OR "))
		case 14, 15, 16:
			// the full column list of the table, in table order and under the table's names, some nullable
			// columns wrapped in COALESCE: same names as the table, different nullability
			lit := map[string]string{"bigint": "0", "int": "0", "text": "''", "boolean": "false", "text[]": "'{}'", "timestamptz": "now()", "double precision": "0"}
			var items []string
			wrapped := false
			for _, cc := range cols {
				if !cc.NotNull && r.Chance(60) {
					if r.Bool() {
						items = append(items, fmt.Sprintf("coalesce(%s, %s) AS %s", cc.Name, lit[cc.Type], cc.Name))
					} else {
						items = append(items, fmt.Sprintf("coalesce(%s, %s)", cc.Name, lit[cc.Type]))
					}
					wrapped = true
				} else {
					items = append(items, cc.Name)
				}
			}
			tag := "full-list"
			if wrapped {
				tag = "full-list-coalesce"
			}
			switch r.Intn(3) {
			case 0:
				add(tag, ":many", "SELECT "+strings.Join(items, ", ")+" FROM items ORDER BY id")
			case 1:
				add(tag+"-one", ":one", "SELECT "+strings.Join(items, ", ")+" FROM items WHERE id = $1")
			default:
				add(tag+"-returning", ":one", fmt.Sprintf("UPDATE items SET %s = $1 WHERE id = $2 RETURNING %s", a.Name, strings.Join(items, ", ")))
			}
		case 17:
			add("star-returning", ":many", fmt.Sprintf("DELETE FROM items WHERE %s = $1 RETURNING *", a.Name))
		case 11:
			// a placeholder passed to function calls, repeated across calls
			add("func-arg-repeat", ":many", fmt.Sprintf("SELECT id FROM items WHERE lower(%s::text) = lower($1) OR upper(%s::text) = upper($1)", a.Name, b.Name))
		case 12:
			add("func-arg-mixed", ":many", fmt.Sprintf("SELECT id FROM items WHERE id = $1 AND (strpos(%s::text, $2) > 0 OR strpos(%s::text, $2) > 0)", a.Name, b.Name))
		case 13:
			add("func-arg-once", ":many", fmt.Sprintf("SELECT id, lower(%s::text) AS low FROM items WHERE lower(%s::text) = lower($1) AND id > $2", a.Name, b.Name))
		case 0:
			add("plain", ":one", "SELECT * FROM items WHERE id = $1")
		case 1:
			add("repeat", ":many", fmt.Sprintf("SELECT id FROM items WHERE id = $1 OR (id > $1 AND id < $2)"))
		case 2:
			add("repeat-two-columns", ":many", fmt.Sprintf("SELECT id, %s FROM items WHERE %s <= $1 AND %s >= $1 AND %s < $2", a.Name, a.Name, b.Name, b.Name))
		case 3:
			add("out-of-order", ":exec", fmt.Sprintf("UPDATE items SET %s = $2 WHERE id = $1", a.Name))
		case 4:
			add("repeat-or", ":many", fmt.Sprintf("SELECT id FROM items WHERE id = $1 OR %s = $1", "id"))
		case 5:
			var cs, vs []string
			for k, cc := range cols {
				cs = append(cs, cc.Name)
				vs = append(vs, fmt.Sprintf("$%d", k+1))
			}
			add("many-params", ":execrows", fmt.Sprintf("INSERT INTO items (%s) VALUES (%s)", strings.Join(cs, ", "), strings.Join(vs, ", ")))
		case 6:
			add("returning", ":one", fmt.Sprintf("UPDATE items SET %s = $1 WHERE id = $2 RETURNING id, %s", a.Name, a.Name))
		case 7:
			add("lone-column", []string{":one", ":many"}[i%2], fmt.Sprintf("SELECT %s FROM items WHERE %s = $1", a.Name, b.Name))
		case 8:
			add("three-out-of-order", ":many", fmt.Sprintf("SELECT id FROM items WHERE %s = $3 AND %s = $1 AND %s = $2", a.Name, b.Name, d.Name))
		case 9:
			add("limit-offset", ":many", fmt.Sprintf("SELECT id, %s FROM items WHERE %s = $1 ORDER BY id LIMIT $2 OFFSET $3", a.Name, b.Name))
		default:
			add("same-column-twice", ":many", fmt.Sprintf("SELECT id FROM items WHERE %s > $1 AND %s < $2", a.Name, a.Name))
		}
	}
	return t.DDL("postgresql") + "\n", qs, tags
}

func runC20(r *Rng, n int, tier string) {
	conf := `{"version":"2","sql":[{"engine":"postgresql","schema":"schema.sql","queries":"query.sql","gen":{"go":{"out":"db","package":"db"},"kotlin":{"out":"kt","package":"com.example"},"python":{"out":"py","package":"pkg"}}}]}`
	for i := 0; i < n; i++ {
		schema, qs, tags := genC20(r)
		var qf strings.Builder
		for _, q := range qs {
			qf.WriteString(q.Text() + "\n")
		}
		files := map[string]string{"schema.sql": schema, "query.sql": qf.String(), "sqlc.json": conf}
		dir := writeTree(files)
		res := generateDir(dir)
		obs := J{"ok": res.OK()}
		oracle := ""
		inPositional := J{}
		if !res.OK() {
			msg := res.Stderr + res.Err + res.Panic
			for _, ln := range strings.Split(msg, "\n") {
				if strings.TrimSpace(ln) != "" && !strings.HasPrefix(ln, "# package") {
					msg = ln
					break
				}
			}
			obs["err"] = firstLine(msg)
			oracle = "generation failed for three targets on positional queries every target supports: " + fmt.Sprint(obs["err"])
		} else {
			// python files must be on disk for the observer
			for nme, c := range res.Files {
				if strings.HasSuffix(nme, ".py") {
					writeFileAt(dir, nme, c)
				}
			}
			py, perr := pyObserve(dir, res.Files)
			var bad []string
			if perr != "" {
				bad = append(bad, perr)
			}
			for pth, f := range py {
				if !f.OK {
					bad = append(bad, fmt.Sprintf("emitted Python %s is not valid: %s", filepath.Base(pth), f.Err))
				}
			}
			goFiles := map[string]string{}
			for nme, c := range res.Files {
				if strings.HasSuffix(nme, ".go") {
					goFiles[nme] = c
				}
			}
			sum := summarize(goFiles)
			ifs := J{}
			for _, q := range qs {
				g, k, p := goIface(sum, q.Name, q.Cmd), ktIface(res.Files, q.Name), pyIface(py, q.Name)
				ifs[q.Name] = J{"go": g, "kotlin": k, "python": p}
				bad = append(bad, c20Compare(q.Name, g, k, p)...)
			}
			obs["interfaces"] = ifs
			// for the Lean model of ktColumnsToStruct: the per-occurrence parameter stream the compiler hands the
			// Kotlin back-end (positional mode), and what the emitted Kotlin does with it
			pos, kt := J{}, J{}
			for _, q := range qs {
				ar := analyzeStatement("postgresql", schema, q.Text(), true)
				if ar.Impl["err"] != "" {
					continue
				}
				var stream [][2]interface{}
				for _, p := range ar.Query.Params {
					nm := ""
					if p.Column != nil {
						nm = p.Column.Name
					}
					stream = append(stream, [2]interface{}{p.Number, nm})
				}
				pos[q.Name] = stream
				k := ktIface(res.Files, q.Name)
				var pn []string
				for _, c := range k.Params {
					pn = append(pn, c.Name)
				}
				kt[q.Name] = J{"binds": strs(k.Binds), "params": strs(pn)}
			}
			inPositional = pos
			obs["kt"] = kt
			if len(bad) > 0 {
				oracle = strings.Join(bad[:min(len(bad), 6)], " | ")
			}
		}
		removeAll(dir)
		var known []string
		if strings.Contains(schema, "[]") {
			known = append(known, "pythonArrayOptional")
		}
		for _, t := range tags {
			switch t {
			case "limit-offset":
				known = append(known, "ktLimitOffsetSwap")
			case "same-column-twice", "repeat", "repeat-two-columns", "repeat-or":
				known = append(known, "pythonDuplicateArg")
			case "three-out-of-order":
				known = append(known, "pythonDuplicateArg", "ktSuffixByOccurrence")
			}
		}
		emit(Case{ID: fmt.Sprintf("t-%d", i), Kind: "e2e", In: J{"files": files, "positional": inPositional}, Impl: obs, Oracle: oracle, Tags: tags, Known: known})
	}
}
