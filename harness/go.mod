module github.com/kyleconroy/sqlc/verifharness

go 1.15

require (
	github.com/google/uuid v1.1.2
	github.com/kyleconroy/sqlc v0.0.0
	github.com/lib/pq v1.10.0
)

replace github.com/kyleconroy/sqlc => /repo
