package main

import (
	"fmt"
	"regexp"
	"sort"
	"strings"
)

func init() { props["C16"] = runC16 }

var allEmitOpts = []string{"emit_json_tags", "emit_db_tags", "emit_prepared_queries", "emit_interface", "emit_exact_table_names", "emit_empty_slices"}

// --- renderers of one logical configuration in four front ends
type confSpec struct {
	outDir   string // output directory; the package name defaults to its last element when omitName
	omitName bool
	p          Project
	listPaths  bool
	pkgOverrides, globalOverrides []string
}

func (c confSpec) paths(s string) string {
	if c.listPaths {
		return `["` + s + `"]`
	}
	return `"` + s + `"`
}

func (c confSpec) optsJSON() string {
	var parts []string
	for _, k := range allEmitOpts {
		parts = append(parts, fmt.Sprintf("%q:%v", k, c.p.Opts[k]))
	}
	if c.p.CaseStyle != "" {
		parts = append(parts, fmt.Sprintf(`"json_tags_case_style":%q`, c.p.CaseStyle))
	}
	return strings.Join(parts, ",")
}

func (c confSpec) v1JSON() string {
	po := ""
	if len(c.pkgOverrides) > 0 {
		po = `,"overrides":[` + strings.Join(c.pkgOverrides, ",") + `]`
	}
	top := ""
	if len(c.globalOverrides) > 0 {
		top += `,"overrides":[` + strings.Join(c.globalOverrides, ",") + `]`
	}
	if len(c.p.Rename) > 0 {
		top += `,"rename":` + jsonStr(c.p.Rename)
	}
	nm := `"name":"db",`
	if c.omitName {
		nm = ""
	}
	return fmt.Sprintf(`{"version":"1","packages":[{%s"path":%q,"engine":%q,"schema":%s,"queries":%s,%s%s}]%s}`,
		nm, c.outDir, c.p.Engine, c.paths("schema.sql"), c.paths("query.sql"), c.optsJSON(), po, top)
}

func (c confSpec) v2JSON() string {
	po := ""
	if len(c.pkgOverrides) > 0 {
		po = `,"overrides":[` + strings.Join(c.pkgOverrides, ",") + `]`
	}
	top := ""
	var g []string
	if len(c.globalOverrides) > 0 {
		g = append(g, `"overrides":[`+strings.Join(c.globalOverrides, ",")+`]`)
	}
	if len(c.p.Rename) > 0 {
		g = append(g, `"rename":`+jsonStr(c.p.Rename))
	}
	if len(g) > 0 {
		top = `,"overrides":{"go":{` + strings.Join(g, ",") + `}}`
	}
	nm := `"package":"db",`
	if c.omitName {
		nm = ""
	}
	return fmt.Sprintf(`{"version":"2","sql":[{"engine":%q,"schema":%s,"queries":%s,"gen":{"go":{%s"out":%q,%s%s}}}]%s}`,
		c.p.Engine, c.paths("schema.sql"), c.paths("query.sql"), nm, c.outDir, c.optsJSON(), po, top)
}

// jsonToYAML: a small JSON→YAML block-style renderer for the shapes used here
func jsonToYAML(v interface{}, indent string) string {
	switch x := v.(type) {
	case map[string]interface{}:
		var ks []string
		for k := range x {
			ks = append(ks, k)
		}
		sort.Strings(ks)
		var b strings.Builder
		for _, k := range ks {
			switch c := x[k].(type) {
			case map[string]interface{}:
				b.WriteString(indent + k + ":\n" + jsonToYAML(c, indent+"  "))
			case []interface{}:
				b.WriteString(indent + k + ":\n")
				for _, e := range c {
					switch ee := e.(type) {
					case map[string]interface{}:
						s := jsonToYAML(ee, indent+"    ")
						b.WriteString(indent + "  - " + strings.TrimPrefix(s, indent+"    "))
					default:
						b.WriteString(indent + "  - " + jsonStr(ee) + "\n")
					}
				}
			default:
				b.WriteString(indent + k + ": " + jsonStr(c) + "\n")
			}
		}
		return b.String()
	}
	return indent + jsonStr(v) + "\n"
}

var tagRe = regexp.MustCompile("(?m) +`[^`\n]*`$")

func stripTags(files map[string]string) map[string]string {
	out := map[string]string{}
	for k, v := range files {
		s := tagRe.ReplaceAllString(v, "")
		// gofmt aligns field columns differently once tags are there: compare modulo runs of blanks
		s = regexp.MustCompile(`[ \t]+`).ReplaceAllString(s, " ")
		out[k] = s
	}
	return out
}

type apiShape struct {
	Consts  map[string]string
	Structs map[string][]SField // fields (name, type) without tags
	Sigs    map[string]string   // method → params/results
}

func shapeOf(files map[string]string, byTable bool) apiShape {
	sum := summarize(files)
	a := apiShape{Consts: sum.Consts, Structs: map[string][]SField{}, Sigs: map[string]string{}}
	for _, s := range sum.Structs {
		if s.Name == "Queries" {
			continue // plumbing: gains tx and statement fields with emit_prepared_queries
		}
		var fs []SField
		for _, f := range s.Fields {
			fs = append(fs, SField{f.Name, f.Type, ""})
		}
		a.Structs[s.Name] = fs
	}
	for _, m := range sum.queryMethods() {
		a.Sigs[m.Name] = fmt.Sprintf("%v -> %v | args %v | scan %v", m.Params, m.Results, m.CallArgs, m.Scan)
	}
	return a
}

func runC16(r *Rng, n int, tier string) {
	for i := 0; i < n; i++ {
		engine := "postgresql"
		if r.Chance(25) {
			engine = "mysql"
		}
		c := confSpec{p: genProject(r, engine), listPaths: r.Bool(), outDir: "db"}
		if r.Chance(40) {
			// the package name is left to its default: the last element of the output directory, verbatim
			c.omitName = true
			c.outDir = r.Pick([]string{"db", "internal/StoreDB", "DB", "gen/my_db", "Out", "pkg/v2db"})
		}
		c.p.Overrides = nil
		if !c.p.Opts["emit_json_tags"] && i%2 == 1 {
			// a case style is set although tags are not emitted: the setting is inert, in every front end
			c.p.CaseStyle = r.Pick([]string{"camel", "pascal", "snake"})
		}
		if i%3 == 1 {
			// query names need not be exported identifiers
			for k := range c.p.Queries {
				switch r.Intn(3) {
				case 0:
					c.p.Queries[k].Name = strings.ToLower(c.p.Queries[k].Name[:1]) + c.p.Queries[k].Name[1:]
				case 1:
					c.p.Queries[k].Name = "_" + c.p.Queries[k].Name
				}
			}
		}
		if i%3 == 2 && len(c.p.Queries) > 0 {
			// a query named like something the generated plumbing declares: whatever is done about the clash, an
			// emit option does not change the embedded SQL or the method names
			c.p.Queries[r.Intn(len(c.p.Queries))].Name = r.Pick([]string{"Close", "exec", "query", "queryRow", "tx", "WithTx", "Prepare", "New", "db"})
		}
		if r.Chance(50) {
			c.globalOverrides = append(c.globalOverrides, `{"db_type":"text","go_type":"github.com/example/custom.Text"}`)
			if r.Bool() {
				c.pkgOverrides = append(c.pkgOverrides, `{"db_type":"text","go_type":"github.com/other/pkg.Str"}`)
			}
		}
		if r.Chance(30) {
			c.pkgOverrides = append(c.pkgOverrides, fmt.Sprintf(`{"column":"%s.id","go_type":"github.com/example/custom.ID"}`, c.p.Tables[0].Name))
		}
		if r.Chance(30) {
			c.p.Rename = map[string]string{"id": "Identifier"}
		}
		base := map[string]string{"schema.sql": c.p.Schema(), "query.sql": c.p.QueryFile(c.p.Queries)}
		withConf := func(name, body string) map[string]string {
			m := map[string]string{}
			for k, v := range base {
				m[k] = v
			}
			m[name] = body
			return m
		}
		v1 := c.v1JSON()
		v2 := c.v2JSON()
		ref := generate(withConf("sqlc.json", v1))
		oracle := ""
		var detail J
		tags := []string{engine}
		type fe struct{ name, file, body string }
		var parsed1, parsed2 interface{}
		jsonUnmarshal(v1, &parsed1)
		jsonUnmarshal(v2, &parsed2)
		fes := []fe{{"v2-json", "sqlc.json", v2}, {"v1-yaml", "sqlc.yaml", jsonToYAML(parsed1, "")}, {"v2-yaml", "sqlc.yaml", jsonToYAML(parsed2, "")}}
		for _, f := range fes {
			got := generate(withConf(f.file, f.body))
			if got.OK() != ref.OK() || (ref.OK() && hashesString(got) != hashesString(ref)) {
				if oracle == "" {
					oracle = fmt.Sprintf("front end %s differs from version-1 JSON", f.name)
					if ref.OK() && got.OK() {
						oracle += ": " + diffFiles(ref.Files, got.Files)
					} else {
						oracle += fmt.Sprintf(" (v1 ok=%v: %s; %s ok=%v: %s)", ref.OK(), firstLine(ref.Stderr), f.name, got.OK(), firstLine(got.Stderr))
					}
					detail = J{"v1": v1, f.name: f.body}
				}
			}
		}
		tags = append(tags, "front-ends")
		// ---- orthogonality: flip each option alone
		if ref.OK() {
			for _, opt := range allEmitOpts {
				c2 := c
				c2.p.Opts = map[string]bool{}
				for k, v := range c.p.Opts {
					c2.p.Opts[k] = v
				}
				c2.p.Opts[opt] = !c.p.Opts[opt]
				got := generate(withConf("sqlc.json", c2.v1JSON()))
				msg := ""
				if !got.OK() {
					msg = "flipping " + opt + " makes generation fail: " + firstLine(got.Stderr)
				} else {
					a, b := shapeOf(ref.Files, false), shapeOf(got.Files, false)
					// never: embedded SQL, parameter order, call arguments, field types
					if jsonStr(a.Consts) != jsonStr(b.Consts) {
						msg = opt + " changes an embedded SQL constant"
					}
					switch opt {
					case "emit_json_tags", "emit_db_tags":
						if d := diffFiles(stripTags(ref.Files), stripTags(got.Files)); d != "" && msg == "" {
							msg = opt + " changes more than struct tags: " + d
						}
					case "emit_interface":
						x, y := copyWithout(ref.Files, c.outDir+"/querier.go"), copyWithout(got.Files, c.outDir+"/querier.go")
						if d := diffFiles(x, y); d != "" && msg == "" {
							msg = opt + " changes more than the presence of querier.go: " + d
						}
					case "emit_prepared_queries":
						if ref.Files[c.outDir+"/models.go"] != got.Files[c.outDir+"/models.go"] && msg == "" {
							msg = opt + " changes models.go"
						}
						if jsonStr(a.Structs) != jsonStr(b.Structs) && msg == "" {
							msg = opt + " changes a struct"
						}
						if sigsNoDriver(a) != sigsNoDriver(b) && msg == "" {
							msg = opt + " changes a method signature, argument order or scan list"
						}
					case "emit_empty_slices":
						x, y := dropItemsInit(ref.Files), dropItemsInit(got.Files)
						if d := diffFiles(x, y); d != "" && msg == "" {
							msg = opt + " changes more than the slice initialiser: " + d
						}
					case "emit_exact_table_names":
						// only model type names may change: compare field lists position-wise and method arities
						if structFieldsOnly(a) != structFieldsOnly(b) && msg == "" {
							msg = opt + " changes struct fields or field types"
						}
					}
				}
				if msg != "" && oracle == "" {
					oracle = msg
					detail = J{"option": opt, "config": c.v1JSON()}
				}
			}
			tags = append(tags, "orthogonality")
		}
		emit(Case{ID: fmt.Sprintf("cfg-%d", i), Kind: "config", In: J{"files": withConf("sqlc.json", v1)}, Impl: J{"ok": ref.OK()}, Oracle: oracle, Detail: detail, Tags: tags})
	}
}

func copyWithout(m map[string]string, k string) map[string]string {
	out := map[string]string{}
	for a, b := range m {
		if a != k {
			out[a] = b
		}
	}
	return out
}

var itemsInitRe = regexp.MustCompile(`(?m)^\s*(var items \[\].*|items := \[\].*\{\})$`)

func dropItemsInit(m map[string]string) map[string]string {
	out := map[string]string{}
	for k, v := range m {
		out[k] = itemsInitRe.ReplaceAllString(v, "ITEMS")
	}
	return out
}

func sigsNoDriver(a apiShape) string {
	var ks []string
	for k := range a.Sigs {
		ks = append(ks, k)
	}
	sort.Strings(ks)
	var b strings.Builder
	for _, k := range ks {
		b.WriteString(k + ": " + a.Sigs[k] + "\n")
	}
	return b.String()
}

func structFieldsOnly(a apiShape) string {
	var rows []string
	for _, fs := range a.Structs {
		rows = append(rows, fmt.Sprint(fs))
	}
	sort.Strings(rows)
	return strings.Join(rows, "\n")
}
