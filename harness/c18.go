package main

// C18 — sqlc never crashes or hangs, whatever the input.
//   kind "analysis": one statement through the real compiler next to the Lean model of internal/compiler, which
//                    carries the panic sites as values: the model must predict a crash exactly when the
//                    implementation crashes (so a NEW crash is a correspondence break even at a known site);
//   kind "gen"     : whole file trees through cmd.Generate in-process (recover + 20 s watchdog): configuration
//                    zoo, file-system conditions, byte strings, statement-kind zoo, token-level mutations.
// A crash is identified by the innermost sqlc function on the panicking stack.

import (
	"fmt"
	"io/ioutil"
	"os"
	"path/filepath"
	"strings"
)

func init() { props["C18"] = runC18 }

var c18Schema = map[string]string{
	"postgresql": "CREATE TABLE authors (id bigint NOT NULL, name text NOT NULL, bio text);\nCREATE TABLE books (id bigint NOT NULL, author_id bigint NOT NULL, title text, tags text[]);\nCREATE TYPE mood AS ENUM ('ok', 'sad');\nCREATE FUNCTION plus(a int, b int) RETURNS int AS $$ SELECT 1 $$ LANGUAGE sql;\n",
	"mysql":      "CREATE TABLE authors (id bigint NOT NULL, name varchar(100) NOT NULL, bio text);\nCREATE TABLE books (id bigint NOT NULL, author_id bigint NOT NULL, title varchar(200));\n",
}

// statements that stress the tree walkers: every shape the property text and the TODOs in the source name,
// plus statement kinds outside the supported four
var c18Zoo = map[string][]string{
	"postgresql": {
		"INSERT INTO authors VALUES ($1, $2, $3)",
		"INSERT INTO authors VALUES ($1, $2, $3), ($4, $5, $6)",
		"INSERT INTO authors VALUES ($1), ($2)",
		"INSERT INTO authors (id) VALUES ($1, $2)",
		"INSERT INTO authors (id, name) VALUES ($1)",
		"INSERT INTO authors (id, name) VALUES ($1, $2), ($3, $4)",
		"INSERT INTO authors (id, name) VALUES ($1, $2), ($3, $4, $5)",
		"INSERT INTO authors (id) VALUES ($1), ($2, $3)",
		"INSERT INTO authors DEFAULT VALUES",
		"INSERT INTO authors (id, name) SELECT $1, $2",
		"INSERT INTO authors (id) SELECT $1, $2",
		"SELECT * FROM (SELECT id FROM authors)",
		"UPDATE authors SET name = $1 RETURNING *",
		"INSERT INTO authors SELECT * FROM authors WHERE id = $1",
		"SELECT $1",
		"SELECT $1 AS x",
		"SELECT $1::int",
		"SELECT $1::int AS x",
		"SELECT 1 WHERE $1",
		"SELECT id FROM authors WHERE public.authors.id = $1",
		"SELECT id FROM authors WHERE db.public.authors.id = $1",
		"SELECT db.public.authors.id FROM authors",
		"SELECT a.b.c.d.e FROM authors",
		"SELECT id FROM authors WHERE a.b.c.d = $1",
		"SELECT plus($1, $2)",
		"SELECT plus($1)",
		"SELECT plus($1, $2, $3)",
		"SELECT plus(a => $1, b => $2)",
		"SELECT plus(c => $1)",
		"SELECT nosuch($1)",
		"SELECT count(*)",
		"SELECT now()",
		"SELECT id FROM authors LIMIT $1 OFFSET $2",
		"SELECT id FROM authors ORDER BY $1",
		"SELECT id FROM authors GROUP BY $1 HAVING count(*) > $2",
		"SELECT id FROM authors WHERE id = ANY($1)",
		"SELECT id FROM authors WHERE id = ANY($1::bigint[])",
		"SELECT id FROM authors WHERE id IN ($1, $2)",
		"SELECT id FROM authors WHERE id BETWEEN $1 AND $2",
		"SELECT id FROM authors WHERE name LIKE $1",
		"SELECT id FROM authors WHERE name || $1 = 'x'",
		"SELECT id FROM authors WHERE $1 || name = 'x'",
		"SELECT id FROM authors WHERE NOT $1",
		"SELECT id FROM authors WHERE id = $1 OR $2",
		"SELECT id FROM authors WHERE (id, name) = ($1, $2)",
		"SELECT id FROM authors WHERE ROW(id, name) = ROW($1, $2)",
		"SELECT CASE WHEN $1 THEN 1 ELSE 2 END",
		"SELECT CASE WHEN id = $1 THEN name ELSE bio END FROM authors",
		"SELECT COALESCE($1, $2)",
		"SELECT NULLIF($1, $2)",
		"SELECT ARRAY[$1, $2]",
		"SELECT id FROM authors WHERE id = (SELECT $1)",
		"SELECT (SELECT $1)",
		"SELECT * FROM (SELECT $1) s",
		"SELECT * FROM (VALUES ($1, $2)) v(a, b)",
		"VALUES ($1, $2)",
		"SELECT * FROM generate_series($1, $2)",
		"SELECT * FROM authors, LATERAL (SELECT $1) s",
		"SELECT * FROM authors TABLESAMPLE BERNOULLI ($1)",
		"WITH c AS (SELECT $1) SELECT * FROM c",
		"WITH RECURSIVE c(n) AS (SELECT 1 UNION ALL SELECT n + $1 FROM c) SELECT n FROM c",
		"WITH c AS (INSERT INTO authors (id, name) VALUES ($1, $2) RETURNING id) SELECT id FROM c",
		"UPDATE authors SET name = $1",
		"UPDATE authors SET (name, bio) = ($1, $2) WHERE id = $3",
		"UPDATE authors SET name = $1 FROM books WHERE books.author_id = authors.id",
		"UPDATE authors SET name = DEFAULT WHERE id = $1",
		"UPDATE ONLY authors SET name = $1",
		"DELETE FROM authors USING books WHERE books.author_id = authors.id AND books.id = $1",
		"DELETE FROM authors WHERE id = $1 RETURNING *",
		"DELETE FROM nowhere WHERE id = $1",
		"TRUNCATE authors",
		"TRUNCATE authors, books",
		"SELECT id FROM authors FOR UPDATE",
		"SELECT id FROM authors WINDOW w AS (PARTITION BY id)",
		"SELECT row_number() OVER (PARTITION BY name ORDER BY id) FROM authors",
		"SELECT id FROM authors UNION SELECT $1",
		"SELECT id FROM authors INTERSECT SELECT id FROM books EXCEPT SELECT $1",
		"SELECT DISTINCT ON (name) id FROM authors",
		"SELECT id INTO newtab FROM authors",
		"SELECT 'a'::mood",
		"SELECT $1::mood",
		"SELECT $1::nosuchtype",
		"SELECT $1::public.mood[]",
		"SELECT sqlc.arg(x)",
		// named parameters whose source text is not what the rewriter reconstructs, at the very end of the statement
		"SELECT id FROM authors WHERE id = sqlc.arg(1)",
		"SELECT id FROM authors ORDER BY id LIMIT sqlc.arg(2)",
		"UPDATE authors SET name = 'x' WHERE id = sqlc.arg(7)",
		"SELECT id FROM authors WHERE id = sqlc.arg(1) AND name = 'x'",
		"SELECT id FROM authors WHERE name = sqlc.arg('')",
		"SELECT id FROM authors WHERE name = sqlc.arg(x )",
		"SELECT id FROM authors WHERE name = sqlc.arg( x)",
		"SELECT id FROM authors WHERE name = sqlc.arg(\"x\")",
		"SELECT id FROM authors WHERE name = @x",
		"SELECT id FROM authors WHERE id = @x::bigint",
		"SELECT id FROM authors WHERE name = sqlc.arg(authors.name)",
		"SELECT id FROM authors WHERE name = sqlc.arg(1.5)",
		"SELECT id FROM authors WHERE name = sqlc.arg(NULL)",
		"SELECT id FROM authors WHERE name = sqlc.arg(true)",
		"SELECT sqlc.arg()",
		"SELECT sqlc.arg(a, b)",
		"SELECT sqlc.arg(1 + 2)",
		"SELECT sqlc.nosuch(x)",
		"SELECT @x",
		"SELECT @x, $1",
		"SELECT @x::int",
		"SELECT $2",
		"SELECT $1, $3",
		"SELECT $0",
		"SELECT $99999999999999999999",
		// statement kinds outside the supported grammar
		"CREATE TABLE t2 (id int)",
		"CREATE INDEX i ON authors (id)",
		"ALTER TABLE authors ADD COLUMN x int",
		"DROP TABLE authors",
		"GRANT SELECT ON authors TO bob",
		"COPY authors TO STDOUT",
		"EXPLAIN SELECT 1",
		"EXPLAIN ANALYZE SELECT id FROM authors WHERE id = $1",
		"DO $$ BEGIN END $$",
		"CALL plus(1, 2)",
		"BEGIN",
		"COMMIT",
		"SET search_path TO public",
		"SHOW ALL",
		"VACUUM authors",
		"ANALYZE authors",
		"LISTEN chan",
		"NOTIFY chan, 'x'",
		"PREPARE p AS SELECT $1",
		"EXECUTE p(1)",
		"DECLARE c CURSOR FOR SELECT 1",
		"FETCH ALL FROM c",
		"CREATE VIEW v AS SELECT $1",
		"CREATE FUNCTION f() RETURNS int AS 'select 1' LANGUAGE sql",
		"COMMENT ON TABLE authors IS 'x'",
		"LOCK TABLE authors",
		"REFRESH MATERIALIZED VIEW mv",
		"CREATE TYPE t AS ENUM ('a')",
		"ALTER TYPE mood ADD VALUE 'new'",
		"CREATE SCHEMA s2",
		"CREATE EXTENSION hstore",
		"SELECT",
		"SELECT FROM authors",
		"TABLE authors",
	},
	"mysql": {
		"INSERT INTO authors VALUES (?, ?, ?)",
		"INSERT INTO authors VALUES (?), (?)",
		"INSERT INTO authors (id) VALUES (?, ?)",
		"INSERT INTO authors (id, name) VALUES (?)",
		"INSERT INTO authors (id, name) VALUES (?, ?), (?, ?)",
		"INSERT INTO authors SET id = ?, name = ?",
		"INSERT INTO authors (id, name) SELECT ?, ?",
		"INSERT INTO authors (id, name) VALUES (?, ?) ON DUPLICATE KEY UPDATE name = ?",
		"REPLACE INTO authors (id, name) VALUES (?, ?)",
		"SELECT ?",
		"SELECT ? AS x",
		"SELECT 1 WHERE ?",
		"SELECT id FROM authors WHERE db.authors.id = ?",
		"SELECT id FROM authors WHERE a.b.c.d = ?",
		"SELECT id FROM authors LIMIT ?",
		"SELECT id FROM authors LIMIT ?, ?",
		"SELECT id FROM authors LIMIT ? OFFSET ?",
		"SELECT id FROM authors ORDER BY ?",
		"SELECT id FROM authors WHERE id IN (?, ?)",
		"SELECT id FROM authors WHERE id BETWEEN ? AND ?",
		"SELECT id FROM authors WHERE name LIKE ?",
		"SELECT id FROM authors WHERE name REGEXP ?",
		"SELECT id FROM authors WHERE id = (SELECT ?)",
		"SELECT * FROM (SELECT ?) s",
		"SELECT CASE WHEN ? THEN 1 ELSE 2 END",
		"SELECT COALESCE(?, ?)",
		"SELECT IF(?, 1, 2)",
		"SELECT CAST(? AS SIGNED)",
		"SELECT CONCAT(?, ?)",
		"SELECT nosuch(?)",
		"SELECT count(*)",
		"UPDATE authors SET name = ?",
		"UPDATE authors a JOIN books b ON b.author_id = a.id SET a.name = ? WHERE b.id = ?",
		"UPDATE authors SET name = ? ORDER BY id LIMIT ?",
		"DELETE FROM authors WHERE id = ? LIMIT ?",
		"DELETE a FROM authors a JOIN books b ON b.author_id = a.id WHERE b.id = ?",
		"DELETE FROM nowhere WHERE id = ?",
		"TRUNCATE TABLE authors",
		"SELECT id FROM authors UNION SELECT ?",
		"SELECT id FROM authors FOR UPDATE",
		"SELECT sqlc.arg(x)",
		"SELECT @x",
		"CREATE TABLE t2 (id int)",
		"CREATE INDEX i ON authors (id)",
		"ALTER TABLE authors ADD COLUMN x int",
		"DROP TABLE authors",
		"EXPLAIN SELECT 1",
		"SHOW TABLES",
		"USE db",
		"SET @a = 1",
		"BEGIN",
		"CALL p(1)",
		"LOCK TABLES authors READ",
		"ANALYZE TABLE authors",
		"DESCRIBE authors",
		"SELECT",
		"WITH c AS (SELECT ?) SELECT * FROM c",
	},
}

// tokenMutate: one token-level mutation of a statement
func tokenMutate(r *Rng, sql string) (string, string) {
	toks := strings.Fields(sql)
	if len(toks) < 2 {
		return sql + " " + sql, "double"
	}
	i := r.Intn(len(toks))
	switch r.Intn(9) {
	case 0:
		return strings.Join(append(append([]string{}, toks[:i]...), toks[i+1:]...), " "), "delete-token"
	case 1:
		return strings.Join(append(append(append([]string{}, toks[:i]...), toks[i], toks[i]), toks[i+1:]...), " "), "duplicate-token"
	case 2:
		if i+1 < len(toks) {
			t := append([]string{}, toks...)
			t[i], t[i+1] = t[i+1], t[i]
			return strings.Join(t, " "), "swap-tokens"
		}
		return strings.Join(toks[:i], " "), "truncate"
	case 3:
		return strings.Join(toks[:i+1], " "), "truncate"
	case 4:
		t := append([]string{}, toks...)
		t[i] = r.Pick([]string{"SELECT", "FROM", "NULL", "(", ")", "*", ",", "$1", "$2", "?", "'", "\"", ";", "--", "/*", "::", "@", "sqlc.arg(", ".", "a.b.c.d"})
		return strings.Join(t, " "), "replace-token"
	case 5:
		return sql[:r.Intn(len(sql))], "truncate-bytes"
	case 6:
		p := r.Intn(len(sql))
		return sql[:p] + string([]byte{byte(r.Intn(256))}) + sql[p:], "insert-byte"
	case 7:
		return strings.Replace(sql, "$1", "$"+fmt.Sprint(1+r.Intn(5)), 1), "renumber"
	default:
		return strings.Replace(sql, "(", "((", 1), "unbalance"
	}
}

func c18GenCase(id string, files map[string]string, tags []string, known []string, prep func(dir string)) Case {
	dir := writeTree(files)
	defer os.RemoveAll(dir)
	if prep != nil {
		prep(dir)
	}
	res := generateDir(dir)
	obs := J{"outcome": "ok"}
	oracle := ""
	switch {
	case res.Timeout:
		obs["outcome"] = "timeout"
		oracle = "sqlc did not terminate within 20 s"
	case res.Panic != "":
		obs["outcome"] = "panic"
		obs["panic"] = firstLine(res.Panic)
		obs["site"] = res.PanicSite
		known = append(known, "site:"+res.PanicSite)
		oracle = fmt.Sprintf("sqlc aborts with a Go panic at %s: %s", res.PanicSite, firstLine(res.Panic))
	case res.Err != "":
		obs["outcome"] = "error"
		if strings.TrimSpace(res.Stderr) == "" && strings.TrimSpace(res.Err) == "" {
			oracle = "failure without any diagnostic"
		}
	}
	in := J{"files": files}
	return Case{ID: id, Kind: "gen", In: in, Impl: obs, Oracle: oracle, Tags: tags, Known: known}
}

// analysisKnown: a crash before the model has anything to say (inside the engine's parser conversion) is
// identified by its site only
func analysisKnown(res analysisResult) []string {
	if res.Impl["err"] == "panic" && !res.Parsed {
		return []string{"site:" + fmt.Sprint(res.Impl["site"])}
	}
	return nil
}

func runC18(r *Rng, n int, tier string) {
	id := 0
	next := func(p string) string { id++; return fmt.Sprintf("%s-%d", p, id) }
	// ---- analysis: the zoo, then mutations of the zoo and of generated statements
	for _, eng := range []string{"postgresql", "mysql"} {
		for _, st := range c18Zoo[eng] {
			for _, cmd := range []string{":many", ":exec"} {
				res := analyzeStatement(eng, c18Schema[eng], fmt.Sprintf("-- name: Z %s\n%s;\n", cmd, st), false)
				res.In["stmt"] = st
				res.In["cmd"] = cmd
				emit(Case{ID: next("zoo"), Kind: "analysis", In: res.In, Impl: res.Impl, Tags: []string{"zoo", eng}, Known: analysisKnown(res)})
			}
		}
	}
	for i := 0; i < n; i++ {
		eng := "postgresql"
		if r.Chance(25) {
			eng = "mysql"
		}
		var st, how string
		if r.Bool() {
			st, how = tokenMutate(r, r.Pick(c18Zoo[eng]))
		} else {
			s := genQSchema(r, eng)
			q := genQStmt(r, s, i, true)
			st, how = tokenMutate(r, q.SQL)
			res := analyzeStatement(eng, s.DDL(), fmt.Sprintf("-- name: M %s\n%s;\n", q.Cmd, st), false)
			res.In["stmt"] = st
			res.In["cmd"] = q.Cmd
			emit(Case{ID: next("mut"), Kind: "analysis", In: res.In, Impl: res.Impl, Tags: []string{"mutated:" + how, eng}, Known: analysisKnown(res)})
			continue
		}
		cmd := r.Pick([]string{":many", ":one", ":exec", ":execrows"})
		res := analyzeStatement(eng, c18Schema[eng], fmt.Sprintf("-- name: M %s\n%s;\n", cmd, st), false)
		res.In["stmt"] = st
		res.In["cmd"] = cmd
		emit(Case{ID: next("mut"), Kind: "analysis", In: res.In, Impl: res.Impl, Tags: []string{"mutated:" + how, eng}, Known: analysisKnown(res)})
	}
	// ---- gen: configuration zoo
	okSchema := "CREATE TABLE t (id bigint NOT NULL);\n"
	okQuery := "-- name: Get :one\nSELECT id FROM t WHERE id = $1;\n"
	confs := []struct{ tag, body, known string }{
		{"unknown-engine", `{"version":"1","packages":[{"path":"db","engine":"oracle","schema":"schema.sql","queries":"query.sql"}]}`, "unknownEngine"},
		{"empty-engine", `{"version":"1","packages":[{"path":"db","engine":"","schema":"schema.sql","queries":"query.sql"}]}`, ""},
		{"lemon-engine", `{"version":"1","packages":[{"path":"db","engine":"_lemon","schema":"schema.sql","queries":"query.sql"}]}`, ""},
		{"unknown-version", `{"version":"7","packages":[]}`, ""},
		{"no-version", `{"packages":[]}`, ""},
		{"no-packages", `{"version":"1"}`, ""},
		{"empty-object", `{}`, ""},
		{"empty-file", ``, ""},
		{"not-json", `{{{{`, ""},
		{"array", `[1,2,3]`, ""},
		{"null", `null`, ""},
		{"unknown-field", `{"version":"1","packages":[{"path":"db","engine":"postgresql","schema":"schema.sql","queries":"query.sql","nosuch":true}]}`, ""},
		{"wrong-types", `{"version":1,"packages":{"path":[]}}`, ""},
		{"missing-path", `{"version":"1","packages":[{"engine":"postgresql","schema":"schema.sql","queries":"query.sql"}]}`, ""},
		{"missing-schema-file", `{"version":"1","packages":[{"path":"db","engine":"postgresql","schema":"nosuch.sql","queries":"query.sql"}]}`, ""},
		{"missing-queries-file", `{"version":"1","packages":[{"path":"db","engine":"postgresql","schema":"schema.sql","queries":"nosuch.sql"}]}`, ""},
		{"schema-is-dir-empty", `{"version":"1","packages":[{"path":"db","engine":"postgresql","schema":"emptydir","queries":"query.sql"}]}`, ""},
		{"no-schema-key", `{"version":"1","packages":[{"path":"db","engine":"postgresql","queries":"query.sql"}]}`, ""},
		{"no-queries-key", `{"version":"1","packages":[{"path":"db","engine":"postgresql","schema":"schema.sql"}]}`, ""},
		{"bad-override", `{"version":"1","packages":[{"path":"db","engine":"postgresql","schema":"schema.sql","queries":"query.sql","overrides":[{"go_type":"x"}]}]}`, ""},
		{"override-both", `{"version":"1","packages":[{"path":"db","engine":"postgresql","schema":"schema.sql","queries":"query.sql","overrides":[{"go_type":"string","column":"t.id","db_type":"text"}]}]}`, ""},
		{"override-bad-column", `{"version":"1","packages":[{"path":"db","engine":"postgresql","schema":"schema.sql","queries":"query.sql","overrides":[{"go_type":"string","column":"a.b.c.d.e"}]}]}`, ""},
		{"override-empty-gotype", `{"version":"1","packages":[{"path":"db","engine":"postgresql","schema":"schema.sql","queries":"query.sql","overrides":[{"go_type":"","column":"t.id"}]}]}`, ""},
		{"bad-case-style", `{"version":"1","packages":[{"path":"db","engine":"postgresql","schema":"schema.sql","queries":"query.sql","emit_json_tags":true,"json_tags_case_style":"weird"}]}`, ""},
		{"v2-unknown-engine", `{"version":"2","sql":[{"engine":"oracle","schema":"schema.sql","queries":"query.sql","gen":{"go":{"out":"db","package":"db"}}}]}`, "unknownEngine"},
		{"v2-no-gen", `{"version":"2","sql":[{"engine":"postgresql","schema":"schema.sql","queries":"query.sql"}]}`, ""},
		{"v2-empty-gen", `{"version":"2","sql":[{"engine":"postgresql","schema":"schema.sql","queries":"query.sql","gen":{}}]}`, ""},
		{"v2-kotlin-mysql", `{"version":"2","sql":[{"engine":"mysql","schema":"schema.sql","queries":"query.sql","gen":{"kotlin":{"out":"kt","package":"p"}}}]}`, ""},
		{"v2-python", `{"version":"2","sql":[{"engine":"postgresql","schema":"schema.sql","queries":"query.sql","gen":{"python":{"out":"py","package":"p"}}}]}`, ""},
		{"v2-all-targets", `{"version":"2","sql":[{"engine":"postgresql","schema":"schema.sql","queries":"query.sql","gen":{"go":{"out":"db","package":"db"},"kotlin":{"out":"kt","package":"p"},"python":{"out":"py","package":"p"}}}]}`, ""},
		{"v2-no-out", `{"version":"2","sql":[{"engine":"postgresql","schema":"schema.sql","queries":"query.sql","gen":{"go":{"package":"db"}}}]}`, ""},
		{"deep-json", strings.Repeat(`{"a":`, 2000) + "1" + strings.Repeat("}", 2000), ""},
	}
	for _, c := range confs {
		files := map[string]string{"schema.sql": okSchema, "query.sql": okQuery, "sqlc.json": c.body, "emptydir/.keep": ""}
		var kn []string
		if c.known != "" {
			kn = []string{c.known}
		}
		emit(c18GenCase(next("conf"), files, []string{"config:" + c.tag}, kn, nil))
	}
	// ---- gen: option values. Every string-valued option of an override / package with malformed contents
	for i := 0; i < n/2+25; i++ {
		gt := randGoTypeSpec(r)
		ov := fmt.Sprintf(`{"column":"t.id","go_type":%s}`, gt)
		switch r.Intn(6) {
		case 0:
			ov = fmt.Sprintf(`{"db_type":%s,"go_type":%s}`, jsonStr(r.Pick([]string{"", ".", "pg_catalog.", ".int8", "a.b.c", "int8[]", " ", "pg_catalog.int8"})), gt)
		case 1:
			ov = fmt.Sprintf(`{"column":%s,"go_type":%s}`, jsonStr(r.Pick([]string{"", ".", "t.", ".id", "a.b.c.d", "a.b.c.d.e", "t..id", "*.id", "t.*", " t.id"})), gt)
		}
		pkgExtra := ""
		if r.Chance(25) {
			pkgExtra = fmt.Sprintf(`,"name":%s`, jsonStr(r.Pick([]string{"", "db", "9db", "d-b", "type", "DB", "d b", "é"})))
		}
		if r.Chance(15) {
			pkgExtra += fmt.Sprintf(`,"emit_json_tags":true,"json_tags_case_style":%s`, jsonStr(r.Pick([]string{"", "camel", "pascal", "snake", "Camel", "kebab"})))
		}
		body := fmt.Sprintf(`{"version":"1","packages":[{"path":"db","engine":"postgresql","schema":"schema.sql","queries":"query.sql","overrides":[%s]%s}]}`, ov, pkgExtra)
		if r.Chance(30) {
			body = fmt.Sprintf(`{"version":"2","sql":[{"engine":"postgresql","schema":"schema.sql","queries":"query.sql","gen":{"go":{"out":"db","package":"db","overrides":[%s]}}}]}`, ov)
		} else if r.Chance(20) {
			body = fmt.Sprintf(`{"version":"1","overrides":[%s],"rename":{%s:%s},"packages":[{"path":"db","engine":"postgresql","schema":"schema.sql","queries":"query.sql"}]}`, ov,
				jsonStr(r.Pick([]string{"id", "", "t.id", "ID"})), jsonStr(r.Pick([]string{"Ident", "", "9x", "a b", "type"})))
		}
		files := map[string]string{"schema.sql": okSchema, "query.sql": okQuery, "sqlc.json": body}
		emit(c18GenCase(next("opt"), files, []string{"config:option-values"}, nil, nil))
	}
	// ---- gen: file-system conditions
	conf := `{"version":"1","packages":[{"path":"db","engine":"postgresql","schema":"schema","queries":"queries"}]}`
	fsCases := []struct {
		tag  string
		prep func(dir string)
	}{
		{"plain-dirs", nil},
		{"empty-schema-file", func(d string) { ioutil.WriteFile(filepath.Join(d, "schema/a.sql"), nil, 0644) }},
		{"empty-query-file", func(d string) { ioutil.WriteFile(filepath.Join(d, "queries/q.sql"), nil, 0644) }},
		{"subdir-in-schema", func(d string) { os.MkdirAll(filepath.Join(d, "schema/sub.sql"), 0755) }},
		{"subdir-in-queries", func(d string) { os.MkdirAll(filepath.Join(d, "queries/sub.sql"), 0755) }},
		{"dangling-link-schema", func(d string) { os.Symlink("nosuch.sql", filepath.Join(d, "schema/z.sql")) }},
		{"dangling-link-queries", func(d string) { os.Symlink("nosuch.sql", filepath.Join(d, "queries/z.sql")) }},
		{"self-link-schema", func(d string) { os.Symlink("z.sql", filepath.Join(d, "schema/z.sql")) }},
		{"self-link-queries", func(d string) { os.Symlink("z.sql", filepath.Join(d, "queries/z.sql")) }},
		{"link-cycle", func(d string) {
			os.Symlink("y.sql", filepath.Join(d, "schema/x.sql"))
			os.Symlink("x.sql", filepath.Join(d, "schema/y.sql"))
		}},
		{"link-through-file", func(d string) { os.Symlink("a.sql/inner.sql", filepath.Join(d, "schema/z.sql")) }},
		{"link-to-dir", func(d string) { os.Symlink(".", filepath.Join(d, "schema/z.sql")) }},
		{"link-to-file", func(d string) { os.Symlink("a.sql", filepath.Join(d, "schema/z.sql")) }},
		{"unreadable-file", func(d string) { os.Chmod(filepath.Join(d, "schema/a.sql"), 0000) }},
		{"hidden-file", func(d string) { ioutil.WriteFile(filepath.Join(d, "schema/.hidden.sql"), []byte("garbage"), 0644) }},
		{"non-sql-file", func(d string) { ioutil.WriteFile(filepath.Join(d, "schema/readme.txt"), []byte("garbage"), 0644) }},
		{"binary-file", func(d string) { ioutil.WriteFile(filepath.Join(d, "schema/b.sql"), []byte{0, 1, 2, 255, 254, 0}, 0644) }},
		{"fifo-less-device", func(d string) { os.Symlink("/dev/null", filepath.Join(d, "schema/n.sql")) }},
		{"out-dir-is-file", func(d string) { ioutil.WriteFile(filepath.Join(d, "db"), []byte("x"), 0644) }},
	}
	for _, c := range fsCases {
		files := map[string]string{"schema/a.sql": okSchema, "queries/q.sql": okQuery, "sqlc.json": conf}
		emit(c18GenCase(next("fs"), files, []string{"fs:" + c.tag}, nil, c.prep))
	}
	// ---- gen: schema histories. Every DDL statement kind the catalog interprets, alone and in sequences, with
	// several actions per ALTER TABLE, on existing and on missing objects
	venue := map[string]string{
		"postgresql": "CREATE TABLE venue (id bigint NOT NULL, legacy text, name text, slug text NOT NULL, dropped int);\n",
		"mysql":      "CREATE TABLE venue (id bigint NOT NULL, legacy text, name varchar(50), slug varchar(50) NOT NULL, dropped int);\n",
	}
	vcols := []string{"id", "legacy", "name", "slug", "dropped", "added", "nosuch"}
	ddlZoo := map[string][]string{
		"postgresql": {
			"ALTER TABLE venue DROP COLUMN legacy, DROP COLUMN dropped",
			"ALTER TABLE venue DROP COLUMN legacy, ALTER COLUMN name SET NOT NULL",
			"ALTER TABLE venue DROP COLUMN id, DROP COLUMN legacy, DROP COLUMN name, DROP COLUMN slug, DROP COLUMN dropped",
			"ALTER TABLE venue ADD COLUMN added int, DROP COLUMN added",
			"ALTER TABLE venue DROP COLUMN dropped, ADD COLUMN dropped text, ALTER COLUMN dropped SET NOT NULL",
			"ALTER TABLE venue ALTER COLUMN slug DROP NOT NULL, ALTER COLUMN slug TYPE int, DROP COLUMN slug",
			"ALTER TABLE venue DROP COLUMN IF EXISTS nosuch, DROP COLUMN dropped",
			"ALTER TABLE venue RENAME COLUMN dropped TO kept; ALTER TABLE venue DROP COLUMN kept, DROP COLUMN legacy",
			"ALTER TABLE venue RENAME TO place; ALTER TABLE place DROP COLUMN legacy, DROP COLUMN dropped",
			"ALTER TABLE venue SET SCHEMA public",
			"CREATE SCHEMA s; ALTER TABLE venue SET SCHEMA s; ALTER TABLE s.venue DROP COLUMN legacy, DROP COLUMN dropped",
			"DROP TABLE venue; DROP TABLE IF EXISTS venue",
			"CREATE TYPE v AS ENUM ('a'); ALTER TYPE v ADD VALUE 'b' BEFORE 'a'; ALTER TYPE v ADD VALUE IF NOT EXISTS 'b'; ALTER TYPE v RENAME VALUE 'a' TO 'c'; DROP TYPE v",
			"COMMENT ON TABLE venue IS 'x'; COMMENT ON COLUMN venue.name IS 'y'; COMMENT ON COLUMN venue.nosuch IS 'z'",
			"CREATE TABLE venue2 (LIKE venue); ALTER TABLE venue2 DROP COLUMN legacy, DROP COLUMN dropped",
			"CREATE TABLE child () INHERITS (venue); ALTER TABLE child DROP COLUMN legacy, DROP COLUMN dropped",
			"CREATE TABLE part (id int, k int) PARTITION BY RANGE (k); CREATE TABLE part1 PARTITION OF part FOR VALUES FROM (0) TO (10)",
			"DROP FUNCTION IF EXISTS nosuch(int); DROP FUNCTION plus(int, int); DROP FUNCTION plus(int, int)",
			"DROP SCHEMA public; CREATE TABLE t9 (id int)",
			"CREATE TABLE venue (id int)",
			"ALTER TABLE nosuch DROP COLUMN a, DROP COLUMN b",
			"ALTER TABLE IF EXISTS nosuch DROP COLUMN a, DROP COLUMN b",
		},
		"mysql": {
			"ALTER TABLE venue DROP COLUMN legacy, DROP COLUMN dropped",
			"ALTER TABLE venue DROP COLUMN legacy, MODIFY COLUMN name varchar(10) NOT NULL",
			"ALTER TABLE venue DROP COLUMN legacy, CHANGE COLUMN dropped kept bigint",
			"ALTER TABLE venue ADD COLUMN added int, DROP COLUMN added",
			"ALTER TABLE venue ADD COLUMN added int FIRST, ADD COLUMN added2 int AFTER id, DROP COLUMN dropped",
			"ALTER TABLE venue RENAME COLUMN dropped TO kept, DROP COLUMN legacy",
			"ALTER TABLE venue DROP COLUMN legacy, RENAME COLUMN dropped TO kept",
			"ALTER TABLE venue RENAME TO place; ALTER TABLE place DROP COLUMN legacy, DROP COLUMN dropped",
			"RENAME TABLE venue TO place, authors TO writers",
			"CREATE TABLE venue2 LIKE venue; ALTER TABLE venue2 DROP COLUMN legacy, DROP COLUMN dropped",
			"DROP TABLE venue; DROP TABLE IF EXISTS venue",
			"ALTER TABLE nosuch DROP COLUMN a, DROP COLUMN b",
			"ALTER TABLE venue DROP COLUMN nosuch, DROP COLUMN dropped",
			"ALTER TABLE venue MODIFY COLUMN nosuch int",
			"ALTER TABLE venue CHANGE COLUMN nosuch other int",
			"CREATE TABLE venue (id int)",
		},
	}
	for _, eng := range []string{"postgresql", "mysql"} {
		q := "-- name: V :many\nSELECT 1;\n"
		for _, st := range ddlZoo[eng] {
			files := map[string]string{"schema.sql": c18Schema[eng] + venue[eng] + st + ";\n", "query.sql": q, "sqlc.json": fmt.Sprintf(`{"version":"1","packages":[{"path":"db","engine":"%s","schema":"schema.sql","queries":"query.sql"}]}`, eng)}
			emit(c18GenCase(next("ddl"), files, []string{"ddl:zoo", eng}, nil, nil))
		}
	}
	for i := 0; i < n/2; i++ {
		eng := "postgresql"
		if r.Chance(35) {
			eng = "mysql"
		}
		var stmts []string
		how := "ddl:multi-action"
		if eng == "postgresql" && r.Chance(40) {
			// the catalog property's own history generator, as schema text
			g := NewDDLGen(r.Fork())
			g.Wild = 5 + r.Intn(30)
			stmts = append(stmts, strings.TrimSuffix(strings.TrimSpace(historySQL(guidedHistory(g, r, 3+r.Intn(20), 6))), ";"))
			how = "ddl:history"
		} else {
			live := []string{"id", "legacy", "name", "slug", "dropped"}
			fresh := 0
			pick := func() (string, int) { // a column of the table as it is now (mostly), or a name it does not have
				if len(live) == 0 || r.Chance(12) {
					return r.Pick(vcols), -1
				}
				k := r.Intn(len(live))
				return live[k], k
			}
			for k := 0; k < 1+r.Intn(3); k++ {
				var acts []string
				for a := 0; a < 1+r.Intn(4); a++ {
					c, at := pick()
					switch r.Intn(6) {
					case 0, 1:
						acts = append(acts, "DROP COLUMN "+c)
						if at >= 0 {
							live = append(append([]string{}, live[:at]...), live[at+1:]...)
						}
					case 2:
						fresh++
						nc := fmt.Sprintf("added%d", fresh)
						acts = append(acts, "ADD COLUMN "+nc+" int")
						live = append(live, nc)
					case 3:
						if eng == "mysql" {
							acts = append(acts, "MODIFY COLUMN "+c+" bigint NOT NULL")
						} else {
							acts = append(acts, "ALTER COLUMN "+c+" SET NOT NULL")
						}
					case 4:
						if eng == "mysql" {
							fresh++
							nc := fmt.Sprintf("changed%d", fresh)
							acts = append(acts, "CHANGE COLUMN "+c+" "+nc+" text")
							if at >= 0 {
								live[at] = nc
							}
						} else {
							acts = append(acts, "ALTER COLUMN "+c+" TYPE text")
						}
					default:
						if eng == "mysql" {
							fresh++
							nc := fmt.Sprintf("renamed%d", fresh)
							acts = append(acts, "RENAME COLUMN "+c+" TO "+nc)
							if at >= 0 {
								live[at] = nc
							}
						} else {
							acts = append(acts, "ALTER COLUMN "+c+" DROP NOT NULL")
						}
					}
				}
				stmts = append(stmts, "ALTER TABLE venue "+strings.Join(acts, ", "))
			}
		}
		files := map[string]string{"schema.sql": c18Schema[eng] + venue[eng] + strings.Join(stmts, ";\n") + ";\n", "query.sql": "-- name: V :many\nSELECT 1;\n",
			"sqlc.json": fmt.Sprintf(`{"version":"1","packages":[{"path":"db","engine":"%s","schema":"schema.sql","queries":"query.sql"}]}`, eng)}
		emit(c18GenCase(next("ddl"), files, []string{how, eng}, nil, nil))
	}
	// ---- gen: comment shapes around and inside a query (every line-based pass over the text must terminate)
	commentZoo := []string{
		"-- name: A :many\n/* one line */ SELECT 1;\n",
		"-- name: A :many\n/* every row,\n   in no particular order */ SELECT 1;\n",
		"-- name: A :many\n/* multi\nline */\nSELECT 1;\n",
		"-- name: A :many\n/* multi\nline */ \nSELECT 1;\n",
		"-- name: A :many\n/* multi\nline */ -- then a dash comment\nSELECT 1;\n",
		"/* before\n the annotation */\n-- name: A :many\nSELECT 1;\n",
		"/* before */ -- name: A :many\nSELECT 1;\n",
		"-- name: A :many\nSELECT /* inline\n multi */ 1;\n",
		"-- name: A :many\nSELECT 1 /* trailing\n multi */;\n",
		"-- name: A :many\nSELECT 1; /* after the statement\n multi */\n",
		"-- name: A :many\nSELECT 1 /* unterminated\n",
		"-- name: A :many\n/* unterminated\nSELECT 1;\n",
		"-- name: A :many\n/* nested /* inner */ outer */ SELECT 1;\n",
		"-- name: A :many\n/*\n*/SELECT 1;\n",
		"-- name: A :many\n/**/ SELECT 1;\n",
		"-- name: A :many\n/* a */ /* b\n c */ SELECT 1;\n",
		"-- name: A :many\n--\n--\n-- \nSELECT 1;\n",
		"-- name: A :many\n-- doc /* not a block\nSELECT 1;\n",
		"-- name: A :many\nSELECT '/* in a literal\n still */ x';\n",
		"-- name: A :many\nSELECT 1;\n-- name: B :many\n/* second,\n multi */ SELECT 2;\n",
		"-- name: A :many\r\n/* crlf\r\n block */ SELECT 1;\r\n",
		"/* name: A :many */\n/* block\n doc */ SELECT 1;\n",
	}
	for _, eng := range []string{"postgresql", "mysql"} {
		for _, q := range commentZoo {
			files := map[string]string{"schema.sql": c18Schema[eng], "query.sql": q, "sqlc.json": fmt.Sprintf(`{"version":"1","packages":[{"path":"db","engine":"%s","schema":"schema.sql","queries":"query.sql"}]}`, eng)}
			emit(c18GenCase(next("cmt"), files, []string{"comments:zoo", eng}, nil, nil))
			if eng == "mysql" {
				files2 := map[string]string{"schema.sql": c18Schema[eng], "query.sql": strings.Replace(q, "-- name:", "# name:", 1), "sqlc.json": files["sqlc.json"]}
				emit(c18GenCase(next("cmt"), files2, []string{"comments:zoo-hash", eng}, nil, nil))
			}
		}
	}
	// ---- gen: result lists with repeated names next to names that already look de-duplicated
	dupSchema := "CREATE TABLE ledger (id bigint NOT NULL, total int NOT NULL, total_2 int NOT NULL, total_3 int, id_2 bigint);\n"
	for di, q := range []string{
		"SELECT total, total, total_2 FROM ledger",
		"SELECT total, total_2, total FROM ledger",
		"SELECT total_2, total, total, total FROM ledger",
		"SELECT id, id, id_2, total, total, total_2, total_3 FROM ledger",
		"SELECT a.id, b.id, a.id_2, b.id_2, a.total, b.total, a.total_2 FROM ledger a JOIN ledger b ON a.id = b.id_2",
		"SELECT total, total AS total_2, total_2 FROM ledger",
		"SELECT count(*), count(*), count(*) AS count_2 FROM ledger",
		"INSERT INTO ledger (id, total, total_2) VALUES ($1, $2, $3) RETURNING total, total, total_2",
	} {
		for _, extra := range []string{"", `"emit_json_tags":true`, `"emit_json_tags":true,"emit_db_tags":true,"json_tags_case_style":"camel"`} {
			files := map[string]string{"schema.sql": dupSchema, "query.sql": "-- name: D :many\n" + q + ";\n", "sqlc.json": confV1("postgresql", extra)}
			emit(c18GenCase(next("dup"), files, []string{fmt.Sprintf("dupcols:%d", di)}, nil, nil))
		}
	}
	// ---- gen: byte strings and mutated projects
	goodConf := `{"version":"1","packages":[{"path":"db","engine":"%s","schema":"schema.sql","queries":"query.sql"}]}`
	for i := 0; i < n; i++ {
		eng := "postgresql"
		if r.Chance(30) {
			eng = "mysql"
		}
		schema, query := c18Schema[eng], "-- name: A :many\n"+r.Pick(c18Zoo[eng])+";\n"
		how := "zoo-in-project"
		switch r.Intn(6) {
		case 0:
			b := make([]byte, r.Intn(200))
			for k := range b {
				b[k] = byte(r.Intn(256))
			}
			schema, how = string(b), "random-bytes-schema"
		case 1:
			b := make([]byte, r.Intn(200))
			for k := range b {
				b[k] = byte(r.Intn(256))
			}
			query, how = "-- name: A :many\n"+string(b), "random-bytes-query"
		case 2:
			schema, how = tokenMutate(r, schema)
			how = "schema-" + how
		case 3:
			// schema statement zoo: every statement kind as DDL input
			schema += r.Pick(c18Zoo[eng]) + ";\n"
			how = "zoo-in-schema"
		case 4:
			var qs []string
			for k := 0; k < 1+r.Intn(4); k++ {
				st, _ := tokenMutate(r, r.Pick(c18Zoo[eng]))
				qs = append(qs, fmt.Sprintf("-- name: Q%d %s\n%s;\n", k, r.Pick([]string{":many", ":one", ":exec", ":execresult", ":bogus", ""}), st))
			}
			query, how = strings.Join(qs, "\n"), "mutated-queries"
		}
		files := map[string]string{"schema.sql": schema, "query.sql": query, "sqlc.json": fmt.Sprintf(goodConf, eng)}
		emit(c18GenCase(next("proj"), files, []string{"proj:" + how, eng}, nil, nil))
	}
}
