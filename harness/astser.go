package main

// Serialiser of sqlc's engine-neutral AST (internal/sql/ast) for the Lean model.
// A node becomes {"k": kind, "f": [[field, walked, value], ...]}: the node-valued fields that the REAL
// astutils.Walk visits come first, in the order it visits them (obtained by running Walk with a
// recording visitor), marked walked=true; all other fields follow with walked=false. The model
// therefore needs no per-kind knowledge of the ~230 node kinds.

import (
	"fmt"
	"reflect"

	"github.com/kyleconroy/sqlc/internal/sql/ast"
	"github.com/kyleconroy/sqlc/internal/sql/astutils"
)

type recVisitor struct {
	root ast.Node
	kids *[]ast.Node
}

func (r recVisitor) Visit(n ast.Node) astutils.Visitor {
	if n == r.root {
		return r
	}
	*r.kids = append(*r.kids, n)
	return nil
}

// walkedChildren: the direct children the real Walk visits, in order; panicked=true if Walk does not
// know the node kind
func walkedChildren(n ast.Node) (kids []ast.Node, panicked bool) {
	defer func() {
		if p := recover(); p != nil {
			panicked = true
		}
	}()
	astutils.Walk(recVisitor{root: n, kids: &kids}, n)
	return
}

var nodeType = reflect.TypeOf((*ast.Node)(nil)).Elem()

func isNilValue(v reflect.Value) bool {
	switch v.Kind() {
	case reflect.Ptr, reflect.Interface, reflect.Slice, reflect.Map:
		return v.IsNil()
	}
	return false
}

type astSer struct {
	walkPanics []string
	depth      int
}

func (s *astSer) value(v reflect.Value) interface{} {
	if !v.IsValid() {
		return nil
	}
	switch v.Kind() {
	case reflect.Interface:
		if v.IsNil() {
			return nil
		}
		return s.value(v.Elem())
	case reflect.Ptr:
		if v.IsNil() {
			return nil
		}
		if v.Type().Implements(nodeType) {
			return s.node(v.Interface().(ast.Node))
		}
		return s.value(v.Elem())
	case reflect.Struct:
		// a node held by value (e.g. ast.TypeName inside a column definition)
		if v.CanAddr() && v.Addr().Type().Implements(nodeType) {
			return s.node(v.Addr().Interface().(ast.Node))
		}
		pv := reflect.New(v.Type())
		pv.Elem().Set(v)
		if pv.Type().Implements(nodeType) {
			return s.node(pv.Interface().(ast.Node))
		}
		return fmt.Sprintf("<%s>", v.Type().Name())
	case reflect.Slice:
		if v.Type().Elem().Kind() == reflect.Uint8 {
			return string(v.Bytes())
		}
		items := []interface{}{}
		for i := 0; i < v.Len(); i++ {
			items = append(items, s.value(v.Index(i)))
		}
		return J{"k": "Slice", "items": items}
	case reflect.String:
		return v.String()
	case reflect.Bool:
		return v.Bool()
	case reflect.Int, reflect.Int8, reflect.Int16, reflect.Int32, reflect.Int64:
		return v.Int()
	case reflect.Uint, reflect.Uint8, reflect.Uint16, reflect.Uint32, reflect.Uint64:
		return v.Uint()
	case reflect.Float32, reflect.Float64:
		return fmt.Sprint(v.Float())
	}
	return fmt.Sprintf("<%s>", v.Kind())
}

func (s *astSer) node(n ast.Node) interface{} {
	rv := reflect.ValueOf(n)
	if rv.Kind() == reflect.Ptr && rv.IsNil() {
		return nil
	}
	s.depth++
	defer func() { s.depth-- }()
	if s.depth > 400 {
		return J{"k": "TooDeep", "f": []interface{}{}}
	}
	kind := rv.Type().String()
	if rv.Kind() == reflect.Ptr {
		kind = rv.Elem().Type().Name()
	}
	kids, panicked := walkedChildren(n)
	if panicked {
		s.walkPanics = append(s.walkPanics, kind)
	}
	if l, ok := n.(*ast.List); ok {
		items := []interface{}{}
		for _, it := range l.Items {
			items = append(items, s.value(reflect.ValueOf(it)))
		}
		return J{"k": "List", "items": items}
	}
	sv := rv
	if sv.Kind() == reflect.Ptr {
		sv = sv.Elem()
	}
	if sv.Kind() != reflect.Struct {
		return J{"k": kind, "f": []interface{}{}}
	}
	type fld struct {
		name   string
		walked bool
		val    reflect.Value
	}
	var fields []fld
	used := map[int]bool{}
	// walked children first, in Walk's order, matched to fields by identity
	for _, kid := range kids {
		kv := reflect.ValueOf(kid)
		found := false
		for i := 0; i < sv.NumField(); i++ {
			if used[i] {
				continue
			}
			fv := sv.Field(i)
			if !fv.CanInterface() {
				continue
			}
			var same bool
			switch fv.Kind() {
			case reflect.Ptr:
				same = !fv.IsNil() && kv.Kind() == reflect.Ptr && fv.Pointer() == kv.Pointer() && fv.Type() == kv.Type()
			case reflect.Interface:
				if !fv.IsNil() {
					e := fv.Elem()
					same = e.Kind() == reflect.Ptr && kv.Kind() == reflect.Ptr && e.Pointer() == kv.Pointer() && e.Type() == kv.Type()
				}
			}
			if same {
				fields = append(fields, fld{sv.Type().Field(i).Name, true, fv})
				used[i] = true
				found = true
				break
			}
		}
		if !found {
			// a child Walk reaches through something other than a plain field (slice element, …)
			fields = append(fields, fld{"?", true, kv})
		}
	}
	for i := 0; i < sv.NumField(); i++ {
		if used[i] || !sv.Field(i).CanInterface() {
			continue
		}
		fv := sv.Field(i)
		if isNilValue(fv) {
			continue
		}
		fields = append(fields, fld{sv.Type().Field(i).Name, false, fv})
	}
	out := make([]interface{}, 0, len(fields))
	for _, f := range fields {
		out = append(out, []interface{}{f.name, f.walked, s.value(f.val)})
	}
	return J{"k": kind, "f": out}
}

func serializeAST(n ast.Node) (interface{}, []string) {
	s := &astSer{}
	v := s.node(n)
	return v, s.walkPanics
}
