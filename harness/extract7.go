package main

import (
	"bytes"
	"fmt"
	"go/ast"
	"go/printer"
	"go/token"
	"regexp"
	"strings"
)

// ---------------------------------------------------------------- C12: configuration validation, as return paths
//
// Every `return` of a validation function with the stack of guards it sits under (if conditions with their init
// statements, range loops, switch arms). The list, in source order, is the function's control skeleton: a check
// that is dropped, reordered, short-circuited (`return x.validate()`) or moved under another guard changes it.

type retPath struct {
	guards []string
	result string
}

func stmtString(s ast.Stmt) string {
	switch x := s.(type) {
	case *ast.AssignStmt:
		var l, r []string
		for _, e := range x.Lhs {
			l = append(l, exprString(e))
		}
		for _, e := range x.Rhs {
			r = append(r, exprString(e))
		}
		return strings.Join(l, ", ") + " " + x.Tok.String() + " " + strings.Join(r, ", ")
	case *ast.ExprStmt:
		return exprString(x.X)
	case *ast.IncDecStmt:
		return exprString(x.X) + x.Tok.String()
	}
	return fmt.Sprintf("<%T>", s)
}

func returnPaths(body []ast.Stmt, guards []string, out *[]retPath) {
	push := func(g string) []string { return append(append([]string{}, guards...), g) }
	for _, st := range body {
		switch s := st.(type) {
		case *ast.ReturnStmt:
			var rs []string
			for _, e := range s.Results {
				rs = append(rs, exprString(e))
			}
			*out = append(*out, retPath{append([]string{}, guards...), strings.Join(rs, ", ")})
		case *ast.IfStmt:
			g := "if "
			if s.Init != nil {
				g += stmtString(s.Init) + "; "
			}
			g += exprString(s.Cond)
			returnPaths(s.Body.List, push(g), out)
			switch e := s.Else.(type) {
			case *ast.BlockStmt:
				returnPaths(e.List, push("else of "+g), out)
			case *ast.IfStmt:
				returnPaths([]ast.Stmt{e}, push("else of "+g), out)
			}
		case *ast.RangeStmt:
			returnPaths(s.Body.List, push("range "+exprString(s.X)), out)
		case *ast.ForStmt:
			g := "for "
			if s.Init != nil {
				g += stmtString(s.Init)
			}
			g += "; "
			if s.Cond != nil {
				g += exprString(s.Cond)
			}
			g += "; "
			if s.Post != nil {
				g += stmtString(s.Post)
			}
			returnPaths(s.Body.List, push(g), out)
		case *ast.SwitchStmt:
			tag := ""
			if s.Tag != nil {
				tag = exprString(s.Tag)
			}
			for _, c := range s.Body.List {
				cc := c.(*ast.CaseClause)
				arm := "default"
				if cc.List != nil {
					var xs []string
					for _, e := range cc.List {
						xs = append(xs, exprString(e))
					}
					arm = "case " + strings.Join(xs, ", ")
				}
				returnPaths(cc.Body, push("switch "+tag+" "+arm), out)
			}
		case *ast.BlockStmt:
			returnPaths(s.List, guards, out)
		}
	}
}

func pathsLean(name string, ps []retPath) string {
	var b strings.Builder
	b.WriteString("def " + name + " : List (List String × String) := [\n")
	for i, p := range ps {
		sep := ","
		if i == len(ps)-1 {
			sep = ""
		}
		b.WriteString("  (" + lstrs(p.guards) + ", " + lstr(p.result) + ")" + sep + "\n")
	}
	b.WriteString("]\n")
	return b.String()
}

func extractValidation() string {
	var b strings.Builder
	b.WriteString(genHeader + "namespace Sqlc.Gen\n")
	for _, fn := range []struct{ file, fn, def string }{
		{"internal/config/v_two.go", "v2ParseConfig", "v2ParsePaths"},
		{"internal/config/v_two.go", "validateGlobalOverrides", "v2GlobalOverridePaths"},
		{"internal/config/v_one.go", "v1ParseConfig", "v1ParsePaths"},
		{"internal/config/config.go", "ParseConfig", "parseConfigPaths"},
		{"internal/config/config.go", "Parse", "overrideParsePaths"},
		{"internal/sql/validate/param_ref.go", "ParamRef", "paramRefPaths"},
	} {
		_, f := parseFile(fn.file)
		fd := findFunc(f, fn.fn)
		var ps []retPath
		if fd == nil || fd.Body == nil {
			untr("%s: %s not found", fn.file, fn.fn)
		} else {
			returnPaths(fd.Body.List, nil, &ps)
		}
		b.WriteString("/-- return paths of " + fn.fn + " (" + fn.file + ") -/\n")
		b.WriteString(pathsLean(fn.def, ps))
	}
	// small functions whose model is written by hand: the body, statement by statement, as the source has it
	for _, fn := range []struct{ file, fn, def string }{
		{"internal/sql/validate/param_ref.go", "ParamRef", "paramRefBody"},
	} {
		fset, f := parseFile(fn.file)
		fd := findFunc(f, fn.fn)
		var stmts []string
		if fd == nil || fd.Body == nil {
			untr("%s: %s not found", fn.file, fn.fn)
		} else {
			for _, st := range fd.Body.List {
				stmts = append(stmts, printStmt(fset, st))
			}
		}
		b.WriteString("/-- body of " + fn.fn + " (" + fn.file + "), one entry per top-level statement, blanks collapsed -/\n")
		b.WriteString("def " + fn.def + " : List String := " + lstrs(stmts) + "\n")
	}
	b.WriteString("end Sqlc.Gen\n")
	return b.String()
}

var blanksRe = regexp.MustCompile(`\s+`)

func printStmt(fset *token.FileSet, st ast.Stmt) string {
	var buf bytes.Buffer
	printer.Fprint(&buf, fset, st)
	return strings.TrimSpace(blanksRe.ReplaceAllString(buf.String(), " "))
}
