package main

import (
	"fmt"
	"go/token"
	"strings"

	"github.com/kyleconroy/sqlc/internal/metadata"
)

func init() { props["C11"] = runC11 }

func metaCase(id, text string, dash, hash, slash bool, tags []string) Case {
	impl := J{}
	func() {
		defer func() {
			if p := recover(); p != nil {
				impl["res"] = "panic"
			}
		}()
		name, cmd, err := metadata.Parse(text, metadata.CommentSyntax{Dash: dash, Hash: hash, SlashStar: slash})
		switch {
		case err == nil && name == "" && cmd == "":
			impl["res"] = "none"
		case err == nil:
			impl["res"] = "ok"
			impl["name"] = hx(name)
			impl["cmd"] = hx(cmd)
		case strings.HasPrefix(err.Error(), "missing query type"):
			impl["res"] = "missingType"
		case strings.HasPrefix(err.Error(), "invalid query comment"):
			impl["res"] = "invalidComment"
		case strings.HasPrefix(err.Error(), "invalid query type"):
			impl["res"] = "invalidType"
		case strings.HasPrefix(err.Error(), "invalid query name"):
			impl["res"] = "invalidName"
		default:
			impl["res"] = "other:" + err.Error()
		}
	}()
	return Case{ID: id, Kind: "meta", In: J{"text": hx(text), "dash": dash, "hash": hash, "slash": slash}, Impl: impl, Tags: tags}
}

var annPrefixes = []string{"-- name:", "/* name:", "# name:", "--name:", "-- name :", "-- Name:", "  -- name:", "//  name:", "-- name:\t", "/* name:"}
var annNames = []string{"GetAuthor", "list_2", "_x", "X9", "9x", "", "Get-Author", "Gét", "a b", "select", "x:", "*"}
var annCmds = []string{":one", ":many", ":exec", ":execrows", ":execresult", ":One", "one", ":lots", "", ":one;", ":exec ", "::one"}

func genAnnotation(r *Rng) string {
	p := r.Pick(annPrefixes)
	n := r.Pick(annNames)
	c := r.Pick(annCmds)
	sep1, sep2 := " ", " "
	if r.Chance(12) {
		sep1 = r.Pick([]string{"", "  ", "\t"})
	}
	if r.Chance(12) {
		sep2 = r.Pick([]string{"", "  ", "\t"})
	}
	s := p + sep1 + n + sep2 + c
	if strings.HasPrefix(p, "/*") || r.Chance(5) {
		s += r.Pick([]string{" */", "*/", " */ ", ""})
	}
	if r.Chance(10) {
		s += r.Pick([]string{" ", "\t", " extra", "\r"})
	}
	return s
}

type c11q struct {
	sql       string // statement without annotation
	kind      string
	returning bool
	nparams   int
	ncols     int
}

func c11Statements(mysql bool) []c11q {
	p := func(i int) string {
		if mysql {
			return "?"
		}
		return fmt.Sprintf("$%d", i)
	}
	qs := []c11q{
		{"SELECT 1", "select", false, 0, 1},
		{"SELECT id FROM authors WHERE id = " + p(1), "select", false, 1, 1},
		{"SELECT id, name FROM authors WHERE id = " + p(1) + " AND name = " + p(2), "select", false, 2, 2},
		{"SELECT id, name, bio FROM authors", "select", false, 0, 3},
		{"INSERT INTO authors (id, name) VALUES (" + p(1) + ", " + p(2) + ")", "insert", false, 2, 0},
		{"UPDATE authors SET name = " + p(1) + " WHERE id = " + p(2), "update", false, 2, 0},
		{"UPDATE authors SET name = 'x'", "update", false, 0, 0},
		{"DELETE FROM authors WHERE id = " + p(1), "delete", false, 1, 0},
		{"DELETE FROM authors", "delete", false, 0, 0},
	}
	if !mysql {
		qs = append(qs,
			c11q{"INSERT INTO authors (id, name) VALUES ($1, $2) RETURNING id", "insert", true, 2, 1},
			c11q{"INSERT INTO authors (id, name) VALUES ($1, $2) RETURNING id, name", "insert", true, 2, 2},
			c11q{"UPDATE authors SET name = $1 WHERE id = $2 RETURNING *", "update", true, 2, 3},
			c11q{"DELETE FROM authors WHERE id = $1 RETURNING name", "delete", true, 1, 1},
			c11q{"TRUNCATE authors", "truncate", false, 0, 0},
		)
	}
	return qs
}

func runC11(r *Rng, n int, tier string) {
	// ---- metadata.Parse vs model
	fixed := []string{"-- name: GetAuthor :one", "/* name: GetAuthor :one */", "# name: GetAuthor :one", "-- name: X", "-- name:", "-- name: X :one extra",
		"-- comment\n-- name: A :exec\nSELECT 1", "SELECT 1", "", "-- name: A :exec\n-- name: B :one", "/* name: A :exec*/", "/* name: A :exec */ ", "--   name: A :exec"}
	for i, f := range fixed {
		for k := 0; k < 8; k++ {
			emit(metaCase(fmt.Sprintf("meta-fixed-%d-%d", i, k), f, k&1 != 0, k&2 != 0, k&4 != 0, []string{"fixed"}))
		}
	}
	for i := 0; i < n*2; i++ {
		var lines []string
		for k := r.Intn(3); k > 0; k-- {
			lines = append(lines, r.Pick([]string{"-- plain", "", "SELECT 1", "/* block */", "# hash", "--", "/*", "#"}))
		}
		lines = append(lines, genAnnotation(r))
		if r.Chance(30) {
			lines = append(lines, r.Pick([]string{"SELECT 1;", genAnnotation(r)}))
		}
		emit(metaCase(fmt.Sprintf("meta-%d", i), strings.Join(lines, "\n"), r.Chance(80), r.Chance(50), r.Chance(70), nil))
	}
	// ---- end to end: complete cross product cmd × statement × prepared × interface (× engine)
	schema := "CREATE TABLE authors (id bigint NOT NULL, name text NOT NULL, bio text);\n"
	id := 0
	cmds := []string{":one", ":many", ":exec", ":execrows", ":execresult"}
	for _, engine := range []string{"postgresql", "mysql"} {
		for _, q := range c11Statements(engine == "mysql") {
			for _, cmd := range cmds {
				for opt := 0; opt < 4; opt++ {
					if tier == "quick" && opt != 0 && opt != 3 && (id%3 != 0) {
						id++
						continue
					}
					prepared, iface := opt&1 != 0, opt&2 != 0
					style := []string{"-- name: Qx %s", "/* name: Qx %s */"}[id%2]
					if engine == "mysql" && id%3 == 0 {
						style = "# name: Qx %s"
					}
					query := fmt.Sprintf(style, cmd) + "\n" + q.sql + ";\n\nSELECT 42;\n"
					extra := fmt.Sprintf(`"emit_prepared_queries":%v,"emit_interface":%v`, prepared, iface)
					files := map[string]string{"schema.sql": schema, "query.sql": query, "sqlc.json": confV1(engine, extra)}
					res := generate(files)
					impl := J{"ok": res.OK(), "panic": res.Panic != ""}
					if res.OK() {
						sum := summarize(res.Files)
						impl["methods"] = len(sum.queryMethods())
						if m := sum.method("Qx"); m != nil {
							impl["results"] = m.Results
							impl["driver"] = m.Driver
							impl["errchecks"] = m.ErrChecks
							impl["rowsclose"] = m.RowsClose
							impl["rowserr"] = m.RowsErr
							impl["scan"] = len(m.Scan)
							impl["nparams"] = len(m.CallArgs)
						}
						if prepared {
							// the statement plumbing a method calls (q.exec / q.query / q.queryRow) is declared
							src := res.Files["db/db.go"]
							if m := sum.method("Qx"); m != nil && (m.Driver == "exec" || m.Driver == "query" || m.Driver == "queryRow") {
								impl["helperDeclared"] = strings.Contains(src, "func (q *Queries) "+m.Driver+"(")
							}
						}
						if iface {
							impl["iface"] = len(sum.Iface)
							if len(sum.Iface) == 1 {
								impl["iface_results"] = sum.Iface[0].Results
							}
						}
					} else {
						impl["err"] = firstLine(strings.TrimPrefix(res.Stderr, "# package db\n"))
					}
					oracle := ""
					if hd, ok := impl["helperDeclared"].(bool); ok && !hd {
						oracle = fmt.Sprintf("the method calls q.%v(...) but the emitted package declares no such method on *Queries", impl["driver"])
					}
					emit(Case{ID: fmt.Sprintf("e2e-%d", id), Oracle: oracle, Kind: "contract",
						In:   J{"engine": engine, "cmd": cmd, "kind": q.kind, "returning": q.returning, "ncols": q.ncols, "nparams": q.nparams, "prepared": prepared, "iface": iface, "files": files},
						Impl: impl, Tags: []string{cmd, q.kind, engine}})
					id++
				}
			}
		}
	}
	// ---- rejected annotations, duplicate names, unannotated statements
	type rej struct {
		name, query string
		wantOK      bool
		methods     int
	}
	rejs := []rej{
		{"dup-same-file", "-- name: A :one\nSELECT 1;\n-- name: A :one\nSELECT 2;\n", false, 0},
		{"unannotated-only", "SELECT 1;\n", true, 0},
		{"unannotated-plus-one", "SELECT 1;\n-- name: A :one\nSELECT 2;\nSELECT 3;\n", true, 1},
		{"bad-name", "-- name: 9a :one\nSELECT 1;\n", false, 0},
		{"bad-name-dash", "-- name: get-a :one\nSELECT 1;\n", false, 0},
		{"unknown-cmd", "-- name: A :lots\nSELECT 1;\n", false, 0},
		{"near-miss-cmd-execrow", "-- name: A :execrow\nDELETE FROM authors;\n", false, 0},
		{"near-miss-cmd-execresults", "-- name: A :execresults\nDELETE FROM authors;\n", false, 0},
		{"near-miss-cmd-execute", "-- name: A :execute\nDELETE FROM authors;\n", false, 0},
		{"near-miss-cmd-exec_rows", "-- name: A :exec_rows\nDELETE FROM authors;\n", false, 0},
		{"near-miss-cmd-ones", "-- name: A :ones\nSELECT 1;\n", false, 0},
		{"near-miss-cmd-manyy", "-- name: A :manyy\nSELECT 1;\n", false, 0},
		{"near-miss-cmd-upper", "-- name: A :ONE\nSELECT 1;\n", false, 0},
		{"near-miss-cmd-nocolon", "-- name: A one\nSELECT 1;\n", false, 0},
		{"near-miss-cmd-double", "-- name: A ::one\nSELECT 1;\n", false, 0},
		{"near-miss-cmd-empty", "-- name: A :\nSELECT 1;\n", false, 0},
		{"missing-cmd", "-- name: A\nSELECT 1;\n", false, 0},
		{"extra-token", "-- name: A :one please\nSELECT 1;\n", false, 0},
		{"one-no-returning", "-- name: A :one\nUPDATE authors SET name = 'x';\n", false, 0},
		{"many-no-returning", "-- name: A :many\nDELETE FROM authors;\n", false, 0},
		{"many-insert-no-returning", "-- name: A :many\nINSERT INTO authors (id, name) VALUES (1, 'x');\n", false, 0},
		{"two-distinct", "-- name: A :one\nSELECT 1;\n-- name: B :exec\nDELETE FROM authors;\n", true, 2},
		{"annotation-after-comment", "-- some doc\n-- more doc\n-- name: A :one\nSELECT 1;\n", true, 1},
		{"annotation-after-block-comment", "/* a multi\n   line comment */\n-- name: A :one\nSELECT 1;\n", true, 1},
		{"annotation-after-blank", "\n\n-- name: A :one\nSELECT 1;\n-- name: B :one\n\nSELECT 2;\n", true, 2},
	}
	for _, rj := range rejs {
		files := map[string]string{"schema.sql": schema, "query.sql": rj.query, "sqlc.json": confV1("postgresql", "")}
		res := generate(files)
		nm := -1
		if res.OK() {
			nm = len(summarize(res.Files).queryMethods())
		}
		oracle := ""
		if res.Panic != "" {
			oracle = "panic: " + res.Panic
		} else if res.OK() != rj.wantOK {
			oracle = fmt.Sprintf("%s: accepted=%v, want accepted=%v (%s)", rj.name, res.OK(), rj.wantOK, firstLine(res.Stderr))
		} else if res.OK() && nm != rj.methods {
			oracle = fmt.Sprintf("%s: %d methods generated, want %d", rj.name, nm, rj.methods)
		} else if !res.OK() && strings.TrimSpace(res.Stderr) == "" {
			oracle = rj.name + ": rejected without a diagnostic"
		}
		emit(Case{ID: "rej-" + rj.name, Kind: "reject", In: J{"files": files}, Impl: J{"ok": res.OK(), "methods": nm}, Oracle: oracle, Tags: []string{"reject"}})
	}
	// duplicate name across two files of one package
	{
		files := map[string]string{"schema.sql": schema, "q/a.sql": "-- name: A :one\nSELECT 1;\n", "q/b.sql": "-- name: A :one\nSELECT 2;\n",
			"sqlc.json": `{"version":"1","packages":[{"path":"db","engine":"postgresql","schema":"schema.sql","queries":"q"}]}`}
		res := generate(files)
		oracle := ""
		if res.OK() {
			oracle = "duplicate query name across two query files accepted"
		}
		emit(Case{ID: "rej-dup-across-files", Kind: "reject", In: J{"files": files}, Impl: J{"ok": res.OK()}, Oracle: oracle, Tags: []string{"reject"}})
	}
	// query names: exactly the Go identifiers are accepted, each giving the method of that name (the oracle is
	// go/token's own definition of an identifier, not sqlc's)
	qnames := []string{"GetAuthor", "getAuthor", "_get", "_", "get_author_2", "X", "x9", "GetCafé", "Größe٣", "ВсеАвторы", "著者一覧", "Ünïcode", "αβγ", "a٣",
		"9Foo", "٣Foo", "Get-Foo", "Get.Foo", "Foo²", "a b", "Get!", "é-", "Get$", ""}
	for i, qn := range qnames {
		for _, cmd := range []string{":one", ":exec"} {
			body := "SELECT id FROM authors WHERE id = $1"
			if cmd == ":exec" {
				body = "DELETE FROM authors WHERE id = $1"
			}
			files := map[string]string{"schema.sql": schema, "query.sql": fmt.Sprintf("-- name: %s %s\n%s;\n", qn, cmd, body), "sqlc.json": confV1("postgresql", "")}
			res := generate(files)
			ident := token.IsIdentifier(qn)
			oracle := ""
			nm := -1
			switch {
			case res.Panic != "":
				oracle = "panic: " + res.Panic
			case ident && !res.OK():
				oracle = fmt.Sprintf("query name %q is a Go identifier but the statement yields no method: %s", qn, firstLine(res.Stderr))
			case ident:
				sum := summarize(res.Files)
				nm = len(sum.queryMethods())
				if nm != 1 || sum.method(qn) == nil {
					oracle = fmt.Sprintf("query name %q: %d methods generated, want exactly one method %s", qn, nm, qn)
				}
			case !ident && res.OK() && qn != "":
				// go/format would have caught a non-identifier: reaching here means code was emitted for it
				oracle = fmt.Sprintf("query name %q is not a Go identifier but was accepted", qn)
			case !ident && !res.OK() && strings.TrimSpace(res.Stderr) == "":
				oracle = fmt.Sprintf("query name %q rejected without a diagnostic", qn)
			}
			emit(Case{ID: fmt.Sprintf("qname-%d%s", i, cmd), Kind: "reject", In: J{"files": files, "name": qn, "identifier": ident}, Impl: J{"ok": res.OK(), "methods": nm}, Oracle: oracle, Tags: []string{"query-name", fmt.Sprintf("identifier=%v", ident)}})
		}
	}
}
