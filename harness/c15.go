package main

// C15 — type overrides and renames apply exactly where specified.
//   kind "gotype" : goType (hook VerifGoType) under dense override lists — model vs implementation, and the
//                   precedence specification (column override > db_type override > engine type);
//   kind "parse"  : config.GoType.Parse on string and object forms — model vs implementation;
//   kind "e2e"    : a two-package project with probe queries for every surface of an overridden column
//                   (model field, lone result, row-struct field, lone parameter, params-struct field), compared
//                   with the same project generated WITHOUT overrides; the emitted packages type-check
//                   (imports present where used and nowhere else); the other package is byte-identical to its
//                   stand-alone generation.

import (
	"fmt"
	"sort"
	"strings"

	"github.com/kyleconroy/sqlc/internal/codegen/golang"
	"github.com/kyleconroy/sqlc/internal/config"
)

func init() { props["C15"] = runC15 }

type ovTarget struct {
	JSON   string // the go_type value (string or object) as JSON
	Type   string // the Go type expected in the emitted code
	Import string // import path ("" for basic types)
	Alias  string // package alias that must be written in the import ("" if none)
}

var c15Targets = []ovTarget{
	{`"string"`, "string", "", ""},
	{`"int64"`, "int64", "", ""},
	{`"math/big.Int"`, "big.Int", "math/big", ""},
	{`"*math/big.Int"`, "*big.Int", "math/big", ""},
	{`"net/url.URL"`, "url.URL", "net/url", ""},
	{`"encoding/json.Number"`, "json.Number", "encoding/json", ""},
	{`"time.Duration"`, "time.Duration", "time", ""}, // no slash: rejected by Parse ("not the proper format")
	{`"github.com/google/uuid.UUID"`, "uuid.UUID", "github.com/google/uuid", ""},
	{`"github.com/lib/pq.NullTime"`, "pq.NullTime", "github.com/lib/pq", ""},
	{`{"import":"math/big","type":"Rat"}`, "big.Rat", "math/big", ""},
	{`{"import":"math/big","type":"Float","pointer":true}`, "*big.Float", "math/big", ""},
	{`{"import":"github.com/google/uuid","package":"guuid","type":"UUID"}`, "guuid.UUID", "github.com/google/uuid", "guuid"},
	{`{"import":"net/url","package":"nurl","type":"URL","pointer":true}`, "*nurl.URL", "net/url", "nurl"},
	{`{"type":"float64"}`, "float64", "", ""},
	{`{"import":"database/sql","type":"NullString"}`, "sql.NullString", "database/sql", ""},
}

func goTypeParseCase(id string, js string) Case {
	var gt config.GoType
	impl := J{}
	if err := gt.UnmarshalJSON([]byte(js)); err != nil {
		impl["err"] = "unmarshal"
	} else if p, err := gt.Parse(); err != nil {
		impl["err"] = "reject"
	} else {
		impl = J{"err": "", "importPath": p.ImportPath, "package": p.Package, "typeName": p.TypeName, "basic": p.BasicType}
	}
	in := J{"json": js, "spec": gt.Spec, "path": gt.Path, "package": gt.Package, "name": gt.Name, "pointer": gt.Pointer}
	return Case{ID: id, Kind: "parse", In: in, Impl: impl}
}

// ---------------------------------------------------------------- e2e

type c15Proj struct {
	Tables    []PTable // in package A's schema
	Overrides []string // JSON objects (package level of A, or global)
	Global    bool
	Rename    map[string]string
	Probes    []PQuery
}

func (p c15Proj) schema() string {
	var b strings.Builder
	for _, t := range p.Tables {
		b.WriteString(t.DDL("postgresql") + "\n")
	}
	return b.String()
}

func (p c15Proj) config(withOverrides bool) string {
	ov := ""
	if withOverrides && len(p.Overrides) > 0 {
		ov = `,"overrides":[` + strings.Join(p.Overrides, ",") + `]`
	}
	pkgOv, globOv := ov, ""
	if p.Global {
		pkgOv, globOv = "", ov
	}
	rn := ""
	if withOverrides && len(p.Rename) > 0 {
		rn = `,"rename":` + jsonStr(p.Rename)
	}
	return fmt.Sprintf(`{"version":"1","packages":[`+
		`{"path":"a","name":"a","engine":"postgresql","schema":"schema.sql","queries":%s%s},`+
		`{"path":"b","name":"b","engine":"postgresql","schema":"schema.sql","queries":%s}]%s%s}`, p.queryList(), pkgOv, p.queryList(), globOv, rn)
}

func (p c15Proj) files(withOverrides bool) map[string]string {
	// one query file per probe: the import set of every file is computed on its own, so a type that
	// surfaces only through a Row / Params struct field must still bring its import
	out := map[string]string{"schema.sql": p.schema(), "sqlc.json": p.config(withOverrides)}
	for i, q := range p.Probes {
		out[fmt.Sprintf("q%d.sql", i)] = q.Text() + "\n"
	}
	return out
}

func (p c15Proj) queryList() string {
	var names []string
	for i := range p.Probes {
		names = append(names, fmt.Sprintf("%q", fmt.Sprintf("q%d.sql", i)))
	}
	return "[" + strings.Join(names, ",") + "]"
}

func pkgFiles2(res GenResult, pkg string) map[string]string {
	out := map[string]string{}
	for n, c := range res.Files {
		if strings.HasPrefix(n, pkg+"/") {
			out[n] = c
		}
	}
	return out
}

// surfaces of column c of table t in the emitted package: where it must carry its Go type
type surfaces struct {
	Model, Lone, Row, Param, ParamStruct string
}

func probesFor(t PTable, c PCol, tag string) []PQuery {
	return []PQuery{
		{Name: "Lone" + tag, Cmd: ":one", SQL: fmt.Sprintf("SELECT %s FROM %s WHERE id = $1", c.Name, t.Name)},
		{Name: "Row" + tag, Cmd: ":many", SQL: fmt.Sprintf("SELECT id, %s FROM %s", c.Name, t.Name)},
		{Name: "By" + tag, Cmd: ":many", SQL: fmt.Sprintf("SELECT id FROM %s WHERE %s = $1", t.Name, c.Name)},
		{Name: "Upd" + tag, Cmd: ":exec", SQL: fmt.Sprintf("UPDATE %s SET %s = $1 WHERE id = $2", t.Name, c.Name)},
	}
}

func readSurfaces(sum PkgSummary, settings config.CombinedSettings, t PTable, c PCol, tag string) surfaces {
	var s surfaces
	fieldName := golang.StructName(c.Name, settings)
	s.Model = modelFieldType(sum, settings, t, c)
	if m := sum.method("Lone" + tag); m != nil && len(m.Results) > 0 {
		s.Lone = m.Results[0]
	}
	if st := sum.structNamed("Row" + tag + "Row"); st != nil {
		for _, f := range st.Fields {
			if f.Name == fieldName {
				s.Row = f.Type
			}
		}
	}
	if m := sum.method("By" + tag); m != nil && len(m.Params) == 1 {
		s.Param = m.Params[0].Type
	}
	if st := sum.structNamed("Upd" + tag + "Params"); st != nil {
		for _, f := range st.Fields {
			if f.Name == fieldName {
				s.ParamStruct = f.Type
			}
		}
	}
	return s
}

func (s surfaces) all() []string { return []string{s.Model, s.Lone, s.Row, s.Param, s.ParamStruct} }

var c15ColPool = []struct{ n, t string }{
	{"name", "text"}, {"title", "text"}, {"score", "bigint"}, {"age", "int"}, {"uid", "uuid"}, {"meta", "jsonb"},
	{"created_at", "timestamptz"}, {"price", "numeric"}, {"active", "boolean"}, {"tags", "text[]"},
}

func c15E2E(r *Rng, id string) Case {
	// two tables sharing column names (the neighbour that must stay untouched), plus a third in another schema name
	np := 2 + r.Intn(3)
	perm := r.Perm(len(c15ColPool))
	var cols []PCol
	cols = append(cols, PCol{Name: "id", Type: "bigint", NotNull: true})
	for i := 0; i < np; i++ {
		c := c15ColPool[perm[i]]
		cols = append(cols, PCol{Name: c.n, Type: c.t, NotNull: r.Bool(), Array: strings.HasSuffix(c.t, "[]")})
	}
	t := PTable{Name: "authors", Cols: cols}
	// the neighbour that must stay untouched: same column list, and a NAME THAT CONTAINS the target's name
	u := PTable{Name: r.Pick([]string{"books", "coauthors", "authors_archive"}), Cols: append([]PCol{}, cols...)}
	for i := range u.Cols {
		if i > 0 {
			u.Cols[i].NotNull = r.Bool()
		}
	}
	p := c15Proj{Tables: []PTable{t, u}, Rename: map[string]string{}}
	p.Global = r.Chance(30)
	target := t.Cols[1+r.Intn(len(t.Cols)-1)]
	tg := c15Targets[r.Intn(len(c15Targets))]
	for tg.Type == "time.Duration" { // rejected form: exercised by the parse stream
		tg = c15Targets[r.Intn(len(c15Targets))]
	}
	kind := "column"
	var tags []string
	switch r.Intn(10) {
	case 0, 1, 2, 3, 4:
		p.Overrides = append(p.Overrides, fmt.Sprintf(`{"column":"authors.%s","go_type":%s}`, target.Name, tg.JSON))
	case 5, 6:
		kind = "column+dbtype"
		// a db_type override for the same type EARLIER in the list must not shadow the column override
		dt := typeInfo(target.Type)
		dbt := dt[1]
		if dt[0] != "" {
			dbt = dt[0] + "." + dt[1]
		}
		other := c15Targets[r.Intn(len(c15Targets))]
		for other.Type == "time.Duration" || other.Type == tg.Type {
			other = c15Targets[r.Intn(len(c15Targets))]
		}
		p.Overrides = append(p.Overrides, fmt.Sprintf(`{"db_type":%q,"go_type":%s,"nullable":%v}`, dbt, other.JSON, !(target.NotNull || target.Array)))
		p.Overrides = append(p.Overrides, fmt.Sprintf(`{"column":"authors.%s","go_type":%s}`, target.Name, tg.JSON))
		tags = append(tags, "dbtype-before-column")
	case 7, 8:
		kind = "dbtype"
		dt := typeInfo(target.Type)
		dbt := dt[1]
		if dt[0] != "" {
			dbt = dt[0] + "." + dt[1]
		}
		p.Overrides = append(p.Overrides, fmt.Sprintf(`{"db_type":%q,"go_type":%s,"nullable":%v}`, dbt, tg.JSON, !(target.NotNull || target.Array)))
	default:
		kind = "rename"
		p.Rename[target.Name] = "Renamed" + strings.Title(target.Name)
	}
	p.Probes = append(p.Probes, probesFor(t, target, "A")...)
	p.Probes = append(p.Probes, probesFor(u, u.Cols[indexOfCol(u, target.Name)], "B")...)
	tags = append(tags, "kind:"+kind, "target:"+tg.Type)
	if p.Global {
		tags = append(tags, "global")
	}
	in := J{"kind": kind, "files": p.files(true), "target": tg.Type, "column": target.Name, "global": p.Global}
	with := generate(p.files(true))
	base := generate(p.files(false))
	obs := J{"ok": with.OK(), "baseOk": base.OK()}
	if !with.OK() || !base.OK() {
		obs["err"] = firstLine(with.Stderr + with.Err + with.Panic)
		return Case{ID: id, Kind: "e2e", In: in, Impl: obs, Oracle: "generation failed for a valid override set: " + fmt.Sprint(obs["err"]), Tags: tags}
	}
	var problems []string
	settingsWith := config.CombinedSettings{Rename: p.Rename}
	settingsBase := config.CombinedSettings{}
	for _, pkg := range []string{"a", "b"} {
		fw, fb := pkgFiles2(with, pkg), pkgFiles2(base, pkg)
		if msg := typeCheck(fw); msg != "" {
			problems = append(problems, fmt.Sprintf("package %s does not type-check: %s", pkg, msg))
		}
		sw, sb := summarize(fw), summarize(fb)
		affected := pkg == "a" || p.Global || kind == "rename" // rename is a top-level setting
		aW := readSurfaces(sw, settingsWith, t, target, "A")
		aB := readSurfaces(sb, settingsBase, t, target, "A")
		bW := readSurfaces(sw, settingsWith, u, u.Cols[indexOfCol(u, target.Name)], "B")
		bB := readSurfaces(sb, settingsBase, u, u.Cols[indexOfCol(u, target.Name)], "B")
		obs["surfaces:"+pkg] = J{"A": aW.all(), "Abase": aB.all(), "B": bW.all(), "Bbase": bB.all()}
		switch {
		case kind == "rename":
			// types unchanged everywhere; the identifier changed everywhere (readSurfaces found every surface by the NEW name)
			for i, v := range aW.all() {
				if v == "" || v != aB.all()[i] {
					problems = append(problems, fmt.Sprintf("package %s: rename of %s: surface %d has type %q, without the rename %q", pkg, target.Name, i, v, aB.all()[i]))
				}
			}
		case !affected:
			if !sameFiles(fw, fb) {
				problems = append(problems, fmt.Sprintf("package %s has no overrides but its output differs from the output without package a's overrides", pkg))
			}
		case kind == "column" || kind == "column+dbtype":
			for i, v := range aW.all() {
				if v != tg.Type {
					problems = append(problems, fmt.Sprintf("package %s: column override authors.%s -> %s: surface %d (model, lone result, row field, lone parameter, params field) has %q", pkg, target.Name, tg.Type, i, v))
				}
			}
			if kind == "column" {
				for i, v := range bW.all() {
					if v != bB.all()[i] {
						problems = append(problems, fmt.Sprintf("package %s: column override for authors.%s changed %s.%s: surface %d is %q, was %q", pkg, target.Name, u.Name, target.Name, i, v, bB.all()[i]))
					}
				}
			}
		case kind == "dbtype":
			// all and only the columns of that type with the matching nullability
			// a db_type override names the ELEMENT type: it applies to scalars and to arrays of that type alike
			elem := func(t string) string { return strings.TrimSuffix(t, "[]") }
			match := func(c PCol) bool {
				return elem(c.Type) == elem(target.Type) && (c.NotNull || c.Array) == (target.NotNull || target.Array)
			}
			for _, tb := range []PTable{t, u} {
				for _, c := range tb.Cols {
					got := modelFieldType(sw, settingsWith, tb, c)
					was := modelFieldType(sb, settingsBase, tb, c)
					want := was
					if match(c) {
						want = tg.Type
						if c.Array {
							want = "[]" + tg.Type
						}
					}
					if got != want {
						problems = append(problems, fmt.Sprintf("package %s: db_type override %s (nullable=%v) -> %s: %s.%s (%s notnull=%v) is %q, expected %q", pkg, target.Type, !(target.NotNull || target.Array), tg.Type, tb.Name, c.Name, c.Type, c.NotNull, got, want))
					}
				}
			}
			for i, v := range aW.all() {
				want := tg.Type
				if target.Array {
					want = "[]" + tg.Type
				}
				if v != want {
					problems = append(problems, fmt.Sprintf("package %s: db_type override: surface %d of authors.%s has %q, expected %q", pkg, i, target.Name, v, want))
				}
			}
		}
		// the alias, when one is required, is written in every file that imports the package
		if tg.Alias != "" && affected && kind != "rename" {
			for n, src := range fw {
				if strings.Contains(src, `"`+tg.Import+`"`) && !strings.Contains(src, tg.Alias+` "`+tg.Import+`"`) {
					problems = append(problems, fmt.Sprintf("%s imports %s without the alias %s", n, tg.Import, tg.Alias))
				}
			}
		}
	}
	sort.Strings(problems)
	oracle := ""
	if len(problems) > 0 {
		oracle = strings.Join(problems[:min(len(problems), 3)], " | ")
	}
	return Case{ID: id, Kind: "e2e", In: in, Impl: obs, Oracle: oracle, Tags: tags}
}

func min(a, b int) int {
	if a < b {
		return a
	}
	return b
}

func indexOfCol(t PTable, name string) int {
	for i, c := range t.Cols {
		if c.Name == name {
			return i
		}
	}
	return 0
}

func modelFieldType(sum PkgSummary, settings config.CombinedSettings, t PTable, c PCol) string {
	for _, st := range sum.Structs {
		if st.File != "models.go" || len(st.Fields) != len(t.Cols) {
			continue
		}
		ok := true
		for i, f := range st.Fields {
			if f.Name != golang.StructName(t.Cols[i].Name, settings) {
				ok = false
			}
		}
		// the two tables have the same column list: tell their model structs apart by name
		if ok && modelNameMatches(st.Name, t.Name) {
			for _, f := range st.Fields {
				if f.Name == golang.StructName(c.Name, settings) {
					return f.Type
				}
			}
		}
	}
	return ""
}

func sameFiles(a, b map[string]string) bool {
	if len(a) != len(b) {
		return false
	}
	for k, v := range a {
		if b[k] != v {
			return false
		}
	}
	return true
}

func runC15(r *Rng, n int, tier string) {
	// parse: the fixed targets, then random specs
	for i, tg := range c15Targets {
		emit(goTypeParseCase(fmt.Sprintf("parse-t%d", i), tg.JSON))
	}
	for i := 0; i < n; i++ {
		js := randGoTypeSpec(r)
		emit(goTypeParseCase(fmt.Sprintf("parse-%d", i), js))
	}
	// gotype under dense override lists
	pgSp, _ := switchSpellings()
	schemas := []J{{"name": "public", "types": []J{{"kind": "enum", "name": "e1"}}}, {"name": "s1", "types": []J{}}}
	goTypes := []string{"big.Int", "*big.Int", "string", "uuid.UUID", "custom.T", "int64", ""}
	for i := 0; i < n; i++ {
		e := envSpec{Engine: "postgresql", Default: r.Pick([]string{"public", "public", "s1"}), Schemas: schemas}
		dt := r.Pick([]string{"text", "pg_catalog.int8", "uuid", "jsonb", "e1", r.Pick(pgSp)})
		c := colSpec{Name: r.Pick([]string{"id", "name", "c"}), DataType: dt, NotNull: r.Bool(), IsArray: r.Chance(20), Length: -1, HasTable: r.Chance(85)}
		c.TSchema = r.Pick([]string{"", "public", "s1", "republic"})
		c.TName = r.Pick([]string{"t", "u", "tt", "at"})
		no := 1 + r.Intn(4)
		for k := 0; k < no; k++ {
			o := J{"goTypeName": r.Pick(goTypes), "dbType": "", "nullable": false, "column": "", "columnName": "", "table": J{"catalog": "", "schema": "", "rel": ""}}
			if r.Bool() {
				o["dbType"] = dt
				if r.Chance(25) {
					o["dbType"] = r.Pick(pgSp)
				}
				o["nullable"] = r.Bool()
			} else {
				o["column"] = "x"
				o["columnName"] = r.Pick([]string{"id", "name", "c"})
				o["table"] = J{"catalog": "", "schema": r.Pick([]string{"public", "s1", "republic", "s"}), "rel": r.Pick([]string{"t", "u", "tt", "at"})}
			}
			e.Overrides = append(e.Overrides, o)
		}
		emit(goTypeCase(fmt.Sprintf("gt-%d", i), e, c, []string{"gotype"}))
	}
	// end to end
	ne := n / 3
	if ne < 12 {
		ne = 12
	}
	for i := 0; i < ne; i++ {
		emit(c15E2E(r, fmt.Sprintf("e2e-%d", i)))
	}
	for i := 0; i < ne/2+4; i++ {
		emit(c15Mixed(r, fmt.Sprintf("mixed-%d", i)))
	}
	for i := 0; i < ne/3+6; i++ {
		emit(c15SchemaTypes(r, fmt.Sprintf("schematypes-%d", i)))
	}
}

func modelNameMatches(structName, table string) bool {
	want := map[string]string{"authors": "Author", "books": "Book", "coauthors": "Coauthor", "authors_archive": "AuthorsArchive"}[table]
	return structName == want
}

// c15Mixed: packages of two engines in one configuration, global overrides tagged with the engine they are meant
// for, and package-level overrides in one package only. Every package is judged against what its own entries say.
func c15Mixed(r *Rng, id string) Case {
	pgSchema := "CREATE TABLE authors (id bigint NOT NULL, name text NOT NULL, uid uuid NOT NULL, meta jsonb NOT NULL, bio text);\n"
	mySchema := "CREATE TABLE authors (id bigint NOT NULL, name varchar(100) NOT NULL, created datetime NOT NULL, bio text);\n"
	files := map[string]string{"pg.sql": pgSchema, "my.sql": mySchema,
		"qpg.sql": "-- name: ListAuthors :many\nSELECT * FROM authors;\n\n-- name: GetName :one\nSELECT name FROM authors WHERE id = $1;\n",
		"qmy.sql": "-- name: ListAuthors :many\nSELECT * FROM authors;\n\n-- name: GetName :one\nSELECT name FROM authors WHERE id = ?;\n",
		// a second query file in which only ONE of the package's overridden types surfaces
		"qpg2.sql": "-- name: GetBio :one\nSELECT bio FROM authors WHERE id = $1;\n"}
	globals := []string{
		`{"db_type":"uuid","go_type":"github.com/google/uuid.UUID","engine":"postgresql"}`,
		`{"db_type":"datetime","go_type":"github.com/lib/pq.NullTime","engine":"mysql"}`,
	}
	if r.Bool() {
		globals = append(globals, `{"db_type":"jsonb","go_type":"encoding/json.Number","engine":"postgresql"}`)
	}
	globals = permuted(r, globals)
	hasDoc := len(globals) == 3
	// two overrides of package a share an import path and name different types
	pkgOv := `{"column":"authors.name","go_type":"math/big.Int"},{"column":"authors.bio","go_type":"math/big.Float","nullable":true}`
	type pk struct {
		name, engine, ov string
		want           map[string]string
	}
	doc := "json.RawMessage"
	if hasDoc {
		doc = "json.Number"
	}
	pks := []pk{
		{"a", "postgresql", pkgOv, map[string]string{"Name": "big.Int", "Bio": "big.Float", "Uid": "uuid.UUID", "Meta": doc}},
		{"m", "mysql", "", map[string]string{"Name": "string", "Created": "pq.NullTime"}},
		{"c", "postgresql", "", map[string]string{"Name": "string", "Uid": "uuid.UUID", "Meta": doc}},
	}
	if r.Chance(40) {
		pks = append(pks, pk{"n", "mysql", `{"column":"authors.bio","go_type":"net/url.URL","nullable":true}`, map[string]string{"Name": "string", "Created": "pq.NullTime", "Bio": "url.URL"}})
	}
	order := r.Perm(len(pks))
	v2 := r.Bool()
	// version 2 also has a per-package rename map; whatever it does for its own package, it is not another's
	pkgRename := v2 && r.Bool()
	var entries []string
	for _, k := range order {
		p := pks[k]
		schema, q := "pg.sql", `["qpg.sql","qpg2.sql"]`
		if p.engine == "mysql" {
			schema, q = "my.sql", `["qmy.sql"]`
		}
		ov := ""
		if p.ov != "" {
			ov = `,"overrides":[` + p.ov + `]`
		}
		if v2 {
			if pkgRename && p.name == "a" {
				ov += `,"rename":{"name":"Label","author":"Writer","uid":"Key","created":"Born"}`
			}
			entries = append(entries, fmt.Sprintf(`{"engine":%q,"schema":%q,"queries":%s,"gen":{"go":{"package":%q,"out":%q%s}}}`, p.engine, schema, q, p.name, p.name, ov))
		} else {
			entries = append(entries, fmt.Sprintf(`{"name":%q,"path":%q,"engine":%q,"schema":%q,"queries":%s%s}`, p.name, p.name, p.engine, schema, q, ov))
		}
	}
	if v2 {
		gr := ""
		if pkgRename {
			gr = `,"rename":{"id":"Identifier"}`
		}
		files["sqlc.json"] = `{"version":"2","overrides":{"go":{"overrides":[` + strings.Join(globals, ",") + `]` + gr + `}},"sql":[` + strings.Join(entries, ",") + `]}`
	} else {
		files["sqlc.json"] = `{"version":"1","overrides":[` + strings.Join(globals, ",") + `],"packages":[` + strings.Join(entries, ",") + `]}`
	}
	var orderNames []string
	for _, k := range order {
		orderNames = append(orderNames, pks[k].name)
	}
	tags := []string{"mixed-engines", "order:" + strings.Join(orderNames, ""), fmt.Sprintf("v2=%v", v2), fmt.Sprintf("package-rename=%v", pkgRename)}
	in := J{"kind": "mixed", "files": files}
	res := generate(files)
	if !res.OK() {
		e := firstLine(res.Stderr + res.Err + res.Panic)
		return Case{ID: id, Kind: "e2e", In: in, Impl: J{"ok": false, "err": e}, Oracle: "generation failed for a valid override set: " + e, Tags: tags}
	}
	var problems []string
	obs := J{"ok": true}
	for _, p := range pks {
		fw := pkgFiles2(res, p.name)
		if msg := typeCheck(fw); msg != "" {
			problems = append(problems, fmt.Sprintf("package %s does not type-check: %s", p.name, msg))
		}
		sum := summarize(fw)
		st := sum.structNamed("Author")
		got := map[string]string{}
		if st != nil {
			for _, f := range st.Fields {
				got[f.Name] = f.Type
			}
		}
		obs["model:"+p.name] = got
		if pkgRename && p.name == "a" {
			continue // its own rename map: not judged here
		}
		for _, fn := range sortedKeys(p.want) {
			if got[fn] != p.want[fn] {
				problems = append(problems, fmt.Sprintf("package %s (%s; own overrides [%s]; globals %v): Author.%s is %q, its configuration says %q", p.name, p.engine, p.ov, globals, fn, got[fn], p.want[fn]))
			}
		}
		if m := sum.method("GetName"); m != nil {
			if len(m.Results) == 0 || m.Results[0] != p.want["Name"] {
				problems = append(problems, fmt.Sprintf("package %s: GetName returns %v, expected %s", p.name, m.Results, p.want["Name"]))
			}
		}
	}
	sort.Strings(problems)
	oracle := ""
	if len(problems) > 0 {
		oracle = strings.Join(problems[:min(len(problems), 3)], " | ")
	}
	return Case{ID: id, Kind: "e2e", In: in, Impl: obs, Oracle: oracle, Tags: tags}
}

// c15SchemaTypes: a db_type override names ONE type; a type of the same bare name in another schema (and columns
// of it, in tables of either schema) must stay untouched
func c15SchemaTypes(r *Rng, id string) Case {
	schema := "CREATE SCHEMA audit;\nCREATE TYPE status AS ENUM ('open', 'closed');\nCREATE TYPE audit.status AS ENUM ('ok', 'failed');\n" +
		"CREATE TABLE tickets (id bigint NOT NULL, state status NOT NULL, prev status, seen audit.status NOT NULL);\n" +
		"CREATE TABLE audit.events (id bigint NOT NULL, outcome audit.status NOT NULL, before audit.status, ticket_state status NOT NULL);\n"
	queries := "-- name: ListTickets :many\nSELECT * FROM tickets;\n\n-- name: ListEvents :many\nSELECT * FROM audit.events;\n\n" +
		"-- name: TicketState :one\nSELECT state FROM tickets WHERE id = $1;\n\n-- name: EventOutcome :one\nSELECT outcome FROM audit.events WHERE id = $1;\n\n" +
		"-- name: ByState :many\nSELECT id FROM tickets WHERE state = $1;\n\n-- name: ByOutcome :many\nSELECT id FROM audit.events WHERE outcome = $1;\n"
	// (the type is spelled as the columns spell it: sqlc matches db_type against the written type name)
	which := r.Intn(2)
	dbt := []string{"status", "audit.status"}[which]
	nullable := r.Chance(30)
	ov := fmt.Sprintf(`{"db_type":%q,"go_type":"github.com/google/uuid.UUID","nullable":%v}`, dbt, nullable)
	global := r.Bool()
	conf := `{"version":"1","packages":[{"path":"db","name":"db","engine":"postgresql","schema":"schema.sql","queries":"query.sql","overrides":[` + ov + `]}]}`
	if global {
		conf = `{"version":"1","overrides":[` + ov + `],"packages":[{"path":"db","name":"db","engine":"postgresql","schema":"schema.sql","queries":"query.sql"}]}`
	}
	files := map[string]string{"schema.sql": schema, "query.sql": queries, "sqlc.json": conf}
	tags := []string{"same-name-types-across-schemas", "db_type:" + dbt, fmt.Sprintf("nullable=%v", nullable)}
	in := J{"kind": "schema-types", "files": files}
	res := generate(files)
	if !res.OK() {
		e := firstLine(res.Stderr + res.Err + res.Panic)
		return Case{ID: id, Kind: "e2e", In: in, Impl: J{"ok": false, "err": e}, Oracle: "generation failed for a valid override set: " + e, Tags: tags}
	}
	// what each column's type must be: the override's target where type and nullability match, the enum otherwise
	pub, aud := "Status", "AuditStatus"
	hitPub, hitAud := which != 1, which == 1
	typ := func(isAudit, notNull bool) string {
		base := pub
		if isAudit {
			base = aud
		}
		if ((isAudit && hitAud) || (!isAudit && hitPub)) && notNull == !nullable {
			return "uuid.UUID"
		}
		return base
	}
	want := map[string]map[string]string{
		"Ticket":     {"State": typ(false, true), "Prev": typ(false, false), "Seen": typ(true, true)},
		"AuditEvent": {"Outcome": typ(true, true), "Before": typ(true, false), "TicketState": typ(false, true)},
	}
	var problems []string
	fw := pkgFiles2(res, "db")
	if msg := typeCheck(fw); msg != "" {
		problems = append(problems, "package does not type-check: "+msg)
	}
	sum := summarize(fw)
	obs := J{"ok": true}
	for _, sn := range []string{"Ticket", "AuditEvent"} {
		got := map[string]string{}
		if st := sum.structNamed(sn); st != nil {
			for _, f := range st.Fields {
				got[f.Name] = f.Type
			}
		}
		obs["model:"+sn] = got
		for _, fn := range sortedKeys(want[sn]) {
			if got[fn] != want[sn][fn] {
				problems = append(problems, fmt.Sprintf("db_type override %s (nullable=%v): %s.%s is %q, expected %q", dbt, nullable, sn, fn, got[fn], want[sn][fn]))
			}
		}
	}
	for mn, w := range map[string]string{"TicketState": typ(false, true), "EventOutcome": typ(true, true)} {
		if m := sum.method(mn); m != nil && (len(m.Results) == 0 || m.Results[0] != w) {
			problems = append(problems, fmt.Sprintf("db_type override %s: %s returns %v, expected %s", dbt, mn, m.Results, w))
		}
	}
	for mn, w := range map[string]string{"ByState": typ(false, true), "ByOutcome": typ(true, true)} {
		if m := sum.method(mn); m != nil && (len(m.Params) != 1 || m.Params[0].Type != w) {
			problems = append(problems, fmt.Sprintf("db_type override %s: %s takes %v, expected %s", dbt, mn, m.Params, w))
		}
	}
	sort.Strings(problems)
	oracle := ""
	if len(problems) > 0 {
		oracle = strings.Join(problems[:min(len(problems), 3)], " | ")
	}
	return Case{ID: id, Kind: "e2e", In: in, Impl: obs, Oracle: oracle, Tags: tags}
}


// randGoTypeSpec: a go_type value (JSON): basic types, import-path specs in every arrangement of dots, slashes,
// pointer stars and version / go- affixes (including specs with no type name at all), and object forms
func randGoTypeSpec(r *Rng) string {
	dirs := []string{"", "a", "github.com/x", "gopkg.in", "example.com/a/b", "go-x/y", "x/v2", "x/go-y", "x/y-go", "x/y.z"}
	pkgs := []string{"pkg", "go-pkg", "pkg-go", "v2", "v10", "my.pkg", "my_pkg", "Pkg", "p1"}
	typs := []string{"T", "Type", "t", "T1", ""}
	basics := []string{"string", "int", "int64", "float64", "bool", "byte", "rune", "uint8", "error", "any", "complex128", "uintptr", "Pointer", "untyped int", ""}
	var js string
	switch r.Intn(6) {
	case 0:
		js = jsonStr(r.Pick(basics))
	case 1, 2:
		d := r.Pick(dirs)
		s := r.Pick(pkgs) + "." + r.Pick(typs)
		if d != "" {
			s = d + "/" + s
		}
		if r.Chance(25) {
			s = "*" + s
		}
		if r.Chance(10) {
			s = strings.Replace(s, ".", "", 1)
		}
		js = jsonStr(s)
	case 3:
		// the type name forgotten, stray separators
		js = jsonStr(r.Pick([]string{"github.com/foo", "gopkg.in/guregu", "example.com/", "*github.com/segmentio/ksuid", ".", "/", "*", "a.b/c", "a/b.", "./x", "x/.y", "**a/b.C",
			"a/b.C.D", "a//b.C", " a/b.C", "a/b.C ", "a/b.*C", "[]a/b.C", "a.b", "a.b.c/d", "/.", "./", "a/", "/a.B", "github.com/x/y/"}))
	default:
		o := J{}
		if r.Chance(80) {
			d := r.Pick(dirs)
			pk := r.Pick(pkgs)
			if d != "" {
				pk = d + "/" + pk
			}
			o["import"] = pk
		}
		if r.Chance(30) {
			o["package"] = r.Pick([]string{"alias", "p", ""})
		}
		o["type"] = r.Pick(append(typs, "string", "int64"))
		if r.Chance(30) {
			o["pointer"] = true
		}
		js = jsonStr(o)
	}
	return js
}
