package main

import (
	"fmt"
	"regexp"
	"sort"
	"strconv"
	"strings"

	"github.com/kyleconroy/sqlc/internal/source"
)

func init() { props["C17"] = runC17 }

func lineNumberCase(id, src string, head int, tags []string) Case {
	impl := J{}
	func() {
		defer func() {
			if p := recover(); p != nil {
				impl["panic"] = true
			}
		}()
		l, c := source.LineNumber(src, head)
		impl["line"] = l
		impl["col"] = c
	}()
	return Case{ID: id, Kind: "linenumber", In: J{"src": hx(src), "head": head}, Impl: impl, Tags: tags}
}

var diagRe = regexp.MustCompile(`^([^:]+):(\d+):(\d+): (.*)$`)

type stmtSpan struct {
	Start, End int // byte offsets [Start, End) of the statement as the real parser reports it
}

// statement spans from the real PostgreSQL front end
func pgSpans(src string) ([]stmtSpan, error) {
	stmts, err := pgParse(src)
	if err != nil {
		return nil, err
	}
	var sp []stmtSpan
	for _, s := range stmts {
		sp = append(sp, stmtSpan{s.Raw.StmtLocation, s.Raw.StmtLocation + s.Raw.StmtLen})
	}
	return sp, nil
}

// building blocks for query files: (text, is in error, what kind)
type qstmt struct {
	text string
	bad  string // "" = fine
}

func genQueryStmt(r *Rng, idx int, bad bool) qstmt {
	name := fmt.Sprintf("Q%d", idx)
	lead := ""
	for k := r.Intn(3); k > 0; k-- {
		lead += r.Pick([]string{"\n", "  \n", "-- plain comment\n", "-- commentaire accentué é à ü\n", "/* block comment */\n", "-- 日本語\n"})
	}
	indent := r.Pick([]string{"", "", "  ", "\t"})
	if !bad {
		body := r.Pick([]string{
			"SELECT id, name FROM authors WHERE id = $1",
			"SELECT name\n  FROM authors\n  WHERE name = 'é—ü'",
			"INSERT INTO authors (id, name) VALUES ($1, $2)",
			"UPDATE authors\nSET name = $2\nWHERE id = $1",
			"DELETE FROM authors WHERE id = $1",
			"SELECT id FROM authors WHERE name LIKE '/tmp/*'",
			"SELECT id FROM authors WHERE name = 'a--b' OR name = '*/'",
			"SELECT id /* inline */ FROM authors",
		})
		cmd := ":many"
		if strings.HasPrefix(body, "INSERT") || strings.HasPrefix(body, "UPDATE") || strings.HasPrefix(body, "DELETE") {
			cmd = ":exec"
		}
		return qstmt{text: lead + "-- name: " + name + " " + cmd + "\n" + indent + body + ";\n"}
	}
	kinds := []string{"unknown-column", "bad-annotation", "missing-returning", "param-gap", "unknown-table", "bad-name", "mixed-params", "unknown-cmd"}
	// one offending statement per error site of the compiler and the validators, each spread over several lines
	more := map[string]string{
		"unknown-qualifier-star":   ":many\n" + indent + "SELECT\n  a.*\nFROM authors",
		"ambiguous-column":         ":many\n" + indent + "SELECT\n  id\nFROM authors a\nJOIN authors b ON a.id = b.id",
		"unknown-param-column":     ":many\n" + indent + "SELECT id\nFROM authors\nWHERE nope = $1",
		"ambiguous-param-column":   ":many\n" + indent + "SELECT a.id\nFROM authors a\nJOIN authors b ON a.id = b.id\nWHERE name = $1",
		"unknown-set-column":       ":exec\n" + indent + "UPDATE authors\nSET nope = $1\nWHERE id = $2",
		"insert-arity":             ":exec\n" + indent + "INSERT INTO authors\n  (id, name)\nVALUES\n  ($1)",
		"unknown-sqlc-function":    ":many\n" + indent + "SELECT id\nFROM authors\nWHERE id = sqlc.nope(1)",
		"function-arity":          ":many\n" + indent + "SELECT id,\n  random(2)\nFROM authors",
		"function-arity-where":    ":many\n" + indent + "SELECT id\nFROM authors\nWHERE id = random(1, 2)",
		"too-many-parts":           ":many\n" + indent + "SELECT id\nFROM authors\nWHERE a.b.c.id = $1",
		"unknown-returning":        ":one\n" + indent + "DELETE FROM authors\nWHERE id = $1\nRETURNING nope",
		"unknown-join-table":       ":many\n" + indent + "SELECT authors.id\nFROM authors\nJOIN nowhere n ON n.id = authors.id",
		"unknown-qualified-column": ":many\n" + indent + "SELECT\n  authors.nope\nFROM authors",
	}
	if r.Chance(60) {
		var ks []string
		for k := range more {
			ks = append(ks, k)
		}
		sort.Strings(ks)
		k := r.Pick(ks)
		return qstmt{lead + "-- name: " + name + " " + more[k] + ";\n", k}
	}
	k := r.Pick(kinds)
	switch k {
	case "unknown-column":
		return qstmt{lead + "-- name: " + name + " :many\n" + indent + "SELECT id,\n   nope,\n name FROM authors;\n", k}
	case "bad-annotation":
		return qstmt{lead + "-- name: " + name + "\n" + indent + "SELECT id FROM authors;\n", k}
	case "missing-returning":
		return qstmt{lead + "-- name: " + name + " :one\n" + indent + "UPDATE authors\nSET name = $1\nWHERE id = $2;\n", k}
	case "param-gap":
		return qstmt{lead + "-- name: " + name + " :many\n" + indent + "SELECT id FROM authors WHERE id = $1 AND name = $3;\n", k}
	case "unknown-table":
		return qstmt{lead + "-- name: " + name + " :many\n" + indent + "SELECT id FROM\n  nowhere;\n", k}
	case "bad-name":
		return qstmt{lead + "-- name: 9" + name + " :many\n" + indent + "SELECT id FROM authors;\n", k}
	case "mixed-params":
		return qstmt{lead + "-- name: " + name + " :many\n" + indent + "SELECT id FROM authors WHERE id = $1 AND name = @name;\n", k}
	default:
		return qstmt{lead + "-- name: " + name + " :lots\n" + indent + "SELECT id FROM authors;\n", k}
	}
}

// cfg: configuration directory; queries: directory of the query files (both relative to the project root);
// ref: how the configuration refers to it; printed: the name a diagnostic must use once the project root is stripped
type c17Layout struct{ cfg, queries, ref, printed string }

var c17Layouts = []c17Layout{
	{"", "q", "q", "q"},
	{"db", "db/q", "q", "q"},
	{"db", "db/db", "db", "db"},
	{"db", "db_queries", "../db_queries", "db_queries"},
	{"sql", "sql-queries", "../sql-queries", "sql-queries"},
	{"conf", "confq", "../confq", "confq"},
	{"conf", "other/queries", "../other/queries", "other/queries"},
	{"", ".q", ".q", ".q"},
	{"a/b", "a/bq", "../bq", "a/bq"},
	{"a/b", "a/b/a/b", "a/b", "a/b"},
}

func runC17(r *Rng, n int, tier string) {
	fixed := []struct {
		s string
		h int
	}{{"", 0}, {"-", 0}, {"a-", 1}, {"a-", 2}, {"SELECT 1;\n", 9}, {"-- c\nSELECT 1", 5}, {"é-- c\nSELECT 1", 3}, {"\n\n  x", 0}, {"x", 5},
		{"ééé\nSELECT nope FROM t", 7}, {"ééé\nSELECT nope FROM t", 14}}
	for i, f := range fixed {
		emit(lineNumberCase(fmt.Sprintf("ln-fixed-%d", i), f.s, f.h, []string{"fixed"}))
	}
	for i := 0; i < n*2; i++ {
		s := genSQLText(r)
		h := 0
		if len(s) > 0 {
			h = r.Intn(len(s) + 2)
		}
		tags := []string{}
		if len(s) != len([]rune(s)) {
			tags = append(tags, "multibyte")
		}
		emit(lineNumberCase(fmt.Sprintf("ln-%d", i), s, h, tags))
	}
	// end to end: query files with k statements, any subset in error
	ne := n/2 + len(c17Layouts)
	schema := "CREATE TABLE authors (id bigint NOT NULL, name text NOT NULL);\n"
	for i := 0; i < ne; i++ {
		nfiles := 1 + r.Intn(2)
		// where the configuration and the query files live, relative to the project root: the printed name is
		// relative to the configuration directory when the file is below it, the full path otherwise
		lay := c17Layouts[r.Intn(len(c17Layouts))]
		if i < len(c17Layouts) {
			lay = c17Layouts[i] // every layout once, with an offending statement, whatever the seed
		} else if i%2 == 0 {
			lay = c17Layouts[0]
		}
		cfgPrefix := ""
		if lay.cfg != "" {
			cfgPrefix = lay.cfg + "/"
		}
		files := map[string]string{cfgPrefix + "schema.sql": schema}
		var order []string
		type expect struct {
			file   string
			lo, hi int
			kind   string
		}
		var exps []expect
		var tags []string
		qi := 0
		anyBad := false
		// a directory is read in lexical order; an explicit list of files in the order it is written
		explicit := i >= len(c17Layouts) && i%3 == 2
		many := i%6 == 5
		if explicit {
			nfiles = 2 + r.Intn(2)
		}
		listed := make([]int, nfiles)
		for f := range listed {
			listed[f] = f
		}
		if explicit {
			listed = r.Perm(nfiles)
			if nfiles == 2 {
				listed = []int{1, 0}
			}
		}
		var refs []string
		for _, f := range listed {
			fname := fmt.Sprintf("%s/%c.sql", lay.queries, 'a'+f)
			refs = append(refs, fmt.Sprintf("%s/%c.sql", lay.ref, 'a'+f))
			order = append(order, fname)
			k := 1 + r.Intn(4)
			if many {
				k = 7 + r.Intn(5) // more than a dozen diagnostics in all
			}
			var body strings.Builder
			var sts []qstmt
			for j := 0; j < k; j++ {
				qi++
				st := genQueryStmt(r, qi, r.Chance(45) || (i < len(c17Layouts) && j == 0) || (many && r.Chance(80)))
				sts = append(sts, st)
				body.WriteString(st.text)
			}
			if r.Chance(20) {
				body.WriteString("\n-- trailing é\n")
			}
			src := body.String()
			files[fname] = src
			if lay.printed != lay.queries {
				fname = fmt.Sprintf("%s/%c.sql", lay.printed, 'a'+f) // what a diagnostic calls it
			}
			spans, err := pgSpans(src)
			if err != nil || len(spans) != len(sts) {
				continue
			}
			for j, st := range sts {
				if st.bad == "" {
					continue
				}
				anyBad = true
				prevEnd := 0
				if j > 0 {
					prevEnd = spans[j-1].End
				}
				lo := 1 + strings.Count(src[:prevEnd], "\n")
				hi := 1 + strings.Count(src[:spans[j].End], "\n")
				exps = append(exps, expect{fname, lo, hi, st.bad})
				tags = append(tags, st.bad)
			}
			if len(src) != len([]rune(src)) {
				tags = append(tags, "multibyte")
			}
		}
		qref := jsonStr(lay.ref)
		if explicit {
			qref = jsonStr(refs)
			tags = append(tags, "explicit-file-list")
		}
		if many {
			tags = append(tags, "many-diagnostics")
		}
		files[cfgPrefix+"sqlc.json"] = fmt.Sprintf(`{"version":"1","packages":[{"path":"out","engine":"postgresql","schema":"schema.sql","queries":%s}]}`, qref)
		res := generateIn(files, lay.cfg)
		tags = append(tags, "layout:"+lay.cfg+"|"+lay.queries)
		var got [][3]string
		for _, l := range strings.Split(res.Stderr, "\n") {
			if m := diagRe.FindStringSubmatch(l); m != nil {
				got = append(got, [3]string{m[1], m[2], m[3]})
			}
		}
		oracle := ""
		if res.Panic != "" {
			oracle = "panic: " + res.Panic
		} else if anyBad {
			if res.OK() {
				oracle = "offending statements but generation succeeded"
			} else if len(got) != len(exps) {
				oracle = fmt.Sprintf("expected %d diagnostics (one per offending statement), got %d", len(exps), len(got))
			} else {
				for k, e := range exps {
					ln, _ := strconv.Atoi(got[k][1])
					col, _ := strconv.Atoi(got[k][2])
					if got[k][0] != e.file {
						oracle = fmt.Sprintf("diagnostic %d names %s, offending statement is in %s (file then source order)", k, got[k][0], e.file)
						break
					}
					if ln < e.lo || ln > e.hi {
						oracle = fmt.Sprintf("diagnostic %d (%s) reports line %d, statement region is lines %d..%d of %s", k, e.kind, ln, e.lo, e.hi, e.file)
						break
					}
					if col < 1 {
						oracle = fmt.Sprintf("diagnostic %d (%s) reports column %d", k, e.kind, col)
						break
					}
				}
			}
		} else if !res.OK() {
			oracle = "no offending statement but generation failed: " + firstLine(res.Stderr)
		}
		var ex []J
		for _, e := range exps {
			ex = append(ex, J{"file": e.file, "lo": e.lo, "hi": e.hi, "kind": e.kind})
		}
		emit(Case{ID: fmt.Sprintf("diag-%d", i), Kind: "diagnostics", In: J{"files": files}, Impl: J{"diagnostics": got, "expected": ex}, Oracle: oracle, Detail: J{"stderr": res.Stderr}, Tags: tags})
	}
}
