package main

// Query statement generator for the L2 streams (C02, C03, C05, C06, C07, C10, C20): statements of the
// supported grammar over a small schema family with shared column names, reserved words, several
// schemas, enums and arrays. Risky constructs that hit recorded findings are generated rarely and are
// tagged with the finding they trigger BY CONSTRUCTION.

import (
	"fmt"
	"strings"
)

type QSchema struct {
	Engine string
	Tables []PTable // first three are in the default schema
	Extra  string   // extra DDL (schemas, enums, history)
	Enum   string
}

func (s QSchema) DDL() string {
	var b strings.Builder
	b.WriteString(s.Extra)
	for _, t := range s.Tables {
		b.WriteString(t.DDL(s.Engine))
		b.WriteString("\n")
	}
	return b.String()
}

func (s QSchema) table(name string) *PTable {
	for i := range s.Tables {
		if s.Tables[i].Name == name {
			return &s.Tables[i]
		}
	}
	return nil
}

func genQSchema(r *Rng, engine string) QSchema {
	s := QSchema{Engine: engine}
	nn := func(p int) bool { return r.Chance(p) }
	ty := func(pg, my string) string {
		if engine == "mysql" {
			return my
		}
		return pg
	}
	ord := `"order"`
	if engine == "mysql" {
		ord = "`order`"
	}
	authors := PTable{Name: "authors", Cols: []PCol{{"id", "bigint", true, false}, {"name", "text", nn(80), false}, {"bio", "text", nn(30), false},
		{"age", "int", nn(40), false}}}
	if engine == "postgresql" && r.Chance(50) {
		authors.Cols = append(authors.Cols, PCol{"tags", "text[]", nn(50), true})
	}
	books := PTable{Name: "books", Cols: []PCol{{"id", "bigint", true, false}, {"author_id", "bigint", true, false}, {"title", ty("text", "varchar(200)"), nn(70), false},
		{"price", ty("numeric(10,2)", "decimal(10,2)"), nn(40), false}, {ord, "int", nn(30), false}}}
	if engine == "postgresql" && r.Chance(50) {
		s.Enum = "book_kind"
		s.Extra += "CREATE TYPE book_kind AS ENUM ('novel', 'essay');\n"
		books.Cols = append(books.Cols, PCol{"kind", "book_kind", nn(50), false})
	}
	venues := PTable{Name: "venues", Cols: []PCol{{"id", "bigint", true, false}, {"name", ty("text", "varchar(100)"), nn(60), false}, {"slug", "text", nn(40), false},
		{"created_at", ty("timestamptz", "datetime"), nn(50), false}}}
	s.Tables = []PTable{authors, books, venues}
	if engine == "postgresql" && r.Chance(30) {
		s.Extra += "CREATE SCHEMA archive;\n"
		s.Tables = append(s.Tables, PTable{Name: "archive.books", Cols: []PCol{{"id", "bigint", true, false}, {"title", "text", false, false}, {"archived_at", "timestamptz", nn(50), false}}})
	}
	return s
}

type QStmt struct {
	Name  string
	Cmd   string
	SQL   string
	Tags  []string
	Known []string
	// number of distinct placeholders the statement uses
	NParams int
}

func (q QStmt) Text() string { return fmt.Sprintf("-- name: %s %s\n%s;\n", q.Name, q.Cmd, q.SQL) }

type qgen struct {
	r      *Rng
	s      QSchema
	mysql  bool
	named  bool
	style  int
	order  []int // permutation applied to positional numbers, so that they are written out of order
	next   int
	names  []string
	tags   map[string]bool
	known  map[string]bool
	risky  bool // allow constructs that trigger recorded findings
}

func (g *qgen) tag(t string)   { g.tags[t] = true }
func (g *qgen) finding(t string) { g.known[t] = true }

// param: a fresh placeholder (or, with `reuse`, possibly a repeated one) for a column named hint
func (g *qgen) param(hint string) string {
	if g.mysql {
		g.next++
		return "?"
	}
	if g.named {
		nm := hint
		if nm == "" {
			nm = fmt.Sprintf("p%d", g.next+1)
		}
		reused := false
		for _, n := range g.names {
			if n == nm {
				reused = true
			}
		}
		if !reused {
			g.names = append(g.names, nm)
			g.next++
		}
		g.tag("named")
		switch g.style {
		case 0:
			return "@" + nm
		case 1:
			return "sqlc.arg(" + nm + ")"
		default:
			return "sqlc.arg('" + nm + "')"
		}
	}
	if g.next > 0 && g.r.Chance(15) {
		g.tag("repeated-placeholder")
		return fmt.Sprintf("$%d", g.order[g.r.Intn(g.next)]+1)
	}
	g.next++
	return fmt.Sprintf("$%d", g.order[g.next-1]+1)
}

func (g *qgen) col(t *PTable) PCol { return t.Cols[g.r.Intn(len(t.Cols))] }

func (g *qgen) cond(alias string, t *PTable) string {
	q := func(c string) string {
		if alias != "" {
			return alias + "." + c
		}
		return c
	}
	c := g.col(t)
	k := g.r.Intn(100)
	switch {
	case k < 40:
		g.tag("cmp")
		return fmt.Sprintf("%s %s %s", q(c.Name), g.r.Pick([]string{"=", "<>", ">", "<=", "LIKE"}), g.param(strings.Trim(c.Name, "\"`")))
	case k < 50:
		g.tag("in-list")
		return fmt.Sprintf("%s IN (%s, %s)", q(c.Name), g.param(""), g.param(""))
	case k < 58:
		g.tag("between")
		return fmt.Sprintf("%s BETWEEN %s AND %s", q(c.Name), g.param(""), g.param(""))
	case k < 66 && !g.mysql:
		g.tag("cast")
		return fmt.Sprintf("%s = %s::%s", q(c.Name), g.param(""), g.r.Pick([]string{"text", "bigint", "int", "boolean"}))
	case k < 74:
		g.tag("func-direct")
		return fmt.Sprintf("%s = lower(%s)", q(c.Name), g.param(""))
	case k < 80:
		g.tag("literal")
		return fmt.Sprintf("%s = %s", q(c.Name), g.r.Pick([]string{"1", "'x'", "NULL"}))
	case k < 85 && g.risky:
		g.tag("func-nested")
		g.finding("funcArgNested")
		return fmt.Sprintf("%s = lower(coalesce(%s, 'x'))", q(c.Name), g.param(""))
	case k < 88 && g.risky && !g.mysql && !g.named && g.next > 0:
		g.tag("func-repeated")
		g.finding("funcArgRepeated")
		p := fmt.Sprintf("$%d", g.order[g.r.Intn(g.next)]+1)
		return fmt.Sprintf("%s = concat(%s, %s)", q(c.Name), p, p)
	case k < 91 && g.risky:
		g.tag("placeholder-left")
		g.finding("placeholderLeft")
		return fmt.Sprintf("%s = %s", g.param(""), q(c.Name))
	case k < 94 && g.risky:
		g.tag("bare-placeholder")
		g.finding("noParent")
		return g.param("")
	default:
		g.tag("cmp")
		return fmt.Sprintf("%s = %s", q(c.Name), g.param(strings.Trim(c.Name, "\"`")))
	}
}

func (g *qgen) where(alias string, t *PTable) string {
	n := 1 + g.r.Intn(3)
	var cs []string
	for i := 0; i < n; i++ {
		cs = append(cs, g.cond(alias, t))
	}
	op := " AND "
	if g.r.Chance(25) {
		op = " OR "
	}
	return strings.Join(cs, op)
}

func qual(alias, c string) string {
	if alias != "" {
		return alias + "." + c
	}
	return c
}

func (g *qgen) targets(alias string, t *PTable, allowStar bool) string {
	n := 1 + g.r.Intn(3)
	var ts []string
	for i := 0; i < n; i++ {
		c := g.col(t)
		k := g.r.Intn(100)
		switch {
		case k < 35:
			ts = append(ts, qual(alias, c.Name))
		case k < 45 && allowStar:
			g.tag("star")
			if alias != "" && g.r.Bool() {
				ts = append(ts, alias+".*")
			} else {
				ts = append(ts, "*")
			}
		case k < 55:
			g.tag("alias")
			ts = append(ts, qual(alias, c.Name)+" AS "+g.r.Pick([]string{"x", "other", "label", "id"}))
		case k < 62:
			g.tag("aggregate")
			ts = append(ts, "count(*)")
		case k < 68:
			g.tag("func-target")
			ts = append(ts, "lower("+qual(alias, c.Name)+") AS low")
		case k < 74 && !g.mysql:
			g.tag("cast-target")
			ts = append(ts, qual(alias, c.Name)+"::text")
		case k < 80:
			g.tag("coalesce")
			ts = append(ts, "coalesce("+qual(alias, c.Name)+", "+g.r.Pick([]string{"'x'", "0"})+") AS c")
		case k < 85:
			g.tag("case")
			ts = append(ts, "CASE WHEN "+qual(alias, c.Name)+" IS NULL THEN 'n' ELSE 'y' END AS flag")
		case k < 90:
			g.tag("arith")
			ts = append(ts, qual(alias, c.Name)+" IS NOT NULL AS present")
		default:
			ts = append(ts, qual(alias, c.Name))
		}
	}
	return strings.Join(ts, ", ")
}

func genQStmt(r *Rng, s QSchema, idx int, risky bool) QStmt {
	g := &qgen{r: r, s: s, mysql: s.Engine == "mysql", tags: map[string]bool{}, known: map[string]bool{}, risky: risky}
	g.named = r.Chance(30)
	g.style = r.Intn(3)
	g.order = r.Perm(12)
	if r.Chance(60) {
		for i := range g.order {
			g.order[i] = i // in order most of the time
		}
	}
	// out-of-order numbering must still be contiguous 1..n: fixed up after generation
	t := &s.Tables[r.Intn(3)]
	u := &s.Tables[(r.Intn(2)+1+indexOfQ(s, t.Name))%3]
	q := QStmt{Name: fmt.Sprintf("Q%d", idx)}
	k := r.Intn(100)
	switch {
	case k < 30: // plain select
		q.Cmd = r.Pick([]string{":one", ":many"})
		alias := r.Pick([]string{"", "", "a"})
		from := t.Name
		if alias != "" {
			from += " " + alias
		}
		q.SQL = "SELECT " + g.targets(alias, t, true) + " FROM " + from
		if r.Chance(80) {
			q.SQL += " WHERE " + g.where(alias, t)
		}
		if r.Chance(30) {
			q.SQL += " ORDER BY " + qual(alias, t.Cols[0].Name)
		}
		if r.Chance(30) {
			g.tag("limit")
			q.SQL += " LIMIT " + g.param("")
			if r.Chance(50) && !g.mysql {
				g.tag("offset")
				q.SQL += " OFFSET " + g.param("")
			}
		}
	case k < 36 && g.mysql: // placeholders in the select list, the join condition and the filter
		q.Cmd = ":many"
		g.tag("select-list-placeholder")
		q.SQL = fmt.Sprintf("SELECT a.id + %s, b.id FROM %s a JOIN %s b ON b.id = a.id AND b.%s = %s WHERE a.%s = %s", g.param(""), t.Name, u.Name, u.Cols[1].Name, g.param(""), t.Cols[1].Name, g.param(""))
	case k < 45: // join
		q.Cmd = ":many"
		g.tag("join")
		q.SQL = fmt.Sprintf("SELECT %s, %s FROM %s a JOIN %s b ON b.id = a.id", g.targets("a", t, true), g.targets("b", u, false), t.Name, u.Name)
		if r.Chance(70) {
			q.SQL += " WHERE " + g.where("a", t)
			if r.Chance(40) {
				q.SQL += " AND " + g.cond("b", u)
			}
		}
	case k < 52: // comma from-list, unqualified
		q.Cmd = ":many"
		g.tag("comma-from")
		q.SQL = fmt.Sprintf("SELECT a.id, b.id AS other_id FROM %s a, %s b WHERE a.id = b.id AND %s", t.Name, u.Name, g.cond("a", t))
	case k < 62: // insert
		g.tag("insert")
		var cols, vals []string
		for _, c := range t.Cols {
			if r.Chance(75) || c.NotNull {
				cols = append(cols, c.Name)
				switch {
				case r.Chance(75):
					vals = append(vals, g.param(strings.Trim(c.Name, "\"`")))
				case r.Chance(50) && !g.mysql && !c.Array:
					g.tag("insert-cast")
					vals = append(vals, g.param("")+"::"+strings.Split(c.Type, "(")[0])
				default:
					vals = append(vals, "NULL")
				}
			}
		}
		q.SQL = fmt.Sprintf("INSERT INTO %s (%s) VALUES (%s)", t.Name, strings.Join(cols, ", "), strings.Join(vals, ", "))
		q.Cmd = r.Pick([]string{":exec", ":execrows", ":execresult"})
		if !g.mysql && r.Chance(50) {
			g.tag("returning")
			q.SQL += " RETURNING " + r.Pick([]string{"*", "id", t.Cols[1].Name + ", id"})
			q.Cmd = ":one"
		}
	case k < 72: // update
		g.tag("update")
		var sets []string
		for i := 0; i < 1+r.Intn(2); i++ {
			c := t.Cols[1+r.Intn(len(t.Cols)-1)]
			sets = append(sets, c.Name+" = "+g.param(strings.Trim(c.Name, "\"`")))
		}
		q.SQL = fmt.Sprintf("UPDATE %s SET %s WHERE %s", t.Name, strings.Join(sets, ", "), g.where("", t))
		q.Cmd = ":exec"
		if !g.mysql && r.Chance(40) {
			g.tag("returning")
			q.SQL += " RETURNING *"
			q.Cmd = ":one"
		}
	case k < 80: // delete
		g.tag("delete")
		q.SQL = fmt.Sprintf("DELETE FROM %s WHERE %s", t.Name, g.where("", t))
		q.Cmd = ":execrows"
		if !g.mysql && r.Chance(30) {
			g.tag("returning")
			q.SQL += " RETURNING id"
			q.Cmd = ":many"
		}
	case k < 86 && !g.mysql: // CTE
		q.Cmd = ":many"
		g.tag("cte")
		q.SQL = fmt.Sprintf("WITH recent AS (SELECT id, %s FROM %s WHERE %s) SELECT %s FROM recent", t.Cols[1].Name, t.Name, g.cond("", t), r.Pick([]string{"*", "id", "recent.*", "recent.id, " + t.Cols[1].Name}))
		if r.Chance(40) {
			q.SQL += " WHERE id > " + g.param("")
			if !g.named {
				g.finding("cteParamOrder")
			}
		}
	case k < 90: // scalar sub-select / exists over another table
		q.Cmd = ":many"
		g.tag("exists")
		sub := fmt.Sprintf("EXISTS (SELECT 1 FROM %s WHERE %s.id = %s.id)", u.Name, u.Name, t.Name)
		q.SQL = fmt.Sprintf("SELECT %s.id FROM %s WHERE %s AND %s", t.Name, t.Name, g.cond(t.Name, t), sub)
	case k < 94 && risky: // derived table
		q.Cmd = ":many"
		g.tag("derived-table")
		g.finding("subselectLeak")
		q.SQL = fmt.Sprintf("SELECT %s FROM (SELECT id, %s FROM %s) s", r.Pick([]string{"*", "s.id", "id"}), t.Cols[1].Name, t.Name)
	case k < 97: // union
		q.Cmd = ":many"
		g.tag("union")
		q.SQL = fmt.Sprintf("SELECT id, %s FROM %s WHERE id = %s UNION SELECT id, %s FROM %s", t.Cols[1].Name, t.Name, g.param("id"), u.Cols[1].Name, u.Name)
	default: // schema-qualified
		if len(s.Tables) > 3 {
			g.tag("schema-qualified")
			q.Cmd = ":many"
			q.SQL = fmt.Sprintf("SELECT %s FROM archive.books WHERE id = %s", r.Pick([]string{"*", "title", "archive.books.id"}), g.param("id"))
		} else {
			q.Cmd = ":one"
			q.SQL = fmt.Sprintf("SELECT count(*) FROM %s", t.Name)
		}
	}
	q.NParams = g.next
	// make out-of-order positional numbers contiguous: rename $k by rank
	if !g.mysql && !g.named {
		q.SQL, q.NParams = renumberContiguous(q.SQL)
		if q.NParams > 1 && !strings.Contains(q.SQL, "$1") == false {
			// detect out-of-order writing
			first := strings.Index(q.SQL, "$")
			if first >= 0 && first+1 < len(q.SQL) && q.SQL[first+1] != '1' {
				g.tag("out-of-order")
			}
		}
	}
	for t := range g.tags {
		q.Tags = append(q.Tags, t)
	}
	for t := range g.known {
		q.Known = append(q.Known, t)
	}
	sortStrings(q.Tags)
	sortStrings(q.Known)
	return q
}

func indexOfQ(s QSchema, name string) int {
	for i, t := range s.Tables {
		if t.Name == name {
			return i
		}
	}
	return 0
}

// renumberContiguous maps the distinct $k of a statement onto 1..n preserving their relative order of
// magnitude (so that a permutation stays a permutation)
func renumberContiguous(sql string) (string, int) {
	seen := map[int]bool{}
	var nums []int
	for i := 0; i < len(sql); i++ {
		if sql[i] == '$' {
			j := i + 1
			n := 0
			for j < len(sql) && sql[j] >= '0' && sql[j] <= '9' {
				n = n*10 + int(sql[j]-'0')
				j++
			}
			if j > i+1 && !seen[n] {
				seen[n] = true
				nums = append(nums, n)
			}
		}
	}
	sorted := append([]int{}, nums...)
	for i := range sorted {
		for j := i + 1; j < len(sorted); j++ {
			if sorted[j] < sorted[i] {
				sorted[i], sorted[j] = sorted[j], sorted[i]
			}
		}
	}
	rank := map[int]int{}
	for i, n := range sorted {
		rank[n] = i + 1
	}
	var b strings.Builder
	for i := 0; i < len(sql); i++ {
		if sql[i] == '$' {
			j := i + 1
			n := 0
			for j < len(sql) && sql[j] >= '0' && sql[j] <= '9' {
				n = n*10 + int(sql[j]-'0')
				j++
			}
			if j > i+1 {
				b.WriteString(fmt.Sprintf("$%d", rank[n]))
				i = j - 1
				continue
			}
		}
		b.WriteByte(sql[i])
	}
	return b.String(), len(nums)
}

// corruptStmt: a single-name corruption — rename a table or a column in the query, remove the column in
// a later migration, or make an unqualified column ambiguous by joining a second table that has it
func corruptStmt(r *Rng, s QSchema, q QStmt, schema string) (QStmt, string) {
	t := &s.Tables[r.Intn(3)]
	c := t.Cols[1+r.Intn(len(t.Cols)-1)]
	k := r.Intn(10)
	switch {
	case k < 3:
		k = 0
	case k < 6:
		k = 1
	default:
		k = k - 4 // 2..5
	}
	switch k {
	case 0:
		// rename ONE occurrence of a relation the statement uses — the outermost or a nested one
		var names []string
		for _, tb := range s.Tables {
			names = append(names, tb.Name)
		}
		if sql, ok := replaceOneWord(r, q.SQL, names, "nowhere"); ok {
			q.SQL = sql
			q.Tags = append(q.Tags, "corrupt:table-renamed")
		}
	case 1:
		var names []string
		for _, tb := range s.Tables[:3] {
			for _, c := range tb.Cols[1:] {
				names = append(names, strings.Trim(c.Name, "\"`"))
			}
		}
		if sql, ok := replaceOneWord(r, q.SQL, names, "nope"); ok {
			q.SQL = sql
			q.Tags = append(q.Tags, "corrupt:column-renamed")
		}
	case 2:
		if s.Engine == "postgresql" {
			schema += fmt.Sprintf("ALTER TABLE %s DROP COLUMN %s;\n", t.Name, c.Name)
			q.Tags = append(q.Tags, "corrupt:column-dropped-by-migration")
		}
	case 3:
		if s.Engine == "postgresql" {
			schema += fmt.Sprintf("ALTER TABLE %s RENAME COLUMN %s TO renamed_col;\n", t.Name, c.Name)
			q.Tags = append(q.Tags, "corrupt:column-renamed-by-migration")
		}
	case 4:
		// unqualified shared column over two tables
		q.Cmd = ":many"
		q.SQL = fmt.Sprintf("SELECT id FROM authors JOIN venues ON venues.id = authors.id WHERE name = %s", map[bool]string{true: "?", false: "$1"}[s.Engine == "mysql"])
		q.NParams = 1
		q.Known = nil
		q.Tags = []string{"corrupt:ambiguous-join"}
	default:
		q.Cmd = ":one"
		q.SQL = fmt.Sprintf("UPDATE %s SET nope = %s WHERE id = 1 RETURNING id", t.Name, map[bool]string{true: "?", false: "$1"}[s.Engine == "mysql"])
		if s.Engine == "mysql" {
			q.Cmd = ":exec"
			q.SQL = fmt.Sprintf("UPDATE %s SET nope = ? WHERE id = 1", t.Name)
		}
		q.NParams = 1
		q.Known = nil
		q.Tags = []string{"corrupt:set-target-missing"}
	}
	return q, schema
}

// genStarStmt: star-heavy statements over tables that share column names and use reserved words
func genStarStmt(r *Rng, s QSchema, idx int) QStmt {
	q := QStmt{Name: fmt.Sprintf("Q%d", idx), Cmd: ":many"}
	t := &s.Tables[r.Intn(3)]
	u := &s.Tables[(r.Intn(2)+1+indexOfQ(s, t.Name))%3]
	ph := "$1"
	if s.Engine == "mysql" {
		ph = "?"
	}
	switch r.Intn(8) {
	case 0:
		q.SQL = fmt.Sprintf("SELECT * FROM %s", t.Name)
	case 1:
		q.SQL = fmt.Sprintf("SELECT a.*, b.* FROM %s a JOIN %s b ON b.id = a.id", t.Name, u.Name)
	case 2:
		q.SQL = fmt.Sprintf("SELECT * FROM %s a JOIN %s b ON b.id = a.id WHERE a.id = %s", t.Name, u.Name, ph)
		q.NParams = 1
	case 3:
		q.SQL = fmt.Sprintf("SELECT b.*, a.id FROM %s a, %s b WHERE a.id = b.id", t.Name, u.Name)
	case 4:
		q.SQL = fmt.Sprintf("SELECT *, * FROM %s", t.Name)
	case 5:
		if s.Engine == "postgresql" {
			q.Cmd = ":one"
			q.SQL = fmt.Sprintf("DELETE FROM %s WHERE id = $1 RETURNING *", t.Name)
			q.NParams = 1
		} else {
			q.SQL = fmt.Sprintf("SELECT %s.* FROM %s", t.Name, t.Name)
		}
	case 6:
		if s.Engine == "postgresql" {
			q.SQL = fmt.Sprintf("WITH c AS (SELECT * FROM %s) SELECT c.* FROM c", t.Name)
		} else {
			q.SQL = fmt.Sprintf("SELECT x.* FROM %s x", t.Name)
		}
	default:
		// reserved word as alias
		al := `"group"`
		if s.Engine == "mysql" {
			al = "`group`"
		}
		q.SQL = fmt.Sprintf("SELECT %s.* FROM %s %s", al, t.Name, al)
		q.Known = []string{"quotedScope"}
	}
	q.Tags = []string{"star"}
	if strings.Contains(q.SQL, " JOIN ") || strings.Contains(q.SQL, ", ") {
		q.Tags = append(q.Tags, "star-multi-table")
	}
	return q
}

// alterHistory: migrations that change columns the queries use, so that the final definition differs
// from the CREATE TABLE text
func alterHistory(r *Rng, s QSchema) string {
	var b strings.Builder
	for i := 0; i < 1+r.Intn(3); i++ {
		t := s.Tables[r.Intn(3)]
		c := t.Cols[1+r.Intn(len(t.Cols)-1)]
		switch r.Intn(4) {
		case 0:
			b.WriteString(fmt.Sprintf("ALTER TABLE %s ALTER COLUMN %s SET NOT NULL;\n", t.Name, c.Name))
		case 1:
			b.WriteString(fmt.Sprintf("ALTER TABLE %s ALTER COLUMN %s DROP NOT NULL;\n", t.Name, c.Name))
		case 2:
			b.WriteString(fmt.Sprintf("ALTER TABLE %s ALTER COLUMN %s TYPE %s;\n", t.Name, c.Name, r.Pick([]string{"text", "bigint", "varchar(10)", "text[]"})))
		default:
			b.WriteString(fmt.Sprintf("ALTER TABLE %s ADD COLUMN extra_%d %s;\n", t.Name, i, r.Pick([]string{"int", "text NOT NULL", "uuid"})))
		}
	}
	return b.String()
}

// hardenSchema: the situations C07 / C02 quantify over that the base schema lacks: a reserved-word column
// shared by two tables, a column that only exists in quoted (mixed-case) spelling, a reserved-word table.
func hardenSchema(r *Rng, s *QSchema) {
	q := func(n string) string {
		if s.Engine == "mysql" {
			return "`" + n + "`"
		}
		return `"` + n + `"`
	}
	if r.Chance(45) {
		s.Tables[2].Cols = append(s.Tables[2].Cols, PCol{q("order"), "int", r.Chance(50), false})
	}
	if r.Chance(25) && s.Engine != "mysql" {
		// (MySQL column names are case-insensitive: a mixed-case name needs no quoting there)
		s.Tables[0].Cols = append(s.Tables[0].Cols, PCol{q("Mixed"), "text", r.Chance(50), false})
	}
	if r.Chance(25) {
		s.Tables[0].Cols = append(s.Tables[0].Cols, PCol{q("select"), "text", r.Chance(50), false})
	}
}

// genShapeStmt: result-shape stress for C02 — nested from-items, scalar sub-selects, set operations,
// aggregates, unnamed expressions, RETURNING lists
func genShapeStmt(r *Rng, s QSchema, idx int) QStmt {
	q := QStmt{Name: fmt.Sprintf("Q%d", idx), Cmd: ":many"}
	pg := s.Engine != "mysql"
	t := &s.Tables[r.Intn(3)]
	u := &s.Tables[(r.Intn(2)+1+indexOfQ(s, t.Name))%3]
	c1 := t.Cols[1+r.Intn(len(t.Cols)-1)].Name
	d1 := u.Cols[1+r.Intn(len(u.Cols)-1)].Name
	ph := "$1"
	if !pg {
		ph = "?"
	}
	k := r.Intn(16)
	tag := ""
	switch k {
	case 0:
		tag = "derived-star-star"
		q.SQL = fmt.Sprintf("SELECT * FROM (SELECT * FROM %s) s", t.Name)
		q.Known = []string{"subselectLeak"}
	case 1:
		tag = "derived-qualified-star"
		q.SQL = fmt.Sprintf("SELECT s.* FROM (SELECT id, %s FROM %s) s", c1, t.Name)
		q.Known = []string{"subselectLeak"}
	case 2:
		tag = "scalar-subselect-target"
		q.SQL = fmt.Sprintf("SELECT a.id, (SELECT count(*) FROM %s b WHERE b.id = a.id) AS n FROM %s a", u.Name, t.Name)
	case 3:
		tag = "star-plus-subselect"
		q.SQL = fmt.Sprintf("SELECT a.*, (SELECT max(b.id) FROM %s b) AS top FROM %s a WHERE a.id = %s", u.Name, t.Name, ph)
		q.NParams = 1
	case 4:
		tag = "left-join-mixed"
		q.SQL = fmt.Sprintf("SELECT a.*, b.%s AS x FROM %s a LEFT JOIN %s b ON b.id = a.id", d1, t.Name, u.Name)
	case 5:
		tag = "in-subselect"
		q.SQL = fmt.Sprintf("SELECT * FROM %s WHERE id IN (SELECT id FROM %s)", t.Name, u.Name)
	case 6:
		tag = "unnamed-exprs"
		q.SQL = fmt.Sprintf("SELECT 1, 'a', id + 1, %s FROM %s", c1, t.Name)
	case 7:
		tag = "aggregates"
		q.Cmd = ":one"
		q.SQL = fmt.Sprintf("SELECT count(*), max(id) AS top, min(%s) FROM %s", c1, t.Name)
	case 8:
		tag = "group-by"
		q.SQL = fmt.Sprintf("SELECT %s, count(*) AS n FROM %s GROUP BY %s", c1, t.Name, c1)
	case 9:
		tag = "distinct"
		q.SQL = fmt.Sprintf("SELECT DISTINCT %s, id FROM %s ORDER BY id", c1, t.Name)
	case 10:
		tag = "union-all"
		q.SQL = fmt.Sprintf("SELECT id FROM %s UNION ALL SELECT id FROM %s", t.Name, u.Name)
	case 11:
		if pg {
			tag = "returning-list"
			q.Cmd = ":one"
			q.SQL = fmt.Sprintf("UPDATE %s SET %s = %s WHERE id = $1 RETURNING id, %s AS changed, *", t.Name, c1, c1, c1)
			q.NParams = 1
		} else {
			tag = "three-way"
			q.SQL = fmt.Sprintf("SELECT a.id, b.id, c.id FROM %s a JOIN %s b ON b.id = a.id JOIN %s c ON c.id = b.id", t.Name, u.Name, t.Name)
		}
	case 12:
		tag = "cte-join"
		if pg {
			q.SQL = fmt.Sprintf("WITH c AS (SELECT id, %s FROM %s) SELECT c.*, b.id AS bid FROM c JOIN %s b ON b.id = c.id", c1, t.Name, u.Name)
		} else {
			q.SQL = fmt.Sprintf("SELECT a.*, b.* FROM %s a JOIN %s b ON b.id = a.id", t.Name, u.Name)
		}
	case 13:
		tag = "self-join"
		q.SQL = fmt.Sprintf("SELECT a.*, b.* FROM %s a JOIN %s b ON b.id = a.id", t.Name, t.Name)
	case 14:
		tag = "derived-join"
		q.SQL = fmt.Sprintf("SELECT a.id, s.id AS sid FROM %s a JOIN (SELECT id FROM %s) s ON s.id = a.id", t.Name, u.Name)
		q.Known = []string{"subselectLeak"}
	default:
		tag = "case-cast"
		if pg {
			q.SQL = fmt.Sprintf("SELECT id::text, CASE WHEN id > 1 THEN 'a' ELSE 'b' END, coalesce(%s, %s) FROM %s", c1, c1, t.Name)
		} else {
			q.SQL = fmt.Sprintf("SELECT CASE WHEN id > 1 THEN 'a' ELSE 'b' END, coalesce(%s, %s) FROM %s", c1, c1, t.Name)
		}
	}
	q.Tags = []string{"shape:" + tag}
	return q
}

// genNearModelStmt: statements whose result list is (almost) one table's column list — the situations in
// which buildQueries decides whether to return the model struct (C05's second and third clause)
func genNearModelStmt(r *Rng, s QSchema, idx int) (QStmt, string) {
	q := QStmt{Name: fmt.Sprintf("Q%d", idx), Cmd: r.Pick([]string{":many", ":one"})}
	t := &s.Tables[r.Intn(3)]
	u := &s.Tables[(r.Intn(2)+1+indexOfQ(s, t.Name))%3]
	names := make([]string, len(t.Cols))
	for i, c := range t.Cols {
		names[i] = c.Name
	}
	exact := strings.Join(names, ", ")
	must := ""
	tag := ""
	k := r.Intn(10)
	j := 1 + r.Intn(len(names)-1)
	switch k {
	case 0:
		tag, must = "exact-list", t.Name
		q.SQL = fmt.Sprintf("SELECT %s FROM %s", exact, t.Name)
	case 1:
		tag, must = "star", t.Name
		q.SQL = fmt.Sprintf("SELECT * FROM %s", t.Name)
	case 2:
		tag = "coalesce-same-name"
		l := append([]string{}, names...)
		l[j] = fmt.Sprintf("coalesce(%s, %s) AS %s", names[j], names[j], names[j])
		q.SQL = fmt.Sprintf("SELECT %s FROM %s", strings.Join(l, ", "), t.Name)
	case 3:
		tag = "swapped-aliases"
		l := append([]string{}, names...)
		j2 := 1 + (j % (len(names) - 1))
		if j2 == j {
			j2 = 0
		}
		l[j] = names[j2] + " AS " + names[j]
		l[j2] = names[j] + " AS " + names[j2]
		q.SQL = fmt.Sprintf("SELECT %s FROM %s", strings.Join(l, ", "), t.Name)
	case 4:
		tag = "reordered"
		l := append([]string{}, names...)
		l[0], l[j] = l[j], l[0]
		q.SQL = fmt.Sprintf("SELECT %s FROM %s", strings.Join(l, ", "), t.Name)
	case 5:
		tag = "aliased-star"
		q.SQL = fmt.Sprintf("SELECT a.* FROM %s a", t.Name)
	case 6:
		tag = "join-one-side"
		var l []string
		for _, n := range names {
			l = append(l, "a."+n)
		}
		q.SQL = fmt.Sprintf("SELECT %s FROM %s a JOIN %s b ON b.id = a.id", strings.Join(l, ", "), t.Name, u.Name)
	case 7:
		tag = "prefix-of-columns"
		q.SQL = fmt.Sprintf("SELECT %s FROM %s", strings.Join(names[:len(names)-1], ", "), t.Name)
	case 8:
		if s.Engine != "mysql" {
			tag = "cast-same-name"
			l := append([]string{}, names...)
			l[j] = fmt.Sprintf("%s::text AS %s", names[j], strings.Trim(names[j], "\"`"))
			q.SQL = fmt.Sprintf("SELECT %s FROM %s", strings.Join(l, ", "), t.Name)
		} else {
			tag, must = "exact-list-where", t.Name
			q.SQL = fmt.Sprintf("SELECT %s FROM %s WHERE id = ?", exact, t.Name)
			q.NParams = 1
		}
	default:
		if s.Engine != "mysql" {
			tag = "returning-star"
			q.Cmd = ":one"
			q.SQL = fmt.Sprintf("DELETE FROM %s WHERE id = $1 RETURNING *", t.Name)
			q.NParams = 1
		} else {
			tag, must = "qualified-star", t.Name
			q.SQL = fmt.Sprintf("SELECT %s.* FROM %s", t.Name, t.Name)
		}
	}
	q.Tags = []string{"nearmodel:" + tag}
	return q, must
}

// seedQueries: one plain all-columns query per table, placed BEFORE the query under test in the package
func seedQueries(s QSchema) string {
	var b strings.Builder
	for i, t := range s.Tables[:3] {
		var names []string
		for _, c := range t.Cols {
			names = append(names, c.Name)
		}
		fmt.Fprintf(&b, "-- name: Seed%d :many\nSELECT %s FROM %s;\n\n", i, strings.Join(names, ", "), t.Name)
	}
	return b.String()
}

// genExtraStmt: shapes along the properties' quantifier text that the base generator lacks — the same table
// name in two schemas, an alias that shadows another relation's real name, self joins, a CTE referenced
// twice, many placeholders with reuse, reserved-word aliases over shared columns, UPDATE … FROM,
// INSERT … SELECT, CASE … ELSE cast AS alias. Returns the statement and DDL to append to the schema.
func genExtraStmt(r *Rng, s QSchema, idx int) (QStmt, string) {
	q := QStmt{Name: fmt.Sprintf("Q%d", idx), Cmd: ":many"}
	pg := s.Engine != "mysql"
	t := &s.Tables[r.Intn(3)]
	u := &s.Tables[(r.Intn(2)+1+indexOfQ(s, t.Name))%3]
	c1 := t.Cols[1+r.Intn(len(t.Cols)-1)]
	d1 := u.Cols[1+r.Intn(len(u.Cols)-1)]
	n := 0
	ph := func() string {
		n++
		if pg {
			return fmt.Sprintf("$%d", n)
		}
		return "?"
	}
	extra := ""
	tag := ""
	twin := func() string {
		// archive.<t>: same name, other schema, different column list and types
		if !pg {
			return ""
		}
		if len(s.Tables) > 3 && t.Name == "books" {
			return "archive.books"
		}
		ddl := ""
		if len(s.Tables) <= 3 {
			ddl = "CREATE SCHEMA archive;\n"
		}
		nn := "NOT NULL"
		if c1.NotNull {
			nn = ""
		}
		ty := "bigint"
		if strings.HasPrefix(c1.Type, "bigint") || strings.HasPrefix(c1.Type, "int") {
			ty = "text"
		}
		ddl += fmt.Sprintf("CREATE TABLE archive.%s (id bigint NOT NULL, %s %s %s, archived_at timestamptz);\n", t.Name, c1.Name, ty, nn)
		extra += ddl
		return "archive." + t.Name
	}
	switch k := r.Intn(16); k {
	case 0, 1:
		if tw := twin(); tw != "" {
			tag = "same-name-two-schemas"
			switch r.Intn(4) {
			case 0:
				q.SQL = fmt.Sprintf("SELECT a.%s, b.%s FROM %s a JOIN %s b ON b.id = a.id", c1.Name, c1.Name, t.Name, tw)
			case 1:
				q.SQL = fmt.Sprintf("SELECT b.%s, a.id FROM %s a JOIN %s b ON b.id = a.id WHERE b.%s = %s", c1.Name, tw, t.Name, c1.Name, ph())
			case 2:
				q.SQL = fmt.Sprintf("SELECT b.* FROM %s a JOIN %s b ON b.id = a.id", t.Name, tw)
			default:
				q.SQL = fmt.Sprintf("SELECT b.*, a.id AS aid FROM %s a JOIN %s b ON b.id = a.id WHERE a.%s = %s", tw, t.Name, c1.Name, ph())
			}
		} else {
			tag = "mysql-two-tables"
			q.SQL = fmt.Sprintf("SELECT a.%s, b.%s FROM %s a JOIN %s b ON b.id = a.id WHERE b.%s = ?", c1.Name, d1.Name, t.Name, u.Name, d1.Name)
			n = 1
		}
	case 2:
		tag = "alias-shadows-table"
		// the alias of one relation is the real name of another relation that comes later
		q.SQL = fmt.Sprintf("SELECT cur.id FROM %s AS %s JOIN %s AS cur ON cur.id = %s.id WHERE %s.%s = %s", t.Name, u.Name, u.Name, u.Name, u.Name, c1.Name, ph())
	case 3:
		tag = "self-join-unqualified-param"
		q.SQL = fmt.Sprintf("SELECT a.id FROM %s a JOIN %s b ON b.id = a.id WHERE %s = %s", t.Name, t.Name, c1.Name, ph())
	case 4:
		tag = "self-join-qualified-param"
		q.SQL = fmt.Sprintf("SELECT a.id, b.%s FROM %s a JOIN %s b ON b.id = a.id WHERE b.%s = %s", c1.Name, t.Name, t.Name, c1.Name, ph())
	case 5:
		if pg {
			tag = "cte-twice"
			q.SQL = fmt.Sprintf("WITH c AS (SELECT id, %s FROM %s) SELECT c.*, (SELECT count(*) FROM c y WHERE y.id < c.id) AS rnk FROM c", c1.Name, t.Name)
		} else {
			tag = "three-way-join"
			q.SQL = fmt.Sprintf("SELECT a.id, b.id, c.%s FROM %s a JOIN %s b ON b.id = a.id JOIN %s c ON c.id = b.id WHERE c.%s = ?", c1.Name, t.Name, u.Name, t.Name, c1.Name)
			n = 1
		}
	case 6:
		tag = "many-placeholders-reuse"
		// more than 12 occurrences, the first number reused late in another context
		var conds []string
		first := ph()
		conds = append(conds, fmt.Sprintf("a.%s = %s", c1.Name, first))
		for i := 0; i < 12; i++ {
			cc := t.Cols[i%len(t.Cols)]
			conds = append(conds, fmt.Sprintf("a.%s <> %s", cc.Name, ph()))
		}
		if pg {
			conds = append(conds, fmt.Sprintf("EXISTS (SELECT 1 FROM %s b WHERE b.%s = %s)", u.Name, d1.Name, first))
		}
		q.SQL = fmt.Sprintf("SELECT a.id FROM %s a WHERE %s", t.Name, strings.Join(conds, " AND "))
	case 7:
		tag = "reserved-alias-shared-columns"
		al := `"order"`
		if !pg {
			al = "`rank`"
		}
		q.SQL = fmt.Sprintf("SELECT * FROM %s %s JOIN %s b ON b.id = %s.id", t.Name, al, u.Name, al)
	case 8:
		if pg {
			tag = "update-from"
			q.Cmd = ":exec"
			q.SQL = fmt.Sprintf("UPDATE %s SET %s = %s FROM %s b WHERE b.id = %s.id AND b.%s = %s", t.Name, c1.Name, ph(), u.Name, t.Name, d1.Name, ph())
		} else {
			tag = "update-plain"
			q.Cmd = ":exec"
			q.SQL = fmt.Sprintf("UPDATE %s SET %s = ? WHERE id = ?", t.Name, c1.Name)
			n = 2
		}
	case 9:
		tag = "insert-select"
		q.Cmd = ":exec"
		q.SQL = fmt.Sprintf("INSERT INTO %s (id, %s) SELECT id, %s FROM %s WHERE id = %s", t.Name, c1.Name, c1.Name, t.Name, ph())
	case 10:
		if pg {
			tag = "case-else-cast-alias"
			q.SQL = fmt.Sprintf("SELECT id, CASE WHEN id > 0 THEN 'p' ELSE %s::text END AS label FROM %s", c1.Name, t.Name)
		} else {
			tag = "case-alias"
			q.SQL = fmt.Sprintf("SELECT id, CASE WHEN id > 0 THEN 'p' ELSE 'n' END AS label FROM %s", t.Name)
		}
	case 11:
		tag = "schema-qualified-column"
		if pg {
			q.SQL = fmt.Sprintf("SELECT public.%s.id, %s.%s FROM public.%s WHERE public.%s.%s = %s", t.Name, t.Name, c1.Name, t.Name, t.Name, c1.Name, ph())
		} else {
			q.SQL = fmt.Sprintf("SELECT %s.id, %s.%s FROM %s WHERE %s.%s = ?", t.Name, t.Name, c1.Name, t.Name, t.Name, c1.Name)
			n = 1
		}
	case 12:
		tag = "left-join-param-both"
		q.SQL = fmt.Sprintf("SELECT a.id, b.%s FROM %s a LEFT JOIN %s b ON b.id = a.id AND b.%s = %s WHERE a.%s = %s", d1.Name, t.Name, u.Name, d1.Name, ph(), c1.Name, ph())
	case 13:
		if pg {
			tag = "self-update-from"
			q.Cmd = ":exec"
			q.SQL = fmt.Sprintf("UPDATE %s AS a SET %s = b.%s FROM %s AS b WHERE b.id = a.id AND id = %s", t.Name, c1.Name, c1.Name, t.Name, ph())
		} else {
			tag = "delete-param"
			q.Cmd = ":exec"
			q.SQL = fmt.Sprintf("DELETE FROM %s WHERE %s = ?", t.Name, c1.Name)
			n = 1
		}
	case 14:
		tag = "in-subselect-param"
		q.SQL = fmt.Sprintf("SELECT id FROM %s WHERE id IN (SELECT id FROM %s WHERE %s = %s) AND %s = %s", t.Name, u.Name, d1.Name, ph(), c1.Name, ph())
	default:
		tag = "star-and-explicit-agree"
		q.SQL = fmt.Sprintf("SELECT a.*, b.id AS bid FROM %s a JOIN %s b ON b.id = a.id WHERE a.id = %s", t.Name, u.Name, ph())
	}
	q.NParams = n
	q.Tags = []string{"extra:" + tag}
	return q, extra
}

// multiActionAlter: ONE ALTER TABLE with several column actions (a drop first) on a table the statement
// uses, preferring a second action that drops a column the statement mentions. Returns the DDL and the
// (table, column) pairs that no longer exist afterwards.
func multiActionAlter(r *Rng, s QSchema, sql string) (string, [][2]string) {
	var cands []PTable
	for _, t := range s.Tables[:3] {
		if strings.Contains(sql, t.Name) && len(t.Cols) >= 4 {
			cands = append(cands, t)
		}
	}
	if len(cands) == 0 {
		return "", nil
	}
	t := cands[r.Intn(len(cands))]
	j := -1
	for k := len(t.Cols) - 1; k >= 2; k-- {
		if strings.Contains(sql, strings.Trim(t.Cols[k].Name, "\"`")) && r.Chance(70) {
			j = k
			break
		}
	}
	if j < 0 {
		j = 2 + r.Intn(len(t.Cols)-2)
	}
	i := 1 + r.Intn(j-1)
	gone := [][2]string{{t.Name, strings.Trim(t.Cols[i].Name, "\"`")}}
	second := r.Pick([]string{"DROP COLUMN %s", "DROP COLUMN %s", "ALTER COLUMN %s SET NOT NULL", "ALTER COLUMN %s DROP NOT NULL"})
	if strings.HasPrefix(second, "DROP") {
		gone = append(gone, [2]string{t.Name, strings.Trim(t.Cols[j].Name, "\"`")})
	}
	return fmt.Sprintf("ALTER TABLE %s DROP COLUMN %s, %s;\n", t.Name, t.Cols[i].Name, fmt.Sprintf(second, t.Cols[j].Name)), gone
}

// ---------------------------------------------------------------------------------------------------
// genWideStmt: statements built from a recursive expression generator and the clause shapes the fixed
// templates above lack (round-2 lesson: the misses were all shapes nobody generated, never sample size)

type wgen struct {
	r     *Rng
	pg    bool
	n     int // placeholders handed out
	named bool
}

func (w *wgen) ph() string {
	w.n++
	if !w.pg {
		return "?"
	}
	return fmt.Sprintf("$%d", w.n)
}

func (w *wgen) lit(ty string) string {
	switch {
	case strings.HasPrefix(ty, "int") || strings.HasPrefix(ty, "bigint") || strings.HasPrefix(ty, "numeric") || strings.HasPrefix(ty, "decimal"):
		return w.r.Pick([]string{"0", "1", "42"})
	case strings.HasPrefix(ty, "bool"):
		return w.r.Pick([]string{"true", "false"})
	}
	return w.r.Pick([]string{"'x'", "''", "'abc'"})
}

// expr: a scalar expression over the columns of t (qualified by alias when given)
func (w *wgen) expr(alias string, t *PTable, depth int) string {
	c := t.Cols[w.r.Intn(len(t.Cols))]
	col := qual(alias, c.Name)
	if depth <= 0 {
		if w.r.Chance(70) {
			return col
		}
		return w.lit(c.Type)
	}
	sub := func() string { return w.expr(alias, t, depth-1) }
	castT := "text"
	switch w.r.Intn(16) {
	case 0, 1, 2:
		return col
	case 3:
		return w.lit(c.Type)
	case 4:
		if w.pg {
			return col + "::" + w.r.Pick([]string{"text", "bigint", "date", "numeric"})
		}
		return "CAST(" + col + " AS CHAR)"
	case 5:
		return w.r.Pick([]string{"lower", "upper", "length", "abs", "md5"}) + "(" + sub() + ")"
	case 6:
		// coalesce in all its forms: column first, cast first, literal first, three arguments
		switch w.r.Intn(5) {
		case 0:
			return "coalesce(" + col + ", " + w.lit(c.Type) + ")"
		case 1:
			if w.pg {
				return "coalesce(" + col + "::" + castT + ", " + sub() + "::" + castT + ")"
			}
			return "coalesce(" + sub() + ", " + sub() + ")"
		case 2:
			return "coalesce(" + w.lit(c.Type) + ", " + col + ")"
		case 3:
			return "coalesce(" + sub() + ", " + sub() + ", " + w.lit(c.Type) + ")"
		default:
			if w.pg {
				return "coalesce(" + col + "::date, " + qual(alias, t.Cols[0].Name) + "::date, now()::date)"
			}
			return "coalesce(NULL, " + col + ")"
		}
	case 7:
		return "nullif(" + sub() + ", " + w.lit(c.Type) + ")"
	case 8:
		return w.r.Pick([]string{"greatest", "least"}) + "(" + sub() + ", " + sub() + ")"
	case 9:
		op := w.r.Pick([]string{"+", "-", "*"})
		if w.pg && w.r.Chance(30) {
			op = "||"
		}
		return sub() + " " + op + " " + sub()
	case 10:
		return "CASE WHEN " + col + " IS NULL THEN " + sub() + " ELSE " + sub() + " END"
	case 11:
		if w.pg {
			return "CASE WHEN " + qual(alias, t.Cols[0].Name) + " > 0 THEN 'p' ELSE " + col + "::text END"
		}
		return "CASE " + col + " WHEN 1 THEN 'a' ELSE 'b' END"
	case 12:
		return col + " IS NOT NULL"
	case 13:
		return col + " " + w.r.Pick([]string{"=", "<>", "<", ">="}) + " " + w.lit(c.Type)
	case 14:
		return "(" + sub() + ")"
	default:
		return "concat(" + sub() + ", " + sub() + ")"
	}
}

func (w *wgen) targets(alias string, t *PTable) string {
	var ts []string
	for i := 0; i < 1+w.r.Intn(4); i++ {
		e := w.expr(alias, t, 2)
		if w.r.Chance(45) {
			e += " AS " + w.r.Pick([]string{"x", "label", "total", "id", "name", "v" + fmt.Sprint(i)})
		}
		ts = append(ts, e)
	}
	return strings.Join(ts, ", ")
}

func genWideStmt(r *Rng, s QSchema, idx int) (QStmt, string) {
	q := QStmt{Name: fmt.Sprintf("Q%d", idx), Cmd: ":many"}
	pg := s.Engine != "mysql"
	w := &wgen{r: r, pg: pg}
	t := &s.Tables[r.Intn(3)]
	u := &s.Tables[(r.Intn(2)+1+indexOfQ(s, t.Name))%3]
	c1 := t.Cols[1+r.Intn(len(t.Cols)-1)]
	c2 := t.Cols[1+r.Intn(len(t.Cols)-1)]
	d1 := u.Cols[1+r.Intn(len(u.Cols)-1)]
	tag := ""
	var known []string
	switch r.Intn(20) {
	case 0, 1, 2, 3:
		tag = "expr-targets"
		al := r.Pick([]string{"", "a"})
		from := t.Name
		if al != "" {
			from += " " + al
		}
		q.SQL = "SELECT " + w.targets(al, t) + " FROM " + from
		if r.Chance(60) {
			q.SQL += " WHERE " + qual(al, c1.Name) + " = " + w.ph()
		}
	case 4:
		tag = "multi-row-values"
		q.Cmd = ":exec"
		rows := 2 + r.Intn(2)
		var vs []string
		for i := 0; i < rows; i++ {
			a, b := w.ph(), w.ph()
			if r.Chance(25) {
				b = w.lit(c1.Type)
				w.n--
			}
			vs = append(vs, "("+a+", "+b+")")
		}
		// renumber contiguously when a literal replaced a placeholder
		q.SQL = fmt.Sprintf("INSERT INTO %s (id, %s) VALUES %s", t.Name, c1.Name, strings.Join(vs, ", "))
		if pg {
			q.SQL, _ = renumberContiguous(q.SQL)
		}
	case 5:
		tag = "multi-row-values-shared"
		q.Cmd = ":exec"
		if pg {
			q.SQL = fmt.Sprintf("INSERT INTO %s (id, %s) VALUES ($1, $2), ($3, $2), ($4, %s)", t.Name, c1.Name, w.lit(c1.Type))
			w.n = 4
		} else {
			q.SQL = fmt.Sprintf("INSERT INTO %s (id, %s) VALUES (?, ?), (?, ?)", t.Name, c1.Name)
			w.n = 4
		}
	case 6:
		if pg {
			tag = "cte-alias-list"
			q.SQL = fmt.Sprintf("WITH c(a, b) AS (SELECT id, %s FROM %s) SELECT %s FROM c", c1.Name, t.Name, r.Pick([]string{"*", "a, b", "c.b", "c.*"}))
		} else {
			tag = "expr-where"
			q.SQL = fmt.Sprintf("SELECT id FROM %s WHERE %s = ?", t.Name, w.expr("", t, 1))
			w.n++
		}
	case 7:
		if pg {
			tag = "derived-alias-list"
			q.SQL = fmt.Sprintf("SELECT %s FROM (SELECT id, %s FROM %s) AS s(a, b)", r.Pick([]string{"*", "s.a, s.b", "b"}), c1.Name, t.Name)
			known = append(known, "subselectLeak")
		} else {
			tag = "on-duplicate-key"
			q.Cmd = ":exec"
			q.SQL = fmt.Sprintf("INSERT INTO %s (id, %s) VALUES (?, ?) ON DUPLICATE KEY UPDATE %s = ?", t.Name, c1.Name, c1.Name)
			w.n = 3
			known = append(known, "mysqlOnDuplicate")
		}
	case 8:
		tag = "set-after-subselect"
		q.Cmd = ":exec"
		q.SQL = fmt.Sprintf("UPDATE %s SET %s = (SELECT max(b.%s) FROM %s b WHERE b.id = %s.id), %s = %s WHERE id = %s", t.Name, c1.Name, d1.Name, u.Name, t.Name, c2.Name, w.ph(), w.ph())
		if c1.Name == c2.Name {
			q.SQL = fmt.Sprintf("UPDATE %s SET %s = (SELECT max(b.%s) FROM %s b) WHERE id = %s", t.Name, c1.Name, d1.Name, u.Name, w.ph())
		}
	case 9:
		if pg {
			tag = "on-conflict-update"
			q.Cmd = ":exec"
			q.SQL = fmt.Sprintf("INSERT INTO %s (id, %s) SELECT b.id, %s FROM %s b WHERE b.%s = %s ON CONFLICT (id) DO UPDATE SET %s = %s", t.Name, c1.Name, w.ph(), u.Name, d1.Name, w.ph(), c2.Name, w.ph())
		} else {
			tag = "insert-select-param"
			q.Cmd = ":exec"
			q.SQL = fmt.Sprintf("INSERT INTO %s (id, %s) SELECT b.id, ? FROM %s b WHERE b.%s = ?", t.Name, c1.Name, u.Name, d1.Name)
			w.n = 2
		}
	case 10:
		if pg {
			tag = "any-param"
			q.SQL = fmt.Sprintf("SELECT %s FROM %s WHERE %s = ANY(%s)", c2.Name, t.Name, c1.Name, w.ph())
			if r.Bool() {
				q.SQL = fmt.Sprintf("SELECT %s FROM %s WHERE id = ANY(%s::bigint[]) AND %s <> ALL(%s)", c2.Name, t.Name, w.ph(), c1.Name, w.ph())
			}
		} else {
			tag = "in-list"
			q.SQL = fmt.Sprintf("SELECT %s FROM %s WHERE %s IN (?, ?, ?)", c2.Name, t.Name, c1.Name)
			w.n = 3
		}
	case 11:
		tag = "func-arg-params"
		a, b := w.ph(), w.ph()
		q.SQL = fmt.Sprintf("SELECT id FROM %s WHERE lower(%s) = lower(%s) OR upper(%s) = upper(%s)", t.Name, c1.Name, a, c2.Name, b)
	case 12:
		tag = "func-arg-repeated-across-calls"
		a := w.ph()
		b := w.ph()
		if !pg {
			q.SQL = fmt.Sprintf("SELECT id FROM %s WHERE id = ? AND (concat(%s, ?) = 'x' OR concat(%s, ?) = 'y')", t.Name, c1.Name, c2.Name)
			w.n = 3
		} else {
			q.SQL = fmt.Sprintf("SELECT id FROM %s WHERE id = %s AND (strpos(%s::text, %s) > 0 OR strpos(%s::text, %s) > 0)", t.Name, a, c1.Name, b, c2.Name, b)
		}
	case 13:
		tag = "nested-relations"
		switch r.Intn(4) {
		case 0:
			q.SQL = fmt.Sprintf("SELECT id, %s FROM %s WHERE id IN (SELECT b.id FROM %s b WHERE b.%s = %s)", c1.Name, t.Name, u.Name, d1.Name, w.ph())
		case 1:
			q.SQL = fmt.Sprintf("SELECT id FROM %s WHERE %s = %s AND EXISTS (SELECT 1 FROM %s)", t.Name, c1.Name, w.ph(), u.Name)
		case 2:
			q.SQL = fmt.Sprintf("SELECT id FROM %s UNION SELECT id FROM %s", t.Name, u.Name)
		default:
			q.Cmd = ":exec"
			q.SQL = fmt.Sprintf("DELETE FROM %s WHERE id NOT IN (SELECT b.id FROM %s b)", t.Name, u.Name)
		}
	case 14:
		tag = "truncate-or-plain-dml"
		q.Cmd = ":exec"
		q.SQL = r.Pick([]string{"TRUNCATE " + t.Name, fmt.Sprintf("DELETE FROM %s", t.Name), fmt.Sprintf("UPDATE %s SET %s = %s", t.Name, c1.Name, w.lit(c1.Type))})
	case 15:
		tag = "expr-where-params"
		q.SQL = fmt.Sprintf("SELECT id FROM %s WHERE %s AND %s = %s", t.Name, w.expr("", t, 1)+" IS NOT NULL", c1.Name, w.ph())
	case 16:
		tag = "order-group-having"
		q.SQL = fmt.Sprintf("SELECT %s, count(*) AS n FROM %s WHERE %s = %s GROUP BY %s HAVING count(*) > %s ORDER BY %s", c1.Name, t.Name, c2.Name, w.ph(), c1.Name, w.ph(), c1.Name)
		if !pg {
			known = append(known, "mysqlClauseDropped")
		}
	case 17:
		tag = "join-expr-targets"
		q.SQL = fmt.Sprintf("SELECT %s, b.%s FROM %s a JOIN %s b ON b.id = a.id WHERE a.%s = %s", w.targets("a", t), d1.Name, t.Name, u.Name, c1.Name, w.ph())
	case 18:
		if pg {
			tag = "returning-exprs"
			q.Cmd = ":one"
			q.SQL = fmt.Sprintf("UPDATE %s SET %s = %s WHERE id = %s RETURNING %s", t.Name, c1.Name, w.ph(), w.ph(), w.targets("", t))
		} else {
			tag = "limit-params"
			q.SQL = fmt.Sprintf("SELECT id FROM %s WHERE %s = ? LIMIT ?", t.Name, c1.Name)
			w.n = 2
		}
	default:
		tag = "scalar-subselect-target"
		q.SQL = fmt.Sprintf("SELECT a.id, (SELECT count(*) FROM %s b WHERE b.%s = %s) AS n, %s FROM %s a", u.Name, d1.Name, w.ph(), w.expr("a", t, 1), t.Name)
	}
	q.NParams = w.n
	q.Tags = []string{"wide:" + tag}
	q.Known = known
	return q, ""
}

// replaceOneWord replaces one randomly chosen whole-word occurrence of any of the names
func replaceOneWord(r *Rng, sql string, names []string, with string) (string, bool) {
	type occ struct{ at, n int }
	var occs []occ
	isWord := func(b byte) bool { return b == '_' || b >= '0' && b <= '9' || b >= 'a' && b <= 'z' || b >= 'A' && b <= 'Z' }
	for _, nm := range names {
		if nm == "" {
			continue
		}
		for i := 0; i+len(nm) <= len(sql); i++ {
			if sql[i:i+len(nm)] == nm && (i == 0 || !isWord(sql[i-1])) && (i+len(nm) == len(sql) || !isWord(sql[i+len(nm)])) {
				occs = append(occs, occ{i, len(nm)})
			}
		}
	}
	if len(occs) == 0 {
		return sql, false
	}
	o := occs[r.Intn(len(occs))]
	return sql[:o.at] + with + sql[o.at+o.n:], true
}
