package main

import (
	"fmt"

	"github.com/kyleconroy/sqlc/internal/engine/postgresql"
)

func init() { props["C08"] = runC08 }

func typeInfoFor(ops []Op) J {
	ti := J{}
	add := func(t string) {
		if t == "" {
			return
		}
		v := typeInfo(t)
		ti[t] = []string{v[0], v[1], v[2]}
	}
	for _, o := range ops {
		for _, c := range o.Cols {
			add(c.Type)
		}
		for _, c := range o.Cmds {
			add(c.Type)
		}
	}
	return ti
}

func historyCase(id string, ops []Op, tags []string) Case {
	sql := historySQL(ops)
	steps, perr, pn := runHistory(sql, true)
	impl := J{"steps": steps}
	if steps == nil {
		impl["steps"] = []catStep{}
	}
	if perr != "" {
		impl = J{"parse_error": perr}
	}
	if pn != "" {
		impl = J{"panic": pn}
	}
	// only the ops that were actually applied (up to and including the first error) matter
	return Case{ID: id, Kind: "history", In: J{"ops": ops, "typeinfo": typeInfoFor(ops), "sql": sql}, Impl: impl, Tags: tags}
}

func tagOps(ops []Op, steps int) []string {
	seen := map[string]bool{}
	var tags []string
	for i, o := range ops {
		if i >= steps {
			break
		}
		t := "op:" + o.Op
		if o.Guard {
			t += "+guard"
		}
		if !seen[t] {
			seen[t] = true
			tags = append(tags, t)
		}
	}
	return tags
}

// hand-written adversarial histories (run first, every time)
func c08Corpus() [][]Op {
	mk := func(ops ...Op) []Op {
		for i := range ops {
			ops[i].render()
		}
		return ops
	}
	txt := "hello"
	return [][]Op{
		mk(Op{Op: "createSchema", Name: "s1", Guard: true}, Op{Op: "createSchema", Name: "s1", Guard: true}, Op{Op: "dropSchema", Names: []QName{{Name: "s1"}}}, Op{Op: "createSchema", Name: "s1"}),
		mk(Op{Op: "createComposite", Name: "c1"}, Op{Op: "createComposite", Name: "c1"}),
		mk(Op{Op: "createComposite", Name: "c1"}, Op{Op: "dropType", Names: []QName{{Name: "c1"}}}, Op{Op: "createEnum", Name: "c1", Vals: []string{"x"}}),
		mk(Op{Op: "createComposite", Name: "c1"}, Op{Op: "comment", On: "type", Name: "c1", Text: &txt}),
		mk(Op{Op: "createTable", Name: "t1", Cols: []ColDef{{Name: "a", Type: "int"}, {Name: "a", Type: "text"}}}),
		mk(Op{Op: "createTable", Name: "t1", Cols: []ColDef{{Name: "a", Type: "int"}}}, Op{Op: "alterTable", Name: "t1", Cmds: []AlterCmd{{Kind: "add", Col: "a", Type: "text", MissingOk: true}}}),
		mk(Op{Op: "createEnum", Name: "t1", Vals: []string{"x"}}, Op{Op: "createTable", Name: "t1", Cols: []ColDef{{Name: "a", Type: "int"}}}),
		mk(Op{Op: "createEnum", Name: "e1", Vals: []string{"x", "y"}}, Op{Op: "addValue", Name: "e1", Val: "z", Pos: "before", Ref: "y"}, Op{Op: "addValue", Name: "e1", Val: "w", Pos: "after", Ref: "x"}),
		mk(Op{Op: "createEnum", Name: "e1", Vals: []string{"x", "x"}}),
		mk(Op{Op: "createTable", Name: "t1", Cols: []ColDef{{Name: "a", Type: "int"}, {Name: "b", Type: "text", NotNull: true}, {Name: "c", Type: "int[]"}}, TablePK: []string{"a"}},
			Op{Op: "alterTable", Name: "t1", Cmds: []AlterCmd{{Kind: "drop", Col: "a"}, {Kind: "setnn", Col: "c"}, {Kind: "type", Col: "b", Type: "bigint"}}},
			Op{Op: "renameColumn", Name: "t1", Col: "b", New: "a"}, Op{Op: "renameTable", Name: "t1", New: "t2"}, Op{Op: "createSchema", Name: "s1"}, Op{Op: "setSchema", Name: "t2", New: "s1"},
			Op{Op: "comment", On: "column", Schema: "s1", Name: "t2", Col: "a", Text: &txt}, Op{Op: "comment", On: "table", Schema: "s1", Name: "t2", Text: nil}),
		mk(Op{Op: "createEnum", Name: "e1", Vals: []string{"x"}}, Op{Op: "createTable", Name: "t1", Cols: []ColDef{{Name: "a", Type: "int"}}}, Op{Op: "renameTable", Name: "t1", New: "e1"}),
		mk(Op{Op: "createSchema", Name: "s1"}, Op{Op: "createEnum", Schema: "s1", Name: "t1", Vals: []string{"x"}}, Op{Op: "createTable", Name: "t1", Cols: []ColDef{{Name: "a", Type: "int"}}}, Op{Op: "setSchema", Name: "t1", New: "s1"}),
		mk(Op{Op: "createEnum", Name: "e1", Vals: []string{"x", "y", "z"}}, Op{Op: "renameValue", Name: "e1", Val: "y", New: "z"}),
		mk(Op{Op: "createEnum", Name: "e1", Vals: []string{"x", "y"}}, Op{Op: "addValue", Name: "e1", Val: "z"}, Op{Op: "renameValue", Name: "e1", Val: "x", New: "z"}),
		mk(Op{Op: "createTable", Name: "t1", Cols: []ColDef{{Name: "a", Type: "int"}, {Name: "b", Type: "int"}, {Name: "c", Type: "int"}, {Name: "d", Type: "int"}}},
			Op{Op: "alterTable", Name: "t1", Cmds: []AlterCmd{{Kind: "drop", Col: "a"}, {Kind: "setnn", Col: "c"}}},
			Op{Op: "alterTable", Name: "t1", Cmds: []AlterCmd{{Kind: "drop", Col: "b"}, {Kind: "drop", Col: "d"}}}),
	}
}

// guidedHistory: statements are tried on a live real catalog while generating; a statement the
// implementation rejects is kept only with probability errPct (and then ends the history), so that
// histories are long and mostly valid. The live catalog only steers generation — every case is
// re-run from scratch on a fresh catalog by historyCase.
func guidedHistory(g *DDLGen, r *Rng, ln int, errPct int) []Op {
	live := postgresql.NewCatalog()
	var ops []Op
	tries := 0
	for len(ops) < ln && tries < ln*20 {
		tries++
		op := g.Next()
		stmts, err := pgParse(op.SQL + ";")
		if err != nil || len(stmts) != 1 {
			continue
		}
		failed := false
		func() {
			defer func() {
				if p := recover(); p != nil {
					failed = true
				}
			}()
			if err := live.Update(stmts[0]); err != nil {
				failed = true
			}
		}()
		if failed {
			if r.Chance(errPct) {
				ops = append(ops, op)
				break
			}
			g.SyncFrom(dumpCatalog(live))
			continue
		}
		ops = append(ops, op)
		g.SyncFrom(dumpCatalog(live))
	}
	return ops
}

func runC08(r *Rng, n int, tier string) {
	for i, ops := range c08Corpus() {
		c := historyCase(fmt.Sprintf("corpus-%d", i), ops, []string{"corpus"})
		emit(c)
	}
	for i := 0; i < n; i++ {
		g := NewDDLGen(r.Fork())
		switch i % 4 {
		case 0:
			g.Wild = 5
		case 1:
			g.Wild = 15
		case 2:
			g.Wild = 30
		default:
			g.Wild = 10
			g.Schemas = []string{"public", "s1"}
			g.Tables = []string{"t1", "t2"}
			g.Columns = []string{"a", "b", "c"}
		}
		ln := 3 + r.Intn(28)
		if tier == "thorough" && r.Chance(10) {
			ln = 30 + r.Intn(40)
		}
		ops := guidedHistory(g, r, ln, 12)
		c := historyCase(fmt.Sprintf("h-%d", i), ops, nil)
		applied := 0
		if im, ok := c.Impl.(J); ok {
			if st, ok := im["steps"].([]catStep); ok {
				applied = len(st)
			}
		}
		c.Tags = append(tagOps(ops, applied), fmt.Sprintf("applied=%d", applied/5*5))
		emit(c)
	}
}
