package main

import (
	"fmt"
	"go/ast"
	"go/token"
	"regexp"
	"sort"
	"strings"
	"text/template/parse"
)

// ---------------------------------------------------------------- C11 / C01: facts read off the Go template
func templateText() string {
	_, f := parseFile("internal/codegen/golang/gen.go")
	if f == nil {
		return ""
	}
	for _, d := range f.Decls {
		gd, ok := d.(*ast.GenDecl)
		if !ok || gd.Tok != token.VAR {
			continue
		}
		for _, sp := range gd.Specs {
			vs := sp.(*ast.ValueSpec)
			if len(vs.Names) == 1 && vs.Names[0].Name == "templateSet" && len(vs.Values) == 1 {
				if s, ok := strLit(vs.Values[0]); ok {
					return s
				}
			}
		}
	}
	untr("gen.go: templateSet not found")
	return ""
}

type cmdFacts struct {
	cmd                        string
	results                    string // result tuple of the method
	ifaceResults               string
	drvPrepared, drvPlain      string
	errChecks                  int
	rowsClose, rowsErr, scan   bool
	deferClose                 bool
}

var cmdIfRe = regexp.MustCompile(`^eq \.Cmd "(:[a-z]+)"$`)

func walkIfs(n parse.Node, f func(cmd string, body *parse.ListNode)) {
	switch x := n.(type) {
	case *parse.ListNode:
		if x == nil {
			return
		}
		for _, c := range x.Nodes {
			walkIfs(c, f)
		}
	case *parse.IfNode:
		if m := cmdIfRe.FindStringSubmatch(x.Pipe.String()); m != nil {
			f(m[1], x.List)
		}
		walkIfs(x.List, f)
		if x.ElseList != nil {
			walkIfs(x.ElseList, f)
		}
	case *parse.RangeNode:
		walkIfs(x.List, f)
		if x.ElseList != nil {
			walkIfs(x.ElseList, f)
		}
	case *parse.WithNode:
		walkIfs(x.List, f)
	}
}

func extractTemplate() string {
	txt := templateText()
	funcs := map[string]interface{}{"lowerTitle": fmt.Sprint, "comment": fmt.Sprint, "escape": fmt.Sprint, "imports": fmt.Sprint}
	trees, err := parse.Parse("t", txt, "{{", "}}", funcs, map[string]interface{}{"eq": fmt.Sprint, "len": fmt.Sprint, "or": fmt.Sprint})
	facts := map[string]*cmdFacts{}
	get := func(c string) *cmdFacts {
		if facts[c] == nil {
			facts[c] = &cmdFacts{cmd: c}
		}
		return facts[c]
	}
	if err != nil {
		untr("templateSet does not parse: %v", err)
	} else {
		sigRe := regexp.MustCompile(`\) (\(?[^{\n]*\)?) \{`)
		if t := trees["queryCode"]; t != nil {
			walkIfs(t.Root, func(cmd string, body *parse.ListNode) {
				s := body.String()
				cf := get(cmd)
				if m := regexp.MustCompile(`func \(q \*Queries\)[^\n]*\) (\([^)]*\)|[a-zA-Z.]+) \{`).FindStringSubmatch(s); m != nil {
					cf.results = m[1]
				}
				if m := regexp.MustCompile(`q\.(queryRow|query|exec)\(ctx, q\.`).FindStringSubmatch(s); m != nil {
					cf.drvPrepared = m[1]
				}
				if m := regexp.MustCompile(`q\.db\.(QueryRowContext|QueryContext|ExecContext)\(ctx,`).FindStringSubmatch(s); m != nil {
					cf.drvPlain = m[1]
				}
				cf.errChecks = strings.Count(s, "err != nil")
				cf.rowsClose = strings.Contains(s, "err := rows.Close(); err != nil")
				cf.rowsErr = strings.Contains(s, "err := rows.Err(); err != nil")
				cf.scan = strings.Contains(s, ".Scan(")
				cf.deferClose = strings.Contains(s, "defer rows.Close()")
			})
		} else {
			untr("template queryCode not found")
		}
		if t := trees["interfaceCode"]; t != nil {
			walkIfs(t.Root, func(cmd string, body *parse.ListNode) {
				s := body.String()
				if i := strings.LastIndex(s, "}})"); i >= 0 {
					get(cmd).ifaceResults = strings.TrimSpace(s[i+3:])
				}
			})
		} else {
			untr("template interfaceCode not found")
		}
		_ = sigRe
	}
	var cmds []string
	for c := range facts {
		cmds = append(cmds, c)
	}
	sort.Strings(cmds)
	var b strings.Builder
	b.WriteString(genHeader + "namespace Sqlc.Gen\n")
	b.WriteString("/-- per `{{if eq .Cmd …}}` block of queryCode / interfaceCode:\n (cmd, method results, interface results, driver entry with prepared queries, driver entry without,\n  number of `err != nil` checks, checked rows.Close, checked rows.Err, has Scan, defer rows.Close) -/\n")
	b.WriteString("def templateContract : List (String × String × String × String × String × Nat × Bool × Bool × Bool × Bool) := [\n")
	for i, c := range cmds {
		f := facts[c]
		sep := ","
		if i == len(cmds)-1 {
			sep = ""
		}
		f.results = strings.ReplaceAll(f.results, "{{.Ret.Type}}", "T")
		f.ifaceResults = strings.ReplaceAll(f.ifaceResults, "{{.Ret.Type}}", "T")
		b.WriteString(fmt.Sprintf("  (%s, %s, %s, %s, %s, %d, %s, %s, %s, %s)%s\n", lstr(f.cmd), lstr(f.results), lstr(f.ifaceResults), lstr(f.drvPrepared), lstr(f.drvPlain),
			f.errChecks, lbool(f.rowsClose), lbool(f.rowsErr), lbool(f.scan), lbool(f.deferClose), sep))
	}
	b.WriteString("]\n")
	// identifiers the fixed template text declares at package level (dbCode / interfaceCode)
	var fixed []string
	for _, m := range regexp.MustCompile(`(?m)^(?:type|func) (?:\(q \*Queries\) )?([A-Za-z_]+)`).FindAllStringSubmatch(txt, -1) {
		fixed = append(fixed, m[1])
	}
	sort.Strings(fixed)
	var uniq []string
	for i, f := range fixed {
		if i == 0 || fixed[i-1] != f {
			uniq = append(uniq, f)
		}
	}
	b.WriteString("def templateFixedIdents : List String := " + lstrs(uniq) + "\n")
	b.WriteString("def templateHasQuerierAssertion : Bool := " + lbool(strings.Contains(txt, "var _ Querier = (*Queries)(nil)")) + "\n")
	b.WriteString("end Sqlc.Gen\n")
	return b.String()
}

