package main

func extractSites() string {
	return genHeader + "namespace Sqlc.Gen\nend Sqlc.Gen\n"
}
func extractTemplate() string {
	return genHeader + "namespace Sqlc.Gen\nend Sqlc.Gen\n"
}
