package main

import (
	"fmt"
	"go/ast"
	"go/importer"
	"go/token"
	"go/types"
	"path/filepath"
	"sort"
	"strings"
)

// ---------------------------------------------------------------- C13: every `range` over a map and every sort call
// Types are computed with a lenient go/types pass: standard library from source, repository packages
// recursively from source, third-party modules as empty fake packages (errors ignored). That is
// enough to decide whether the operand of a `range` is a map.

type lenientImporter struct {
	fset  *token.FileSet
	std   types.Importer
	cache map[string]*types.Package
	infos map[string]*types.Info
	pkgs  map[string]*pkgFiles
}

const modPath = "github.com/kyleconroy/sqlc/"

func (li *lenientImporter) Import(path string) (*types.Package, error) {
	if p, ok := li.cache[path]; ok {
		return p, nil
	}
	if strings.HasPrefix(path, modPath) {
		rel := strings.TrimPrefix(path, modPath)
		li.cache[path] = types.NewPackage(path, filepath.Base(path)) // breaks import cycles
		p := li.check(rel)
		li.cache[path] = p
		return p, nil
	}
	if !strings.Contains(strings.Split(path, "/")[0], ".") {
		if p, err := li.std.Import(path); err == nil {
			li.cache[path] = p
			return p, nil
		}
	}
	p := types.NewPackage(path, filepath.Base(path))
	p.MarkComplete()
	li.cache[path] = p
	return p, nil
}

func (li *lenientImporter) check(rel string) *types.Package {
	pf := loadPkgFset(rel, li.fset)
	li.pkgs[rel] = pf
	var files []*ast.File
	for _, n := range sortedFileNames(pf) {
		files = append(files, pf.files[n])
	}
	info := &types.Info{Types: map[ast.Expr]types.TypeAndValue{}}
	conf := types.Config{Importer: li, Error: func(error) {}, FakeImportC: true}
	pkg, _ := conf.Check(modPath+rel, li.fset, files, info)
	li.infos[rel] = info
	return pkg
}

func loadPkgFset(dir string, fset *token.FileSet) *pkgFiles {
	p := loadPkg(dir)
	// re-parse into the shared file set
	q := &pkgFiles{dir: dir, fset: fset, files: map[string]*ast.File{}}
	for n := range p.files {
		f, err := parserParse(fset, filepath.Join(repoRoot, dir, n))
		if err == nil {
			q.files[n] = f
		}
	}
	return q
}

var orderPackages = []string{"internal/cmd", "internal/compiler", "internal/codegen", "internal/codegen/golang", "internal/codegen/kotlin",
	"internal/codegen/python", "internal/config", "internal/sql/rewrite", "internal/sql/sqlpath", "internal/sql/catalog", "internal/multierr", "internal/source"}

func orderSites() (ranges []string, sorts []string) {
	fset := token.NewFileSet()
	li := &lenientImporter{fset: fset, std: importer.ForCompiler(fset, "source", nil), cache: map[string]*types.Package{}, infos: map[string]*types.Info{}, pkgs: map[string]*pkgFiles{}}
	for _, rel := range orderPackages {
		if _, ok := li.infos[rel]; !ok {
			li.Import(modPath + rel)
		}
		info := li.infos[rel]
		pf := li.pkgs[rel]
		if info == nil || pf == nil {
			untr("order sites: cannot type-check %s", rel)
			continue
		}
		for _, n := range sortedFileNames(pf) {
			f := pf.files[n]
			var fn string
			ast.Inspect(f, func(nd ast.Node) bool {
				switch x := nd.(type) {
				case *ast.FuncDecl:
					fn = x.Name.Name
				case *ast.RangeStmt:
					tv, ok := info.Types[x.X]
					if !ok || tv.Type == nil {
						ranges = append(ranges, fmt.Sprintf("%s/%s:%s: range %s (type unknown)", rel, n, fn, exprString(x.X)))
						return true
					}
					if _, isMap := tv.Type.Underlying().(*types.Map); isMap {
						ranges = append(ranges, fmt.Sprintf("%s/%s:%s: range %s", rel, n, fn, exprString(x.X)))
					}
				case *ast.CallExpr:
					if sel, ok := x.Fun.(*ast.SelectorExpr); ok {
						if id, ok := sel.X.(*ast.Ident); ok && id.Name == "sort" {
							key := ""
							if len(x.Args) == 2 {
								if fl, ok := x.Args[1].(*ast.FuncLit); ok && len(fl.Body.List) == 1 {
									if r, ok := fl.Body.List[0].(*ast.ReturnStmt); ok && len(r.Results) == 1 {
										key = " by " + exprString(r.Results[0])
									}
								}
							}
							sorts = append(sorts, fmt.Sprintf("%s/%s:%s: sort.%s(%s)%s", rel, n, fn, sel.Sel.Name, exprString(x.Args[0]), key))
						}
					}
				}
				return true
			})
		}
	}
	sort.Strings(ranges)
	sort.Strings(sorts)
	return
}

func extractOrder() string {
	ranges, sorts := orderSites()
	var b strings.Builder
	b.WriteString(genHeader + "namespace Sqlc.Gen\n")
	b.WriteString("/-- every `range` statement whose operand is a map, in the packages that produce output -/\n")
	b.WriteString("def mapRangeSites : List String := [\n")
	for i, r := range ranges {
		sep := ","
		if i == len(ranges)-1 {
			sep = ""
		}
		b.WriteString("  " + lstr(r) + sep + "\n")
	}
	b.WriteString("]\n/-- every call into package sort, with its key expression -/\ndef sortSites : List String := [\n")
	for i, r := range sorts {
		sep := ","
		if i == len(sorts)-1 {
			sep = ""
		}
		b.WriteString("  " + lstr(r) + sep + "\n")
	}
	b.WriteString("]\nend Sqlc.Gen\n")
	return b.String()
}
