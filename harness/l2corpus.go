package main

// A fixed corpus of statements that runs FIRST in every L2 stream (C02, C03, C05, C06, C07, C10), one per shape
// class of the properties' quantifier texts, so that coverage of a class never depends on the seed.

import "fmt"

const corpusPG = `CREATE SCHEMA archive;
CREATE TYPE book_kind AS ENUM ('novel', 'essay');
CREATE TABLE authors (id bigint NOT NULL, name text NOT NULL, bio text, age int, tags text[] NOT NULL);
CREATE TABLE books (id bigint NOT NULL, author_id bigint NOT NULL, title text, price numeric(10,2), "order" int, kind book_kind NOT NULL);
CREATE TABLE venues (id bigint NOT NULL, name varchar(100), slug text NOT NULL, created_at timestamptz, "order" int NOT NULL);
CREATE TABLE archive.books (id bigint NOT NULL, title bigint NOT NULL, archived_at timestamptz NOT NULL);
CREATE TABLE archive.venues (id bigint NOT NULL, slug text[], note text);
CREATE TABLE nodes (id bigint NOT NULL, "left" int, "right" int, "full" text, "like" text, "user" text, "binary" text);
`

const corpusMy = "CREATE TABLE authors (id bigint NOT NULL, name varchar(100) NOT NULL, bio text, age int, active tinyint(1) NOT NULL);\n" +
	"CREATE TABLE books (id bigint NOT NULL, author_id bigint NOT NULL, title varchar(200), price decimal(10,2), `order` int);\n" +
	"CREATE TABLE venues (id bigint NOT NULL, name varchar(100), slug text NOT NULL, created_at datetime, `order` int NOT NULL);\n" +
	// a table created LIKE another one, after which the ORIGINAL is altered: the copy must not follow
	"CREATE TABLE people (id bigint NOT NULL, first_name varchar(50) NOT NULL, note text);\n" +
	"CREATE TABLE staff LIKE people;\n" +
	"ALTER TABLE people RENAME COLUMN first_name TO given_name;\n" +
	"ALTER TABLE people DROP COLUMN note;\n"

type corpusStmt struct {
	cmd, sql string
	known    []string
	has, gone [][2]string // what the schema history leaves behind, stated independently of sqlc's catalog
}

var l2CorpusPG = []corpusStmt{
	{":many", `SELECT * FROM authors`, nil, nil, nil},
	{":one", `SELECT id, name, bio, age, tags FROM authors WHERE id = $1`, nil, nil, nil},
	{":many", `SELECT a.* FROM authors a`, nil, nil, nil},
	{":many", `SELECT a.*, b.* FROM authors a JOIN books b ON b.author_id = a.id`, nil, nil, nil},
	{":many", `SELECT * FROM books a JOIN venues b ON b.id = a.id`, nil, nil, nil},
	{":many", `SELECT * FROM books "order" JOIN authors b ON b.id = "order".id`, nil, nil, nil},
	{":many", `SELECT b.* FROM books a JOIN archive.books b ON b.id = a.id`, nil, nil, nil},
	{":many", `SELECT b.*, a.id AS aid FROM archive.books a JOIN books b ON b.id = a.id WHERE a.title = $1`, nil, nil, nil},
	{":many", `SELECT v.slug, w.slug FROM venues v JOIN archive.venues w ON w.id = v.id WHERE w.slug = $1`, nil, nil, nil},
	{":many", `SELECT w.* FROM archive.venues w JOIN venues v ON v.id = w.id`, nil, nil, nil},
	{":many", `SELECT a.title, b.title FROM books a JOIN archive.books b ON b.id = a.id WHERE b.title = $1 AND a.title = $2`, nil, nil, nil},
	{":many", `WITH c AS (SELECT id, tags FROM authors) SELECT c.* FROM c`, nil, nil, nil},
	{":many", `WITH c AS (SELECT * FROM authors) SELECT c.*, (SELECT count(*) FROM c y WHERE y.id < c.id) AS rnk FROM c`, nil, nil, nil},
	{":many", `WITH c(a, b) AS (SELECT id, tags FROM authors) SELECT * FROM c`, nil, nil, nil},
	{":many", `SELECT * FROM (SELECT id, tags FROM authors) AS s(a, b)`, []string{"subselectLeak"}, nil, nil},
	{":many", `SELECT s.id FROM (SELECT id, name FROM authors) s`, []string{"subselectLeak"}, nil, nil},
	{":many", `SELECT id, coalesce(bio, name) AS bio, coalesce(bio::text, name::text) AS both, coalesce(age::date, id::date, now()::date) FROM authors`, nil, nil, nil},
	{":many", `SELECT id, CASE WHEN id > 0 THEN 'p' ELSE name::text END AS label, CASE WHEN bio IS NULL THEN 1 ELSE 2 END FROM authors`, nil, nil, nil},
	{":many", `SELECT count(*), max(id) AS top, lower(name), name || 'x', age + 1, age IS NULL, (SELECT max(b.id) FROM books b) AS m FROM authors GROUP BY name, age`, nil, nil, nil},
	{":many", `SELECT id FROM authors WHERE id IN (SELECT author_id FROM books WHERE title = $1) AND name = $2`, nil, nil, nil},
	{":many", `SELECT id FROM authors WHERE name = $1 AND EXISTS (SELECT 1 FROM books)`, nil, nil, nil},
	{":many", `SELECT id FROM authors UNION SELECT id FROM books`, nil, nil, nil},
	{":exec", `DELETE FROM authors WHERE id NOT IN (SELECT author_id FROM books)`, nil, nil, nil},
	{":many", `SELECT a.id FROM authors a JOIN authors b ON b.id = a.id WHERE b.name = $1`, nil, nil, nil},
	{":many", `SELECT cur.id FROM venues AS authors JOIN authors AS cur ON cur.id = authors.id WHERE authors.slug = $1`, nil, nil, nil},
	{":exec", `INSERT INTO authors (id, name, bio, age, tags) VALUES ($1, $2, $3, $4, $5)`, nil, nil, nil},
	{":exec", `INSERT INTO authors (id, name, tags) VALUES ($1, $2, $3), ($4, $5, $6)`, nil, nil, nil},
	{":exec", `INSERT INTO authors (id, name, tags) VALUES ($1, $2, $3), ($4, $2, $3)`, nil, nil, nil},
	{":exec", `INSERT INTO authors (id, name, tags) SELECT b.id, $1, $2 FROM books b WHERE b.title = $3 ON CONFLICT (id) DO UPDATE SET bio = $4, age = $5`, nil, nil, nil},
	{":exec", `UPDATE authors SET bio = (SELECT max(b.title) FROM books b WHERE b.author_id = authors.id), name = $1, age = $2 WHERE id = $3`, nil, nil, nil},
	{":exec", `UPDATE books SET title = $2, price = $3 WHERE id = $1`, nil, nil, nil},
	{":one", `UPDATE books SET title = $1 WHERE id = $2 RETURNING id, title AS changed, *`, nil, nil, nil},
	{":exec", `UPDATE authors SET name = $1 FROM books b WHERE b.author_id = authors.id AND b.title = $2`, nil, nil, nil},
	{":many", `SELECT id FROM authors WHERE name = $2 AND bio = $1 AND age = $3`, nil, nil, nil},
	{":many", `SELECT id FROM authors WHERE id = $1 OR (id > $1 AND id < $2)`, nil, nil, nil},
	{":many", `SELECT id FROM authors WHERE name = $1 ORDER BY id LIMIT $2 OFFSET $3`, nil, nil, nil},
	{":many", `SELECT id FROM authors WHERE lower(name) = lower($1) OR upper(bio) = upper($2)`, nil, nil, nil},
	{":many", `SELECT id FROM authors WHERE id = $1 AND (strpos(name, $2) > 0 OR strpos(bio, $2) > 0)`, nil, nil, nil},
	{":many", `SELECT name FROM authors WHERE id = ANY($1)`, nil, nil, nil},
	{":many", `SELECT name FROM authors WHERE id = ANY($1::bigint[]) AND age <> ALL($2)`, nil, nil, nil},
	{":many", `SELECT id FROM authors WHERE tags = $1 AND age = $2::int`, nil, nil, nil},
	{":many", `SELECT id FROM books WHERE kind = $1 AND "order" = $2`, nil, nil, nil},
	{":many", `SELECT id FROM authors WHERE name = @name AND bio = @bio AND id <> @id`, nil, nil, nil},
	{":many", `SELECT id FROM authors WHERE name = sqlc.arg(name) AND age > sqlc.arg('age')`, nil, nil, nil},
	{":many", `SELECT id FROM authors WHERE a.b.c = $1`, nil, nil, nil},
	{":many", `SELECT public.authors.id FROM public.authors WHERE public.authors.name = $1`, nil, nil, nil},
	{":exec", `TRUNCATE authors`, nil, nil, nil},
	{":many", `SELECT id, NULL AS missing, 0 AS rank, 'x' AS tag FROM authors UNION ALL SELECT id, title, "order", title FROM books`, nil, nil, nil},
	{":many", `SELECT id, name AS label FROM authors UNION SELECT id, title FROM books`, nil, nil, nil},
	{":many", `SELECT id, name FROM authors INTERSECT SELECT id, title FROM books EXCEPT SELECT id, slug FROM venues`, nil, nil, nil},
	{":one", `UPDATE authors SET bio = s.total::text FROM (SELECT author_id, count(*) AS total FROM books GROUP BY author_id) s WHERE s.author_id = authors.id RETURNING *`, nil, nil, nil},
	{":one", `UPDATE authors SET bio = b.title FROM books b WHERE b.author_id = authors.id RETURNING *`, nil, nil, nil},
	{":one", `UPDATE authors SET bio = b.title FROM books b WHERE b.author_id = authors.id RETURNING authors.*`, nil, nil, nil},
	{":one", `DELETE FROM authors USING books b WHERE b.author_id = authors.id RETURNING *`, nil, nil, nil},
	{":one", `INSERT INTO authors (id, name, tags) VALUES ($1, $2, $3) RETURNING *`, nil, nil, nil},
	{":many", `SELECT id, name, coalesce(bio, '') AS bio, age, tags FROM authors`, nil, nil, nil},
	{":many", `SELECT id, name, bio, age::bigint AS age, tags FROM authors`, nil, nil, nil},
	{":many", `SELECT * FROM nodes`, nil, nil, nil},
	{":many", `SELECT n.*, a.id AS aid FROM nodes n JOIN authors a ON a.id = n.id`, nil, nil, nil},
	{":many", `SELECT id, "left", "right", "full", "like", "user", "binary" FROM nodes WHERE "left" = $1`, nil, nil, nil},
	{":many", `SELECT id FROM authors a WHERE a.name = $1 AND a.id = $2 AND a.bio = $3 AND a.age = $4 AND a.name <> $5 AND a.id <> $6 AND a.bio <> $7 AND a.age <> $8 AND a.name > $9 AND a.id > $10 AND a.bio > $11 AND a.age > $12 AND EXISTS (SELECT 1 FROM books b WHERE b.title = $1)`, nil, nil, nil},
	// the table's full column set in another order: same fields as the model, not the model's row
	{":many", "SELECT name, id, tags, age, bio FROM authors", nil, nil, nil},
	{":one", "SELECT tags, age, bio, name, id FROM authors WHERE id = $1", nil, nil, nil},
	{":one", "INSERT INTO authors (id, name, tags) VALUES ($1, $2, $3) RETURNING bio, id, name, tags, age", nil, nil, nil},
	{":many", "SELECT id, name, bio, age, tags FROM authors", nil, nil, nil},
	{":one", "UPDATE venues SET name = $1 WHERE id = $2 RETURNING slug, id, name, \"order\", created_at", nil, nil, nil},
	// a parameter-paired column that exists only in ANOTHER relation of the statement (or of the schema)
	{":exec", "UPDATE authors SET title = $1 FROM books b WHERE b.author_id = authors.id", nil, nil, nil},
	{":exec", "UPDATE books SET name = $1 FROM authors a WHERE a.id = books.author_id", nil, nil, nil},
	{":exec", "UPDATE authors SET title = $1 WHERE id IN (SELECT author_id FROM books)", nil, nil, nil},
	{":exec", "UPDATE authors SET bio = $1 WHERE id IN (SELECT author_id FROM books WHERE title = $2)", nil, nil, nil},
	{":exec", "INSERT INTO authors (id, name, tags) VALUES ($1, $2, $3) ON CONFLICT (id) DO UPDATE SET title = $4", nil, nil, nil},
	{":exec", "DELETE FROM authors USING books b WHERE b.author_id = authors.id AND b.title = $1", nil, nil, nil},
	{":exec", "DELETE FROM authors USING books b WHERE b.author_id = authors.id AND authors.title = $1", nil, nil, nil},
	{":many", "SELECT a.id FROM authors a WHERE a.title = $1", nil, nil, nil},
	{":many", "SELECT a.id FROM authors a JOIN books b ON b.author_id = a.id WHERE a.title = $1", nil, nil, nil},
	{":many", "SELECT a.id FROM authors a JOIN books b ON b.author_id = a.id WHERE b.title = $1 AND a.name = $2", nil, nil, nil},
	// placeholder numbers with holes, with and without repeats below the hole: never a valid statement
	{":many", "SELECT id FROM authors WHERE (name = $1 OR bio = $1) AND age > $3", nil, nil, nil},
	{":many", "SELECT id FROM authors WHERE name = $2", nil, nil, nil},
	{":exec", "UPDATE authors SET bio = $1 WHERE name = $1 AND id = $3", nil, nil, nil},
	{":many", "SELECT id FROM authors WHERE name = $1 OR bio = $1 OR name = $1 OR id = $4", nil, nil, nil},
	{":many", "SELECT id FROM authors WHERE id = $1 AND id <> $1 LIMIT $3", nil, nil, nil},
	{":many", "SELECT id FROM authors WHERE name = $1 AND bio = $2 AND age = $2 AND id = $4", nil, nil, nil},
	{":exec", "INSERT INTO authors (id, name, tags) VALUES ($1, $1, $3)", nil, nil, nil},
	// set-returning functions as from-items (one column, named after the alias)
	{":many", "SELECT a.id, g.* FROM authors a, generate_series(1, 3) g", nil, nil, nil},
	{":many", "SELECT a.*, g.* FROM authors a, generate_series(1, 3) g", nil, nil, nil},
	{":many", "SELECT a.id, g FROM authors a, generate_series(1, 3) g", nil, nil, nil},
	{":many", "SELECT a.id, t.* FROM authors a, unnest(a.tags) t", nil, nil, nil},
	{":many", "SELECT * FROM generate_series(1, $1) g", nil, nil, nil},
	{":many", "SELECT a.id FROM authors a WHERE EXISTS (SELECT * FROM unnest(a.tags) u WHERE u = $1)", nil, nil, nil},
	// coalesce over a nullable column, the plain column later in the same list (and through a CTE)
	{":many", "SELECT id, coalesce(bio, 'n/a') AS bio_text, bio FROM authors", nil, nil, nil},
	{":many", "SELECT coalesce(age, 0) AS age_or_zero, id, age, bio, coalesce(bio, '') AS b FROM authors", nil, nil, nil},
	{":many", "WITH w AS (SELECT id, bio FROM authors) SELECT coalesce(bio, 'x') AS b, bio, id FROM w", nil, nil, nil},
	{":one", "UPDATE authors SET name = $1 WHERE id = $2 RETURNING coalesce(bio, '') AS b, bio, age", nil, nil, nil},
	// data-modifying statements without RETURNING whose nested result lists hold stars
	{":exec", "INSERT INTO archive.venues SELECT id, tags, bio FROM authors", nil, nil, nil},
	{":exec", "INSERT INTO authors SELECT * FROM authors WHERE id = $1", nil, nil, nil},
	{":exec", "INSERT INTO authors SELECT a.* FROM authors a JOIN books b ON b.author_id = a.id WHERE b.id = $1", nil, nil, nil},
	{":exec", "DELETE FROM authors WHERE EXISTS (SELECT * FROM books b WHERE b.author_id = authors.id AND b.title = $1)", nil, nil, nil},
	{":execrows", "UPDATE authors SET bio = $1 WHERE id IN (SELECT b.author_id FROM (SELECT * FROM books) b)", nil, nil, nil},
	// a named parameter used again after ANOTHER name was introduced
	{":many", "SELECT id FROM authors WHERE name = @needle OR (age > @min_age AND bio = @needle)", nil, nil, nil},
	{":exec", "UPDATE authors SET bio = sqlc.arg(b) WHERE name = sqlc.arg(n) AND (bio = sqlc.arg(b) OR id = sqlc.arg(i))", nil, nil, nil},
	{":many", "SELECT id FROM authors WHERE name = @n::text OR (age > @m::int AND bio = @n::text) OR age < @m::int", nil, nil, nil},
	{":many", "SELECT id FROM authors WHERE id = @c AND name = @a AND bio = @b AND age = @c AND name <> @a", nil, nil, nil},
	// a placeholder that is a direct COALESCE argument next to constants or other placeholders
	{":many", "SELECT id FROM authors WHERE bio = coalesce($1, 'x') AND id = $2", nil, nil, nil},
	{":exec", "UPDATE authors SET bio = coalesce($1, 'n/a') WHERE id = $2", nil, nil, nil},
	{":many", "SELECT id FROM authors WHERE age = coalesce($2, 0) AND name = $1", nil, nil, nil},
	{":many", "SELECT id FROM authors WHERE bio = coalesce($1, $2) AND id = $3", nil, nil, nil},
	{":many", "SELECT id FROM authors WHERE bio = coalesce($1, name) AND id = $2", nil, nil, nil},
	// qualifiers written in another letter case than the (folded) identifier
	{":many", "SELECT A.* FROM authors A", nil, nil, nil},
	{":many", "SELECT Authors.* FROM Authors", nil, nil, nil},
	{":many", "SELECT A.*, b.* FROM authors A JOIN books b ON b.author_id = A.id", nil, nil, nil},
	{":many", "WITH Recent AS (SELECT id, name FROM authors) SELECT Recent.* FROM Recent", nil, nil, nil},
	{":one", "UPDATE Authors SET name = $1 WHERE id = $2 RETURNING Authors.*", nil, nil, nil},
	{":many", "SELECT A.Name, A.ID FROM authors A WHERE A.Bio = $1", nil, nil, nil},
	// JOIN … USING: the join column is merged for unqualified references, both copies stay reachable by qualifier
	{":many", "SELECT * FROM authors JOIN books USING (id)", nil, nil, nil},
	{":many", "SELECT a.*, b.* FROM authors a JOIN books b USING (id)", nil, nil, nil},
	{":many", "SELECT id, name, title FROM authors JOIN books USING (id)", nil, nil, nil},
	{":many", "SELECT a.id, b.id, title FROM authors a JOIN books b USING (id) WHERE a.name = $1", nil, nil, nil},
	{":many", "SELECT id FROM authors JOIN books USING (id) JOIN venues ON venues.id = books.author_id", nil, nil, nil},
	{":many", "SELECT id FROM authors JOIN books USING (id), venues", nil, nil, nil},
	{":many", "SELECT authors.id FROM authors JOIN books USING (id) JOIN venues USING (id)", nil, nil, nil},
	{":one", "SELECT * FROM authors JOIN books USING (id) WHERE authors.name = $1", nil, nil, nil},
	// LIMIT / OFFSET placeholders of a sub-select that sits inside an expression, a SET value, a function argument
	{":many", "SELECT name FROM authors WHERE age < (SELECT \"order\" FROM books ORDER BY price LIMIT 1 OFFSET $1)", nil, nil, nil},
	{":many", "SELECT name FROM authors WHERE bio = ANY(ARRAY(SELECT title FROM books ORDER BY price LIMIT $1))", nil, nil, nil},
	{":exec", "UPDATE authors SET age = (SELECT \"order\" FROM books ORDER BY price LIMIT 1 OFFSET $2) WHERE name = $1", nil, nil, nil},
	{":many", "SELECT id, (SELECT title FROM books ORDER BY id LIMIT $1) AS first_title FROM authors", nil, nil, nil},
	{":many", "SELECT id FROM authors WHERE id IN (SELECT author_id FROM books ORDER BY id LIMIT $1 OFFSET $2)", nil, nil, nil},
	// two relations that share a bare name across schemas, one of them without an alias
	{":many", "SELECT a.id FROM archive.books a, books WHERE books.title = $1", nil, nil, nil},
	{":many", "SELECT a.id FROM books a, archive.books WHERE books.archived_at = $1", nil, nil, nil},
	{":many", "SELECT books.id FROM books JOIN archive.books a ON a.id = books.id WHERE books.title = $1 AND a.title = $2", nil, nil, nil},
	{":many", "SELECT v.id FROM archive.venues v, venues WHERE venues.slug = $1 AND v.note = $2", nil, nil, nil},
}

var l2CorpusMy = []corpusStmt{
	{":many", "SELECT * FROM authors", nil, nil, nil},
	{":many", "SELECT a.*, b.* FROM authors a JOIN books b ON b.author_id = a.id", nil, nil, nil},
	{":many", "SELECT * FROM books a JOIN venues b ON b.id = a.id", nil, nil, nil},
	{":many", "SELECT * FROM books `rank` JOIN authors b ON b.id = `rank`.id", nil, nil, nil},
	{":many", "SELECT a.id + ?, b.id FROM authors a JOIN books b ON b.author_id = a.id AND b.title = ? WHERE a.name = ?", nil, nil, nil},
	{":many", "SELECT id, active FROM authors WHERE active = ? AND name = ?", nil, nil, nil},
	{":exec", "INSERT INTO authors (id, name, bio, age, active) VALUES (?, ?, ?, ?, ?)", nil, nil, nil},
	{":exec", "INSERT INTO authors (id, name, active) VALUES (?, ?, ?), (?, ?, ?)", nil, nil, nil},
	{":exec", "UPDATE books SET title = ?, price = ? WHERE id = ?", nil, nil, nil},
	{":exec", "UPDATE authors SET bio = (SELECT max(b.title) FROM books b WHERE b.author_id = authors.id), name = ? WHERE id = ?", nil, nil, nil},
	{":execrows", "DELETE FROM authors WHERE id = ? AND name = ?", nil, nil, nil},
	{":many", "SELECT id FROM authors WHERE name = ? LIMIT ?", nil, nil, nil},
	{":many", "SELECT id, coalesce(bio, name) AS bio, CASE WHEN id > 0 THEN 'p' ELSE 'n' END AS label, count(*) FROM authors GROUP BY id, bio, name", nil, nil, nil},
	{":many", "SELECT a.id FROM authors a JOIN authors b ON b.id = a.id WHERE b.name = ?", nil, nil, nil},
	{":many", "SELECT id FROM authors WHERE lower(name) = lower(?) OR upper(bio) = upper(?)", nil, nil, nil},
	{":many", "SELECT name, id, active, age, bio FROM authors", nil, nil, nil},
	{":one", "SELECT bio, age, active, name, id FROM authors WHERE id = ?", nil, nil, nil},
	{":many", "SELECT id, name, bio, age, active FROM authors", nil, nil, nil},
	{":many", "SELECT first_name, note FROM staff WHERE first_name = ?", nil, [][2]string{{"staff", "first_name"}, {"staff", "note"}}, [][2]string{{"staff", "given_name"}}},
	{":many", "SELECT given_name FROM staff WHERE given_name = ?", nil, [][2]string{{"staff", "first_name"}, {"staff", "note"}}, [][2]string{{"staff", "given_name"}}},
	{":many", "SELECT given_name FROM people WHERE given_name = ?", nil, [][2]string{{"people", "given_name"}}, [][2]string{{"people", "first_name"}, {"people", "note"}}},
	{":many", "SELECT * FROM staff", nil, [][2]string{{"staff", "first_name"}, {"staff", "note"}}, [][2]string{{"staff", "given_name"}}},
	{":exec", "UPDATE authors SET title = ? WHERE id IN (SELECT author_id FROM books)", nil, nil, nil},
	{":many", "SELECT a.id FROM authors a JOIN books b ON b.author_id = a.id WHERE a.title = ?", nil, nil, nil},
	{":many", "SELECT a.id FROM authors a JOIN books b ON b.author_id = a.id WHERE b.title = ? AND a.name = ?", nil, nil, nil},
	{":many", "SELECT id, coalesce(bio, 'n/a') AS bio_text, bio FROM authors", nil, nil, nil},
	{":exec", "INSERT INTO authors SELECT * FROM authors WHERE id = ?", nil, nil, nil},
	{":exec", "DELETE FROM authors WHERE EXISTS (SELECT * FROM books b WHERE b.author_id = authors.id AND b.title = ?)", nil, nil, nil},
	{":many", "SELECT id FROM authors WHERE bio = coalesce(?, 'x') AND id = ?", nil, nil, nil},
	{":exec", "UPDATE authors SET bio = coalesce(?, 'n/a') WHERE id = ?", nil, nil, nil},
}

func l2Corpus(emitCase func(id, engine, schema string, q QStmt, has, gone [][2]string)) {
	for i, st := range l2CorpusPG {
		emitCase(fmt.Sprintf("corpus-pg-%d", i), "postgresql", corpusPG, QStmt{Name: fmt.Sprintf("K%d", i), Cmd: st.cmd, SQL: st.sql, Known: st.known, Tags: []string{"corpus"}}, st.has, st.gone)
	}
	for i, st := range l2CorpusMy {
		emitCase(fmt.Sprintf("corpus-my-%d", i), "mysql", corpusMy, QStmt{Name: fmt.Sprintf("K%d", i), Cmd: st.cmd, SQL: st.sql, Known: st.known, Tags: []string{"corpus"}}, st.has, st.gone)
	}
}
