package main

import (
	"fmt"
	"os"
	"path/filepath"
	"strconv"
)

type runFn func(rng *Rng, n int, tier string)

var props = map[string]runFn{}

func main() {
	if len(os.Args) < 2 {
		fmt.Fprintln(os.Stderr, "usage: vh extract <outdir> | vh run <prop> <seed> <n> <tier> | vh replay <prop> <file>")
		os.Exit(2)
	}
	switch os.Args[1] {
	case "extract":
		extractAll(os.Args[2])
	case "genhash":
		genHashMain(os.Args[2])
	case "run":
		p := os.Args[2]
		seed, _ := strconv.ParseUint(os.Args[3], 10, 64)
		n, _ := strconv.Atoi(os.Args[4])
		tier := os.Args[5]
		f, ok := props[p]
		if !ok {
			fmt.Fprintln(os.Stderr, "unknown property", p)
			os.Exit(2)
		}
		f(NewRng(seed), n, tier)
		// scratch that outlives single cases (the CLI binary built for the C12 stream)
		if sqlcBin != "" {
			os.RemoveAll(filepath.Dir(sqlcBin))
		}
	default:
		fmt.Fprintln(os.Stderr, "unknown command")
		os.Exit(2)
	}
}
