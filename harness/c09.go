package main

import (
	"fmt"
	"sort"
	"strings"

	"github.com/kyleconroy/sqlc/internal/codegen/golang"
	"github.com/kyleconroy/sqlc/internal/compiler"
	"github.com/kyleconroy/sqlc/internal/config"
	"github.com/kyleconroy/sqlc/internal/core"
	"github.com/kyleconroy/sqlc/internal/sql/ast"
	"github.com/kyleconroy/sqlc/internal/sql/catalog"
)

func init() { props["C09"] = runC09 }

// ---- direct goType correspondence (hook VerifGoType)
type envSpec struct {
	Engine    string
	Default   string
	Schemas   []J // {name, types:[{kind,name}]}
	Overrides []J // {goTypeName, dbType, nullable, column, columnName, table:{catalog,schema,rel}}
	Rename    map[string]string
}

func (e envSpec) json() J {
	rn := [][2]string{}
	var ks []string
	for k := range e.Rename {
		ks = append(ks, k)
	}
	sort.Strings(ks)
	for _, k := range ks {
		rn = append(rn, [2]string{k, e.Rename[k]})
	}
	ov := e.Overrides
	if ov == nil {
		ov = []J{}
	}
	return J{"engine": e.Engine, "default": e.Default, "schemas": e.Schemas, "overrides": ov, "rename": rn}
}

func (e envSpec) build() (*compiler.Result, config.CombinedSettings) {
	c := catalog.New(e.Default)
	c.Schemas = nil
	for _, s := range e.Schemas {
		sc := &catalog.Schema{Name: s["name"].(string)}
		for _, t := range s["types"].([]J) {
			if t["kind"] == "enum" {
				sc.Types = append(sc.Types, &catalog.Enum{Name: t["name"].(string), Vals: []string{"a"}})
			} else {
				sc.Types = append(sc.Types, &catalog.CompositeType{Name: t["name"].(string)})
			}
		}
		c.Schemas = append(c.Schemas, sc)
	}
	st := config.CombinedSettings{Package: config.SQL{Engine: config.Engine(e.Engine)}, Rename: e.Rename}
	for _, o := range e.Overrides {
		t := o["table"].(J)
		st.Overrides = append(st.Overrides, config.Override{
			GoTypeName: o["goTypeName"].(string), DBType: o["dbType"].(string), Nullable: o["nullable"].(bool),
			Column: o["column"].(string), ColumnName: o["columnName"].(string),
			Table: core.FQN{Catalog: t["catalog"].(string), Schema: t["schema"].(string), Rel: t["rel"].(string)},
		})
	}
	return &compiler.Result{Catalog: c}, st
}

type colSpec struct {
	Name, DataType     string
	NotNull, IsArray   bool
	Length             int // -1 = nil
	HasTable           bool
	TCat, TSchema, TName string
}

func (c colSpec) json() J {
	j := J{"name": c.Name, "dataType": c.DataType, "notNull": c.NotNull, "isArray": c.IsArray, "length": c.Length}
	if c.HasTable {
		j["table"] = J{"catalog": c.TCat, "schema": c.TSchema, "name": c.TName}
	} else {
		j["table"] = nil
	}
	return j
}
func (c colSpec) build() *compiler.Column {
	col := &compiler.Column{Name: c.Name, DataType: c.DataType, NotNull: c.NotNull, IsArray: c.IsArray}
	if c.Length >= 0 {
		l := c.Length
		col.Length = &l
	}
	if c.HasTable {
		col.Table = &ast.TableName{Catalog: c.TCat, Schema: c.TSchema, Name: c.TName}
	}
	return col
}

func goTypeCase(id string, e envSpec, c colSpec, tags []string) Case {
	r, st := e.build()
	impl := J{}
	func() {
		defer func() {
			if p := recover(); p != nil {
				impl["panic"] = fmt.Sprint(p)
			}
		}()
		impl["type"] = golang.VerifGoType(r, c.build(), st)
	}()
	return Case{ID: id, Kind: "gotype", In: J{"env": e.json(), "col": c.json()}, Impl: impl, Tags: tags}
}

func switchSpellings() (pg, my []string) {
	a, _, _ := extractTypeSwitch("internal/codegen/golang/postgresql_type.go", "postgresType")
	for _, arm := range a {
		pg = append(pg, arm.spellings...)
	}
	b, _, _ := extractTypeSwitch("internal/codegen/golang/mysql_type.go", "mysqlType")
	for _, arm := range b {
		my = append(my, arm.spellings...)
	}
	untranslatable = nil
	return
}

var pgExtraNames = []string{"timetz", "bpchar", "citext", "foo", "e1", "public.e1", "s1.e1", "s1.e2", "c1", "public.c1", "a.b.c.d", "db.public.e1",
	"pg_catalog.bit", "hstore", "INT", "Text", "pg_catalog.e1", "", "e2", "s1.c1"}

// user spellings (what one writes in DDL) with the canonical type each denotes
var pgUserSpellings = [][2]string{
	{"smallint", "int2"}, {"int2", "int2"}, {"smallserial", "int2"}, {"serial2", "int2"},
	{"integer", "int4"}, {"int", "int4"}, {"int4", "int4"}, {"serial", "int4"}, {"serial4", "int4"},
	{"bigint", "int8"}, {"int8", "int8"}, {"bigserial", "int8"}, {"serial8", "int8"},
	{"real", "float4"}, {"float4", "float4"},
	{"float", "float8"}, {"double precision", "float8"}, {"float8", "float8"},
	{"numeric", "numeric"}, {"numeric(10,2)", "numeric"}, {"decimal", "numeric"}, {"decimal(8,3)", "numeric"}, {"money", "numeric"},
	{"boolean", "bool"}, {"bool", "bool"},
	{"json", "json"}, {"jsonb", "json"},
	{"bytea", "bytea"},
	{"date", "date"},
	{"time", "time"}, {"time without time zone", "time"}, {"time(3)", "time"},
	{"time with time zone", "timetz"}, {"timetz", "timetz"},
	{"timestamp", "timestamp"}, {"timestamp without time zone", "timestamp"}, {"timestamp(3)", "timestamp"},
	{"timestamptz", "timestamptz"}, {"timestamp with time zone", "timestamptz"},
	{"text", "text"}, {"varchar", "text"}, {"varchar(10)", "text"}, {"character varying", "text"}, {"character varying(5)", "text"},
	{"char", "text"}, {"char(3)", "text"}, {"character(3)", "text"}, {"bpchar", "text"},
	{"uuid", "uuid"},
	{"inet", "inet"}, {"cidr", "inet"},
	{"macaddr", "macaddr"}, {"macaddr8", "macaddr"},
	{"ltree", "ltree"}, {"lquery", "ltree"}, {"ltxtquery", "ltree"},
	{"interval", "interval"},
	{"pg_catalog.int4", "int4"}, {"pg_catalog.int8", "int8"}, {"pg_catalog.bool", "bool"}, {"pg_catalog.varchar", "text"}, {"pg_catalog.timestamptz", "timestamptz"},
}

var myUserSpellings = [][2]string{
	{"varchar(10)", "text"}, {"text", "text"}, {"char(3)", "text"}, {"tinytext", "text"}, {"mediumtext", "text"}, {"longtext", "text"},
	{"tinyint", "tinyint"}, {"tinyint(4)", "tinyint"}, {"tinyint(1)", "bool"},
	{"int", "int"}, {"integer", "int"}, {"smallint", "int"}, {"mediumint", "int"}, {"year", "int"}, {"int(11)", "int"},
	{"bigint", "bigint"},
	{"blob", "blob"}, {"binary(3)", "blob"}, {"varbinary(3)", "blob"}, {"tinyblob", "blob"}, {"mediumblob", "blob"}, {"longblob", "blob"},
	{"double", "double"}, {"double precision", "double"}, {"real", "double"},
	{"decimal(10,2)", "decimal"}, {"dec(5,1)", "decimal"}, {"fixed(5,1)", "decimal"}, {"decimal", "decimal"},
	{"date", "datetime"}, {"timestamp", "datetime"}, {"datetime", "datetime"}, {"time", "datetime"},
	{"boolean", "bool"}, {"bool", "bool"},
	{"json", "json"},
}

func e2eType(engine, spelling string, nn, array bool) (impl J, files map[string]string, res GenResult) {
	return e2eTypeHist(engine, spelling, nn, array, 0)
}

// e2eTypeHist: the same final column definition reached by different DDL histories
//   0 CREATE TABLE   1 created with another type, then retyped (ALTER COLUMN TYPE / MODIFY)   2 ADD COLUMN
func e2eTypeHist(engine, spelling string, nn, array bool, hist int) (impl J, files map[string]string, res GenResult) {
	ty := spelling
	if array {
		ty += "[]"
	}
	null := ""
	if nn {
		null = " NOT NULL"
	}
	schema := fmt.Sprintf("CREATE TABLE t (k int NOT NULL, c %s%s);\n", ty, null)
	switch hist {
	case 1:
		other := "text"
		if strings.HasPrefix(spelling, "text") || strings.HasPrefix(spelling, "varchar") {
			other = "int"
		}
		if engine == "mysql" {
			// the column starts as the OTHER kind of tinyint, so that a stale display width would show
			if strings.HasPrefix(spelling, "tinyint(1)") || spelling == "bool" || spelling == "boolean" {
				other = "tinyint(4)"
			} else if strings.HasPrefix(spelling, "tinyint") {
				other = "tinyint(1)"
			}
			schema = fmt.Sprintf("CREATE TABLE t (k int NOT NULL, c %s%s);\nALTER TABLE t MODIFY c %s%s;\n", other, null, ty, null)
		} else {
			schema = fmt.Sprintf("CREATE TABLE t (k int NOT NULL, c %s%s);\nALTER TABLE t ALTER COLUMN c TYPE %s;\n", other, null, ty)
		}
	case 2:
		schema = fmt.Sprintf("CREATE TABLE t (k int NOT NULL);\nALTER TABLE t ADD COLUMN c %s%s;\n", ty, null)
	}
	ph := "$1"
	if engine == "mysql" {
		ph = "?"
	}
	query := fmt.Sprintf("-- name: GetC :one\nSELECT c FROM t WHERE k = 1;\n\n-- name: ByC :many\nSELECT k FROM t WHERE c = %s;\n\n-- name: InsC :exec\nINSERT INTO t (k, c) VALUES (1, %s);\n\n-- name: All :many\nSELECT * FROM t;\n\n-- name: Filled :many\nSELECT k, coalesce(c, c) AS c FROM t;\n", ph, ph)
	if engine == "postgresql" {
		// the type spelled in a CAST around a placeholder, wherever the placeholder stands
		query += fmt.Sprintf("\n-- name: ByCast :many\nSELECT k FROM t WHERE c = $1::%s;\n\n-- name: InsCast :exec\nINSERT INTO t (k, c) VALUES (2, $1::%s);\n\n-- name: SetCast :exec\nUPDATE t SET c = $1::%s WHERE k = 3;\n", ty, ty, ty)
	}
	files = map[string]string{"schema.sql": schema, "query.sql": query, "sqlc.json": confV1(engine, "")}
	res = generate(files)
	impl = J{"ok": res.OK()}
	if !res.OK() {
		impl["err"] = firstLine(res.Stderr + res.Err + res.Panic)
		return
	}
	sum := summarize(res.Files)
	if st := sum.structNamed("T"); st != nil && len(st.Fields) == 2 {
		impl["model"] = st.Fields[1].Type
	}
	if m := sum.method("GetC"); m != nil && len(m.Results) > 0 {
		impl["result"] = m.Results[0]
	}
	if m := sum.method("ByC"); m != nil && len(m.Params) == 1 {
		impl["param"] = m.Params[0].Type
	}
	if m := sum.method("InsC"); m != nil && len(m.Params) == 1 {
		impl["insparam"] = m.Params[0].Type
	}
	if m := sum.method("All"); m != nil && len(m.Results) > 0 {
		impl["star"] = m.Results[0]
	}
	for k, mn := range map[string]string{"castparam": "ByCast", "castins": "InsCast", "castset": "SetCast"} {
		if m := sum.method(mn); m != nil && len(m.Params) == 1 {
			impl[k] = m.Params[0].Type
		}
	}
	// a NOT NULL expression under the column's own name, generated AFTER the plain queries of the package:
	// whatever struct is returned, its C field must have the documented NOT NULL type
	if m := sum.method("Filled"); m != nil && len(m.Results) > 0 {
		if st := sum.structNamed(strings.TrimPrefix(m.Results[0], "[]")); st != nil && len(st.Fields) == 2 {
			impl["coalesced"] = st.Fields[1].Type
			impl["coalescedStruct"] = st.Name
		}
	}
	return
}

func firstLine(s string) string {
	s = strings.TrimSpace(s)
	if i := strings.Index(s, "\n"); i >= 0 {
		return s[:i]
	}
	return s
}

func runC09(r *Rng, n int, tier string) {
	pgSp, mySp := switchSpellings()
	baseSchemas := []J{
		{"name": "public", "types": []J{{"kind": "enum", "name": "e1"}, {"kind": "enum", "name": "e2"}}},
		{"name": "pg_catalog", "types": []J{{"kind": "enum", "name": "e1"}}},
		{"name": "s1", "types": []J{{"kind": "enum", "name": "e1"}}},
	}
	withComposite := []J{
		{"name": "public", "types": []J{{"kind": "enum", "name": "e1"}, {"kind": "composite", "name": "c1"}, {"kind": "enum", "name": "e2"}}},
		{"name": "s1", "types": []J{{"kind": "enum", "name": "e1"}, {"kind": "enum", "name": "e2"}}},
	}
	// exhaustive over every spelling known to the switch + extras × nn × array
	id := 0
	for _, eng := range []string{"postgresql", "mysql"} {
		names := append([]string{}, pgSp...)
		if eng == "mysql" {
			names = append([]string{}, mySp...)
		}
		names = append(names, pgExtraNames...)
		for _, dt := range names {
			for _, nn := range []bool{true, false} {
				for _, arr := range []bool{false, true} {
					for si, schemas := range [][]J{baseSchemas, withComposite} {
						if si == 1 && !(strings.Contains(dt, "e1") || strings.Contains(dt, "e2") || strings.Contains(dt, "c1") || dt == "foo") {
							continue
						}
						e := envSpec{Engine: eng, Default: "public", Schemas: schemas}
						lens := []int{-1}
						if eng == "mysql" && dt == "tinyint" {
							lens = []int{-1, 1, 4}
						}
						for _, l := range lens {
							c := colSpec{Name: "c", DataType: dt, NotNull: nn, IsArray: arr, Length: l}
							tags := []string{"exhaustive", eng}
							if si == 1 {
								tags = append(tags, "composite-in-catalog")
							}
							emit(goTypeCase(fmt.Sprintf("gt-%d", id), e, c, tags))
							id++
						}
					}
				}
			}
		}
	}
	// random: overrides / renames / tables (the hand-written loops)
	goTypes := []string{"mypkg.T", "string", "int64", "*time.Time", "uuid.UUID", "custom.Null", ""}
	for i := 0; i < n; i++ {
		eng := "postgresql"
		all := pgSp
		if r.Chance(25) {
			eng = "mysql"
			all = mySp
		}
		e := envSpec{Engine: eng, Default: r.Pick([]string{"public", "public", "s1"}), Schemas: baseSchemas}
		if r.Chance(30) {
			e.Schemas = withComposite
		}
		if r.Chance(10) {
			e.Engine = r.Pick([]string{"_lemon", "oracle", ""})
		}
		if r.Chance(30) {
			e.Rename = map[string]string{r.Pick([]string{"e1", "s1_e1", "e2", "c"}): r.Pick([]string{"Renamed", "X", ""})}
		}
		dt := r.Pick(all)
		if r.Chance(30) {
			dt = r.Pick(pgExtraNames)
		}
		c := colSpec{Name: r.Pick([]string{"id", "slug", "c"}), DataType: dt, NotNull: r.Bool(), IsArray: r.Chance(25), Length: -1}
		if r.Chance(70) {
			c.HasTable = true
			c.TSchema = r.Pick([]string{"", "public", "s1"})
			c.TName = r.Pick([]string{"t", "u"})
			if r.Chance(5) {
				c.TCat = "db"
			}
		}
		no := r.Intn(4)
		for k := 0; k < no; k++ {
			o := J{"goTypeName": r.Pick(goTypes), "dbType": "", "nullable": false, "column": "", "columnName": "", "table": J{"catalog": "", "schema": "", "rel": ""}}
			if r.Bool() {
				o["dbType"] = dt
				if r.Chance(30) {
					o["dbType"] = r.Pick(all)
				}
				o["nullable"] = r.Bool()
			} else {
				o["column"] = "x"
				o["columnName"] = r.Pick([]string{"id", "slug", "c"})
				o["table"] = J{"catalog": "", "schema": r.Pick([]string{"public", "s1"}), "rel": r.Pick([]string{"t", "u"})}
			}
			e.Overrides = append(e.Overrides, o)
		}
		tags := []string{"random", eng}
		if no > 0 {
			tags = append(tags, "overrides")
		}
		emit(goTypeCase(fmt.Sprintf("gtr-%d", i), e, c, tags))
	}
	// end to end: every user spelling × nn × array × {model, result, parameter, insert parameter, star}
	for _, eng := range []string{"postgresql", "mysql"} {
		sp := pgUserSpellings
		if eng == "mysql" {
			sp = myUserSpellings
		}
		for _, s := range sp {
			for _, nn := range []bool{true, false} {
				for _, arr := range []bool{false, true} {
					if eng == "mysql" && arr {
						continue
					}
					impl, files, _ := e2eType(eng, s[0], nn, arr)
					emit(Case{ID: fmt.Sprintf("e2e-%s-%s-%v-%v", eng, s[0], nn, arr), Kind: "e2e",
						In:   J{"engine": eng, "spelling": s[0], "canon": s[1], "notNull": nn, "isArray": arr},
						Impl: impl, Detail: files, Tags: []string{"e2e", eng}})
					if !arr {
						// the same definition reached through ALTER … TYPE / MODIFY and through ADD COLUMN
						for _, h := range []int{1, 2} {
							impl, files, _ := e2eTypeHist(eng, s[0], nn, arr, h)
							emit(Case{ID: fmt.Sprintf("e2e-%s-%s-%v-%v-h%d", eng, s[0], nn, arr, h), Kind: "e2e",
								In:   J{"engine": eng, "spelling": s[0], "canon": s[1], "notNull": nn, "isArray": arr, "history": h},
								Impl: impl, Detail: files, Tags: []string{"e2e", eng, fmt.Sprintf("history:%d", h)}})
						}
					}
				}
			}
		}
	}
	// end to end, user-defined types: enums and composite types under every kind of name (plain, quoted
	// mixed-case, schema-qualified), MySQL's per-column enums under differently cased table names
	goName := func(n string) string {
		var b strings.Builder
		for _, p := range strings.Split(n, "_") {
			if p == "id" {
				b.WriteString("ID")
			} else {
				b.WriteString(strings.Title(p))
			}
		}
		return b.String()
	}
	type udt struct{ pre, spelling, want, wantNull string }
	udts := []udt{
		{"CREATE TYPE mood AS ENUM ('a', 'b');\n", "mood", "Mood", "Mood"},
		{"CREATE TYPE \"Mood\" AS ENUM ('a', 'b');\n", "\"Mood\"", "Mood", "Mood"},
		{"CREATE TYPE \"DayOfWeek\" AS ENUM ('mon', 'tue');\n", "\"DayOfWeek\"", "DayOfWeek", "DayOfWeek"},
		{"CREATE TYPE day_kind AS ENUM ('x');\n", "day_kind", "DayKind", "DayKind"},
		{"CREATE TYPE \"Day_Kind\" AS ENUM ('x');\n", "\"Day_Kind\"", "DayKind", "DayKind"},
		{"CREATE SCHEMA s1;\nCREATE TYPE s1.mood AS ENUM ('a');\n", "s1.mood", goName("s1_mood"), goName("s1_mood")},
		{"CREATE SCHEMA \"S1\";\nCREATE TYPE \"S1\".\"Kind\" AS ENUM ('a');\n", "\"S1\".\"Kind\"", goName("S1_Kind"), goName("S1_Kind")},
		{"CREATE TYPE pair AS (x int, y int);\n", "pair", "string", "sql.NullString"},
		{"CREATE TYPE \"Point2D\" AS (x int, y int);\n", "\"Point2D\"", "string", "sql.NullString"},
	}
	for ui, u := range udts {
		for _, nn := range []bool{true, false} {
			for _, arr := range []bool{false, true} {
				ty, null := u.spelling, ""
				if arr {
					ty += "[]"
				}
				if nn {
					null = " NOT NULL"
				}
				want := u.wantNull
				if nn || arr {
					want = u.want
				}
				if arr {
					want = "[]" + want
				}
				// the column lives in a table of the default schema, or of another one (the type name is resolved
				// the same way: unqualified = default schema)
				for ti, tbl := range []string{"t", "support.t"} {
					pre := u.pre
					if ti == 1 {
						pre += "CREATE SCHEMA support;\n"
					}
					schema := pre + fmt.Sprintf("CREATE TABLE %s (k int NOT NULL, c %s%s);\n", tbl, ty, null)
					query := strings.ReplaceAll("-- name: GetC :one\nSELECT c FROM t WHERE k = 1;\n\n-- name: ByC :many\nSELECT k FROM t WHERE c = $1;\n\n-- name: InsC :exec\nINSERT INTO t (k, c) VALUES (1, $1);\n\n-- name: All :many\nSELECT * FROM t;\n", " t", " "+tbl)
					files := map[string]string{"schema.sql": schema, "query.sql": query, "sqlc.json": confV1("postgresql", "")}
					emit(udtCase(fmt.Sprintf("udt-pg-%d-%v-%v-%d", ui, nn, arr, ti), files, want, []string{"e2e-user", "postgresql", "table:" + tbl}))
				}
			}
		}
	}
	// a type renamed after tables use it, the columns spelling it in different ways: every column of the type
	// carries ONE generated name (the old or the new one, as the catalog has it) - never none
	for ri, decl := range []string{"c mood NOT NULL, d public.mood NOT NULL, e mood[] NOT NULL, f public.mood[] NOT NULL"} {
		schema := "CREATE TYPE mood AS ENUM ('a', 'b');\nCREATE TABLE t (k int NOT NULL, " + decl + ");\nALTER TYPE mood RENAME TO feeling;\n"
		query := "-- name: All :many\nSELECT * FROM t;\n\n-- name: ByD :many\nSELECT k FROM t WHERE d = $1;\n\n-- name: SetF :exec\nUPDATE t SET f = $1 WHERE k = 1;\n"
		files := map[string]string{"schema.sql": schema, "query.sql": query, "sqlc.json": confV1("postgresql", "")}
		res := generate(files)
		impl := J{"ok": res.OK()}
		oracle := ""
		if !res.OK() {
			impl["err"] = firstLine(res.Stderr + res.Err + res.Panic)
			oracle = "generation failed: " + fmt.Sprint(impl["err"])
		} else {
			sum := summarize(res.Files)
			got := map[string]string{}
			if st := sum.structNamed("T"); st != nil {
				for _, f := range st.Fields {
					got[f.Name] = f.Type
				}
			}
			impl["model"] = got
			base := strings.TrimPrefix(got["C"], "[]")
			for _, fn := range []string{"C", "D", "E", "F"} {
				want := base
				if fn == "E" || fn == "F" {
					want = "[]" + base
				}
				if (base != "Mood" && base != "Feeling") || got[fn] != want {
					oracle = fmt.Sprintf("columns of one (renamed) enum type are typed %v: expected Mood or Feeling for all of them (arrays as slices)", got)
				}
			}
			if m := sum.method("ByD"); m != nil && len(m.Params) == 1 && m.Params[0].Type != base && oracle == "" {
				oracle = fmt.Sprintf("parameter compared with column d is %s, the column's type is %s", m.Params[0].Type, base)
			}
		}
		emit(Case{ID: fmt.Sprintf("udt-rename-%d", ri), Kind: "e2e-user", In: J{"files": files}, Impl: impl, Oracle: oracle, Tags: []string{"e2e-user", "postgresql", "type-renamed"}})
	}
	for ti, tn := range []string{"invoices", "Invoices", "Order_Lines", "orderLines"} {
		for _, nn := range []bool{true, false} {
			null := ""
			if nn {
				null = " NOT NULL"
			}
			schema := fmt.Sprintf("CREATE TABLE %s (k int NOT NULL, c ENUM('a','b')%s);\n", tn, null)
			query := fmt.Sprintf("-- name: GetC :one\nSELECT c FROM %s WHERE k = 1;\n\n-- name: ByC :many\nSELECT k FROM %s WHERE c = ?;\n\n-- name: InsC :exec\nINSERT INTO %s (k, c) VALUES (1, ?);\n\n-- name: All :many\nSELECT * FROM %s;\n", tn, tn, tn, tn)
			files := map[string]string{"schema.sql": schema, "query.sql": query, "sqlc.json": confV1("mysql", "")}
			emit(udtCase(fmt.Sprintf("udt-my-%d-%v", ti, nn), files, goName(tn+"_c"), []string{"e2e-user", "mysql"}))
		}
	}
}

// udtCase: a column of a user-defined type must have the type's Go name at every position
func udtCase(id string, files map[string]string, want string, tags []string) Case {
	res := generate(files)
	impl := J{"ok": res.OK()}
	oracle := ""
	if !res.OK() {
		impl["err"] = firstLine(res.Stderr + res.Err + res.Panic)
		oracle = "generation failed: " + fmt.Sprint(impl["err"])
	} else {
		sum := summarize(res.Files)
		for _, st := range sum.Structs {
			if st.File == "models.go" && len(st.Fields) == 2 && st.Fields[0].Name == "K" {
				impl["model"] = st.Fields[1].Type
			}
		}
		if m := sum.method("GetC"); m != nil && len(m.Results) > 0 {
			impl["result"] = m.Results[0]
		}
		if m := sum.method("ByC"); m != nil && len(m.Params) == 1 {
			impl["param"] = m.Params[0].Type
		}
		if m := sum.method("InsC"); m != nil && len(m.Params) == 1 {
			impl["insparam"] = m.Params[0].Type
		}
		var bad []string
		for _, k := range []string{"model", "result", "param", "insparam"} {
			if impl[k] != want {
				bad = append(bad, fmt.Sprintf("%s=%v", k, impl[k]))
			}
		}
		if len(bad) > 0 {
			oracle = fmt.Sprintf("a column of this user-defined type is documented as %s; positions that differ: %v", want, bad)
		}
	}
	return Case{ID: id, Kind: "e2e-user", In: J{"files": files, "want": want}, Impl: impl, Oracle: oracle, Tags: tags}
}
