#!/usr/bin/env python3
"""Observer for emitted Python: syntax validity (ast.parse) and the interface of every query function.
usage: pyobs.py FILE...   -> one JSON object on stdout"""
import ast, json, sys

def unparse(n):
    try:
        return ast.unparse(n)
    except Exception:
        return "?"

out = {}
for path in sys.argv[1:]:
    o = {"ok": True, "consts": {}, "funcs": {}, "classes": {}}
    try:
        src = open(path, encoding="utf-8").read()
        tree = ast.parse(src, path)
    except SyntaxError as e:
        out[path] = {"ok": False, "err": "%s (line %s)" % (e.msg, e.lineno)}
        continue
    except Exception as e:
        out[path] = {"ok": False, "err": repr(e)}
        continue
    try:
        compile(src, path, "exec")       # the symbol-table pass: duplicate argument names, `return` outside a function, …
    except SyntaxError as e:
        o["ok"] = False
        o["err"] = "%s (line %s)" % (e.msg, e.lineno)
    for node in tree.body:
        if isinstance(node, ast.Assign) and len(node.targets) == 1 and isinstance(node.targets[0], ast.Name) \
                and isinstance(node.value, ast.Constant) and isinstance(node.value.value, str):
            o["consts"][node.targets[0].id] = node.value.value
        elif isinstance(node, ast.ClassDef):
            fields = []
            for st in node.body:
                if isinstance(st, ast.AnnAssign) and isinstance(st.target, ast.Name):
                    fields.append([st.target.id, unparse(st.annotation)])
            o["classes"][node.name] = fields
        elif isinstance(node, (ast.FunctionDef, ast.AsyncFunctionDef)):
            overload = any(unparse(d) == "overload" for d in node.decorator_list)
            if overload:
                continue
            params = [[a.arg, unparse(a.annotation) if a.annotation else ""] for a in node.args.args]
            call_args, const = [], None
            for sub in ast.walk(node):
                if isinstance(sub, ast.Call) and isinstance(sub.func, ast.Attribute) and sub.func.attr.startswith("execute"):
                    args = [unparse(a) for a in sub.args]
                    call_args = args
            o["funcs"][node.name] = {"params": params, "call": call_args, "ret": unparse(node.returns) if node.returns else ""}
    out[path] = o
json.dump(out, sys.stdout)
