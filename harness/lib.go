package main

import (
	"runtime/debug"
	"bytes"
	"encoding/hex"
	"encoding/json"
	"fmt"
	"io/ioutil"
	"os"
	"path/filepath"
	"sort"
	"strings"
	"syscall"
	"time"

	"github.com/kyleconroy/sqlc/internal/cmd"
)

// ---------------------------------------------------------------- PRNG
// splitmix64: every random choice of a run derives from one state.
type Rng struct{ s uint64 }

// the seed is hashed: splitmix64 states of consecutive seeds must not be shifts of one another
func NewRng(seed uint64) *Rng {
	z := seed + 0x1234567
	z = (z ^ (z >> 33)) * 0xFF51AFD7ED558CCD
	z = (z ^ (z >> 33)) * 0xC4CEB9FE1A85EC53
	return &Rng{s: z ^ (z >> 33)}
}
func (r *Rng) U64() uint64 {
	r.s += 0x9E3779B97F4A7C15
	z := r.s
	z = (z ^ (z >> 30)) * 0xBF58476D1CE4E5B9
	z = (z ^ (z >> 27)) * 0x94D049BB133111EB
	return z ^ (z >> 31)
}
func (r *Rng) Intn(n int) int {
	if n <= 0 {
		return 0
	}
	return int(r.U64() % uint64(n))
}
func (r *Rng) Bool() bool          { return r.U64()&1 == 1 }
func (r *Rng) Chance(p int) bool   { return r.Intn(100) < p }
func (r *Rng) Pick(xs []string) string { return xs[r.Intn(len(xs))] }
func (r *Rng) Fork() *Rng          { return NewRng(r.U64()) }
func (r *Rng) Perm(n int) []int {
	p := make([]int, n)
	for i := range p {
		p[i] = i
	}
	for i := n - 1; i > 0; i-- {
		j := r.Intn(i + 1)
		p[i], p[j] = p[j], p[i]
	}
	return p
}

// ---------------------------------------------------------------- protocol
type J = map[string]interface{}

type Case struct {
	ID   string      `json:"id"`
	Kind string      `json:"kind"`
	In   interface{} `json:"in"`
	Impl interface{} `json:"impl"`
	// Verdicts of oracles that are evaluated on the Go side (go/types, re-parse, byte compare ...).
	// "" = ok, otherwise the failed clause.
	Oracle string `json:"oracle"`
	// free-form detail kept for the replay file
	Detail interface{} `json:"detail,omitempty"`
	// tags for the coverage histogram
	Tags []string `json:"tags,omitempty"`
	// known-finding triggers that hold of this input by construction
	Known []string `json:"known,omitempty"`
}

// The protocol stream goes to the original stdout; os.Stdout itself is redirected to /dev/null because
// sqlc prints to it (unformatted source on a go/format failure, "unsupported reference type").
var protoFile = protoStream()
var out = json.NewEncoder(protoFile)

func protoStream() *os.File {
	fd, err := syscall.Dup(1)
	if err != nil {
		panic(err)
	}
	f := os.NewFile(uintptr(fd), "proto")
	if null, err := os.OpenFile(os.DevNull, os.O_WRONLY, 0); err == nil {
		os.Stdout = null
	}
	return f
}

func emit(c Case) {
	if c.Tags == nil {
		c.Tags = []string{}
	}
	if err := out.Encode(c); err != nil {
		fmt.Fprintln(os.Stderr, "emit:", err)
		os.Exit(3)
	}
}

func hx(s string) string { return hex.EncodeToString([]byte(s)) }

// ---------------------------------------------------------------- running the real generator in-process
type GenResult struct {
	Files  map[string]string // path relative to the case dir -> contents
	Err    string            // "" when Generate returned nil error
	Stderr string
	Panic  string // recovered panic value, "" if none
	PanicSite string // the innermost sqlc function on the panicking stack
	Timeout bool
}

func (g GenResult) OK() bool { return g.Err == "" && g.Panic == "" && !g.Timeout }

func scratchRoot() string {
	d := os.Getenv("VERIF_SCRATCH")
	if d == "" {
		d = os.TempDir()
	}
	return d
}

func writeTree(files map[string]string) string {
	dir, err := ioutil.TempDir(scratchRoot(), "vh")
	if err != nil {
		panic(err)
	}
	for name, body := range files {
		p := filepath.Join(dir, name)
		os.MkdirAll(filepath.Dir(p), 0755)
		if err := ioutil.WriteFile(p, []byte(body), 0644); err != nil {
			panic(err)
		}
	}
	return dir
}

func generateDir(dir string) GenResult {
	type res struct {
		out   map[string]string
		err   error
		se    string
		panic string
		site  string
	}
	ch := make(chan res, 1)
	go func() {
		var stderr bytes.Buffer
		var r res
		defer func() {
			if p := recover(); p != nil {
				r.panic = fmt.Sprint(p)
				r.site = panicSite(debug.Stack())
			}
			r.se = stderr.String()
			ch <- r
		}()
		r.out, r.err = cmd.Generate(cmd.Env{ExperimentalFeatures: true}, dir, "", &stderr)
	}()
	select {
	case r := <-ch:
		g := GenResult{Files: map[string]string{}, Stderr: r.se, Panic: r.panic, PanicSite: r.site}
		if r.err != nil {
			g.Err = r.err.Error()
		}
		for k, v := range r.out {
			rel := strings.TrimPrefix(k, dir+"/")
			g.Files[rel] = v
		}
		g.Stderr = strings.ReplaceAll(g.Stderr, dir+"/", "")
		return g
	case <-time.After(20 * time.Second):
		return GenResult{Timeout: true}
	}
}

// generate runs cmd.Generate on an in-memory file tree
func generate(files map[string]string) GenResult {
	dir := writeTree(files)
	defer os.RemoveAll(dir)
	return generateDir(dir)
}

// generateIn: the configuration lives in a sub-directory of the tree; paths outside it are reported relative to
// the tree's root
func generateIn(files map[string]string, sub string) GenResult {
	root := writeTree(files)
	defer os.RemoveAll(root)
	dir := root
	if sub != "" {
		dir = filepath.Join(root, sub)
	}
	g := generateDir(dir)
	g.Stderr = strings.ReplaceAll(g.Stderr, root+"/", "")
	return g
}

// panicSite: the innermost function of the sqlc module on a panicking goroutine's stack (the frames above
// runtime.gopanic are the deferred recover machinery)
func panicSite(stack []byte) string {
	lines := strings.Split(string(stack), "\n")
	after := false
	for _, l := range lines {
		if strings.HasPrefix(l, "panic(") || strings.HasPrefix(l, "runtime.gopanic") {
			after = true
			continue
		}
		if after && strings.HasPrefix(l, "github.com/kyleconroy/sqlc/") {
			fn := strings.TrimPrefix(l, "github.com/kyleconroy/sqlc/")
			if i := strings.LastIndex(fn, "("); i > 0 {
				fn = fn[:i]
			}
			return fn
		}
	}
	return "?"
}

func sortStrings(xs []string) { sort.Strings(xs) }

func sortedKeys(m map[string]string) []string {
	ks := make([]string, 0, len(m))
	for k := range m {
		ks = append(ks, k)
	}
	sort.Strings(ks)
	return ks
}

func jsonStr(v interface{}) string {
	b, _ := json.Marshal(v)
	return string(b)
}

// simple single-package v1 config
func confV1(engine string, extra string) string {
	if extra != "" {
		extra = "," + extra
	}
	return fmt.Sprintf(`{"version":"1","packages":[{"path":"db","engine":%q,"schema":"schema.sql","queries":"query.sql"%s}]}`, engine, extra)
}

func jsonUnmarshal(s string, v interface{}) error { return json.Unmarshal([]byte(s), v) }

func writeFileAt(dir, name, content string) {
	p := filepath.Join(dir, name)
	os.MkdirAll(filepath.Dir(p), 0755)
	ioutil.WriteFile(p, []byte(content), 0644)
}

func removeAll(dir string) { os.RemoveAll(dir) }
