package main

import (
	"crypto/sha1"
	"encoding/hex"
	"fmt"
	"io/ioutil"
	"os"
	"os/exec"
	"path/filepath"
	"sort"
	"strings"
)

func init() { props["C12"] = runC12 }

type pkgSpec struct {
	Engine string   `json:"engine"`
	Lang   string   `json:"lang"`
	Fault  string   `json:"fault"`
	Dir    string   `json:"dir"`
	Out    string   `json:"out"`
	Name   string   `json:"name"`
	Extra  []string `json:"extra,omitempty"` // further gen targets of the same entry
}

var pkgFaults = []string{"bad-schema", "bad-schema-syntax", "bad-query", "bad-query-syntax", "codegen-fail", "missing-path", "unreadable-entry", "empty-queries", "dup-query",
	"missing-extra-schema", "missing-extra-schema-dir", "missing-extra-queries", "missing-extra-queries-dir"}

// files of one package + its v2 `sql` entry
func (p pkgSpec) build(files map[string]string) string {
	ph := "$1"
	if p.Engine == "mysql" {
		ph = "?"
	}
	schema := fmt.Sprintf("CREATE TABLE %s_items (id bigint NOT NULL, label text NOT NULL, note text);\n", p.Dir)
	query := fmt.Sprintf("-- name: Get%s :one\nSELECT id, label, note FROM %s_items WHERE id = %s;\n\n-- name: List%s :many\nSELECT label FROM %s_items ORDER BY label;\n",
		strings.Title(p.Dir), p.Dir, ph, strings.Title(p.Dir), p.Dir)
	schemaPath := p.Dir + "/schema.sql"
	schemaJSON, queriesJSON := "", ""
	name := p.Name
	switch p.Fault {
	case "bad-schema":
		schema += "ALTER TABLE nope ADD COLUMN x int;\n"
	case "bad-schema-syntax":
		schema += "CREATE TABL oops;\n"
	case "bad-query":
		query += fmt.Sprintf("\n-- name: Bad%s :one\nSELECT nope FROM %s_items;\n", strings.Title(p.Dir), p.Dir)
	case "bad-query-syntax":
		query += "\n-- name: Worse :one\nSELEC 1;\n"
	case "codegen-fail":
		name = "type" // `package type` does not parse: go/format rejects every file
	case "missing-path":
		schemaPath = p.Dir + "/nope.sql"
	case "missing-extra-schema":
		// one of SEVERAL paths does not exist: the package would compile without it, and must still fail
		schemaJSON = fmt.Sprintf("[%q,%q]", p.Dir+"/schema.sql", p.Dir+"/nope.sql")
	case "missing-extra-schema-dir":
		schemaJSON = fmt.Sprintf("[%q,%q]", p.Dir+"/schema.sql", p.Dir+"/nopedir")
	case "missing-extra-queries":
		queriesJSON = fmt.Sprintf("[%q,%q]", p.Dir+"/"+p.Dir+"_query.sql", p.Dir+"/nope_query.sql")
	case "missing-extra-queries-dir":
		queriesJSON = fmt.Sprintf("[%q,%q]", p.Dir+"/"+p.Dir+"_query.sql", p.Dir+"/nopequeries")
	case "unreadable-entry":
		schemaPath = p.Dir + "/schemadir"
		files[p.Dir+"/schemadir/001.sql"] = schema
		files[p.Dir+"/schemadir/002.sql/.keep"] = "" // a directory whose name ends in .sql
	case "empty-queries":
		query = "-- nothing here\n"
	case "dup-query":
		query += fmt.Sprintf("\n-- name: Get%s :one\nSELECT id FROM %s_items;\n", strings.Title(p.Dir), p.Dir)
	}
	if p.Fault != "unreadable-entry" {
		files[p.Dir+"/schema.sql"] = schema
	}
	files[p.Dir+"/"+p.Dir+"_query.sql"] = query
	gen := ""
	switch p.Lang {
	case "go":
		gen = fmt.Sprintf(`"go":{"package":%q,"out":%q}`, name, p.Out)
	case "kotlin":
		gen = fmt.Sprintf(`"kotlin":{"package":"com.example.%s","out":%q}`, p.Dir, p.Out)
	case "python":
		gen = fmt.Sprintf(`"python":{"package":%q,"out":%q}`, p.Dir, p.Out)
	}
	for _, x := range p.Extra {
		switch x {
		case "go":
			gen += fmt.Sprintf(`,"go":{"package":%q,"out":%q}`, name, p.Out+"_go")
		case "kotlin":
			gen += fmt.Sprintf(`,"kotlin":{"package":"com.example.%s","out":%q}`, p.Dir, p.Out+"_kt")
		case "python":
			gen += fmt.Sprintf(`,"python":{"package":%q,"out":%q}`, p.Dir, p.Out+"_py")
		}
	}
	if schemaJSON == "" {
		schemaJSON = fmt.Sprintf("%q", schemaPath)
	}
	if queriesJSON == "" {
		queriesJSON = fmt.Sprintf("%q", p.Dir+"/"+p.Dir+"_query.sql")
	}
	return fmt.Sprintf(`{"engine":%q,"schema":%s,"queries":%s,"gen":{%s}}`, p.Engine, schemaJSON, queriesJSON, gen)
}

func confV2(entries []string) string {
	return `{"version":"2","sql":[` + strings.Join(entries, ",") + `]}`
}

func fileHashes(files map[string]string) [][2]string {
	out := [][2]string{}
	for _, k := range sortedKeys(files) {
		h := sha1.Sum([]byte(files[k]))
		out = append(out, [2]string{k, hex.EncodeToString(h[:8])})
	}
	return out
}

func genPkgSpec(r *Rng, i int, faulty bool) pkgSpec {
	p := pkgSpec{Dir: fmt.Sprintf("p%d", i), Out: fmt.Sprintf("out/p%d", i), Name: fmt.Sprintf("p%d", i)}
	p.Engine = r.Pick([]string{"postgresql", "postgresql", "mysql"})
	p.Lang = r.Pick([]string{"go", "go", "go", "kotlin", "python"})
	if p.Lang == "python" {
		p.Engine = "postgresql"
	}
	if p.Engine == "postgresql" && r.Chance(35) {
		// one sql entry, several gen targets: cmd.Generate expands it into one package per language
		for _, x := range []string{"go", "kotlin", "python"} {
			if x != p.Lang && r.Bool() {
				p.Extra = append(p.Extra, x)
			}
		}
	}
	if faulty {
		p.Fault = r.Pick(pkgFaults)
		if p.Fault == "codegen-fail" {
			p.Lang = "go"
		}
	}
	return p
}

// sqlcBinary builds the real CLI once per run
var sqlcBin string

func sqlcBinary() string {
	if sqlcBin != "" {
		return sqlcBin
	}
	dir, _ := ioutil.TempDir(scratchRoot(), "sqlcbin")
	bin := filepath.Join(dir, "sqlc")
	cmd := exec.Command("go", "build", "-o", bin, "./cmd/sqlc")
	cmd.Dir = repoRoot
	cmd.Env = append(os.Environ(), "GOFLAGS=-mod=mod", "GOPROXY=off", "GOSUMDB=off")
	if out, err := cmd.CombinedOutput(); err != nil {
		fmt.Fprintln(os.Stderr, "cannot build sqlc:", string(out))
		os.Exit(3)
	}
	sqlcBin = bin
	return bin
}

func snapshot(dir string) map[string]string {
	m := map[string]string{}
	filepath.Walk(dir, func(p string, info os.FileInfo, err error) error {
		if err == nil && !info.IsDir() {
			b, _ := ioutil.ReadFile(p)
			h := sha1.Sum(b)
			m[strings.TrimPrefix(p, dir+"/")] = hex.EncodeToString(h[:8])
		}
		return nil
	})
	return m
}

func runCLI(files map[string]string, sub string) (status int, stderr string, added []string, changed bool) {
	dir := writeTree(files)
	defer os.RemoveAll(dir)
	before := snapshot(dir)
	cmd := exec.Command(sqlcBinary(), "-x", sub)
	cmd.Dir = dir
	var eb strings.Builder
	cmd.Stderr = &eb
	err := cmd.Run()
	if err != nil {
		if ee, ok := err.(*exec.ExitError); ok {
			status = ee.ExitCode()
		} else {
			status = -1
		}
	}
	after := snapshot(dir)
	for k, v := range after {
		if b, ok := before[k]; !ok {
			added = append(added, k)
		} else if b != v {
			changed = true
		}
	}
	for k := range before {
		if _, ok := after[k]; !ok {
			changed = true
		}
	}
	sort.Strings(added)
	return status, strings.ReplaceAll(eb.String(), dir+"/", ""), added, changed
}

func runC12(r *Rng, n int, tier string) {
	for i := 0; i < n; i++ {
		np := 1 + r.Intn(4)
		var specs []pkgSpec
		nf := 0
		switch r.Intn(5) {
		case 0:
			nf = 0
		case 1, 2:
			nf = 1
		default:
			nf = 1 + r.Intn(np)
		}
		faultAt := map[int]bool{}
		for _, k := range r.Perm(np)[:minInt(nf, np)] {
			faultAt[k] = true
		}
		files := map[string]string{}
		var entries []string
		var outcomes []J
		var tags []string
		for k := 0; k < np; k++ {
			p := genPkgSpec(r, k, faultAt[k])
			specs = append(specs, p)
			entries = append(entries, p.build(files))
			// measure the package alone
			single := map[string]string{}
			e := p.build(single)
			single["sqlc.json"] = confV2([]string{e})
			sr := generate(single)
			o := J{"ok": sr.OK(), "files": fileHashes(sr.Files), "panic": sr.Panic != ""}
			if !sr.OK() {
				kind := "parseFail"
				if strings.Contains(sr.Stderr, "error generating code") {
					kind = "genFail"
				}
				o["kind"] = kind
				o["diag"] = strings.TrimSpace(sr.Stderr) != ""
			}
			outcomes = append(outcomes, o)
			if p.Fault != "" {
				tags = append(tags, "fault:"+p.Fault)
			}
			tags = append(tags, p.Lang+"/"+p.Engine)
			if len(p.Extra) > 0 {
				tags = append(tags, fmt.Sprintf("targets=%d", 1+len(p.Extra)))
			}
		}
		files["sqlc.json"] = confV2(entries)
		res := generate(files)
		impl := J{"ok": res.OK(), "files": fileHashes(res.Files), "diag": strings.TrimSpace(res.Stderr) != "", "panic": res.Panic != ""}
		// every gen target of every entry has its own output directory: when the run succeeds each holds files
		missingTarget := ""
		if res.OK() {
			for _, p := range specs {
				outs := []string{p.Out}
				for _, x := range p.Extra {
					outs = append(outs, p.Out+map[string]string{"go": "_go", "kotlin": "_kt", "python": "_py"}[x])
				}
				for _, o := range outs {
					if len(filterPrefix(res.Files, o+"/")) == 0 {
						missingTarget = fmt.Sprintf("generation succeeded but the gen target writing to %s produced no file", o)
					}
				}
			}
		}
		c := Case{ID: fmt.Sprintf("multi-%d", i), Kind: "multi", In: J{"packages": specs, "outcomes": outcomes, "files": files}, Impl: impl, Tags: append(tags, fmt.Sprintf("packages=%d", np))}
		if missingTarget != "" {
			c.Oracle = missingTarget
		}
		// CLI level on a subset
		if i%4 == 0 && c.Oracle == "" {
			st, se, added, changed := runCLI(files, "generate")
			st2, se2, added2, changed2 := runCLI(files, "compile")
			var want []string
			for _, kv := range fileHashes(res.Files) {
				want = append(want, kv[0])
			}
			c.Detail = J{"generate": J{"status": st, "stderr": se, "added": added}, "compile": J{"status": st2, "stderr": se2, "added": added2}}
			switch {
			case res.OK() && st != 0:
				c.Oracle = "cmd.Generate succeeds but `sqlc generate` exits non-zero"
			case !res.OK() && st == 0:
				c.Oracle = "cmd.Generate fails but `sqlc generate` exits 0"
			case st != 0 && len(added) > 0:
				c.Oracle = fmt.Sprintf("`sqlc generate` failed but wrote %v", added)
			case st != 0 && strings.TrimSpace(se) == "":
				c.Oracle = "`sqlc generate` failed without a diagnostic"
			case st == 0 && strings.Join(added, ",") != strings.Join(want, ","):
				c.Oracle = fmt.Sprintf("`sqlc generate` wrote %v, expected %v", added, want)
			case changed || changed2:
				c.Oracle = "an input file was modified"
			case st2 != st:
				c.Oracle = fmt.Sprintf("`sqlc compile` exits %d, `sqlc generate` exits %d", st2, st)
			case len(added2) > 0:
				c.Oracle = fmt.Sprintf("`sqlc compile` wrote %v", added2)
			case se2 != se:
				c.Oracle = "`sqlc compile` and `sqlc generate` print different diagnostics"
			}
			c.Tags = append(c.Tags, "cli")
		}
		emit(c)
	}
	// invalid configurations: nothing may be produced, a diagnostic must be printed
	bad := map[string]map[string]string{
		"unknown-field":  {"sqlc.json": `{"version":"1","packages":[{"path":"db","schema":"s.sql","queries":"q.sql","bogus":true}]}`},
		"no-version":     {"sqlc.json": `{"packages":[{"path":"db","schema":"s.sql","queries":"q.sql"}]}`},
		"bad-version":    {"sqlc.json": `{"version":"7","packages":[]}`},
		"no-packages":    {"sqlc.json": `{"version":"1","packages":[]}`},
		"both-configs":   {"sqlc.json": `{"version":"1","packages":[{"path":"db","schema":"s.sql","queries":"q.sql"}]}`, "sqlc.yaml": "version: \"1\"\npackages: []\n"},
		"no-config":      {"readme.txt": "x"},
		"not-json":       {"sqlc.json": `{"version":`},
		"missing-out":    {"sqlc.json": `{"version":"2","sql":[{"engine":"postgresql","schema":"s.sql","queries":"q.sql","gen":{"go":{"package":"db"}}}]}`},
		"missing-engine": {"sqlc.json": `{"version":"2","sql":[{"schema":"s.sql","queries":"q.sql","gen":{"go":{"package":"db","out":"db"}}}]}`},
		"kotlin-no-pkg":  {"sqlc.json": `{"version":"2","sql":[{"engine":"postgresql","schema":"s.sql","queries":"q.sql","gen":{"kotlin":{"out":"kt"}}}]}`},
		"bad-override":   {"sqlc.json": `{"version":"1","packages":[{"path":"db","schema":"s.sql","queries":"q.sql","overrides":[{"go_type":"x.Y"}]}]}`},
	}
	// every placement of one configuration fault in an entry with one, two or three gen targets, in the first or
	// the second entry of the `sql` list (version 2), and in the first or second package (version 1)
	type tgt struct {
		lang, good string
		faults     map[string]string
	}
	tgts := []tgt{
		{"go", `"go":{"package":"db","out":"db"}`, map[string]string{
			"no-out":        `"go":{"package":"db"}`,
			"override-both": `"go":{"package":"db","out":"db","overrides":[{"column":"t.id","db_type":"int4","go_type":"x.Y"}]}`,
			"override-none": `"go":{"package":"db","out":"db","overrides":[{"go_type":"x.Y"}]}`}},
		{"kotlin", `"kotlin":{"package":"com.example.t","out":"kt"}`, map[string]string{
			"no-out":     `"kotlin":{"package":"com.example.t"}`,
			"no-package": `"kotlin":{"out":"kt"}`}},
		{"python", `"python":{"package":"t","out":"py"}`, map[string]string{
			"override-both": `"python":{"package":"t","out":"py","overrides":[{"column":"t.id","db_type":"int4","python_type":{"module":"x","name":"Y"}}]}`,
			"override-none": `"python":{"package":"t","out":"py","overrides":[{"python_type":{"module":"x","name":"Y"}}]}`}},
	}
	goodEntry := `{"engine":"postgresql","schema":"s.sql","queries":"q.sql","gen":{"go":{"package":"first","out":"first"}}}`
	for mask := 1; mask < 8; mask++ {
		for fi, ft := range tgts {
			if mask&(1<<uint(fi)) == 0 {
				continue
			}
			for _, fk := range sortedKeys(ft.faults) {
				var parts []string
				for ti, t := range tgts {
					if mask&(1<<uint(ti)) == 0 {
						continue
					}
					if ti == fi {
						parts = append(parts, ft.faults[fk])
					} else {
						parts = append(parts, t.good)
					}
				}
				entry := `{"engine":"postgresql","schema":"s.sql","queries":"q.sql","gen":{` + strings.Join(parts, ",") + `}}`
				bad[fmt.Sprintf("targets%d-%s-%s-first", mask, ft.lang, fk)] = map[string]string{"sqlc.json": `{"version":"2","sql":[` + entry + `]}`}
				bad[fmt.Sprintf("targets%d-%s-%s-second", mask, ft.lang, fk)] = map[string]string{"sqlc.json": `{"version":"2","sql":[` + goodEntry + `,` + entry + `]}`}
			}
		}
	}
	goodPkg := `{"name":"first","path":"first","schema":"s.sql","queries":"q.sql"}`
	for _, kv := range [][2]string{
		{"no-path", `{"name":"db","schema":"s.sql","queries":"q.sql"}`},
		{"override-both", `{"path":"db","schema":"s.sql","queries":"q.sql","overrides":[{"column":"t.id","db_type":"int4","go_type":"x.Y"}]}`},
		{"override-none", `{"path":"db","schema":"s.sql","queries":"q.sql","overrides":[{"go_type":"x.Y"}]}`},
		{"unknown-engine", `{"path":"db","engine":"oracle","schema":"s.sql","queries":"q.sql"}`},
	} {
		bad["v1-"+kv[0]+"-first"] = map[string]string{"sqlc.json": `{"version":"1","packages":[` + kv[1] + `,` + goodPkg + `]}`}
		bad["v1-"+kv[0]+"-second"] = map[string]string{"sqlc.json": `{"version":"1","packages":[` + goodPkg + `,` + kv[1] + `]}`}
	}
	bad["v2-unknown-engine-second"] = map[string]string{"sqlc.json": `{"version":"2","sql":[` + goodEntry + `,{"engine":"oracle","schema":"s.sql","queries":"q.sql","gen":{"go":{"package":"db","out":"db"}}}]}`}
	bad["v2-missing-engine-second"] = map[string]string{"sqlc.json": `{"version":"2","sql":[` + goodEntry + `,{"schema":"s.sql","queries":"q.sql","gen":{"go":{"package":"db","out":"db"}}}]}`}
	bad["v2-global-override-both"] = map[string]string{"sqlc.json": `{"version":"2","overrides":{"go":{"overrides":[{"column":"t.id","db_type":"int4","go_type":"x.Y"}]}},"sql":[` + goodEntry + `]}`}
	bad["v1-global-override-none"] = map[string]string{"sqlc.json": `{"version":"1","overrides":[{"go_type":"x.Y"}],"packages":[` + goodPkg + `]}`}
	var names []string
	for k := range bad {
		names = append(names, k)
	}
	sort.Strings(names)
	for _, k := range names {
		files := bad[k]
		files["s.sql"] = "CREATE TABLE t (id int);\n"
		files["q.sql"] = "-- name: A :one\nSELECT id FROM t;\n"
		res := generate(files)
		oracle := ""
		switch {
		case res.Panic != "":
			oracle = "panic: " + res.Panic
		case res.OK():
			oracle = "invalid configuration accepted"
		case len(res.Files) > 0:
			oracle = "output produced for an invalid configuration"
		case strings.TrimSpace(res.Stderr) == "":
			oracle = "invalid configuration rejected without a diagnostic"
		}
		emit(Case{ID: "conf-" + k, Kind: "badconfig", In: J{"files": files}, Impl: J{"ok": res.OK()}, Oracle: oracle, Tags: []string{"invalid-config"}})
	}
	// config.ParseConfig next to the Lean model of v2ParseConfig
	runCfgVal(r, n*4)
	// KNOWN FINDING sameOutDir: two packages writing to one directory
	{
		files := map[string]string{}
		a := pkgSpec{Engine: "postgresql", Lang: "go", Dir: "p0", Out: "out/shared", Name: "shared"}
		b := pkgSpec{Engine: "postgresql", Lang: "go", Dir: "p1", Out: "out/shared", Name: "shared"}
		ea, eb := a.build(files), b.build(files)
		files["sqlc.json"] = confV2([]string{ea, eb})
		res := generate(files)
		oracle := ""
		if res.OK() {
			if tc := typeCheck(filterPrefix(res.Files, "out/shared/")); tc != "" {
				oracle = "status 0, no diagnostic, but the two packages overwrote each other's db.go/models.go: " + tc
			}
		}
		emit(Case{ID: "same-out-dir", Kind: "sameout", In: J{"files": files}, Impl: J{"ok": res.OK()}, Oracle: oracle, Known: []string{"sameOutDir"}, Tags: []string{"known"}})
	}
}

func filterPrefix(m map[string]string, p string) map[string]string {
	out := map[string]string{}
	for k, v := range m {
		if strings.HasPrefix(k, p) {
			out[k] = v
		}
	}
	return out
}

func minInt(a, b int) int {
	if a < b {
		return a
	}
	return b
}
