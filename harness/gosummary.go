package main

// Observers over emitted Go source: a package summary extracted with go/parser (imports, declared
// identifiers, struct fields with types and tags, method signatures, driver call and its arguments,
// scan list, SQL constants), and a go/types check of the whole package.

import (
	"fmt"
	"go/ast"
	"go/build"
	"go/format"
	"go/importer"
	"go/parser"
	"go/token"
	"go/types"
	"os"
	"path/filepath"
	"runtime"
	"sort"
	"strconv"
	"strings"
	"sync"
)

type SField struct {
	Name string `json:"name"`
	Type string `json:"type"`
	Tag  string `json:"tag"`
}
type SStruct struct {
	Name   string   `json:"name"`
	File   string   `json:"file"`
	Fields []SField `json:"fields"`
}
type SParam struct {
	Name string `json:"name"`
	Type string `json:"type"`
}
type SMethod struct {
	Name      string   `json:"name"`
	File      string   `json:"file"`
	Params    []SParam `json:"params"`  // without ctx
	Results   []string `json:"results"` // result types
	Driver    string   `json:"driver"`  // QueryRowContext | QueryContext | ExecContext | queryRow | query | exec
	CallArgs  []string `json:"callargs"` // arguments after (ctx, [stmt,] const)
	ConstName string   `json:"constname"`
	Scan      []string `json:"scan"`
	Doc       []string `json:"doc"`
	ErrChecks int      `json:"errchecks"` // number of `if err ... != nil` statements
	RowsClose bool     `json:"rowsclose"`
	RowsErr   bool     `json:"rowserr"`
	EmptyInit bool     `json:"emptyinit"` // items := []T{}
}
type SFile struct {
	Name    string   `json:"name"`
	Imports []string `json:"imports"` // `alias "path"` or `"path"`
	Decls   []string `json:"decls"`   // top-level identifiers declared here, in order
	Quals   []string `json:"quals"`   // package qualifiers used (sorted, distinct)
}
type PkgSummary struct {
	Files    []SFile            `json:"files"`
	Structs  []SStruct          `json:"structs"`
	Methods  []SMethod          `json:"methods"`
	Consts   map[string]string  `json:"consts"` // string constants
	Iface    []SMethod          `json:"iface"`  // methods of `Querier`
	EnumVals map[string][]string `json:"enumvals"` // enum type -> constant values in order
	ParseErr string             `json:"parseerr"`
}

func exprStr(e ast.Expr) string { return types.ExprString(e) }

func summarize(files map[string]string) PkgSummary {
	sum := PkgSummary{Consts: map[string]string{}, EnumVals: map[string][]string{}}
	fset := token.NewFileSet()
	names := make([]string, 0, len(files))
	for n := range files {
		if strings.HasSuffix(n, ".go") {
			names = append(names, n)
		}
	}
	sort.Strings(names)
	for _, n := range names {
		f, err := parser.ParseFile(fset, n, files[n], parser.ParseComments)
		if err != nil {
			sum.ParseErr = err.Error()
			continue
		}
		sf := SFile{Name: baseOf(n)}
		for _, im := range f.Imports {
			s := im.Path.Value
			if im.Name != nil {
				s = im.Name.Name + " " + s
			}
			sf.Imports = append(sf.Imports, s)
		}
		quals := map[string]bool{}
		ast.Inspect(f, func(nd ast.Node) bool {
			if se, ok := nd.(*ast.SelectorExpr); ok {
				if id, ok := se.X.(*ast.Ident); ok && id.Obj == nil {
					quals[id.Name] = true
				}
			}
			return true
		})
		for _, d := range f.Decls {
			switch d := d.(type) {
			case *ast.GenDecl:
				for _, sp := range d.Specs {
					switch s := sp.(type) {
					case *ast.TypeSpec:
						sf.Decls = append(sf.Decls, s.Name.Name)
						if st, ok := s.Type.(*ast.StructType); ok {
							ss := SStruct{Name: s.Name.Name, File: sf.Name}
							for _, fl := range st.Fields.List {
								tag := ""
								if fl.Tag != nil {
									tag, _ = strconv.Unquote(fl.Tag.Value)
								}
								for _, nm := range fl.Names {
									ss.Fields = append(ss.Fields, SField{nm.Name, exprStr(fl.Type), tag})
								}
							}
							sum.Structs = append(sum.Structs, ss)
						}
						if it, ok := s.Type.(*ast.InterfaceType); ok && s.Name.Name == "Querier" {
							for _, m := range it.Methods.List {
								ft, ok := m.Type.(*ast.FuncType)
								if !ok || len(m.Names) == 0 {
									continue
								}
								sum.Iface = append(sum.Iface, sigOf(m.Names[0].Name, sf.Name, ft))
							}
						}
					case *ast.ValueSpec:
						for i, nm := range s.Names {
							sf.Decls = append(sf.Decls, nm.Name)
							if i < len(s.Values) {
								if d.Tok == token.CONST {
									if v, ok := constString(s.Values[i]); ok {
										sum.Consts[nm.Name] = v
										if s.Type != nil {
											t := exprStr(s.Type)
											sum.EnumVals[t] = append(sum.EnumVals[t], v)
										}
									}
								}
							}
						}
					}
				}
			case *ast.FuncDecl:
				if d.Recv == nil {
					sf.Decls = append(sf.Decls, d.Name.Name)
					continue
				}
				recv := exprStr(d.Recv.List[0].Type)
				if recv != "*Queries" {
					sf.Decls = append(sf.Decls, recv+"."+d.Name.Name)
					continue
				}
				sf.Decls = append(sf.Decls, "Queries."+d.Name.Name)
				m := sigOf(d.Name.Name, sf.Name, d.Type)
				if d.Doc != nil {
					for _, c := range d.Doc.List {
						m.Doc = append(m.Doc, c.Text)
					}
				}
				methodBody(&m, d.Body)
				sum.Methods = append(sum.Methods, m)
			}
		}
		for q := range quals {
			sf.Quals = append(sf.Quals, q)
		}
		sort.Strings(sf.Quals)
		sum.Files = append(sum.Files, sf)
	}
	return sum
}

func baseOf(p string) string {
	if i := strings.LastIndex(p, "/"); i >= 0 {
		return p[i+1:]
	}
	return p
}

func constString(e ast.Expr) (string, bool) {
	switch x := e.(type) {
	case *ast.BasicLit:
		if x.Kind == token.STRING {
			s, err := strconv.Unquote(x.Value)
			return s, err == nil
		}
	case *ast.BinaryExpr:
		if x.Op == token.ADD {
			a, ok1 := constString(x.X)
			b, ok2 := constString(x.Y)
			return a + b, ok1 && ok2
		}
	case *ast.ParenExpr:
		return constString(x.X)
	}
	return "", false
}

func sigOf(name, file string, ft *ast.FuncType) SMethod {
	m := SMethod{Name: name, File: file}
	if ft.Params != nil {
		for i, p := range ft.Params.List {
			if i == 0 && exprStr(p.Type) == "context.Context" {
				continue
			}
			if len(p.Names) == 0 {
				m.Params = append(m.Params, SParam{"", exprStr(p.Type)})
			}
			for _, nm := range p.Names {
				m.Params = append(m.Params, SParam{nm.Name, exprStr(p.Type)})
			}
		}
	}
	if ft.Results != nil {
		for _, r := range ft.Results.List {
			m.Results = append(m.Results, exprStr(r.Type))
		}
	}
	return m
}

func methodBody(m *SMethod, body *ast.BlockStmt) {
	if body == nil {
		return
	}
	ast.Inspect(body, func(n ast.Node) bool {
		switch x := n.(type) {
		case *ast.CallExpr:
			sel, ok := x.Fun.(*ast.SelectorExpr)
			if !ok {
				return true
			}
			fn := sel.Sel.Name
			recv := exprStr(sel.X)
			switch {
			case recv == "q.db" && (fn == "QueryRowContext" || fn == "QueryContext" || fn == "ExecContext"):
				m.Driver = fn
				if len(x.Args) >= 2 {
					m.ConstName = exprStr(x.Args[1])
					for _, a := range x.Args[2:] {
						m.CallArgs = append(m.CallArgs, exprStr(a))
					}
				}
			case recv == "q" && (fn == "queryRow" || fn == "query" || fn == "exec"):
				m.Driver = fn
				if len(x.Args) >= 3 {
					m.ConstName = exprStr(x.Args[2])
					for _, a := range x.Args[3:] {
						m.CallArgs = append(m.CallArgs, exprStr(a))
					}
				}
			case fn == "Scan" && (recv == "row" || recv == "rows"):
				m.Scan = nil
				for _, a := range x.Args {
					m.Scan = append(m.Scan, exprStr(a))
				}
			case fn == "Close" && recv == "rows":
				// `defer rows.Close()` does not count; the checked one sits in an if-init
			case fn == "Err" && recv == "rows":
				m.RowsErr = true
			}
		case *ast.IfStmt:
			c := exprStr(x.Cond)
			if c == "err != nil" {
				m.ErrChecks++
				if as, ok := x.Init.(*ast.AssignStmt); ok && len(as.Rhs) == 1 {
					if exprStr(as.Rhs[0]) == "rows.Close()" {
						m.RowsClose = true
					}
				}
			}
		case *ast.AssignStmt:
			if len(x.Lhs) == 1 && exprStr(x.Lhs[0]) == "items" && len(x.Rhs) == 1 {
				if _, ok := x.Rhs[0].(*ast.CompositeLit); ok {
					m.EmptyInit = true
				}
			}
		}
		return true
	})
}

var fixedMethods = map[string]bool{"WithTx": true, "Close": true, "exec": true, "query": true, "queryRow": true}

// queryMethods: the methods generated from annotated statements (template-fixed helpers excluded)
func (s PkgSummary) queryMethods() []SMethod {
	var out []SMethod
	for _, m := range s.Methods {
		if !fixedMethods[m.Name] {
			out = append(out, m)
		}
	}
	return out
}

func (s PkgSummary) structNamed(n string) *SStruct {
	for i := range s.Structs {
		if s.Structs[i].Name == n {
			return &s.Structs[i]
		}
	}
	return nil
}
func (s PkgSummary) method(n string) *SMethod {
	for i := range s.Methods {
		if s.Methods[i].Name == n {
			return &s.Methods[i]
		}
	}
	return nil
}

// ---------------------------------------------------------------- go/types on an emitted package
var (
	tcOnce sync.Once
	tcImp  types.Importer
	tcFset = token.NewFileSet()
	tcMu   sync.Mutex
)

// typeCheck type-checks the .go files of one emitted package as a unit. Imports are resolved from
// source (stdlib, github.com/lib/pq, github.com/google/uuid are in the module cache and required by
// the harness module). Returns the first few errors, "" if the package is well typed.
func typeCheck(files map[string]string) string {
	tcMu.Lock()
	defer tcMu.Unlock()
	tcOnce.Do(func() {
		// `go list` (module mode) runs in build.Default.Dir: the harness module, whatever the cwd
		build.Default.Dir = harnessDir()
		tcImp = importer.ForCompiler(tcFset, "source", nil)
	})
	var parsed []*ast.File
	names := make([]string, 0, len(files))
	for n := range files {
		if strings.HasSuffix(n, ".go") {
			names = append(names, n)
		}
	}
	sort.Strings(names)
	for _, n := range names {
		// file names are placed under the harness module so that the source importer resolves
		// github.com/lib/pq and github.com/google/uuid whatever the working directory is
		f, err := parser.ParseFile(tcFset, filepath.Join(harnessDir(), filepath.Base(n)), files[n], 0)
		if err != nil {
			return "parse: " + strings.Replace(err.Error(), harnessDir()+"/", "", -1)
		}
		parsed = append(parsed, f)
	}
	var errs []string
	conf := types.Config{Importer: tcImp, Error: func(err error) {
		// secondary lines ("\tother declaration of X") belong to the error before them
		if te, ok := err.(types.Error); ok && strings.HasPrefix(te.Msg, "\t") {
			return
		}
		if len(errs) < 6 {
			errs = append(errs, err.Error())
		}
	}}
	conf.Check("db", tcFset, parsed, nil)
	return strings.Replace(strings.Join(errs, " | "), harnessDir()+"/", "", -1)
}

// harnessDir: the directory of the harness module (where go.mod requires lib/pq and uuid)
func harnessDir() string {
	if d := os.Getenv("VERIF_HARNESS_DIR"); d != "" {
		return d
	}
	_, file, _, ok := runtime.Caller(0)
	if ok {
		return filepath.Dir(file)
	}
	return "/verif/harness"
}

func gofmtStable(src string) bool {
	out, err := format.Source([]byte(src))
	return err == nil && string(out) == src
}

var _ = fmt.Sprintf
