package main

import (
	"fmt"
	"io/ioutil"
	"os"
	"path/filepath"
	"sort"
	"strings"

	"github.com/kyleconroy/sqlc/internal/migrations"
	"github.com/kyleconroy/sqlc/internal/sql/sqlpath"
)

func init() { props["C14"] = runC14 }

var markerLines = []string{
	"-- +goose Down", "-- +migrate Down", "---- create above / drop below ----", "-- migrate:down",
}
var markerVariants = []string{ // genuine marker lines with options / trailing blanks
	"-- +migrate Down notransaction", "-- migrate:down transaction:false", "-- +goose Down ", "-- +goose Down\t",
}
var nearMissLines = []string{ // KNOWN FINDING markerPrefix: these must NOT cut, but do
	"-- +goose Downgrade notes", "-- +migrate Downtime window", "-- migrate:downstream", "---- create above / drop below ----x",
}
var decoyLines = []string{ // must not cut, and do not
	" -- +goose Down", "-- +goose Up", "--+goose Down", "-- +goose down", "-- migrate:up", "--- create above / drop below ---",
	"-- + goose Down", "SELECT '-- +goose Down';", "/* -- +goose Down */", "-- +goose StatementBegin", "", "   ",
	"CREATE TABLE a (id int);", "ALTER TABLE a ADD COLUMN b text;", "DROP TABLE a;", "-- a comment", "é ü — multi-byte", "\t",
}

func genRollbackText(r *Rng, allowNear bool) (string, []string) {
	var tags []string
	n := r.Intn(9)
	var lines []string
	for i := 0; i < n; i++ {
		k := r.Intn(100)
		switch {
		case k < 14:
			lines = append(lines, r.Pick(markerLines))
			tags = append(tags, "marker")
		case k < 20:
			lines = append(lines, r.Pick(markerVariants))
			tags = append(tags, "marker-variant")
		case k < 24 && allowNear:
			lines = append(lines, r.Pick(nearMissLines))
			tags = append(tags, "near-miss")
		default:
			lines = append(lines, r.Pick(decoyLines))
		}
	}
	eol := "\n"
	if r.Chance(15) {
		eol = "\r\n"
		tags = append(tags, "crlf")
	}
	s := strings.Join(lines, eol)
	if r.Chance(50) {
		s += eol
	}
	if r.Chance(5) {
		s += "\r"
	}
	return s, tags
}

func runC14(r *Rng, n int, tier string) {
	// ---- stream 1: RemoveRollbackStatements vs model, spec on impl output
	fixed := []string{
		"", "\n", "-- +goose Down", "-- +goose Down\n", "a\n-- +goose Down\nb", "a\r\n-- +migrate Down\r\nb\r\n",
		"---- create above / drop below ----\nx", "x\n-- migrate:down\ny\n-- +goose Down\nz", "a\n\n\nb\n", "a\r\r\nb",
	}
	for i, s := range fixed {
		emit(Case{ID: fmt.Sprintf("rb-fixed-%d", i), Kind: "rollback", In: J{"text": hx(s)}, Impl: J{"out": hx(migrations.RemoveRollbackStatements(s))}, Tags: []string{"fixed"}})
	}
	for i := 0; i < n; i++ {
		s, tags := genRollbackText(r, i%10 == 0)
		emit(Case{ID: fmt.Sprintf("rb-%d", i), Kind: "rollback", In: J{"text": hx(s)}, Impl: J{"out": hx(migrations.RemoveRollbackStatements(s))}, Tags: tags})
	}
	// known finding: 64 KiB line
	{
		s := "CREATE TABLE a (id int);\n-- " + strings.Repeat("x", 70000) + "\nCREATE TABLE b (id int);\n"
		emit(Case{ID: "rb-longline", Kind: "rollback", In: J{"text": hx(s)}, Impl: J{"out": hx(migrations.RemoveRollbackStatements(s))}, Tags: []string{"long-line"}})
	}

	// ---- stream 2: sqlpath.Glob vs model
	names := []string{"001_a.sql", "002_b.sql", "010_c.sql", "2_d.sql", ".hidden.sql", "x.down.sql", "y.sql.bak", "z.SQL", "sub.sql", "down.sql",
		".sql", "a.sql~", "b.txt", "A.sql", "_x.sql", "x.up.sql", "001_a.down.sql", "é.sql", "q.sql ", "dir"}
	ng := n / 4
	if ng < 20 {
		ng = 20
	}
	for i := 0; i < ng; i++ {
		root, _ := ioutil.TempDir(scratchRoot(), "vhglob")
		var fs []J
		var paths []string
		nd := 1 + r.Intn(3)
		for d := 0; d < nd; d++ {
			dn := fmt.Sprintf("d%d", d)
			if r.Chance(20) {
				dn = fmt.Sprintf("d%d.sql", d)
			}
			os.MkdirAll(filepath.Join(root, dn), 0755)
			var ents []string
			perm := r.Perm(len(names))
			k := r.Intn(8)
			for j := 0; j < k; j++ {
				nm := names[perm[j]]
				p := filepath.Join(root, dn, nm)
				if nm == "sub.sql" || nm == "dir" {
					os.MkdirAll(p, 0755)
					fs = append(fs, J{"path": hx(dn + "/" + nm), "kind": "dir", "names": []string{}})
				} else {
					ioutil.WriteFile(p, []byte("-- x"), 0644)
					fs = append(fs, J{"path": hx(dn + "/" + nm), "kind": "file", "names": []string{}})
				}
				ents = append(ents, hx(nm))
			}
			if ents == nil {
				ents = []string{}
			}
			fs = append(fs, J{"path": hx(dn), "kind": "dir", "names": ents})
			if r.Chance(80) {
				paths = append(paths, dn)
			}
			// sometimes list individual files too
			for j := 0; j < k && j < 3; j++ {
				if r.Chance(25) {
					paths = append(paths, dn+"/"+names[perm[j]])
				}
			}
		}
		if r.Chance(10) {
			paths = append(paths, "nope.sql")
		}
		// shuffle listed paths: list order must be kept
		pp := r.Perm(len(paths))
		sh := make([]string, len(paths))
		for a, b := range pp {
			sh[a] = paths[b]
		}
		cwd, _ := os.Getwd()
		os.Chdir(root)
		got, err := sqlpath.Glob(sh)
		os.Chdir(cwd)
		os.RemoveAll(root)
		var impl J
		if err != nil {
			// "path %s does not exist"
			m := strings.TrimSuffix(strings.TrimPrefix(err.Error(), "path "), " does not exist")
			impl = J{"missing": hx(m)}
		} else {
			hs := make([]string, 0, len(got))
			for _, g := range got {
				hs = append(hs, hx(g))
			}
			impl = J{"files": hs}
		}
		hp := make([]string, 0, len(sh))
		for _, p := range sh {
			hp = append(hp, hx(p))
		}
		emit(Case{ID: fmt.Sprintf("glob-%d", i), Kind: "glob", In: J{"paths": hp, "fs": fs}, Impl: impl, Detail: J{"paths": sh}})
	}

	// ---- stream 3 (end to end): one history, many file arrangements → same models.go
	na := n / 10
	if na < 8 {
		na = 8
	}
	for i := 0; i < na; i++ {
		g := NewDDLGen(r.Fork())
		g.Wild = 3
		g.Safe = true
		ops := g.History(4 + r.Intn(10))
		// keep the valid prefix (decided by the real catalog)
		steps, perr, pn := runHistory(historySQL(ops), false)
		if perr != "" || pn != "" {
			continue
		}
		valid := len(steps)
		if valid > 0 && steps[valid-1].Err != "" {
			valid--
		}
		keepErr := r.Chance(15) && valid < len(ops)
		if keepErr {
			valid++
		}
		ops = ops[:valid]
		if len(ops) == 0 {
			continue
		}
		query := "-- name: Q :one\nSELECT 1;\n"
		base := arrangeFiles(ops, []int{}, "", r, false)
		base["query.sql"] = query
		base["sqlc.json"] = `{"version":"1","packages":[{"path":"db","engine":"postgresql","schema":"schema","queries":"query.sql"}]}`
		ref := generate(base)
		var refModels string
		if ref.OK() {
			refModels = ref.Files["db/models.go"]
		}
		oracle := ""
		var detail []J
		nArr := 4
		if tier == "thorough" {
			nArr = 10
		}
		for a := 0; a < nArr; a++ {
			ncut := r.Intn(4)
			if ncut > len(ops)-1 {
				ncut = len(ops) - 1
			}
			cutset := map[int]bool{}
			for len(cutset) < ncut {
				cutset[1+r.Intn(len(ops)-1)] = true
			}
			var cuts []int
			for c := range cutset {
				cuts = append(cuts, c)
			}
			sort.Ints(cuts)
			marker := ""
			if r.Chance(60) {
				marker = r.Pick(markerLines)
			}
			files := arrangeFiles(ops, cuts, marker, r, true)
			mode := r.Intn(2)
			files["query.sql"] = query
			if mode == 0 {
				files["sqlc.json"] = `{"version":"1","packages":[{"path":"db","engine":"postgresql","schema":"schema","queries":"query.sql"}]}`
			} else {
				// explicit path list, in order
				var list []string
				for _, k := range sortedKeys(files) {
					if strings.HasPrefix(k, "schema/") && strings.HasSuffix(k, ".sql") && !strings.Contains(k, "down") && !strings.HasPrefix(filepath.Base(k), ".") {
						list = append(list, k)
					}
				}
				files["sqlc.json"] = `{"version":"1","packages":[{"path":"db","engine":"postgresql","schema":` + jsonStr(list) + `,"queries":"query.sql"}]}`
			}
			got := generate(files)
			same := got.OK() == ref.OK() && got.Panic == ref.Panic
			if same && ref.OK() {
				same = got.Files["db/models.go"] == refModels
			}
			if !same && oracle == "" {
				oracle = fmt.Sprintf("arrangement %d (cuts %v, marker %q, mode %d) differs from the single-file run", a, cuts, marker, mode)
				detail = append(detail, J{"files": files, "got_err": got.Err, "got_stderr": got.Stderr, "ref_err": ref.Err, "ref_stderr": ref.Stderr})
			}
		}
		tags := []string{fmt.Sprintf("ops=%d", len(ops))}
		if !ref.OK() {
			tags = append(tags, "erroring-history")
		}
		emit(Case{ID: fmt.Sprintf("arr-%d", i), Kind: "arrange", In: J{"history": historySQL(ops)}, Impl: J{"ok": ref.OK()}, Oracle: oracle, Detail: detail, Tags: tags})
	}
}

// arrangeFiles lays a history out under schema/: consecutive files cut at the given statement
// indices, optionally with a rollback marker + destructive "down" part appended to each file and
// with ignorable decoy files that would wreck the schema if they were read.
func arrangeFiles(ops []Op, cuts []int, marker string, r *Rng, decoys bool) map[string]string {
	files := map[string]string{}
	bounds := append([]int{0}, cuts...)
	bounds = append(bounds, len(ops))
	for i := 0; i+1 < len(bounds); i++ {
		body := historySQL(ops[bounds[i]:bounds[i+1]])
		if marker != "" {
			body += marker + "\nDROP SCHEMA public;\nTHIS IS NOT SQL;\n"
		}
		files[fmt.Sprintf("schema/%03d_step.sql", i+1)] = body
	}
	if decoys {
		wreck := "DROP SCHEMA public;\nCREATE TABLE decoy (id int);\n"
		for _, d := range []string{"schema/000_x.down.sql", "schema/.000_hidden.sql", "schema/000_notes.txt", "schema/999_z.sql.bak", "schema/001_step.down.sql", "schema/zzz.SQL"} {
			if r.Chance(50) {
				files[d] = wreck
			}
		}
	}
	return files
}
