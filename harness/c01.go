package main

// C01 — the emitted Go package always compiles. End-to-end: a generated project (schema, one or two
// query files, emit options, overrides, renames) runs through the real generator in-process; when
// generation succeeds every file must parse, be gofmt-stable, and the package must type-check as a unit
// (go/types with the source importer: stdlib, lib/pq and google/uuid resolve from the module cache).
// "adversarial" features are switched on one or two at a time and tagged, so that a failure can be
// attributed to the feature that causes it.

import (
	"fmt"
	"go/ast"
	"go/parser"
	"go/token"
	"regexp"
	"sort"
	"strings"
)

func init() { props["C01"] = runC01 }

type c01Feature struct {
	name  string
	apply func(r *Rng, p *Project) bool // false: not applicable to this project
}

var goKeywordCols = []string{"type", "func", "range", "map", "chan", "go", "var", "package", "import", "interface", "struct", "defer", "fallthrough"}

func c01Features() []c01Feature {
	q := func(p *Project, n string) string {
		if p.Engine == "mysql" {
			return "`" + n + "`"
		}
		return `"` + n + `"`
	}
	return []c01Feature{
		{"keywordColumnParam", func(r *Rng, p *Project) bool {
			// a column spelled like a Go keyword, used as the single parameter of a query
			kw := r.Pick(goKeywordCols)
			t := &p.Tables[0]
			t.Cols = append(t.Cols, PCol{Name: q(p, kw), Type: "int", NotNull: true})
			p.Queries = append(p.Queries, PQuery{Name: "ByKeyword", Cmd: ":many", SQL: fmt.Sprintf("SELECT id FROM %s WHERE %s = %s", t.Name, q(p, kw), p.ph(1))})
			return true
		}},
		{"keywordColumnField", func(r *Rng, p *Project) bool {
			// … only as a struct field and in a multi-parameter struct (title-cased: fine)
			kw := r.Pick(goKeywordCols)
			t := &p.Tables[0]
			t.Cols = append(t.Cols, PCol{Name: q(p, kw), Type: "int", NotNull: true})
			p.Queries = append(p.Queries, PQuery{Name: "ByKeywordTwo", Cmd: ":many", SQL: fmt.Sprintf("SELECT id, %s FROM %s WHERE %s = %s AND id > %s", q(p, kw), t.Name, q(p, kw), p.ph(1), p.ph(2))})
			return true
		}},
		{"schemaHistory", func(r *Rng, p *Project) bool {
			// the schema reached its state through migrations: enum labels inserted at every position, renamed
			// labels, added / renamed / retyped columns — the package is generated from the final state
			if p.Engine == "mysql" || p.RawSchema != "" {
				return false
			}
			if len(p.Enums) == 0 {
				p.Enums = append(p.Enums, PEnum{Name: "phase", Vals: []string{"alpha", "beta", "gamma"}})
				p.Tables[0].Cols = append(p.Tables[0].Cols, PCol{Name: "phase", Type: "phase", NotNull: r.Bool()})
			}
			for _, e := range p.Enums {
				first, last := e.Vals[0], e.Vals[len(e.Vals)-1]
				// (each statement refers only to labels of the ORIGINAL declaration, so that none depends on
				// how an earlier one was applied)
				p.Suffix = append(p.Suffix, fmt.Sprintf("ALTER TYPE %s ADD VALUE 'archived' BEFORE '%s';", e.Name, last))
				if first != last {
					p.Suffix = append(p.Suffix, fmt.Sprintf("ALTER TYPE %s ADD VALUE 'pending' AFTER '%s';", e.Name, first))
				}
				p.Suffix = append(p.Suffix, fmt.Sprintf("ALTER TYPE %s ADD VALUE IF NOT EXISTS 'archived';", e.Name))
			}
			t := p.Tables[0]
			p.Suffix = append(p.Suffix,
				fmt.Sprintf("ALTER TABLE %s ADD COLUMN hist_a int, ADD COLUMN hist_b text NOT NULL;", t.Name),
				fmt.Sprintf("ALTER TABLE %s RENAME COLUMN hist_a TO hist_c;", t.Name),
				fmt.Sprintf("ALTER TABLE %s ALTER COLUMN hist_c TYPE uuid;", t.Name),
				fmt.Sprintf("ALTER TABLE %s DROP COLUMN hist_b;", t.Name),
				fmt.Sprintf("CREATE TABLE %s_log (id bigint NOT NULL, at timestamptz NOT NULL);", t.Name),
				fmt.Sprintf("ALTER TABLE %s_log RENAME TO %s_journal;", t.Name, t.Name))
			p.Queries = append(p.Queries, PQuery{Name: "HistoryRead", Cmd: ":many", SQL: fmt.Sprintf("SELECT id, hist_c FROM %s WHERE hist_c = $1", t.Name)},
				PQuery{Name: "JournalRead", Cmd: ":many", SQL: fmt.Sprintf("SELECT * FROM %s_journal", t.Name)})
			return true
		}},
		{"oddQuotedNames", func(r *Rng, p *Project) bool {
			// quoted identifiers with characters that are not identifier characters, next to plain names made of the
			// same words: either a diagnostic, or a package that compiles
			if p.Engine == "mysql" || p.RawSchema != "" {
				return false
			}
			switch r.Intn(3) {
			case 0:
				p.Tables = append(p.Tables, PTable{Name: "people", Cols: []PCol{{Name: "id", Type: "bigint", NotNull: true}, {Name: `"first-name"`, Type: "text"}, {Name: "first_name", Type: "text"}}})
				p.Queries = append(p.Queries, PQuery{Name: "OddPeople", Cmd: ":many", SQL: `SELECT id, "first-name", first_name FROM people`})
			case 1:
				p.Tables = append(p.Tables, PTable{Name: `"audit-log"`, Cols: []PCol{{Name: "id", Type: "bigint", NotNull: true}}}, PTable{Name: "audit_log", Cols: []PCol{{Name: "id", Type: "bigint", NotNull: true}, {Name: "note", Type: "text"}}})
				p.Queries = append(p.Queries, PQuery{Name: "OddAudit", Cmd: ":many", SQL: `SELECT id FROM "audit-log"`})
			default:
				p.Tables = append(p.Tables, PTable{Name: "places", Cols: []PCol{{Name: "id", Type: "bigint", NotNull: true}, {Name: "zip_code", Type: "text"}}})
				p.Queries = append(p.Queries, PQuery{Name: "OddPlaces", Cmd: ":many", SQL: `SELECT zip_code, zip_code AS "zip code" FROM places`})
			}
			return true
		}},
		{"mixedCaseIdentifiers", func(r *Rng, p *Project) bool {
			// quoted identifiers keep their capitals (ORM-style schemas): a single parameter made from such a
			// column sits next to the type made from its table
			if p.Engine == "mysql" {
				return false
			}
			for _, t := range p.Tables {
				if t.Name == "colors" {
					return false
				}
			}
			p.Tables = append(p.Tables, PTable{Name: "colors", Cols: []PCol{{Name: "id", Type: "bigint", NotNull: true}, {Name: `"Color"`, Type: "text", NotNull: true},
				{Name: `"Ident"`, Type: "int"}, {Name: `"camelCase"`, Type: "text"}, {Name: `"Colors"`, Type: "int"}}})
			p.Queries = append(p.Queries,
				PQuery{Name: "GetColor", Cmd: ":one", SQL: `SELECT id, "Color", "Ident", "camelCase", "Colors" FROM colors WHERE "Color" = $1`},
				PQuery{Name: "ListByColor", Cmd: ":many", SQL: `SELECT id, "Color", "Ident", "camelCase", "Colors" FROM colors WHERE "Color" = $1`},
				PQuery{Name: "ByCamel", Cmd: ":many", SQL: `SELECT id, "camelCase" FROM colors WHERE "camelCase" = $1`},
				PQuery{Name: "ByCapsID", Cmd: ":one", SQL: `SELECT id, "Color" FROM colors WHERE "Ident" = $1`},
				PQuery{Name: "CountColors", Cmd: ":one", SQL: `SELECT count(*) FROM colors WHERE "Colors" = $1`})
			return true
		}},
		{"casingCollision", func(r *Rng, p *Project) bool {
			t := &p.Tables[0]
			t.Cols = append(t.Cols, PCol{Name: "foo_bar", Type: "int"}, PCol{Name: "foo__bar", Type: "int"})
			return true
		}},
		{"singularCollision", func(r *Rng, p *Project) bool {
			for _, t := range p.Tables {
				if t.Name == "authors" {
					p.Tables = append(p.Tables, PTable{Name: "author", Cols: []PCol{{Name: "id", Type: "bigint", NotNull: true}, {Name: "nick", Type: "text"}}})
					return true
				}
			}
			return false
		}},
		{"paramEqColumn", func(r *Rng, p *Project) bool {
			t := p.Tables[0]
			c := t.Cols[r.Intn(len(t.Cols))]
			p.Queries = append(p.Queries, PQuery{Name: "SameName", Cmd: ":one", SQL: fmt.Sprintf("SELECT %s FROM %s WHERE %s = %s", c.Name, t.Name, c.Name, p.ph(1))})
			return true
		}},
		{"paramEqColumnMany", func(r *Rng, p *Project) bool {
			t := p.Tables[0]
			c := t.Cols[r.Intn(len(t.Cols))]
			p.Queries = append(p.Queries, PQuery{Name: "SameNameMany", Cmd: ":many", SQL: fmt.Sprintf("SELECT %s FROM %s WHERE %s = %s", c.Name, t.Name, c.Name, p.ph(1))})
			return true
		}},
		{"queryNamedLikeHelper", func(r *Rng, p *Project) bool {
			n := r.Pick([]string{"WithTx", "Q", "Queries", "New", "DBTX", "Close", "Prepare"})
			t := p.Tables[0]
			p.Queries = append(p.Queries, PQuery{Name: n, Cmd: ":many", SQL: fmt.Sprintf("SELECT id FROM %s", t.Name), Tags: []string{"helper-name:" + n}})
			return true
		}},
		{"queryNamedLikeStruct", func(r *Rng, p *Project) bool {
			// a query whose generated Params/Row struct name equals another query's name is impossible; but a
			// query named like a model struct is not
			t := p.Tables[0]
			n := strings.Title(strings.TrimSuffix(strings.ReplaceAll(t.Name, "_", ""), "s"))
			p.Queries = append(p.Queries, PQuery{Name: n, Cmd: ":many", SQL: fmt.Sprintf("SELECT id FROM %s", t.Name)})
			return true
		}},
		{"enumLabelCollision", func(r *Rng, p *Project) bool {
			if p.Engine != "postgresql" {
				return false
			}
			p.Enums = append(p.Enums, PEnum{Name: "mood", Vals: []string{"a-b", "a_b", "ok"}})
			p.Tables[0].Cols = append(p.Tables[0].Cols, PCol{Name: "mood", Type: "mood"})
			return true
		}},
		{"enumLabelDigit", func(r *Rng, p *Project) bool {
			if p.Engine != "postgresql" {
				return false
			}
			p.Enums = append(p.Enums, PEnum{Name: "grade", Vals: []string{"1st", "2nd"}})
			p.Tables[0].Cols = append(p.Tables[0].Cols, PCol{Name: "grade", Type: "grade", NotNull: true})
			return true
		}},
		{"enumLabelEmpty", func(r *Rng, p *Project) bool {
			if p.Engine != "postgresql" {
				return false
			}
			p.Enums = append(p.Enums, PEnum{Name: "flag", Vals: []string{"", "on"}})
			p.Tables[0].Cols = append(p.Tables[0].Cols, PCol{Name: "flag", Type: "flag"})
			return true
		}},
		{"typeOnlyInParams", func(r *Rng, p *Project) bool {
			// a package-qualified type that occurs only in one query file's parameter struct
			if p.Engine != "postgresql" {
				return false
			}
			t := &p.Tables[0]
			ty := r.Pick([]string{"uuid", "timestamptz", "jsonb", "inet", "date", "bigint[]", "timestamptz[]", "uuid[]", "inet[]"})
			t.Cols = append(t.Cols, PCol{Name: "special", Type: ty, NotNull: r.Bool()})
			p.Second = append(p.Second, PQuery{Name: "TouchSpecial", Cmd: ":exec", SQL: fmt.Sprintf("UPDATE %s SET special = $1 WHERE id = $2", t.Name)})
			return true
		}},
		{"typeOnlyInResult", func(r *Rng, p *Project) bool {
			if p.Engine != "postgresql" {
				return false
			}
			t := &p.Tables[0]
			ty := r.Pick([]string{"uuid", "timestamptz", "jsonb", "inet", "text[]", "macaddr", "timestamptz[]", "uuid[]", "jsonb[]"})
			t.Cols = append(t.Cols, PCol{Name: "special", Type: ty, NotNull: r.Bool()})
			p.Second = append(p.Second, PQuery{Name: "ReadSpecial", Cmd: r.Pick([]string{":one", ":many"}), SQL: fmt.Sprintf("SELECT special FROM %s WHERE id = $1", t.Name)})
			return true
		}},
		{"duplicateNameAcrossFiles", func(r *Rng, p *Project) bool {
			// the same query name in two query files of one package: must be diagnosed
			if len(p.Queries) == 0 {
				return false
			}
			q := p.Queries[r.Intn(len(p.Queries))]
			p.Second = append(p.Second, PQuery{Name: q.Name, Cmd: ":many", SQL: fmt.Sprintf("SELECT id FROM %s", p.Tables[0].Name)})
			return true
		}},
		{"duplicateNameSameFile", func(r *Rng, p *Project) bool {
			if len(p.Queries) == 0 {
				return false
			}
			q := p.Queries[r.Intn(len(p.Queries))]
			p.Queries = append(p.Queries, PQuery{Name: q.Name, Cmd: ":many", SQL: fmt.Sprintf("SELECT id FROM %s", p.Tables[0].Name)})
			return true
		}},
		{"renameCollision", func(r *Rng, p *Project) bool {
			t := p.Tables[0]
			if len(t.Cols) < 3 {
				return false
			}
			p.Rename[t.Cols[1].Name] = strings.Title(t.Cols[2].Name)
			return true
		}},
		{"renameToKeyword", func(r *Rng, p *Project) bool {
			t := p.Tables[0]
			p.Rename[t.Cols[len(t.Cols)-1].Name] = "type"
			return true
		}},
		{"overrideStd", func(r *Rng, p *Project) bool {
			if p.Engine != "postgresql" {
				return false
			}
			p.Overrides = append(p.Overrides, r.Pick([]string{
				`{"db_type":"text","go_type":"github.com/google/uuid.UUID"}`,
				`{"db_type":"pg_catalog.int8","go_type":"time.Duration"}`,
				`{"db_type":"timestamptz","go_type":"github.com/lib/pq.NullTime","nullable":true}`,
				`{"db_type":"text","go_type":"encoding/json.RawMessage"}`,
				`{"db_type":"text","go_type":"string","nullable":true}`,
			}))
			return true
		}},
		{"duplicateQueryColumns", func(r *Rng, p *Project) bool {
			t := p.Tables[0]
			c := t.Cols[len(t.Cols)-1]
			p.Queries = append(p.Queries, PQuery{Name: "Dups", Cmd: ":many", SQL: fmt.Sprintf("SELECT %s, %s, %s AS %s_2, id FROM %s", c.Name, c.Name, c.Name, strings.Trim(c.Name, "\"`"), t.Name)})
			return true
		}},
		{"manyParamsSameColumn", func(r *Rng, p *Project) bool {
			t := p.Tables[0]
			c := t.Cols[len(t.Cols)-1]
			p.Queries = append(p.Queries, PQuery{Name: "Between", Cmd: ":many", SQL: fmt.Sprintf("SELECT id FROM %s WHERE %s > %s AND %s < %s", t.Name, c.Name, p.ph(1), c.Name, p.ph(2))})
			return true
		}},
		{"columnNamedLikeLocal", func(r *Rng, p *Project) bool {
			// result / parameter names that coincide with the method's local identifiers
			n := r.Pick([]string{"ctx", "q", "row", "rows", "items", "err", "i", "arg", "db", "result"})
			t := &p.Tables[0]
			t.Cols = append(t.Cols, PCol{Name: n, Type: "int", NotNull: true})
			cmd := r.Pick([]string{":one", ":many", ":exec"})
			if cmd == ":exec" {
				p.Queries = append(p.Queries, PQuery{Name: "LocalClash", Cmd: cmd, SQL: fmt.Sprintf("UPDATE %s SET id = id WHERE %s = %s", t.Name, n, p.ph(1)), Tags: []string{"local:" + n}})
			} else {
				p.Queries = append(p.Queries, PQuery{Name: "LocalClash", Cmd: cmd, SQL: fmt.Sprintf("SELECT id FROM %s WHERE %s = %s", t.Name, n, p.ph(1)), Tags: []string{"local:" + n}})
			}
			return true
		}},
		{"sliceSingle", func(r *Rng, p *Project) bool {
			if p.Engine != "postgresql" {
				return false
			}
			t := &p.Tables[0]
			t.Cols = append(t.Cols, PCol{Name: "labels", Type: "text[]", NotNull: true, Array: true})
			p.Queries = append(p.Queries, PQuery{Name: "OneArray", Cmd: r.Pick([]string{":one", ":many"}), SQL: fmt.Sprintf("SELECT labels FROM %s WHERE labels = $1", t.Name)})
			return true
		}},
	}
}

var reUndeclared = regexp.MustCompile(`undefined|undeclared|not declared`)

// c01Oracle: "" when the emitted package is what the property demands
func c01Oracle(p Project, res GenResult) (string, J) {
	obs := J{"ok": res.OK()}
	if !res.OK() {
		obs["err"] = firstLine(res.Stderr + res.Err)
		return "", obs // a diagnostic instead of code is allowed (panics are C18's business)
	}
	var names []string
	for n := range res.Files {
		if strings.HasSuffix(n, ".go") {
			names = append(names, n)
		}
	}
	sort.Strings(names)
	obs["files"] = names
	fset := token.NewFileSet()
	for _, n := range names {
		f, err := parser.ParseFile(fset, n, res.Files[n], parser.ParseComments)
		if err != nil {
			return fmt.Sprintf("%s does not parse: %v", baseOf(n), err), obs
		}
		if !gofmtStable(res.Files[n]) {
			return fmt.Sprintf("%s is not gofmt-stable", baseOf(n)), obs
		}
		// unused imports are a compile error the type checker reports too; keep the list for evidence
		var imps []string
		for _, im := range f.Imports {
			imps = append(imps, im.Path.Value)
		}
		obs["imports:"+baseOf(n)] = imps
	}
	// what the Lean model of modelImports predicts from: the field types of the model structs
	sum := summarize(res.Files)
	fts := []string{}
	for _, st := range sum.Structs {
		if st.File == "models.go" {
			for _, f := range st.Fields {
				fts = append(fts, f.Type)
			}
		}
	}
	obs["modelFieldTypes"] = fts
	obs["hasEnums"] = len(p.Enums) > 0
	obs["hasOverrides"] = len(p.Overrides) > 0
	mi := []string{}
	if v, ok := obs["imports:models.go"].([]string); ok {
		for _, x := range v {
			mi = append(mi, strings.Trim(x, "\""))
		}
	}
	sort.Strings(mi)
	obs["modelImports"] = mi
	if msg := typeCheck(res.Files); msg != "" {
		obs["typecheck"] = msg
		return "package does not type-check: " + msg, obs
	}
	if p.Opts["emit_interface"] {
		found := false
		for _, n := range names {
			f, _ := parser.ParseFile(fset, n, res.Files[n], 0)
			for _, d := range f.Decls {
				if gd, ok := d.(*ast.GenDecl); ok && gd.Tok == token.VAR {
					for _, sp := range gd.Specs {
						if vs, ok := sp.(*ast.ValueSpec); ok && len(vs.Names) == 1 && vs.Names[0].Name == "_" && exprStr(vs.Type) == "Querier" {
							found = true
						}
					}
				}
			}
		}
		if !found {
			return "emit_interface is on but `var _ Querier = (*Queries)(nil)` is missing", obs
		}
	}
	return "", obs
}

func runC01(r *Rng, n int, tier string) {
	feats := c01Features()
	for i := 0; i < n; i++ {
		engine := "postgresql"
		if r.Chance(25) {
			engine = "mysql"
		}
		p := genProject(r, engine)
		var tags, known []string
		// none, one or two adversarial features
		k := 0
		switch {
		case i%3 == 1:
			k = 1
		case i%3 == 2:
			k = 1 + r.Intn(2)
		}
		// the two features that describe ordinary, valid projects are applied on a fixed schedule of their own
		benign := map[string]bool{"schemaHistory": true, "mixedCaseIdentifiers": true, "oddQuotedNames": true}
		for _, f := range feats {
			if (f.name == "schemaHistory" && i%4 == 0) || (f.name == "mixedCaseIdentifiers" && i%4 == 2) || (f.name == "oddQuotedNames" && i%8 == 1) {
				if f.apply(r, &p) {
					tags = append(tags, "feat:"+f.name)
				}
			}
		}
		perm := r.Perm(len(feats))
		for _, fi := range perm {
			if k == 0 {
				break
			}
			if benign[feats[fi].name] {
				continue
			}
			if feats[fi].apply(r, &p) {
				tags = append(tags, "feat:"+feats[fi].name)
				known = append(known, feats[fi].name)
				k--
			}
		}
		known = c01Known(known, p)
		for o, v := range p.Opts {
			if v {
				tags = append(tags, o)
			}
		}
		sort.Strings(tags)
		files := p.Files()
		res := generate(files)
		oracle, obs := c01Oracle(p, res)
		if res.Panic != "" {
			obs["panic"] = firstLine(res.Panic)
		}
		in := J{"engine": engine, "files": files}
		emit(Case{ID: fmt.Sprintf("p-%d", i), Kind: "e2e", In: in, Impl: obs, Oracle: oracle, Tags: tags, Known: known})
	}
}

// c01Known: the recorded finding classes a project's adversarial features fall into
func c01Known(feats []string, p Project) []string {
	var out []string
	add := func(k string) {
		for _, o := range out {
			if o == k {
				return
			}
		}
		out = append(out, k)
	}
	for _, f := range feats {
		switch f {
		case "casingCollision", "enumLabelCollision", "enumLabelEmpty", "singularCollision", "renameCollision", "paramEqColumn":
			add(f)
		case "sliceSingle":
			add("paramEqColumn")
		case "columnNamedLikeLocal":
			add("columnNamedLikeLocal")
		}
	}
	for _, q := range p.Queries {
		for _, t := range q.Tags {
			switch t {
			case "helper-name:WithTx", "helper-name:Close":
				add("helperMethodName")
			case "helper-name:Q":
				add("constReceiverClash")
			}
		}
	}
	return out
}
