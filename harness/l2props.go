package main

func init() {
	for _, p := range []string{"C02", "C05", "C06", "C07", "C10"} {
		p := p
		props[p] = func(r *Rng, n int, tier string) { runAnalysisProp(p, r, n, tier) }
	}
}
