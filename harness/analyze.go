package main

// One "analysis case" = (engine, schema text, ONE annotated query statement): the real compiler's
// Query record (params, columns, embedded SQL) or error, next to everything the Lean model of
// internal/compiler needs as input: the catalog as the compiler holds it, the statement's AST after
// rewrite.NamedParameters (serialised with Walk order), the names map and the named-parameter edits.

import (
	"runtime/debug"
	"errors"
	"fmt"
	"io/ioutil"
	"os"
	"path/filepath"
	"regexp"
	"sort"
	"strings"

	"github.com/kyleconroy/sqlc/internal/compiler"
	"github.com/kyleconroy/sqlc/internal/config"
	"github.com/kyleconroy/sqlc/internal/engine/dolphin"
	"github.com/kyleconroy/sqlc/internal/engine/postgresql"
	"github.com/kyleconroy/sqlc/internal/metadata"
	"github.com/kyleconroy/sqlc/internal/multierr"
	"github.com/kyleconroy/sqlc/internal/opts"
	"github.com/kyleconroy/sqlc/internal/source"
	"github.com/kyleconroy/sqlc/internal/sql/ast"
	"github.com/kyleconroy/sqlc/internal/sql/astutils"
	"github.com/kyleconroy/sqlc/internal/sql/catalog"
	"github.com/kyleconroy/sqlc/internal/sql/rewrite"
	"github.com/kyleconroy/sqlc/internal/sql/sqlerr"
	"github.com/kyleconroy/sqlc/internal/sql/validate"
)

func parseWith(engine, src string) ([]ast.Statement, error) {
	if engine == "mysql" {
		return dolphin.NewParser().Parse(strings.NewReader(src))
	}
	return postgresql.NewParser().Parse(strings.NewReader(src))
}

func qcolJSON(c *compiler.Column) interface{} {
	if c == nil {
		return nil
	}
	j := J{"name": c.Name, "dataType": c.DataType, "notNull": c.NotNull, "isArray": c.IsArray, "length": -1}
	if c.Length != nil {
		j["length"] = *c.Length
	}
	if c.Table != nil {
		j["table"] = J{"catalog": c.Table.Catalog, "schema": c.Table.Schema, "name": c.Table.Name}
	} else {
		j["table"] = nil
	}
	return j
}

var reNotExist = regexp.MustCompile(`^column "([^"]*)" does not exist`)
var reAmbig = regexp.MustCompile(`^column reference "([^"]*)" is ambiguous`)
var reRel = regexp.MustCompile(`^relation "([^"]*)"`)
var reSchema = regexp.MustCompile(`^schema "([^"]*)"`)

func analysisErrKind(err error) string {
	var e *sqlerr.Error
	if errors.As(err, &e) {
		switch {
		case reNotExist.MatchString(e.Message):
			return "42703:notexist:" + reNotExist.FindStringSubmatch(e.Message)[1]
		case reAmbig.MatchString(e.Message):
			return "42703:ambiguous:" + reAmbig.FindStringSubmatch(e.Message)[1]
		case e.Code == "42P01" && reRel.MatchString(e.Message):
			return "42P01:" + reRel.FindStringSubmatch(e.Message)[1]
		case e.Code == "3F000" && reSchema.MatchString(e.Message):
			return "3F000:" + reSchema.FindStringSubmatch(e.Message)[1]
		}
		return "other"
	}
	return "other"
}

func catalogForModel(c *catalog.Catalog, root ast.Node) J {
	var schemas []J
	for _, s := range c.Schemas {
		var tables []J
		for _, t := range s.Tables {
			var cols []J
			for _, col := range t.Columns {
				cj := J{"name": col.Name, "tschema": col.Type.Schema, "tname": col.Type.Name, "notNull": col.IsNotNull, "isArray": col.IsArray, "length": -1}
				if col.Length != nil {
					cj["length"] = *col.Length
				}
				cols = append(cols, cj)
			}
			if cols == nil {
				cols = []J{}
			}
			tables = append(tables, J{"name": t.Rel.Name, "cols": cols})
		}
		if len(tables) == 0 && s.Name == "pg_catalog" {
			continue
		}
		if tables == nil {
			tables = []J{}
		}
		schemas = append(schemas, J{"name": s.Name, "tables": tables})
	}
	// functions the statement calls: c.ListFuncsByName for each distinct (schema, name)
	var funcs []J
	seen := map[string]bool{}
	for _, n := range astutils.Search(root, func(n ast.Node) bool { _, ok := n.(*ast.FuncCall); return ok }).Items {
		call := n.(*ast.FuncCall)
		if call.Func == nil {
			continue
		}
		key := call.Func.Schema + "." + strings.ToLower(call.Func.Name)
		if seen[key] {
			continue
		}
		seen[key] = true
		fs, err := c.ListFuncsByName(call.Func)
		entry := J{"schema": call.Func.Schema, "name": call.Func.Name, "err": err != nil}
		var fl []J
		for _, f := range fs {
			var args []J
			for _, a := range f.Args {
				aj := J{"name": a.Name, "hasDefault": a.HasDefault, "mode": int(a.Mode), "tschema": "", "tname": ""}
				if a.Type != nil {
					aj["tschema"], aj["tname"] = a.Type.Schema, a.Type.Name
				}
				args = append(args, aj)
			}
			if args == nil {
				args = []J{}
			}
			fj := J{"name": f.Name, "args": args, "argsNil": f.Args == nil, "retSchema": "", "retName": ""}
			if f.ReturnType != nil {
				fj["retSchema"], fj["retName"] = f.ReturnType.Schema, f.ReturnType.Name
			}
			fl = append(fl, fj)
		}
		if fl == nil {
			fl = []J{}
		}
		entry["funcs"] = fl
		funcs = append(funcs, entry)
	}
	if funcs == nil {
		funcs = []J{}
	}
	return J{"defaultSchema": c.DefaultSchema, "schemas": schemas, "funcs": funcs}
}

type analysisResult struct {
	In     J
	Impl   J
	Query  *compiler.Query
	Parsed bool
}

// analyzeStatement runs the real compiler on (schema, one query statement)
func analyzeStatement(engine, schema, query string, positional bool) (res analysisResult) {
	res.In = J{"engine": engine, "schema": schema, "query": query, "positional": positional}
	res.Impl = J{}
	dir, _ := ioutil.TempDir(scratchRoot(), "vhan")
	defer os.RemoveAll(dir)
	ioutil.WriteFile(filepath.Join(dir, "schema.sql"), []byte(schema), 0644)
	ioutil.WriteFile(filepath.Join(dir, "query.sql"), []byte(query), 0644)
	conf := config.SQL{Engine: config.Engine(engine), Schema: []string{filepath.Join(dir, "schema.sql")}, Queries: []string{filepath.Join(dir, "query.sql")}}
	defer func() {
		if p := recover(); p != nil {
			res.Impl = J{"err": "panic", "panic": fmt.Sprint(p), "site": panicSite(debug.Stack())}
		}
	}()
	c := compiler.NewCompiler(conf, config.CombinedSettings{Package: conf})
	if err := c.ParseCatalog(conf.Schema); err != nil {
		res.Impl = J{"err": "schema"}
		return
	}
	// the model's input: parse the query file ourselves, rewrite named parameters on that copy
	stmts, perr := parseWith(engine, query)
	if perr != nil || len(stmts) != 1 {
		res.Impl = J{"err": "parse"}
		if perr == nil {
			res.Impl["err"] = fmt.Sprintf("parse:%d statements", len(stmts))
		}
		return
	}
	res.Parsed = true
	raw := stmts[0].Raw
	rawSQL, pluckErr := source.Pluck(query, raw.StmtLocation, raw.StmtLen)
	// the validators parseQuery runs before and between the modelled steps, as data for the model:
	// "early" = ParamStyle / ParamRef, "late" = Pluck / empty text / FuncCall / metadata.Parse / Cmd
	pre := J{"early": false, "late": false}
	func() {
		defer func() { recover() }()
		styleErr, refErr := validate.ParamStyle(raw), validate.ParamRef(raw)
		if styleErr != nil || refErr != nil {
			pre["early"] = true
		}
		// the two verdicts separately: validate.ParamRef is modelled (Query.paramRefCheck), ParamStyle enters as data
		pre["paramStyle"] = styleErr != nil
		pre["paramRef"] = 0
		if refErr != nil {
			var k int
			if _, err := fmt.Sscanf(refErr.Error(), "could not determine data type of parameter $%d", &k); err == nil {
				pre["paramRef"] = k
			} else {
				pre["paramRef"] = -1
			}
		}
	}()
	func() {
		defer func() { recover() }()
		if rawSQL == "" || pluckErr != nil {
			pre["late"] = true
			return
		}
		if err := validate.FuncCall(c.Catalog(), raw); err != nil {
			pre["late"] = true
			return
		}
		cs := postgresql.NewParser().CommentSyntax()
		if engine == "mysql" {
			cs = dolphin.NewParser().CommentSyntax()
		}
		name, cmd, err := metadata.Parse(strings.TrimSpace(rawSQL), cs)
		if err != nil {
			pre["late"] = true
			return
		}
		if err := validate.Cmd(raw.Stmt, name, cmd); err != nil {
			pre["late"] = true
		}
	}()
	res.In["preflight"] = pre
	raw2, names, edits := rewrite.NamedParameters(config.Engine(engine), raw)
	astJ, walkPanics := serializeAST(raw2)
	var nm [][2]interface{}
	var nums []int
	for k := range names {
		nums = append(nums, k)
	}
	sort.Ints(nums)
	for _, k := range nums {
		nm = append(nm, [2]interface{}{k, names[k]})
	}
	if nm == nil {
		nm = [][2]interface{}{}
	}
	var ej []J
	for _, e := range edits {
		ej = append(ej, J{"loc": e.Location, "old": hx(e.Old), "new": hx(e.New)})
	}
	if ej == nil {
		ej = []J{}
	}
	res.In["catalog"] = catalogForModel(c.Catalog(), raw2)
	res.In["env"] = typeEnvOf(engine, c.Catalog())
	res.In["ast"] = astJ
	res.In["names"] = nm
	res.In["namedEdits"] = ej
	res.In["rawSQL"] = hx(rawSQL)
	if len(walkPanics) > 0 {
		res.In["walkPanics"] = walkPanics
	}
	// the implementation's observation
	err := c.ParseQueries(conf.Queries, opts.Parser{UsePositionalParameters: positional})
	if err != nil {
		kind := "other"
		if me, ok := err.(*multierr.Error); ok && len(me.Errs()) > 0 {
			kind = analysisErrKind(me.Errs()[0].Err)
			res.Impl["msg"] = me.Errs()[0].Err.Error()
		} else {
			res.Impl["msg"] = err.Error()
		}
		res.Impl["err"] = kind
		return
	}
	qs := c.Result().Queries
	if len(qs) != 1 {
		res.Impl = J{"err": fmt.Sprintf("queries:%d", len(qs))}
		return
	}
	q := qs[0]
	res.Query = q
	var ps, cs []interface{}
	for _, p := range q.Params {
		ps = append(ps, J{"number": p.Number, "column": qcolJSON(p.Column)})
	}
	for _, col := range q.Columns {
		cs = append(cs, qcolJSON(col))
	}
	if ps == nil {
		ps = []interface{}{}
	}
	if cs == nil {
		cs = []interface{}{}
	}
	res.Impl = J{"err": "", "params": ps, "columns": cs, "sql": hx(q.SQL), "name": q.Name, "cmd": q.Cmd}
	// the embedded SQL re-parsed by the engine's real parser (C02 / C07 judge THAT statement)
	if est, err := parseWith(engine, strings.TrimSpace(q.SQL)+";"); err == nil && len(est) == 1 {
		ej, _ := serializeAST(est[0].Raw)
		res.Impl["embAst"] = ej
	} else {
		res.Impl["embAst"] = nil
		if err != nil {
			res.Impl["embErr"] = err.Error()
		}
	}
	return
}

// typeEnvOf: what goType reads from the catalog (C09's TypeEnv), for the Go-level clauses of C05 / C06
func typeEnvOf(engine string, c *catalog.Catalog) J {
	var schemas []J
	for _, s := range c.Schemas {
		types := []J{}
		for _, t := range s.Types {
			switch ty := t.(type) {
			case *catalog.Enum:
				types = append(types, J{"kind": "enum", "name": ty.Name})
			case *catalog.CompositeType:
				types = append(types, J{"kind": "composite", "name": ty.Name})
			}
		}
		schemas = append(schemas, J{"name": s.Name, "types": types})
	}
	return J{"engine": engine, "default": c.DefaultSchema, "schemas": schemas, "overrides": []J{}, "rename": [][2]string{}}
}
