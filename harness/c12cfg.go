package main

import (
	"fmt"
	"strings"

	"github.com/kyleconroy/sqlc/internal/config"
)

// ---- C12: config.ParseConfig on structured version-2 configurations, next to the Lean model of v2ParseConfig

type cfgGo struct {
	Out         string `json:"out"`
	Package     string `json:"package"`
	OverridesOk bool   `json:"overridesOk"`
}
type cfgKt struct {
	Out     string `json:"out"`
	Package string `json:"package"`
}
type cfgPy struct {
	OverridesOk bool `json:"overridesOk"`
}
type cfgEntry struct {
	Engine string `json:"engine"`
	Go     *cfgGo `json:"go"`
	Kotlin *cfgKt `json:"kotlin"`
	Python *cfgPy `json:"python"`
}
type cfgConf struct {
	Version           string     `json:"version"`
	HasGlobalGo       bool       `json:"hasGlobalGo"`
	GlobalUntagged    bool       `json:"globalUntagged"`
	GlobalOverridesOk bool       `json:"globalOverridesOk"`
	Entries           []cfgEntry `json:"entries"`
	globals           []string
}

func ovType(key string) string {
	if key == "python_type" {
		return `"python_type":{"module":"x","name":"Y"}`
	}
	return `"go_type":"example.com/x.Y"`
}

func okOverride(key string) string { return `{"column":"t.id",` + ovType(key) + `}` }

func badOverrides(key string) []string {
	return []string{
		`{"column":"t.id","db_type":"int4",` + ovType(key) + `}`,
		`{` + ovType(key) + `}`,
		`{"column":"a.b.c.d.e",` + ovType(key) + `}`,
	}
}

func overridesJSON(r *Rng, ok bool, key string) string {
	var xs []string
	for i := 0; i < r.Intn(3); i++ {
		xs = append(xs, okOverride(key))
	}
	if !ok {
		at := r.Intn(len(xs) + 1)
		xs = append(xs[:at], append([]string{r.Pick(badOverrides(key))}, xs[at:]...)...)
	}
	if len(xs) == 0 && r.Bool() {
		return ""
	}
	return `,"overrides":[` + strings.Join(xs, ",") + `]`
}

func (c cfgConf) render(r *Rng) string {
	var es []string
	for _, e := range c.Entries {
		var gens []string
		if e.Go != nil {
			f := []string{}
			if e.Go.Package != "" {
				f = append(f, fmt.Sprintf(`"package":%q`, e.Go.Package))
			}
			if e.Go.Out != "" {
				f = append(f, fmt.Sprintf(`"out":%q`, e.Go.Out))
			}
			gens = append(gens, `"go":{`+strings.Join(f, ",")+strings.TrimPrefix(overridesJSON(r, e.Go.OverridesOk, "go_type"), map[bool]string{true: ",", false: ""}[len(f) == 0])+`}`)
		}
		if e.Kotlin != nil {
			f := []string{}
			if e.Kotlin.Package != "" {
				f = append(f, fmt.Sprintf(`"package":%q`, e.Kotlin.Package))
			}
			if e.Kotlin.Out != "" {
				f = append(f, fmt.Sprintf(`"out":%q`, e.Kotlin.Out))
			}
			gens = append(gens, `"kotlin":{`+strings.Join(f, ",")+`}`)
		}
		if e.Python != nil {
			gens = append(gens, `"python":{"package":"p","out":"py"`+overridesJSON(r, e.Python.OverridesOk, "python_type")+`}`)
		}
		eng := ""
		if e.Engine != "" {
			eng = fmt.Sprintf(`"engine":%q,`, e.Engine)
		}
		es = append(es, fmt.Sprintf(`{%s"schema":"s.sql","queries":"q.sql","gen":{%s}}`, eng, strings.Join(gens, ",")))
	}
	top := ""
	if c.Version != "" {
		top = fmt.Sprintf(`"version":%q,`, c.Version)
	}
	glob := ""
	if c.HasGlobalGo {
		glob = `,"overrides":{"go":{"overrides":[` + strings.Join(c.globals, ",") + `]}}`
	}
	return `{` + top + `"sql":[` + strings.Join(es, ",") + `]` + glob + `}`
}

func cfgErrClass(err error) string {
	switch {
	case err == nil:
		return "ok"
	case err == config.ErrMissingVersion:
		return "missingVersion"
	case err == config.ErrUnknownVersion:
		return "unknownVersion"
	case err == config.ErrNoPackages:
		return "noPackages"
	case err == config.ErrMissingEngine:
		return "missingEngine"
	case err == config.ErrUnknownEngine:
		return "unknownEngine"
	case err == config.ErrNoPackagePath:
		return "noPackagePath"
	case err == config.ErrKotlinNoOutPath:
		return "kotlinNoOutPath"
	case err == config.ErrNoPackageName:
		return "noPackageName"
	case strings.Contains(err.Error(), `"engine" field is required`):
		return "globalOverride"
	case strings.Contains(err.Error(), "verride"):
		return "badOverride"
	}
	return "other:" + firstLine(err.Error())
}

func genCfgEntry(r *Rng, faulty bool) cfgEntry {
	e := cfgEntry{Engine: r.Pick([]string{"postgresql", "postgresql", "mysql", "_lemon"})}
	mask := 1 + r.Intn(7)
	if r.Chance(5) {
		mask = 0
	}
	if mask&1 != 0 {
		e.Go = &cfgGo{Out: "db", Package: r.Pick([]string{"db", "", "store"}), OverridesOk: true}
	}
	if mask&2 != 0 {
		e.Kotlin = &cfgKt{Out: "kt", Package: "com.example"}
	}
	if mask&4 != 0 {
		e.Python = &cfgPy{OverridesOk: true}
	}
	if !faulty {
		return e
	}
	// one fault, in any target that is present (or in the entry's engine)
	var faults []func()
	faults = append(faults, func() { e.Engine = "" }, func() { e.Engine = r.Pick([]string{"oracle", "PostgreSQL", "sqlite"}) })
	if e.Go != nil {
		faults = append(faults, func() { e.Go.Out = "" }, func() { e.Go.OverridesOk = false })
	}
	if e.Kotlin != nil {
		faults = append(faults, func() { e.Kotlin.Out = "" }, func() { e.Kotlin.Package = "" }, func() { e.Kotlin.Out, e.Kotlin.Package = "", "" })
	}
	if e.Python != nil {
		faults = append(faults, func() { e.Python.OverridesOk = false })
	}
	// weight target faults over engine faults
	k := r.Intn(len(faults))
	if len(faults) > 2 && r.Chance(70) {
		k = 2 + r.Intn(len(faults)-2)
	}
	faults[k]()
	return e
}

func runCfgVal(r *Rng, n int) {
	for i := 0; i < n; i++ {
		c := cfgConf{Version: "2", GlobalOverridesOk: true}
		switch r.Intn(20) {
		case 0:
			c.Version = ""
		case 1:
			c.Version = r.Pick([]string{"1", "3", "two"})
		}
		ne := 1 + r.Intn(3)
		if r.Chance(4) {
			ne = 0
		}
		nf := 0
		if r.Chance(60) {
			nf = 1 + r.Intn(2)
		}
		faultAt := map[int]bool{}
		for _, k := range r.Perm(ne)[:minInt(nf, ne)] {
			faultAt[k] = true
		}
		for k := 0; k < ne; k++ {
			c.Entries = append(c.Entries, genCfgEntry(r, faultAt[k]))
		}
		if r.Chance(35) {
			c.HasGlobalGo = true
			for g := 0; g < r.Intn(3); g++ {
				o := `{"db_type":"uuid","go_type":"example.com/x.U"`
				if r.Chance(60) {
					o += `,"engine":"postgresql"`
				} else {
					c.GlobalUntagged = true
				}
				c.globals = append(c.globals, o+"}")
			}
			if r.Chance(20) {
				c.GlobalOverridesOk = false
				bad := r.Pick(badOverrides("go_type"))
				// keep the engine tag so that only the parse error is at stake
				bad = strings.Replace(bad, `"go_type"`, `"engine":"postgresql","go_type"`, 1)
				c.globals = append(c.globals, bad)
			}
		}
		body := c.render(r)
		// version "1" bodies are not version-1 configurations: the dispatcher would hand them to v1ParseConfig
		if c.Version == "1" {
			c.Version = "3"
			body = strings.Replace(body, `"version":"1"`, `"version":"3"`, 1)
		}
		_, err := config.ParseConfig(strings.NewReader(body))
		var tags []string
		for _, e := range c.Entries {
			t := 0
			if e.Go != nil {
				t++
			}
			if e.Kotlin != nil {
				t++
			}
			if e.Python != nil {
				t++
			}
			tags = append(tags, fmt.Sprintf("targets=%d", t))
		}
		tags = append(tags, fmt.Sprintf("entries=%d", len(c.Entries)), "verdict:"+cfgErrClass(err))
		emit(Case{ID: fmt.Sprintf("cfgval-%d", i), Kind: "cfgval", In: J{"version": c.Version, "hasGlobalGo": c.HasGlobalGo, "globalUntagged": c.GlobalUntagged,
			"globalOverridesOk": c.GlobalOverridesOk, "entries": c.Entries, "config": body}, Impl: J{"verdict": cfgErrClass(err)}, Tags: tags})
	}
}
