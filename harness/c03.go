package main

import (
	"encoding/hex"
	"fmt"
	"regexp"
	"strconv"
	"strings"
)

func init() {
	props["C03"] = func(r *Rng, n int, tier string) { runAnalysisProp("C03", r, n, tier) }
}

// goObservation: what the emitted Go method of the (single) query looks like
func goObservation(engine, schema, query, name string, prepared bool) J {
	extra := fmt.Sprintf(`"emit_prepared_queries":%v`, prepared)
	res := generate(map[string]string{"schema.sql": schema, "query.sql": query, "sqlc.json": confV1(engine, extra)})
	o := J{"ok": res.OK(), "prepared": prepared}
	if !res.OK() {
		o["err"] = firstLine(strings.TrimPrefix(res.Stderr, "# package db\n") + res.Panic)
		o["panic"] = res.Panic != ""
		return o
	}
	sum := summarize(res.Files)
	m := sum.method(name)
	if m == nil {
		o["nomethod"] = true
		return o
	}
	o["callargs"] = strs(m.CallArgs)
	o["scan"] = strs(m.Scan)
	var ps []J
	for _, p := range m.Params {
		ps = append(ps, J{"name": p.Name, "type": p.Type})
	}
	if ps == nil {
		ps = []J{}
	}
	o["params"] = ps
	o["results"] = strs(m.Results)
	cn := strings.ToLower(name[:1]) + name[1:]
	c := sum.Consts[cn]
	if nl := strings.Index(c, "\n"); nl >= 0 {
		c = c[nl+1:]
	}
	o["sql"] = hx(c)
	structOf := func(n string) []J {
		out := []J{}
		if st := sum.structNamed(n); st != nil {
			for _, f := range st.Fields {
				out = append(out, J{"name": f.Name, "type": f.Type})
			}
		}
		return out
	}
	o["paramsStruct"] = structOf(name + "Params")
	o["rowStruct"] = structOf(name + "Row")
	// model structs, for the type comparisons of C05/C06
	models := J{}
	for _, st := range sum.Structs {
		if st.File == "models.go" {
			fs := []J{}
			for _, f := range st.Fields {
				fs = append(fs, J{"name": f.Name, "type": f.Type})
			}
			models[st.Name] = fs
		}
	}
	o["models"] = models
	o["typecheck"] = typeCheck(res.Files)
	return o
}

func strs(x []string) []string {
	if x == nil {
		return []string{}
	}
	return x
}

// runAnalysisProp: the shared L2 stream; each property's Lean driver projects what it is about
func runAnalysisProp(prop string, r *Rng, n int, tier string) {
	// the fixed corpus first; for C05 every statement also runs in a package whose earlier queries select each
	// table plainly, for C10 every statement is additionally run with one relation / column renamed
	l2Corpus(func(id, engine, schema string, q QStmt, has, gone [][2]string) {
		corpusHas = has
		emitAnalysis(prop, id, engine, schema, q, "", false, gone)
		corpusHas = nil
		if prop == "C05" {
			pre := "-- name: SeedA :many\nSELECT * FROM authors;\n\n-- name: SeedB :many\nSELECT * FROM books;\n\n-- name: SeedV :many\nSELECT * FROM venues;\n\n"
			emitAnalysis(prop, id+"-p", engine, schema, q, pre, true, nil)
		}
		if prop == "C10" {
			cr := NewRng(uint64(len(id)*7919 + len(q.SQL)))
			names := []string{"authors", "books", "venues"}
			for k := 0; k < 2; k++ {
				if sql, ok := replaceOneWord(cr, q.SQL, names, "nowhere"); ok {
					q2 := q
					q2.SQL, q2.Known = sql, nil
					emitAnalysis(prop, fmt.Sprintf("%s-t%d", id, k), engine, schema, q2, "", false, nil)
				}
			}
			for k := 0; k < 2; k++ {
				if sql, ok := replaceOneWord(cr, q.SQL, []string{"name", "bio", "age", "tags", "title", "price", "slug", "author_id"}, "nope"); ok {
					q2 := q
					q2.SQL, q2.Known = sql, nil
					emitAnalysis(prop, fmt.Sprintf("%s-c%d", id, k), engine, schema, q2, "", false, nil)
				}
			}
			// a column name that exists, but in ANOTHER relation of the schema (possibly of the statement): the
			// database's scoping rule decides, not mere existence
			for k, other := range []string{"slug", "title", "bio", "author_id", "created_at"} {
				if k%2 != int(cr.Intn(2)) {
					continue
				}
				if sql, ok := replaceOneWord(cr, q.SQL, []string{"name", "bio", "age", "tags", "title", "price", "slug", "author_id"}, other); ok && sql != q.SQL {
					q2 := q
					q2.SQL, q2.Known = sql, nil
					emitAnalysis(prop, fmt.Sprintf("%s-x%d", id, k), engine, schema, q2, "", false, nil)
				}
			}
			if engine == "postgresql" {
				// one ALTER TABLE with several actions (a drop first), in two variants
				gone := [][2]string{{"authors", "name"}, {"authors", "age"}, {"books", "title"}, {"books", "price"}}
				emitAnalysis(prop, id+"-m", engine, schema+"ALTER TABLE authors DROP COLUMN name, DROP COLUMN age;\nALTER TABLE books DROP COLUMN title, DROP COLUMN price;\n", q, "", false, gone)
				gone2 := [][2]string{{"authors", "bio"}, {"authors", "age"}, {"books", "author_id"}, {"books", "order"}}
				emitAnalysis(prop, id+"-n", engine, schema+"ALTER TABLE authors DROP COLUMN bio, DROP COLUMN age;\nALTER TABLE books DROP COLUMN author_id, DROP COLUMN \"order\";\n", q, "", false, gone2)
			}
		}
	})
	if prop == "C05" {
		// tables that reached their final place through a history (moved between schemas, renamed, columns
		// renamed): a query for all their columns still returns the table's model type
		hist := []struct{ ddl, table, sel string }{
			{"CREATE SCHEMA vault;\nALTER TABLE venues SET SCHEMA vault;\n", "venues", "vault.venues"},
			{"CREATE SCHEMA staging;\nCREATE TABLE staging.items (id bigint NOT NULL, label text, qty int NOT NULL);\nALTER TABLE staging.items SET SCHEMA public;\n", "items", "items"},
			{"ALTER TABLE archive.venues SET SCHEMA public;\n", "", ""}, // rejected: the name is taken
			{"ALTER TABLE venues RENAME TO places;\n", "places", "places"},
			{"ALTER TABLE authors RENAME COLUMN bio TO about;\n", "authors", "authors"},
			{"ALTER TABLE archive.books RENAME TO tomes;\n", "tomes", "archive.tomes"},
			{"ALTER TABLE venues RENAME TO places;\nALTER TABLE places SET SCHEMA archive;\n", "places", "archive.places"},
		}
		// unqualified user-defined types (default schema) on tables of another schema that has a type of the same name
		udtDDL := "CREATE SCHEMA app;\nCREATE TYPE app.book_kind AS ENUM ('x', 'y');\nCREATE TABLE app.jobs (id bigint NOT NULL, state book_kind NOT NULL, prev book_kind, own app.book_kind);\n"
		for ui, f := range []struct{ cmd, sql string; n int }{
			{":many", "SELECT * FROM app.jobs", 0},
			{":many", "SELECT id, state, prev, own FROM app.jobs", 0},
			{":many", "WITH recent AS (SELECT id, state, prev, own FROM app.jobs) SELECT id, state, prev, own FROM recent", 0},
			{":many", "WITH recent AS (SELECT * FROM app.jobs) SELECT recent.* FROM recent", 0},
			{":one", "UPDATE app.jobs SET state = $1 WHERE id = $2 RETURNING id, state, own", 2},
			{":many", "SELECT j.state, j.own FROM app.jobs j JOIN books b ON b.kind = j.state", 0},
		} {
			q := QStmt{Name: fmt.Sprintf("U%d", ui), Cmd: f.cmd, SQL: f.sql, NParams: f.n, Tags: []string{"udt-other-schema"}}
			emitAnalysis(prop, fmt.Sprintf("udt-%d", ui), "postgresql", corpusPG+udtDDL, q, "", ui%2 == 0, nil)
		}
		for hi, h := range hist {
			if h.table == "" {
				continue
			}
			forms := []struct{ cmd, sql string; n int }{
				{":many", "SELECT * FROM " + h.sel, 0},
				{":one", "SELECT * FROM " + h.sel + " WHERE id = $1", 1},
				{":one", "DELETE FROM " + h.sel + " WHERE id = $1 RETURNING *", 1},
				{":many", "SELECT t.* FROM " + h.sel + " t", 0},
			}
			for fi, f := range forms {
				q := QStmt{Name: fmt.Sprintf("H%d_%d", hi, fi), Cmd: f.cmd, SQL: f.sql, NParams: f.n, Tags: []string{"history", "mustModel"}}
				emitAnalysisFull(prop, fmt.Sprintf("hist-%d-%d", hi, fi), "postgresql", corpusPG+h.ddl, q, "", fi%2 == 0, nil, h.table)
			}
		}
	}
	for i := 0; i < n; i++ {
		engine := "postgresql"
		if r.Chance(20) {
			engine = "mysql"
		}
		s := genQSchema(r, engine)
		if prop == "C07" || prop == "C02" {
			hardenSchema(r, &s)
		}
		if (prop == "C05" || prop == "C06") && engine == "mysql" && r.Chance(60) {
			s.Tables[0].Cols = append(s.Tables[0].Cols, PCol{"active", r.Pick([]string{"tinyint(1)", "boolean", "bool", "bit(1)", "bit", "bit(8)"}), r.Chance(50), false})
		}
		mustModel, prefix := "", ""
		risky := i%8 == 0
		q := genQStmt(r, s, i, risky)
		schema := s.DDL()
		switch prop {
		case "C07":
			if i%2 == 0 {
				q = genStarStmt(r, s, i)
			} else if i%4 == 3 {
				q, _ = genNearModelStmt(r, s, i)
			}
		case "C02":
			if i%2 == 0 {
				q = genShapeStmt(r, s, i)
			} else if i%4 == 1 {
				// column lists that are, or nearly are, a table's own: the row may be read into the model struct
				q, _ = genNearModelStmt(r, s, i)
			}
		case "C05", "C08":
			if engine == "postgresql" && i%3 == 0 {
				schema += alterHistory(r, s)
			} else if i%3 == 1 {
				q, mustModel = genNearModelStmt(r, s, i)
			}
			if i%2 == 1 {
				prefix = seedQueries(s) // other queries of the package come first
			}
		}
		if i%5 == 2 {
			q, _ = genWideStmt(r, s, i)
			mustModel = ""
		}
		if i%5 == 4 && prop != "C03" {
			var ddl string
			q, ddl = genExtraStmt(r, s, i)
			schema += ddl
			mustModel = ""
		}
		if prop == "C03" && engine == "postgresql" && i%6 == 5 {
			// the same statement with a hole in its placeholder numbers (repeats are kept): must be rejected
			if sql, ok := sparsify(r, q.SQL); ok {
				q.SQL = sql
				q.Tags = append(q.Tags, "sparse-numbers")
				q.Known = nil
			}
		}
		if prop == "C10" && i%2 == 1 {
			// single-name corruptions of the (valid) statement chosen above — plain, wide or extra shape, so that
			// nested query levels are corrupted as often as outer ones — or a migration that removes the name
			if i%8 == 7 {
				q = genShapeStmt(r, s, i)
			}
			q, schema = corruptStmt(r, s, q, schema)
		}
		var gone [][2]string
		if (prop == "C10" || prop == "C05") && engine == "postgresql" && i%7 == 3 {
			var ddl string
			ddl, gone = multiActionAlter(r, s, q.SQL)
			schema += ddl
		}
		if mustModel != "" {
			q.Tags = append(q.Tags, "mustModel")
		}
		emitAnalysisFull(prop, fmt.Sprintf("q-%d", i), engine, schema, q, prefix, i%2 == 0, gone, mustModel)
	}
}

var corpusHas [][2]string

func emitAnalysis(prop, id, engine, schema string, q QStmt, prefix string, prepared bool, gone [][2]string) {
	emitAnalysisFull(prop, id, engine, schema, q, prefix, prepared, gone, "")
}

// emitAnalysisFull: one statement through the real compiler (and, when it is accepted, through the Go generator)
func emitAnalysisFull(prop, id, engine, schema string, q QStmt, prefix string, prepared bool, gone [][2]string, mustModel string) {
	res := analyzeStatement(engine, schema, q.Text(), false)
	if gone != nil {
		// what the migration removed, stated by the generator: the spec does not take sqlc's word for it
		res.In["gone"] = gone
	}
	if corpusHas != nil {
		res.In["has"] = corpusHas
	}
	res.In["stmt"] = q.SQL
	res.In["cmd"] = q.Cmd
	res.In["nparams"] = q.NParams
	if mustModel != "" {
		res.In["mustModel"] = mustModel
	}
	res.In["withSeedQueries"] = prefix != ""
	impl := res.Impl
	oracle := ""
	if impl["err"] == "" {
		g := goObservation(engine, schema, prefix+q.Text(), q.Name, prepared)
		impl["go"] = g
		if prop == "C07" && g["ok"] == true && strings.Contains(q.SQL, "*") && !strings.Contains(q.SQL, "sqlc.") && !strings.Contains(q.SQL, "@") {
			// the same query with the explicit list sqlc itself wrote: same API
			if hexSQL, ok := g["sql"].(string); ok {
				if emb, err := hex.DecodeString(hexSQL); err == nil && strings.TrimSpace(string(emb)) != strings.TrimSpace(q.SQL) {
					q2 := q
					q2.SQL = strings.TrimSuffix(strings.TrimSpace(string(emb)), ";")
					e := goObservation(engine, schema, prefix+q2.Text(), q.Name, prepared)
					if e["ok"] == true {
						for _, k := range []string{"results", "rowStruct", "params", "paramsStruct", "scan"} {
							if jsonStr(g[k]) != jsonStr(e[k]) {
								oracle = fmt.Sprintf("the query written with * and with the explicit list generate different APIs: %s is %s with *, %s with the list", k, jsonStr(g[k]), jsonStr(e[k]))
								break
							}
						}
						impl["explicit"] = J{"ok": true, "results": e["results"]}
					} else {
						impl["explicit"] = J{"ok": false, "err": e["err"]}
					}
				}
			}
		}
	}
	emit(Case{ID: id, Kind: "analysis", In: res.In, Impl: impl, Oracle: oracle, Known: q.Known, Tags: append(q.Tags, engine)})
}


var dollarRe = regexp.MustCompile(`\$(\d+)`)

// sparsify: every placeholder number >= g moves up by one or two (g = 1 makes the numbering start above 1)
func sparsify(r *Rng, sql string) (string, bool) {
	max := 0
	for _, m := range dollarRe.FindAllStringSubmatch(sql, -1) {
		if k, _ := strconv.Atoi(m[1]); k > max {
			max = k
		}
	}
	if max == 0 {
		return sql, false
	}
	g := 1 + r.Intn(max)
	if max > 1 && r.Chance(70) {
		g = 2 + r.Intn(max-1) // keep $1 (and possibly its repeats) below the hole
	}
	by := 1 + r.Intn(2)
	return dollarRe.ReplaceAllStringFunc(sql, func(m string) string {
		k, _ := strconv.Atoi(m[1:])
		if k >= g {
			k += by
		}
		return "$" + strconv.Itoa(k)
	}), true
}
