package main

import (
	"fmt"
	"os"
	"strings"
	"sync"
)

func init() { props["C19"] = runC19 }

type isoPkg struct {
	Dir, Engine, Lang string
	Schema, Query     string
	GoExtra           string // extra fields of gen.go (overrides / rename)
	Tags              []string
}

// every package declares the SAME names (items, status, fmt_label) with DIFFERENT definitions, so any
// leak from one package's catalog / settings into another changes some output byte
func genIsoPkg(r *Rng, i int) isoPkg {
	p := isoPkg{Dir: fmt.Sprintf("p%d", i)}
	p.Engine = r.Pick([]string{"postgresql", "postgresql", "postgresql", "mysql"})
	p.Lang = r.Pick([]string{"go", "go", "go", "kotlin", "python"})
	if p.Lang == "python" {
		p.Engine = "postgresql"
	}
	// (types whose Go / Kotlin / Python spelling needs an import, so that the import sets of the packages differ)
	colTypes := []string{"bigint", "text", "int", "boolean", "varchar(20)", "timestamptz", "date", "uuid", "numeric(10,2)", "timestamp", "time"}
	if p.Engine == "mysql" {
		colTypes = []string{"bigint", "text", "int", "boolean", "varchar(20)", "datetime", "date", "decimal(10,2)", "timestamp", "time"}
	}
	var cols []string
	nc := 2 + r.Intn(3)
	for c := 0; c < nc; c++ {
		nn := ""
		if r.Bool() {
			nn = " NOT NULL"
		}
		cols = append(cols, fmt.Sprintf("c%d %s%s", c, colTypes[(i+c+r.Intn(2))%len(colTypes)], nn))
	}
	ph := func(k int) string {
		if p.Engine == "mysql" {
			return "?"
		}
		return fmt.Sprintf("$%d", k)
	}
	var sb strings.Builder
	if p.Engine == "postgresql" {
		labels := []string{"'a'", "'b'", "'c'", "'d'"}[:1+((i+r.Intn(3))%4)]
		sb.WriteString("CREATE TYPE status AS ENUM (" + strings.Join(labels, ", ") + ");\n")
		sb.WriteString("CREATE TABLE items (id bigint NOT NULL, st status, " + strings.Join(cols, ", ") + ");\n")
		switch r.Intn(5) {
		case 0:
			sb.WriteString("CREATE FUNCTION fmt_label(x " + r.Pick([]string{"text", "bigint"}) + ") RETURNS " + r.Pick([]string{"text", "bigint", "boolean"}) + " AS $$ SELECT 1 $$ LANGUAGE sql;\n")
			p.Tags = append(p.Tags, "function")
		case 1:
			sb.WriteString("CREATE TABLE pg_temp.scratch (v " + r.Pick(colTypes) + ");\n")
			p.Tags = append(p.Tags, "pg_temp")
		case 2:
			sb.WriteString("CREATE SCHEMA extra;\nCREATE TABLE extra.items (z text);\n")
			p.Tags = append(p.Tags, "extra-schema")
		case 3:
			// edit a built-in: must stay private to this package
			sb.WriteString("CREATE OR REPLACE FUNCTION pg_catalog.initcap(text) RETURNS bigint AS $$ SELECT 1 $$ LANGUAGE sql;\nDROP FUNCTION pg_catalog.quote_ident(text);\n")
			p.Tags = append(p.Tags, "pg_catalog-edit")
		}
	} else {
		sb.WriteString("CREATE TABLE items (id bigint NOT NULL, st varchar(10), " + strings.Join(cols, ", ") + ");\n")
	}
	p.Schema = sb.String()
	var qb strings.Builder
	T := strings.Title(p.Dir)
	qb.WriteString(fmt.Sprintf("-- name: Get%s :one\nSELECT * FROM items WHERE id = %s;\n\n", T, ph(1)))
	qb.WriteString(fmt.Sprintf("-- name: Find%s :many\nSELECT id, c0, c1 FROM items WHERE c0 = %s OR c1 = %s OR id = %s;\n\n", T, ph(2), ph(1), ph(2)))
	if p.Engine == "postgresql" {
		qb.WriteString(fmt.Sprintf("-- name: Cap%s :many\nSELECT initcap(c1::text), quote_ident(c1::text) FROM items WHERE id > $1 AND id < $1 + 10;\n\n", T))
		if strings.Contains(p.Schema, "fmt_label") {
			qb.WriteString(fmt.Sprintf("-- name: Label%s :many\nSELECT fmt_label(c1::text) FROM items;\n\n", T))
		}
	}
	p.Query = qb.String()
	if p.Lang == "go" {
		switch r.Intn(4) {
		case 0:
			// (every package its own import path, all ending in the same element)
			p.GoExtra = fmt.Sprintf(`,"overrides":[{"column":"items.c1","go_type":"github.com/example/p%d/custom.Thing"}]`, i)
			p.Tags = append(p.Tags, "column-override")
		case 1:
			p.GoExtra = `,"overrides":[{"db_type":"text","go_type":"github.com/example/custom.Text"}],"rename":{"c0":"Zero"}`
			p.Tags = append(p.Tags, "dbtype-override+rename")
		case 2:
			p.GoExtra = `,"emit_json_tags":true,"emit_prepared_queries":true,"emit_interface":true`
			p.Tags = append(p.Tags, "emit-options")
		}
	}
	return p
}

func (p isoPkg) entry(files map[string]string) string {
	files[p.Dir+"/schema.sql"] = p.Schema
	files[p.Dir+"/"+p.Dir+"_q.sql"] = p.Query
	gen := ""
	switch p.Lang {
	case "go":
		gen = fmt.Sprintf(`"go":{"package":%q,"out":%q%s}`, p.Dir, "out/"+p.Dir, p.GoExtra)
	case "kotlin":
		gen = fmt.Sprintf(`"kotlin":{"package":"com.example.%s","out":%q}`, p.Dir, "out/"+p.Dir)
	case "python":
		gen = fmt.Sprintf(`"python":{"package":%q,"out":%q}`, p.Dir, "out/"+p.Dir)
	}
	return fmt.Sprintf(`{"engine":%q,"schema":%q,"queries":%q,"gen":{%s}}`, p.Engine, p.Dir+"/schema.sql", p.Dir+"/"+p.Dir+"_q.sql", gen)
}

func diffFiles(a, b map[string]string) string {
	for _, k := range sortedKeys(a) {
		if vb, ok := b[k]; !ok {
			return "missing " + k
		} else if vb != a[k] {
			al, bl := strings.Split(a[k], "\n"), strings.Split(vb, "\n")
			for i := range al {
				if i >= len(bl) || al[i] != bl[i] {
					o := ""
					if i < len(bl) {
						o = bl[i]
					}
					return fmt.Sprintf("%s line %d: alone %q, together %q", k, i+1, strings.TrimSpace(al[i]), strings.TrimSpace(o))
				}
			}
			return k + " differs in length"
		}
	}
	for _, k := range sortedKeys(b) {
		if _, ok := a[k]; !ok {
			return "extra " + k
		}
	}
	return ""
}

func runC19(r *Rng, n int, tier string) {
	// ---- isolation: multi-package run vs each package alone, in several orders
	for i := 0; i < n; i++ {
		np := 2 + r.Intn(3)
		var pkgs []isoPkg
		for k := 0; k < np; k++ {
			pkgs = append(pkgs, genIsoPkg(r, k))
		}
		alone := make([]GenResult, np)
		var tags []string
		skip := false
		// a config-wide rename / override table (part of every package's configuration, alone or together)
		global := ""
		if r.Chance(50) {
			global = r.Pick([]string{
				`"overrides":{"go":{"rename":{"st":"State"}}}`,
				`"overrides":{"go":{"rename":{"id":"Identifier","c3":"Third"}}}`,
				`"overrides":{"go":{"rename":{"st":"State"},"overrides":[{"db_type":"pg_catalog.int8","engine":"postgresql","go_type":"github.com/example/custom.Big","nullable":true}]}}`,
				// several global overrides, tagged for different engines, in both orders
				`"overrides":{"go":{"overrides":[{"db_type":"text","engine":"postgresql","go_type":"github.com/example/custom.PgText"},{"db_type":"varchar","engine":"mysql","go_type":"github.com/example/custom.MyStr"},{"db_type":"pg_catalog.int4","engine":"postgresql","go_type":"github.com/example/custom.PgInt"},{"db_type":"int","engine":"mysql","go_type":"github.com/example/custom.MyInt"}]}}`,
				`"overrides":{"go":{"overrides":[{"db_type":"varchar","engine":"mysql","go_type":"github.com/example/custom.MyStr"},{"db_type":"text","engine":"postgresql","go_type":"github.com/example/custom.PgText"},{"db_type":"text","engine":"mysql","go_type":"github.com/example/custom.MyText"}]}}`,
			})
			tags = append(tags, "global-settings")
		}
		conf := func(entries []string) string {
			if global == "" {
				return confV2(entries)
			}
			return `{"version":"2","sql":[` + strings.Join(entries, ",") + `],` + global + `}`
		}
		for k, p := range pkgs {
			files := map[string]string{}
			e := p.entry(files)
			files["sqlc.json"] = conf([]string{e})
			alone[k] = generate(files)
			if !alone[k].OK() {
				skip = true
			}
			tags = append(tags, p.Tags...)
			tags = append(tags, p.Lang+"/"+p.Engine)
		}
		oracle := ""
		var detail J
		if skip {
			tags = append(tags, "a-package-fails-alone")
		}
		norders := 3
		if tier == "thorough" {
			norders = 8
		}
		var orders [][]int
		for o := 0; o < norders && !skip; o++ {
			perm := r.Perm(np)
			orders = append(orders, perm)
			files := map[string]string{}
			var entries []string
			for _, k := range perm {
				entries = append(entries, pkgs[k].entry(files))
			}
			files["sqlc.json"] = conf(entries)
			res := generate(files)
			if !res.OK() {
				oracle = fmt.Sprintf("order %v: every package generates alone but the multi-package run fails: %s", perm, firstLine(res.Stderr))
				detail = J{"files": files}
				break
			}
			for k, p := range pkgs {
				got := filterPrefix(res.Files, "out/"+p.Dir+"/")
				if d := diffFiles(alone[k].Files, got); d != "" {
					oracle = fmt.Sprintf("order %v: output of package %s differs from generating it alone: %s", perm, p.Dir, d)
					detail = J{"files": files}
					break
				}
			}
			if oracle != "" {
				break
			}
		}
		var ps []J
		for _, p := range pkgs {
			ps = append(ps, J{"dir": p.Dir, "engine": p.Engine, "lang": p.Lang, "schema": p.Schema, "query": p.Query, "goextra": p.GoExtra})
		}
		emit(Case{ID: fmt.Sprintf("iso-%d", i), Kind: "isolation", In: J{"packages": ps, "orders": orders}, Impl: J{"skipped": skip}, Oracle: oracle, Detail: detail, Tags: tags})
	}
	// ---- isolation with SHARED schema files: the packages list different subsets of one migrations directory
	// (a package pinned to an older prefix next to one that follows every migration)
	for i := 0; i < n/2+2; i++ {
		emit(sharedSchemaCase(r, fmt.Sprintf("shared-%d", i), tier))
	}
	// ---- concurrency: k generations at once, compared with the serial results
	nc := n / 4
	if nc < 4 {
		nc = 4
	}
	for i := 0; i < nc; i++ {
		k := 2 + r.Intn(15)
		var dirs []string
		var want []GenResult
		distinct := 1 + r.Intn(4)
		var inputs []map[string]string
		for d := 0; d < distinct; d++ {
			files := map[string]string{}
			var entries []string
			for q := 0; q < 1+r.Intn(2); q++ {
				pk := genIsoPkg(r, q)
				// rounds in which every run uses the SAME back end (its templates, importer and helpers are what
				// concurrent runs could share), next to mixed rounds
				if lang := []string{"", "kotlin", "python", "go"}[i%4]; lang != "" && !(lang == "python" && pk.Engine != "postgresql") {
					pk.Lang = lang
					if lang != "go" {
						pk.GoExtra = ""
					}
				}
				entries = append(entries, pk.entry(files))
			}
			files["sqlc.json"] = confV2(entries)
			inputs = append(inputs, files)
		}
		for g := 0; g < k; g++ {
			files := inputs[g%distinct]
			dirs = append(dirs, writeTree(files))
			want = append(want, generate(files))
		}
		got := make([]GenResult, k)
		var wg sync.WaitGroup
		for g := 0; g < k; g++ {
			wg.Add(1)
			go func(g int) {
				defer wg.Done()
				got[g] = generateDir(dirs[g])
			}(g)
		}
		wg.Wait()
		oracle := ""
		for g := 0; g < k; g++ {
			os.RemoveAll(dirs[g])
			if got[g].OK() != want[g].OK() || got[g].Panic != want[g].Panic {
				oracle = fmt.Sprintf("run %d of %d concurrent generations: status differs from the serial run (%s / %s)", g, k, firstLine(got[g].Stderr+got[g].Panic), firstLine(want[g].Stderr+want[g].Panic))
				break
			}
			if d := diffFiles(want[g].Files, got[g].Files); d != "" {
				oracle = fmt.Sprintf("run %d of %d concurrent generations differs from the serial run: %s", g, k, d)
				break
			}
		}
		emit(Case{ID: fmt.Sprintf("conc-%d", i), Kind: "concurrent", In: J{"runs": k, "distinct_inputs": distinct, "inputs": inputs}, Impl: J{"ok": oracle == ""}, Oracle: oracle, Tags: []string{fmt.Sprintf("runs=%d", k)}})
	}
}


var sharedMigrations = map[string]struct {
	init   string
	pool   []string
	rename string
}{
	"postgresql": {
		"CREATE TYPE status AS ENUM ('a', 'b');\nCREATE TABLE authors (id bigint NOT NULL, name text NOT NULL, st status, bio text);\nCREATE TABLE books (id bigint NOT NULL, author_id bigint NOT NULL, title text);\nCREATE FUNCTION label(x text) RETURNS text AS $$ SELECT x $$ LANGUAGE sql;\n",
		[]string{
			"ALTER TABLE authors RENAME COLUMN name TO full_name;\n",
			"ALTER TABLE authors ADD COLUMN age int;\n",
			"ALTER TABLE authors DROP COLUMN bio;\n",
			"ALTER TYPE status ADD VALUE 'c';\n",
			"ALTER TABLE authors ALTER COLUMN bio SET NOT NULL;\n",
			"ALTER TABLE authors ALTER COLUMN st TYPE text;\n",
			"COMMENT ON TABLE authors IS 'people who write';\nCOMMENT ON COLUMN authors.id IS 'key';\n",
			"CREATE SCHEMA archive;\nALTER TABLE books SET SCHEMA archive;\n",
			"ALTER TYPE status RENAME TO state;\n",
			"ALTER TYPE status RENAME VALUE 'a' TO 'z';\n",
			"DROP TABLE books;\n",
			"ALTER TABLE books RENAME TO volumes;\n",
			"DROP FUNCTION label(text);\n",
		},
		"ALTER TABLE authors RENAME TO writers;\n",
	},
	"mysql": {
		"CREATE TABLE authors (id bigint NOT NULL, name varchar(100) NOT NULL, st varchar(10), bio text);\nCREATE TABLE books (id bigint NOT NULL, author_id bigint NOT NULL, title varchar(100));\n",
		[]string{
			"ALTER TABLE authors RENAME COLUMN name TO full_name;\n",
			"ALTER TABLE authors ADD COLUMN age int;\n",
			"ALTER TABLE authors DROP COLUMN bio;\n",
			"ALTER TABLE authors MODIFY COLUMN bio varchar(20) NOT NULL;\n",
			"ALTER TABLE authors CHANGE COLUMN st state int;\n",
			"CREATE TABLE authors_copy LIKE authors;\n",
			"DROP TABLE books;\n",
			"ALTER TABLE books RENAME TO volumes;\n",
		},
		"ALTER TABLE authors RENAME TO writers;\n",
	},
}

func sharedSchemaCase(r *Rng, id, tier string) Case {
	eng := "postgresql"
	if r.Chance(30) {
		eng = "mysql"
	}
	m := sharedMigrations[eng]
	base := map[string]string{"migrations/001_init.sql": m.init}
	perm := r.Perm(len(m.pool))
	nm := 1 + r.Intn(3)
	var names []string
	for k := 0; k < nm; k++ {
		fn := fmt.Sprintf("migrations/%03d_step.sql", k+2)
		base[fn] = m.pool[perm[k]]
		names = append(names, fn)
	}
	last := fmt.Sprintf("migrations/%03d_rename.sql", nm+2)
	base[last] = m.rename
	names = append(names, last)
	np := 2 + r.Intn(3)
	type spkg struct {
		dir, lang string
		schema    []string
		table     string
	}
	var pkgs []spkg
	for k := 0; k < np; k++ {
		p := spkg{dir: fmt.Sprintf("p%d", k), lang: "go", table: "authors"}
		if eng == "postgresql" {
			p.lang = r.Pick([]string{"go", "go", "go", "kotlin", "python"})
		}
		p.schema = []string{"migrations/001_init.sql"}
		switch {
		case k == 0 || r.Chance(30):
			p.schema = append(p.schema, names...) // follows every migration
		case r.Chance(50):
			p.schema = append(p.schema, names[:r.Intn(len(names))]...) // pinned to a prefix
		default:
			for _, fn := range names {
				if r.Bool() {
					p.schema = append(p.schema, fn)
				}
			}
		}
		if p.schema[len(p.schema)-1] == last {
			p.table = "writers"
		}
		pkgs = append(pkgs, p)
	}
	ph := "$1"
	if eng == "mysql" {
		ph = "?"
	}
	entry := func(p spkg, files map[string]string) string {
		for k, v := range base {
			files[k] = v
		}
		files[p.dir+"/q.sql"] = fmt.Sprintf("-- name: All%s :many\nSELECT * FROM %s;\n\n-- name: One%s :one\nSELECT * FROM %s WHERE id = %s;\n", strings.Title(p.dir), p.table, strings.Title(p.dir), p.table, ph)
		gen := ""
		switch p.lang {
		case "go":
			gen = fmt.Sprintf(`"go":{"package":%q,"out":%q}`, p.dir, "out/"+p.dir)
		case "kotlin":
			gen = fmt.Sprintf(`"kotlin":{"package":"com.example.%s","out":%q}`, p.dir, "out/"+p.dir)
		case "python":
			gen = fmt.Sprintf(`"python":{"package":%q,"out":%q}`, p.dir, "out/"+p.dir)
		}
		return fmt.Sprintf(`{"engine":%q,"schema":%s,"queries":%q,"gen":{%s}}`, eng, jsonStr(p.schema), p.dir+"/q.sql", gen)
	}
	tags := []string{"shared-schema-files", eng}
	alone := make([]GenResult, np)
	skip := false
	distinct := map[string]bool{}
	for k, p := range pkgs {
		files := map[string]string{}
		e := entry(p, files)
		files["sqlc.json"] = confV2([]string{e})
		alone[k] = generate(files)
		if !alone[k].OK() {
			skip = true
		}
		distinct[strings.Join(p.schema, ",")] = true
	}
	if len(distinct) > 1 {
		tags = append(tags, "different-subsets")
	}
	if skip {
		tags = append(tags, "a-package-fails-alone")
	}
	oracle := ""
	var detail J
	norders := 3
	if tier == "thorough" {
		norders = 8
	}
	var orders [][]int
	for o := 0; o < norders && !skip; o++ {
		perm := r.Perm(np)
		if o == 0 {
			perm = nil
			for k := 0; k < np; k++ {
				perm = append(perm, k)
			}
		}
		orders = append(orders, perm)
		files := map[string]string{}
		var entries []string
		for _, k := range perm {
			entries = append(entries, entry(pkgs[k], files))
		}
		files["sqlc.json"] = confV2(entries)
		res := generate(files)
		if !res.OK() {
			oracle = fmt.Sprintf("order %v: every package generates alone but the multi-package run fails: %s", perm, firstLine(res.Stderr))
			detail = J{"files": files}
			break
		}
		for k, p := range pkgs {
			got := filterPrefix(res.Files, "out/"+p.dir+"/")
			if d := diffFiles(alone[k].Files, got); d != "" {
				oracle = fmt.Sprintf("order %v: output of package %s (schema %v) differs from generating it alone: %s", perm, p.dir, p.schema, d)
				detail = J{"files": files}
				break
			}
		}
		if oracle != "" {
			break
		}
	}
	var ps []J
	for _, p := range pkgs {
		ps = append(ps, J{"dir": p.dir, "lang": p.lang, "schema": p.schema, "table": p.table})
	}
	return Case{ID: id, Kind: "isolation", In: J{"packages": ps, "orders": orders, "migrations": base}, Impl: J{"skipped": skip}, Oracle: oracle, Detail: detail, Tags: tags}
}
