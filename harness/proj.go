package main

// A shared project generator: schema declarations + annotated queries + Go options, used by the
// end-to-end streams of C01, C02, C03, C05, C13, C15, C16, C20. Everything derives from one Rng.

import (
	"fmt"
	"sort"
	"strings"
)

type PCol struct {
	Name    string
	Type    string // as written
	NotNull bool
	Array   bool
}

type PTable struct {
	Name string
	Cols []PCol
}

type PEnum struct {
	Name string
	Vals []string
}

type PQuery struct {
	Name string
	Cmd  string
	SQL  string
	Tags []string
}

type Project struct {
	RawSchema string // when set: the schema text as is (declarations one per line), instead of Tables / Enums
	Suffix     []string // statements that follow all declarations (drops / alters of junk objects)
	JunkTables []string
	Engine     string
	Composites []string
	Enums      []PEnum
	Tables  []PTable
	Queries []PQuery
	Second  []PQuery // queries of a second query file (per-file import computation)
	// Go options
	Opts      map[string]bool // emit_json_tags, emit_db_tags, emit_prepared_queries, emit_interface, emit_exact_table_names, emit_empty_slices
	CaseStyle string
	Overrides []string // raw JSON objects
	Rename    map[string]string
}

var projTableNames = []string{"authors", "books", "venues", "users", "book_tags", "cities"}
var projColPool = []struct{ n, t string }{
	{"name", "text"}, {"title", "varchar(200)"}, {"bio", "text"}, {"age", "int"}, {"score", "bigint"}, {"rating", "real"}, {"price", "numeric(10,2)"},
	{"active", "boolean"}, {"created_at", "timestamptz"}, {"born", "date"}, {"meta", "jsonb"}, {"uid", "uuid"}, {"tags", "text[]"}, {"ip", "inet"},
	{"blob", "bytea"}, {"slug", "text"}, {"spent", "interval"}, {"ids", "bigint[]"}, {"stamps", "timestamptz[]"}, {"uids", "uuid[]"},
}
var projMyColPool = []struct{ n, t string }{
	{"name", "varchar(100)"}, {"title", "varchar(200)"}, {"bio", "text"}, {"age", "int"}, {"score", "bigint"}, {"rating", "double"}, {"price", "decimal(10,2)"},
	{"active", "tinyint(4)"}, {"created_at", "datetime"}, {"born", "date"}, {"meta", "json"}, {"slug", "varchar(50)"}, {"year_col", "year"},
}

func genProject(r *Rng, engine string) Project {
	p := Project{Engine: engine, Opts: map[string]bool{}, Rename: map[string]string{}}
	pool := projColPool
	if engine == "mysql" {
		pool = projMyColPool
	}
	if engine == "postgresql" {
		for _, e := range []string{"book_type", "status"} {
			if r.Chance(55) {
				labs := []string{"draft", "published", "out-of-print", "x:y", "new"}
				perm := r.Perm(len(labs))
				en := PEnum{Name: e}
				for i := 0; i < 1+r.Intn(3); i++ {
					en.Vals = append(en.Vals, labs[perm[i]])
				}
				p.Enums = append(p.Enums, en)
			}
		}
	}
	if engine == "postgresql" && r.Chance(30) {
		p.Composites = append(p.Composites, "pair")
	}
	nt := 1 + r.Intn(3)
	perm := r.Perm(len(projTableNames))
	for i := 0; i < nt; i++ {
		t := PTable{Name: projTableNames[perm[i]]}
		t.Cols = append(t.Cols, PCol{Name: "id", Type: "bigint", NotNull: true})
		if i > 0 && r.Chance(60) {
			t.Cols = append(t.Cols, PCol{Name: strings.TrimSuffix(p.Tables[0].Name, "s") + "_id", Type: "bigint", NotNull: true})
		}
		cp := r.Perm(len(pool))
		for j := 0; j < 1+r.Intn(4); j++ {
			c := pool[cp[j]]
			col := PCol{Name: c.n, Type: c.t, NotNull: r.Chance(55)}
			if strings.HasSuffix(c.t, "[]") {
				col.Array = true
			}
			t.Cols = append(t.Cols, col)
		}
		if len(p.Enums) > 0 && r.Chance(50) {
			e := p.Enums[r.Intn(len(p.Enums))]
			t.Cols = append(t.Cols, PCol{Name: "kind", Type: e.Name, NotNull: r.Bool()})
		}
		p.Tables = append(p.Tables, t)
	}
	// queries
	nq := 1 + r.Intn(5)
	used := map[string]bool{}
	if r.Chance(25) {
		// twin tables: identical column lists, so that row shapes of different origin collide
		cols := []PCol{{Name: "id", Type: "bigint", NotNull: true}, {Name: "name", Type: pool[0].t, NotNull: true}}
		p.Tables = []PTable{{Name: "authors", Cols: cols}, {Name: "venues", Cols: append([]PCol{}, cols...)}}
		twins := []PQuery{
			{Name: "MixedShape", Cmd: ":many", SQL: "SELECT a.id, b.name FROM authors a JOIN venues b ON b.id = a.id", Tags: []string{"twin"}},
			{Name: "ListAuthorsPlain", Cmd: ":many", SQL: "SELECT id, name FROM authors", Tags: []string{"twin"}},
			{Name: "ListVenuesPlain", Cmd: ":many", SQL: "SELECT id, name FROM venues", Tags: []string{"twin"}},
			{Name: "AliasSwap", Cmd: ":many", SQL: "SELECT name AS id, id AS name FROM authors", Tags: []string{"twin"}},
			{Name: "ReorderedAll", Cmd: ":many", SQL: "SELECT name, id FROM venues", Tags: []string{"twin"}},
		}
		tp := r.Perm(len(twins))
		for _, j := range tp[:2+r.Intn(len(twins)-1)] {
			used[twins[j].Name] = true
			p.Queries = append(p.Queries, twins[j])
		}
	}
	for i := 0; i < nq; i++ {
		q := genProjQuery(r, &p, i)
		if used[q.Name] {
			continue
		}
		used[q.Name] = true
		p.Queries = append(p.Queries, q)
	}
	if r.Chance(30) {
		// junk tables that a later migration drops again, in one statement
		p.JunkTables = []string{"old_sessions", "old_audit", "old_tmp"}[:2+r.Intn(2)]
		drop := append([]string{}, p.JunkTables...)
		if r.Bool() {
			drop[0], drop[len(drop)-1] = drop[len(drop)-1], drop[0]
		}
		p.Suffix = append(p.Suffix, "DROP TABLE "+strings.Join(drop, ", ")+";")
	}
	if r.Chance(20) {
		// a column whose literal name equals the suffixed form of a repeated column
		p.Tables = append(p.Tables, PTable{Name: "pairs", Cols: []PCol{{Name: "id", Type: "bigint", NotNull: true}, {Name: "id_2", Type: "bigint", NotNull: true}, {Name: "count", Type: "int", NotNull: true}, {Name: "count_2", Type: "int"}}})
		if !used["SuffixClash"] {
			used["SuffixClash"] = true
			p.Queries = append(p.Queries, PQuery{Name: "SuffixClash", Cmd: ":many", SQL: "SELECT a.id, b.id, a.id_2, a.count, b.count, b.count_2 FROM pairs a JOIN pairs b ON b.id = a.id_2", Tags: []string{"suffix-clash"}})
		}
	}
	for _, o := range []string{"emit_json_tags", "emit_db_tags", "emit_prepared_queries", "emit_interface", "emit_exact_table_names", "emit_empty_slices"} {
		p.Opts[o] = r.Chance(35)
	}
	if p.Opts["emit_json_tags"] && r.Chance(40) {
		p.CaseStyle = r.Pick([]string{"camel", "pascal", "snake"})
	}
	return p
}

func (p *Project) ph(k int) string {
	if p.Engine == "mysql" {
		return "?"
	}
	return fmt.Sprintf("$%d", k)
}

func colNames(t PTable) []string {
	var ns []string
	for _, c := range t.Cols {
		ns = append(ns, c.Name)
	}
	return ns
}

func genProjQuery(r *Rng, p *Project, i int) PQuery {
	t := p.Tables[r.Intn(len(p.Tables))]
	T := strings.Title(strings.ReplaceAll(t.Name, "_", ""))
	c1 := t.Cols[r.Intn(len(t.Cols))]
	c2 := t.Cols[r.Intn(len(t.Cols))]
	pg := p.Engine == "postgresql"
	switch r.Intn(9) {
	case 0:
		return PQuery{Name: "Get" + T, Cmd: ":one", SQL: fmt.Sprintf("SELECT * FROM %s WHERE id = %s LIMIT 1", t.Name, p.ph(1)), Tags: []string{"star"}}
	case 1:
		return PQuery{Name: "List" + T, Cmd: ":many", SQL: fmt.Sprintf("SELECT %s FROM %s ORDER BY id", strings.Join(colNames(t), ", "), t.Name), Tags: []string{"all-columns"}}
	case 2:
		return PQuery{Name: fmt.Sprintf("By%s%d", T, i), Cmd: ":many", SQL: fmt.Sprintf("SELECT id, %s FROM %s WHERE %s = %s", c1.Name, t.Name, c2.Name, p.ph(1)), Tags: []string{"filter"}}
	case 3:
		var cols, vals []string
		for k, c := range t.Cols {
			cols = append(cols, c.Name)
			vals = append(vals, p.ph(k+1))
		}
		sql := fmt.Sprintf("INSERT INTO %s (%s) VALUES (%s)", t.Name, strings.Join(cols, ", "), strings.Join(vals, ", "))
		if pg && r.Bool() {
			return PQuery{Name: "Create" + T, Cmd: ":one", SQL: sql + " RETURNING *", Tags: []string{"insert", "returning", "star"}}
		}
		return PQuery{Name: "Create" + T, Cmd: r.Pick([]string{":exec", ":execresult", ":execrows"}), SQL: sql, Tags: []string{"insert"}}
	case 4:
		return PQuery{Name: fmt.Sprintf("Update%s%d", T, i), Cmd: ":exec", SQL: fmt.Sprintf("UPDATE %s SET %s = %s WHERE id = %s", t.Name, c1.Name, p.ph(1), p.ph(2)), Tags: []string{"update"}}
	case 5:
		return PQuery{Name: "Delete" + T, Cmd: ":execrows", SQL: fmt.Sprintf("DELETE FROM %s WHERE id = %s", t.Name, p.ph(1)), Tags: []string{"delete"}}
	case 6:
		return PQuery{Name: "Count" + T, Cmd: ":one", SQL: fmt.Sprintf("SELECT count(*) FROM %s", t.Name), Tags: []string{"aggregate"}}
	case 7:
		if len(p.Tables) > 1 {
			u := p.Tables[(r.Intn(len(p.Tables)-1)+1+indexOfTable(p, t.Name))%len(p.Tables)]
			if u.Name != t.Name {
				return PQuery{Name: fmt.Sprintf("Join%s%d", T, i), Cmd: ":many", SQL: fmt.Sprintf("SELECT a.id, b.id, a.%s FROM %s a JOIN %s b ON b.id = a.id WHERE a.id > %s", c1.Name, t.Name, u.Name, p.ph(1)), Tags: []string{"join"}}
			}
		}
		fallthrough
	default:
		return PQuery{Name: fmt.Sprintf("Pair%s%d", T, i), Cmd: ":one", SQL: fmt.Sprintf("SELECT %s, %s AS other FROM %s WHERE id = %s AND %s = %s", c1.Name, c2.Name, t.Name, p.ph(1), c2.Name, p.ph(2)), Tags: []string{"alias"}}
	}
}

func indexOfTable(p *Project, name string) int {
	for i, t := range p.Tables {
		if t.Name == name {
			return i
		}
	}
	return 0
}

func (t PTable) DDL(engine string) string {
	var cs []string
	for _, c := range t.Cols {
		s := c.Name + " " + c.Type
		if c.NotNull {
			s += " NOT NULL"
		}
		cs = append(cs, s)
	}
	return fmt.Sprintf("CREATE TABLE %s (%s);", t.Name, strings.Join(cs, ", "))
}

func (e PEnum) DDL() string {
	var vs []string
	for _, v := range e.Vals {
		vs = append(vs, sqlStr(v))
	}
	return fmt.Sprintf("CREATE TYPE %s AS ENUM (%s);", e.Name, strings.Join(vs, ", "))
}

// SchemaDecls returns the declarations: enums first (tables depend on them), then tables
func (p Project) SchemaDecls() (enums, tables []string) {
	if p.RawSchema != "" {
		for _, ln := range strings.Split(strings.TrimSpace(p.RawSchema), "\n") {
			if rawDependent(ln) {
				continue // see DependentDecls
			}
			if strings.HasPrefix(ln, "CREATE TABLE") {
				tables = append(tables, ln)
			} else if strings.TrimSpace(ln) != "" {
				enums = append(enums, ln)
			}
		}
		return
	}
	for _, c := range p.Composites {
		enums = append(enums, "CREATE TYPE "+c+" AS (x int, y int);")
	}
	for _, e := range p.Enums {
		enums = append(enums, e.DDL())
	}
	for _, t := range p.Tables {
		tables = append(tables, t.DDL(p.Engine))
	}
	for _, j := range p.JunkTables {
		tables = append(tables, "CREATE TABLE "+j+" (id bigint NOT NULL, payload text);")
	}
	return
}

func rawDependent(ln string) bool {
	return strings.HasPrefix(ln, "ALTER ") || strings.HasPrefix(ln, "DROP ") || (strings.HasPrefix(ln, "CREATE TABLE") && strings.Contains(ln, " LIKE "))
}

// DependentDecls: the statements of a raw schema that refer to earlier declarations; they keep their place after
// the independent ones
func (p Project) DependentDecls() []string {
	var out []string
	if p.RawSchema != "" {
		for _, ln := range strings.Split(strings.TrimSpace(p.RawSchema), "\n") {
			if rawDependent(ln) {
				out = append(out, ln)
			}
		}
	}
	return append(out, p.Suffix...)
}

func (p Project) Schema() string {
	if p.RawSchema != "" {
		return p.RawSchema
	}
	e, t := p.SchemaDecls()
	return strings.Join(append(append(e, t...), p.Suffix...), "\n") + "\n"
}

func (q PQuery) Text() string {
	return fmt.Sprintf("-- name: %s %s\n%s;\n", q.Name, q.Cmd, q.SQL)
}

func (p Project) QueryFile(qs []PQuery) string {
	var b strings.Builder
	for _, q := range qs {
		b.WriteString(q.Text())
		b.WriteString("\n")
	}
	return b.String()
}

func (p Project) goOptionsJSON() string {
	var parts []string
	var ks []string
	for k := range p.Opts {
		ks = append(ks, k)
	}
	sort.Strings(ks)
	for _, k := range ks {
		parts = append(parts, fmt.Sprintf("%q:%v", k, p.Opts[k]))
	}
	if p.CaseStyle != "" {
		parts = append(parts, fmt.Sprintf(`"json_tags_case_style":%q`, p.CaseStyle))
	}
	if len(p.Overrides) > 0 {
		parts = append(parts, `"overrides":[`+strings.Join(p.Overrides, ",")+`]`)
	}
	return strings.Join(parts, ",")
}

// ConfigV1 for a single Go package with schema/queries at the given paths
func (p Project) ConfigV1(schemaPath, queriesPath string) string {
	extra := p.goOptionsJSON()
	if extra != "" {
		extra = "," + extra
	}
	top := ""
	if len(p.Rename) > 0 {
		top = `,"rename":` + jsonStr(p.Rename)
	}
	return fmt.Sprintf(`{"version":"1","packages":[{"path":"db","name":"db","engine":%q,"schema":%s,"queries":%s%s}]%s}`, p.Engine, schemaPath, queriesPath, extra, top)
}

func (p Project) Files() map[string]string {
	if len(p.Second) > 0 {
		return map[string]string{"schema.sql": p.Schema(), "query.sql": p.QueryFile(p.Queries), "query2.sql": p.QueryFile(p.Second),
			"sqlc.json": p.ConfigV1(`"schema.sql"`, `["query.sql","query2.sql"]`)}
	}
	return map[string]string{"schema.sql": p.Schema(), "query.sql": p.QueryFile(p.Queries), "sqlc.json": p.ConfigV1(`"schema.sql"`, `"query.sql"`)}
}
