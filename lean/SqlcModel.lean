import SqlcModel.Props.C14
import SqlcModel.Props.C09
import SqlcModel.Props.C08
import SqlcModel.Props.C17
import SqlcModel.Props.C04
import SqlcModel.Props.C11
import SqlcModel.Props.C12
import SqlcModel.Props.C19
