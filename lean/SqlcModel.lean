import SqlcModel.Props.C14
