import SqlcModel.Driver.Json
import SqlcModel.Driver.C14
import SqlcModel.Driver.C09
import SqlcModel.Driver.C08
import SqlcModel.Driver.C17
import SqlcModel.Driver.C04
import SqlcModel.Driver.C11
import SqlcModel.Driver.C12
import SqlcModel.Driver.C03
import SqlcModel.Driver.L2Props
import SqlcModel.Driver.C01
import SqlcModel.Driver.C15
import SqlcModel.Driver.C18
import SqlcModel.Driver.C20
open Lean Sqlc.Drv

def dispatch (prop kind : String) (inp impl : Json) : Verdict :=
  match prop with
  | "C14" => c14 kind inp impl
  | "C09" => c09 kind inp impl
  | "C08" => c08 kind inp impl
  | "C17" => c17 kind inp impl
  | "C04" => c04 kind inp impl
  | "C11" => c11 kind inp impl
  | "C12" => c12 kind inp impl
  | "C03" => c03 kind inp impl
  | "C01" => c01 kind inp impl
  | "C15" => c15 kind inp impl
  | "C18" => c18 kind inp impl
  | "C20" => c20 kind inp impl
  | "C02" => c02 kind inp impl
  | "C05" => c05 kind inp impl
  | "C06" => c06 kind inp impl
  | "C07" => c07 kind inp impl
  | "C10" => c10 kind inp impl
  | _ => { compare := false, frag := "no-model" }

partial def loop (prop : String) (h : IO.FS.Stream) (out : IO.FS.Stream) : IO Unit := do
  let line ← h.getLine
  if line.isEmpty then return ()
  match Json.parse line with
  | .ok j =>
    let v := dispatch prop (jstr j "kind") (jobj j "in") (jobj j "impl")
    out.putStrLn (v.toJson (jstr j "id")).compress
  | .error e => out.putStrLn (Json.mkObj [("id", "?"), ("error", e)]).compress
  loop prop h out

def main (args : List String) : IO Unit := do
  let prop := args.headD ""
  loop prop (← IO.getStdin) (← IO.getStdout)
