-- REGENERATED from /repo by `vh extract` on every run. Do not edit.
namespace Sqlc.Gen
/-- return paths of v2ParseConfig (internal/config/v_two.go) -/
def v2ParsePaths : List (List String × String) := [
  (["if err := dec.Decode(&conf); err != nil"], "conf, err"),
  (["if conf.Version == \"\""], "conf, ErrMissingVersion"),
  (["if conf.Version != \"2\""], "conf, ErrUnknownVersion"),
  (["if len(conf.SQL) == 0"], "conf, ErrNoPackages"),
  (["if err := conf.validateGlobalOverrides(); err != nil"], "conf, err"),
  (["if conf.Gen.Go != nil", "range conf.Gen.Go.Overrides", "if err := conf.Gen.Go.Overrides[i].Parse(); err != nil"], "conf, err"),
  (["range conf.SQL", "if conf.SQL[j].Engine == \"\""], "conf, ErrMissingEngine"),
  (["range conf.SQL", "switch conf.SQL[j].Engine default"], "conf, ErrUnknownEngine"),
  (["range conf.SQL", "if conf.SQL[j].Gen.Go != nil", "if conf.SQL[j].Gen.Go.Out == \"\""], "conf, ErrNoPackagePath"),
  (["range conf.SQL", "if conf.SQL[j].Gen.Go != nil", "range conf.SQL[j].Gen.Go.Overrides", "if err := conf.SQL[j].Gen.Go.Overrides[i].Parse(); err != nil"], "conf, err"),
  (["range conf.SQL", "if conf.SQL[j].Gen.Kotlin != nil", "if conf.SQL[j].Gen.Kotlin.Out == \"\""], "conf, ErrKotlinNoOutPath"),
  (["range conf.SQL", "if conf.SQL[j].Gen.Kotlin != nil", "if conf.SQL[j].Gen.Kotlin.Package == \"\""], "conf, ErrNoPackageName"),
  (["range conf.SQL", "if conf.SQL[j].Gen.Python != nil", "range conf.SQL[j].Gen.Python.Overrides", "if err := conf.SQL[j].Gen.Python.Overrides[i].Parse(); err != nil"], "conf, err"),
  ([], "conf, nil")
]
/-- return paths of validateGlobalOverrides (internal/config/v_two.go) -/
def v2GlobalOverridePaths : List (List String × String) := [
  (["if c.Gen.Go == nil"], "nil"),
  (["range c.Gen.Go.Overrides", "if usesMultipleEngines && oride.Engine == \"\""], "fmt.Errorf(`the \"engine\" field is required for global type overrides because your configuration uses multiple database engines`)"),
  ([], "nil")
]
/-- return paths of v1ParseConfig (internal/config/v_one.go) -/
def v1ParsePaths : List (List String × String) := [
  (["if err := dec.Decode(&settings); err != nil"], "config, err"),
  (["if settings.Version == \"\""], "config, ErrMissingVersion"),
  (["if settings.Version != \"1\""], "config, ErrUnknownVersion"),
  (["if len(settings.Packages) == 0"], "config, ErrNoPackages"),
  (["if err := settings.ValidateGlobalOverrides(); err != nil"], "config, err"),
  (["range settings.Overrides", "if err := settings.Overrides[i].Parse(); err != nil"], "config, err"),
  (["range settings.Packages", "if settings.Packages[j].Path == \"\""], "config, ErrNoPackagePath"),
  (["range settings.Packages", "range settings.Packages[j].Overrides", "if err := settings.Packages[j].Overrides[i].Parse(); err != nil"], "config, err"),
  (["range settings.Packages", "switch settings.Packages[j].Engine default"], "config, ErrUnknownEngine"),
  ([], "settings.Translate(), nil")
]
/-- return paths of ParseConfig (internal/config/config.go) -/
def parseConfigPaths : List (List String × String) := [
  (["if err := dec.Decode(&version); err != nil"], "config, err"),
  (["if version.Number == \"\""], "config, ErrMissingVersion"),
  (["switch version.Number case \"1\""], "v1ParseConfig(&buf)"),
  (["switch version.Number case \"2\""], "v2ParseConfig(&buf)"),
  (["switch version.Number default"], "config, ErrUnknownVersion")
]
/-- return paths of Parse (internal/config/config.go) -/
def overrideParsePaths : List (List String × String) := [
  (["if o.Deprecated_PostgresType != \"\"", "if o.DBType != \"\""], "fmt.Errorf(`Type override configurations cannot have \"db_type\" and \"postres_type\" together. Use \"db_type\" alone`)"),
  (["switch  case o.Column != \"\" && o.DBType != \"\""], "fmt.Errorf(\"Override specifying both `column` (%q) and `db_type` (%q) is not valid.\", o.Column, o.DBType)"),
  (["switch  case o.Column == \"\" && o.DBType == \"\""], "fmt.Errorf(\"Override must specify one of either `column` or `db_type`\")"),
  (["if o.Column != \"\"", "switch len(colParts) default"], "fmt.Errorf(\"Override `column` specifier %q is not the proper format, expected '[catalog.][schema.]colname.tablename'\", o.Column)"),
  (["if err != nil"], "err"),
  ([], "nil")
]
/-- return paths of ParamRef (internal/sql/validate/param_ref.go) -/
def paramRefPaths : List (List String × String) := [
  (["for i := 1; i <= len(seen); i += 1", "if _, ok := seen[i]; !ok"], "&<lit>"),
  ([], "nil")
]
/-- body of ParamRef (internal/sql/validate/param_ref.go), one entry per top-level statement, blanks collapsed -/
def paramRefBody : List String := ["var allrefs []*ast.ParamRef", "astutils.Walk(astutils.VisitorFunc(func(node ast.Node) { switch n := node.(type) { case *ast.ParamRef: allrefs = append(allrefs, n) } }), n)", "seen := map[int]struct{}{}", "for _, r := range allrefs { seen[r.Number] = struct{}{} }", "for i := 1; i <= len(seen); i += 1 { if _, ok := seen[i]; !ok { return &sqlerr.Error{ Code: \"42P18\", Message: fmt.Sprintf(\"could not determine data type of parameter $%d\", i), } } }", "return nil"]
end Sqlc.Gen
