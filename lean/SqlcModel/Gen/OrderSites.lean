-- REGENERATED from /repo by `vh extract` on every run. Do not edit.
namespace Sqlc.Gen
/-- every `range` statement whose operand is a map, in the packages that produce output -/
def mapRangeSites : List String := [
  "internal/cmd/cmd.go:getConfigPath: range output",
  "internal/cmd/generate.go:Generate: range files",
  "internal/codegen/golang/field.go:Tag: range gf.Tags",
  "internal/codegen/golang/gen.go:generate: range files",
  "internal/codegen/golang/imports.go:interfaceImports: range pkg",
  "internal/codegen/golang/imports.go:interfaceImports: range std",
  "internal/codegen/golang/imports.go:interfaceImports: range stdlibTypes",
  "internal/codegen/golang/imports.go:modelImports: range pkg",
  "internal/codegen/golang/imports.go:modelImports: range std",
  "internal/codegen/golang/imports.go:modelImports: range stdlibTypes",
  "internal/codegen/golang/imports.go:queryImports: range pkg",
  "internal/codegen/golang/imports.go:queryImports: range std",
  "internal/codegen/golang/imports.go:queryImports: range stdlibTypes",
  "internal/codegen/kotlin/imports.go:interfaceImports: range std",
  "internal/codegen/kotlin/imports.go:modelImports: range std",
  "internal/codegen/kotlin/imports.go:queryImports: range std",
  "internal/codegen/python/gen.go:Generate: range files",
  "internal/codegen/python/imports.go:buildImportBlock: range fromImports",
  "internal/codegen/python/imports.go:buildImportBlock: range pkgs",
  "internal/sql/rewrite/parameters.go:NamedParameters: range args"
]
/-- every call into package sort, with its key expression -/
def sortSites : List String := [
  "internal/codegen/golang/field.go:Tag: sort.Strings(tags)",
  "internal/codegen/golang/imports.go:interfaceImports: sort.Slice(pkgs) by pkgs[i].Path < pkgs[j].Path",
  "internal/codegen/golang/imports.go:interfaceImports: sort.Slice(stds) by stds[i].Path < stds[j].Path",
  "internal/codegen/golang/imports.go:modelImports: sort.Slice(pkgs) by pkgs[i].Path < pkgs[j].Path",
  "internal/codegen/golang/imports.go:modelImports: sort.Slice(stds) by stds[i].Path < stds[j].Path",
  "internal/codegen/golang/imports.go:queryImports: sort.Slice(pkgs) by pkgs[i].Path < pkgs[j].Path",
  "internal/codegen/golang/imports.go:queryImports: sort.Slice(stds) by stds[i].Path < stds[j].Path",
  "internal/codegen/golang/result.go:buildEnums: sort.Slice(enums) by enums[i].Name < enums[j].Name",
  "internal/codegen/golang/result.go:buildQueries: sort.Slice(qs) by qs[i].MethodName < qs[j].MethodName",
  "internal/codegen/golang/result.go:buildStructs: sort.Slice(structs) by structs[i].Name < structs[j].Name",
  "internal/codegen/kotlin/gen.go:buildDataClasses: sort.Slice(structs) by structs[i].Name < structs[j].Name",
  "internal/codegen/kotlin/gen.go:buildEnums: sort.Slice(enums) by enums[i].Name < enums[j].Name",
  "internal/codegen/kotlin/gen.go:buildQueries: sort.Slice(qs) by qs[i].MethodName < qs[j].MethodName",
  "internal/codegen/kotlin/imports.go:interfaceImports: sort.Strings(stds)",
  "internal/codegen/kotlin/imports.go:modelImports: sort.Strings(stds)",
  "internal/codegen/kotlin/imports.go:queryImports: sort.Strings(stds)",
  "internal/codegen/python/gen.go:buildEnums: sort.Slice(enums) by enums[i].Name < enums[j].Name",
  "internal/codegen/python/gen.go:buildModels: sort.Slice(structs) by structs[i].Name < structs[j].Name",
  "internal/codegen/python/gen.go:buildQueries: sort.Slice(qs) by qs[i].MethodName < qs[j].MethodName",
  "internal/codegen/python/imports.go:buildImportBlock: sort.Strings(importStrings)",
  "internal/codegen/python/imports.go:buildImportBlock: sort.Strings(names)",
  "internal/compiler/parse.go:parseQuery: sort.Slice(refs) by refs[i].ref.Number < refs[j].ref.Number",
  "internal/source/code.go:Mutate: sort.Slice(a) by a[i].Location > a[j].Location"
]
end Sqlc.Gen
