-- REGENERATED from /repo by `vh extract` on every run. Do not edit.
namespace Sqlc.Gen
/-- one entry per `case` arm of postgresType: (spellings, result when notNull, result when nullable) -/
def pgTypeArms : List (List String × String × String) := [
  (["serial", "serial4", "pg_catalog.serial4"], "int32", "sql.NullInt32"),
  (["bigserial", "serial8", "pg_catalog.serial8"], "int64", "sql.NullInt64"),
  (["smallserial", "serial2", "pg_catalog.serial2"], "int16", "int16"),
  (["integer", "int", "int4", "pg_catalog.int4"], "int32", "sql.NullInt32"),
  (["bigint", "int8", "pg_catalog.int8"], "int64", "sql.NullInt64"),
  (["smallint", "int2", "pg_catalog.int2"], "int16", "int16"),
  (["float", "double precision", "float8", "pg_catalog.float8"], "float64", "sql.NullFloat64"),
  (["real", "float4", "pg_catalog.float4"], "float32", "sql.NullFloat64"),
  (["numeric", "pg_catalog.numeric", "money"], "string", "sql.NullString"),
  (["boolean", "bool", "pg_catalog.bool"], "bool", "sql.NullBool"),
  (["json", "jsonb"], "json.RawMessage", "json.RawMessage"),
  (["bytea", "blob", "pg_catalog.bytea"], "[]byte", "[]byte"),
  (["date"], "time.Time", "sql.NullTime"),
  (["pg_catalog.time", "pg_catalog.timetz"], "time.Time", "sql.NullTime"),
  (["pg_catalog.timestamp", "pg_catalog.timestamptz", "timestamptz"], "time.Time", "sql.NullTime"),
  (["text", "pg_catalog.varchar", "pg_catalog.bpchar", "string"], "string", "sql.NullString"),
  (["uuid"], "uuid.UUID", "uuid.UUID"),
  (["inet", "cidr"], "net.IP", "net.IP"),
  (["macaddr", "macaddr8"], "net.HardwareAddr", "net.HardwareAddr"),
  (["ltree", "lquery", "ltxtquery"], "string", "sql.NullString"),
  (["interval", "pg_catalog.interval"], "int64", "sql.NullInt64"),
  (["void"], "interface{}", "interface{}"),
  (["any"], "interface{}", "interface{}")
]
/-- likewise for mysqlType; the `tinyint` entry is the display-length ≠ 1 branch -/
def mysqlTypeArms : List (List String × String × String) := [
  (["varchar", "text", "char", "tinytext", "mediumtext", "longtext"], "string", "sql.NullString"),
  (["tinyint"], "int32", "sql.NullInt32"),
  (["int", "integer", "smallint", "mediumint", "year"], "int32", "sql.NullInt32"),
  (["bigint"], "int64", "sql.NullInt64"),
  (["blob", "binary", "varbinary", "tinyblob", "mediumblob", "longblob"], "[]byte", "[]byte"),
  (["double", "double precision", "real"], "float64", "sql.NullFloat64"),
  (["decimal", "dec", "fixed"], "string", "sql.NullString"),
  (["enum"], "string", "string"),
  (["date", "timestamp", "datetime", "time"], "time.Time", "sql.NullTime"),
  (["boolean", "bool"], "bool", "sql.NullBool"),
  (["json"], "json.RawMessage", "json.RawMessage"),
  (["any"], "interface{}", "interface{}")
]
def mysqlTinyint1 : List (List String × String × String) := [
  (["tinyint"], "bool", "sql.NullBool")
]
def arrayPrefix : String := "[]"
def stdlibTypes : List (String × String) := [("json.RawMessage", "encoding/json"), ("net.HardwareAddr", "net"), ("net.IP", "net"), ("time.Time", "time")]
end Sqlc.Gen
