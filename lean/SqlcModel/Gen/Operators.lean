-- REGENERATED from /repo by `vh extract` on every run. Do not edit.
namespace Sqlc.Gen
def comparisonOperators : List String := [">", "<", "<=", ">=", "=", "<>", "!="]
def mathematicalOperators : List String := ["+", "-", "*", "/", "%", "^", "|/", "||/", "!", "!!", "@", "&", "|", "#", "~", "<<", ">>"]
end Sqlc.Gen
