-- REGENERATED from /repo by `vh extract` on every run. Do not edit.
namespace Sqlc.Gen
def pgReserved : List String := [
  "all", "analyse", "analyze", "and", "any", "array", "as", "asc",
  "asymmetric", "authorization", "binary", "both", "case", "cast", "check", "collate",
  "collation", "column", "concurrently", "constraint", "create", "cross", "current_catalog", "current_date",
  "current_role", "current_schema", "current_time", "current_timestamp", "current_user", "default", "deferrable", "desc",
  "distinct", "do", "else", "end", "except", "false", "fetch", "for",
  "foreign", "freeze", "from", "full", "grant", "group", "having", "ilike",
  "in", "initially", "inner", "intersect", "into", "is", "isnull", "join",
  "lateral", "leading", "left", "like", "limit", "localtime", "localtimestamp", "natural",
  "not", "notnull", "null", "offset", "on", "only", "or", "order",
  "outer", "overlaps", "placing", "primary", "references", "returning", "right", "select",
  "session_user", "similar", "some", "symmetric", "table", "tablesample", "then", "to",
  "trailing", "true", "union", "unique", "user", "using", "variadic", "verbose",
  "when", "where", "window", "with"
]
def pgReservedLowercases : Bool := true
def mysqlReserved : List String := [
  "accessible", "add", "all", "alter", "analyze", "and", "as", "asc",
  "asensitive", "before", "between", "bigint", "binary", "blob", "both", "by",
  "call", "cascade", "case", "change", "char", "character", "check", "collate",
  "column", "condition", "constraint", "continue", "convert", "create", "cross", "cube",
  "cume_dist", "current_date", "current_time", "current_timestamp", "current_user", "cursor", "database", "databases",
  "day_hour", "day_microsecond", "day_minute", "day_second", "dec", "decimal", "declare", "default",
  "delayed", "delete", "dense_rank", "desc", "describe", "deterministic", "distinct", "distinctrow",
  "div", "double", "drop", "dual", "each", "else", "elseif", "empty",
  "enclosed", "escaped", "except", "exists", "exit", "explain", "false", "fetch",
  "first_value", "float", "float4", "float8", "for", "force", "foreign", "from",
  "fulltext", "function", "generated", "get", "grant", "group", "grouping", "groups",
  "having", "high_priority", "hour_microsecond", "hour_minute", "hour_second", "if", "ignore", "in",
  "index", "infile", "inner", "inout", "insensitive", "insert", "int", "int1",
  "int2", "int3", "int4", "int8", "integer", "interval", "into", "io_after_gtids",
  "io_before_gtids", "is", "iterate", "join", "json_table", "key", "keys", "kill",
  "lag", "last_value", "lateral", "lead", "leading", "leave", "left", "like",
  "limit", "linear", "lines", "load", "localtime", "localtimestamp", "lock", "long",
  "longblob", "longtext", "loop", "low_priority", "master_bind", "master_ssl_verify_server_cert", "match", "maxvalue",
  "mediumblob", "mediumint", "mediumtext", "middleint", "minute_microsecond", "minute_second", "mod", "modifies",
  "natural", "not", "no_write_to_binlog", "nth_value", "ntile", "null", "numeric", "of",
  "on", "optimize", "optimizer_costs", "option", "optionally", "or", "order", "out",
  "outer", "outfile", "over", "partition", "percent_rank", "precision", "primary", "procedure",
  "purge", "range", "rank", "read", "reads", "read_write", "real", "recursive",
  "references", "regexp", "release", "rename", "repeat", "replace", "require", "resignal",
  "restrict", "return", "revoke", "right", "rlike", "row", "rows", "row_number",
  "schema", "schemas", "second_microsecond", "select", "sensitive", "separator", "set", "show",
  "signal", "smallint", "spatial", "specific", "sql", "sqlexception", "sqlstate", "sqlwarning",
  "sql_big_result", "sql_calc_found_rows", "sql_small_result", "ssl", "starting", "stored", "straight_join", "system",
  "table", "terminated", "then", "tinyblob", "tinyint", "tinytext", "to", "trailing",
  "trigger", "true", "undo", "union", "unique", "unlock", "unsigned", "update",
  "usage", "use", "using", "utc_date", "utc_time", "utc_timestamp", "values", "varbinary",
  "varchar", "varcharacter", "varying", "virtual", "when", "where", "while", "window",
  "with", "write", "xor", "year_month", "zerofill"
]
def mysqlReservedLowercases : Bool := true
def sqliteReserved : List String := [
  "abort", "action", "add", "after", "all", "alter", "always", "analyze",
  "and", "as", "asc", "attach", "autoincrement", "before", "begin", "between",
  "by", "cascade", "case", "cast", "check", "collate", "column", "commit",
  "conflict", "constraint", "create", "cross", "current", "current_date", "current_time", "current_timestamp",
  "database", "default", "deferrable", "deferred", "delete", "desc", "detach", "distinct",
  "do", "drop", "each", "else", "end", "escape", "except", "exclude",
  "exclusive", "exists", "explain", "fail", "filter", "first", "following", "for",
  "foreign", "from", "full", "generated", "glob", "group", "groups", "having",
  "if", "ignore", "immediate", "in", "index", "indexed", "initially", "inner",
  "insert", "instead", "intersect", "into", "is", "isnull", "join", "key",
  "last", "left", "like", "limit", "match", "natural", "no", "not",
  "nothing", "notnull", "null", "nulls", "of", "offset", "on", "or",
  "order", "others", "outer", "over", "partition", "plan", "pragma", "preceding",
  "primary", "query", "raise", "range", "recursive", "references", "regexp", "reindex",
  "release", "rename", "replace", "restrict", "right", "rollback", "row", "rows",
  "savepoint", "select", "set", "table", "temp", "temporary", "then", "ties",
  "to", "transaction", "trigger", "unbounded", "union", "unique", "update", "using",
  "vacuum", "values", "view", "virtual", "when", "where", "window", "with",
  "without"
]
def sqliteReservedLowercases : Bool := true
end Sqlc.Gen
