-- REGENERATED from /repo by `vh extract` on every run. Do not edit.
namespace Sqlc.Gen
/-- source shapes the translator could not match; the obligation `untranslatable = []` is part of every check -/
def untranslatable : List String := []
end Sqlc.Gen
