-- REGENERATED from /repo by `vh extract` on every run. Do not edit.
namespace Sqlc.Gen
/-- source shapes the translator could not match; the obligation `untranslatable = []` is part of every check -/
def untranslatable : List String := ["imports.go: modelImports has 6 uses/usesType/sliceScan calls, 4 in a recognised rule shape", "imports.go: queryImports has 7 uses/usesType/sliceScan calls, 5 in a recognised rule shape"]
end Sqlc.Gen
