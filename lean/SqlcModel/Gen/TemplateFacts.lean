-- REGENERATED from /repo by `vh extract` on every run. Do not edit.
namespace Sqlc.Gen
/-- per `{{if eq .Cmd …}}` block of queryCode / interfaceCode:
 (cmd, method results, interface results, driver entry with prepared queries, driver entry without,
  number of `err != nil` checks, checked rows.Close, checked rows.Err, has Scan, defer rows.Close) -/
def templateContract : List (String × String × String × String × String × Nat × Bool × Bool × Bool × Bool) := [
  (":exec", "error", "error", "exec", "ExecContext", 0, false, false, false, false),
  (":execresult", "(sql.Result, error)", "(sql.Result, error)", "exec", "ExecContext", 0, false, false, false, false),
  (":execrows", "(int64, error)", "(int64, error)", "exec", "ExecContext", 1, false, false, false, false),
  (":many", "([]T, error)", "([]T, error)", "query", "QueryContext", 4, true, true, true, true),
  (":one", "(T, error)", "(T, error)", "queryRow", "QueryRowContext", 0, false, false, true, false)
]
def templateFixedIdents : List String := ["Close", "DBTX", "New", "Prepare", "Querier", "Queries", "WithTx", "exec", "query", "queryRow"]
def templateHasQuerierAssertion : Bool := true
end Sqlc.Gen
