-- REGENERATED from /repo by `vh extract` on every run. Do not edit.
namespace Sqlc.Gen
def cmdConstants : List String := [":exec", ":execresult", ":execrows", ":many", ":one"]
def cmdAccepted : List String := [":exec", ":execresult", ":execrows", ":many", ":one"]
def namePrefixes : List String := ["-- name:", "/* name:", "# name:"]
/-- (engine, dash, hash, slashStar) from each parser's CommentSyntax() -/
def commentSyntax : List (String × Bool × Bool × Bool) := [("postgresql", true, false, true), ("mysql", true, true, true), ("sqlite", true, false, false)]
def cmdNeedsReturning : List String := [":many", ":one"]
end Sqlc.Gen
