-- REGENERATED from /repo by `vh extract` on every run. Do not edit.
namespace Sqlc.Gen
def cmdConstants : List String := [":exec", ":execresult", ":execrows", ":many", ":one"]
def cmdAccepted : List String := [":exec", ":execresult", ":execrows", ":many", ":one"]
def cmdAcceptedB : List (List UInt8) := [[58, 101, 120, 101, 99], [58, 101, 120, 101, 99, 114, 101, 115, 117, 108, 116], [58, 101, 120, 101, 99, 114, 111, 119, 115], [58, 109, 97, 110, 121], [58, 111, 110, 101]]
def namePrefixes : List String := ["-- name:", "/* name:", "# name:"]
/-- (engine, dash, hash, slashStar) from each parser's CommentSyntax() -/
def commentSyntax : List (String × Bool × Bool × Bool) := [("postgresql", true, false, true), ("mysql", true, true, true), ("sqlite", true, false, false)]
def cmdNeedsReturning : List String := [":many", ":one"]
end Sqlc.Gen
