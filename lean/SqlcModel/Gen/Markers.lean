-- REGENERATED from /repo by `vh extract` on every run. Do not edit.
namespace Sqlc.Gen
/-- literal prefixes that end the `up` part of a migration (internal/migrations/migrations.go) -/
def rollbackMarkers : List String := ["-- +goose Down", "-- +migrate Down", "---- create above / drop below ----", "-- migrate:down"]
def rollbackMarkersB : List (List UInt8) := [[45, 45, 32, 43, 103, 111, 111, 115, 101, 32, 68, 111, 119, 110], [45, 45, 32, 43, 109, 105, 103, 114, 97, 116, 101, 32, 68, 111, 119, 110], [45, 45, 45, 45, 32, 99, 114, 101, 97, 116, 101, 32, 97, 98, 111, 118, 101, 32, 47, 32, 100, 114, 111, 112, 32, 98, 101, 108, 111, 119, 32, 45, 45, 45, 45], [45, 45, 32, 109, 105, 103, 114, 97, 116, 101, 58, 100, 111, 119, 110]]
def downSuffixB : List UInt8 := [46, 100, 111, 119, 110, 46, 115, 113, 108]
def globSuffixB : List UInt8 := [46, 115, 113, 108]
def globHiddenPrefixB : List UInt8 := [46]
def downSuffix : String := ".down.sql"
def globSuffix : String := ".sql"
def globHiddenPrefix : String := "."
end Sqlc.Gen
