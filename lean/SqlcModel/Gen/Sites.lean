-- REGENERATED from /repo by `vh extract` on every run. Do not edit.
namespace Sqlc.Gen
end Sqlc.Gen
