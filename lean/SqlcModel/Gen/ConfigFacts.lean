-- REGENERATED from /repo by `vh extract` on every run. Do not edit.
namespace Sqlc.Gen
/-- (field, type, json tag, yaml tag) -/
def v1PackageFields : List (String × String × String × String) := [
  ("Name", "string", "name", "name"),
  ("Engine", "Engine", "engine", "engine"),
  ("Path", "string", "path", "path"),
  ("Schema", "Paths", "schema", "schema"),
  ("Queries", "Paths", "queries", "queries"),
  ("EmitInterface", "bool", "emit_interface", "emit_interface"),
  ("EmitJSONTags", "bool", "emit_json_tags", "emit_json_tags"),
  ("EmitDBTags", "bool", "emit_db_tags", "emit_db_tags"),
  ("EmitPreparedQueries", "bool", "emit_prepared_queries", "emit_prepared_queries"),
  ("EmitExactTableNames", "bool", "emit_exact_table_names", "emit_exact_table_names"),
  ("EmitEmptySlices", "bool", "emit_empty_slices", "emit_empty_slices"),
  ("JSONTagsCaseStyle", "string", "json_tags_case_style", "json_tags_case_style"),
  ("Overrides", "<*ast.ArrayType>", "overrides", "overrides")
]
def sqlGoFields : List (String × String × String × String) := [
  ("EmitInterface", "bool", "emit_interface", "emit_interface"),
  ("EmitJSONTags", "bool", "emit_json_tags", "emit_json_tags"),
  ("EmitDBTags", "bool", "emit_db_tags", "emit_db_tags"),
  ("EmitPreparedQueries", "bool", "emit_prepared_queries", "emit_prepared_queries"),
  ("EmitExactTableNames", "bool", "emit_exact_table_names", "emit_exact_table_names"),
  ("EmitEmptySlices", "bool", "emit_empty_slices", "emit_empty_slices"),
  ("JSONTagsCaseStyle", "string", "json_tags_case_style", "json_tags_case_style"),
  ("Package", "string", "package", "package"),
  ("Out", "string", "out", "out"),
  ("Overrides", "<*ast.ArrayType>", "overrides", "overrides"),
  ("Rename", "<*ast.MapType>", "rename", "rename")
]
def sqlFields : List (String × String × String × String) := [
  ("Engine", "Engine", "engine", "engine"),
  ("Schema", "Paths", "schema", "schema"),
  ("Queries", "Paths", "queries", "queries"),
  ("Gen", "SQLGen", "gen", "gen")
]
def v1TopFields : List (String × String × String × String) := [
  ("Version", "string", "version", "version"),
  ("Packages", "<*ast.ArrayType>", "packages", "packages"),
  ("Overrides", "<*ast.ArrayType>", "overrides", "overrides"),
  ("Rename", "<*ast.MapType>", "rename", "rename")
]
/-- assignments inside Translate(): (target struct, target field, source field of the v1 package) -/
def translateFlows : List (String × String × String) := [("SQL", "Engine", "Engine"), ("SQL", "Schema", "Schema"), ("SQL", "Queries", "Queries"), ("SQLGo", "EmitInterface", "EmitInterface"), ("SQLGo", "EmitJSONTags", "EmitJSONTags"), ("SQLGo", "EmitDBTags", "EmitDBTags"), ("SQLGo", "EmitPreparedQueries", "EmitPreparedQueries"), ("SQLGo", "EmitExactTableNames", "EmitExactTableNames"), ("SQLGo", "EmitEmptySlices", "EmitEmptySlices"), ("SQLGo", "Package", "Name"), ("SQLGo", "Out", "Path"), ("SQLGo", "Overrides", "Overrides"), ("SQLGo", "JSONTagsCaseStyle", "JSONTagsCaseStyle")]
def translateTopFlows : List (String × String × String) := [("GenGo", "Overrides", "Overrides"), ("GenGo", "Rename", "Rename")]
def combineFlows : List String := ["cs.Rename <- conf.Gen.Go.Rename", "cs.Overrides <- append(cs.Overrides, conf.Gen.Go.Overrides)", "cs.Rename <- conf.Gen.Kotlin.Rename", "cs.Overrides <- append(cs.Overrides, pkg.Gen.Go.Overrides)", "cs.Overrides <- append(cs.Overrides, pkg.Gen.Python.Overrides)"]
end Sqlc.Gen
