-- REGENERATED from /repo by `vh extract` on every run. Do not edit.
namespace Sqlc.Gen
/-- facts read off cmd.Generate's package loop -/
def parseFailSetsErrored : Bool := true
def parseFailAction : String := "brk"
def genFailSetsErrored : Bool := true
def genFailAction : String := "cont"
def gateAfterLoop : Bool := true
def gateReturnsNilAndError : Bool := true
def finalReturnIsOutput : Bool := true
def outputWritesOffSuccessPath : Nat := 0
def genCmdExitsOnError : Bool := true
def genCmdWritesOnlyAfterCheck : Bool := true
def checkCmdExitsOnError : Bool := true
def checkCmdWriteCalls : Nat := 0
def printFileErrName : String := "filename := strings.TrimPrefix(fileErr.Filename, dir + \"/\")"
def printFileErrFormat : String := "\"%s:%d:%d: %s\\n\""
def printFileErrArgs : String := "filename, fileErr.Line, fileErr.Column, fileErr.Err"
end Sqlc.Gen
