/-
L4 — config.v2ParseConfig after decoding: which configurations are rejected, and with which error.
The override objects are opaque here (`overridesOk` = every `Override.Parse` of the list succeeds; C15 looks
inside); what is modelled is the order and the placement of the checks over entries and gen targets.
-/
namespace Sqlc.Cfg.V2

inductive CfgErr where
  | missingVersion | unknownVersion | noPackages | globalOverride | badOverride
  | missingEngine | unknownEngine | noPackagePath | kotlinNoOutPath | noPackageName
deriving Repr, DecidableEq, Inhabited

def CfgErr.name : CfgErr → String
  | .missingVersion => "missingVersion" | .unknownVersion => "unknownVersion" | .noPackages => "noPackages"
  | .globalOverride => "globalOverride" | .badOverride => "badOverride" | .missingEngine => "missingEngine"
  | .unknownEngine => "unknownEngine" | .noPackagePath => "noPackagePath" | .kotlinNoOutPath => "kotlinNoOutPath"
  | .noPackageName => "noPackageName"

structure GoT where
  out : String
  pkg : String
  overridesOk : Bool
deriving Repr, DecidableEq

structure KtT where
  out : String
  pkg : String
deriving Repr, DecidableEq

structure PyT where
  overridesOk : Bool
deriving Repr, DecidableEq

structure Entry where
  engine : String
  go : Option GoT := none
  kotlin : Option KtT := none
  python : Option PyT := none
deriving Repr, DecidableEq

structure Conf where
  version : String
  hasGlobalGo : Bool          -- an `overrides.go` block is present
  globalUntagged : Bool       -- some global override has no `engine`
  globalOverridesOk : Bool    -- every global override parses
  entries : List Entry
deriving Repr

def knownEngines : List String := ["mysql", "postgresql", "_lemon"]

def checkGo : Option GoT → Option CfgErr
  | none => none
  | some g => if g.out == "" then some .noPackagePath else if !g.overridesOk then some .badOverride else none

def checkKotlin : Option KtT → Option CfgErr
  | none => none
  | some k => if k.out == "" then some .kotlinNoOutPath else if k.pkg == "" then some .noPackageName else none

def checkPython : Option PyT → Option CfgErr
  | none => none
  | some p => if !p.overridesOk then some .badOverride else none

/-- the body of `for j := range conf.SQL` -/
def validateEntry (e : Entry) : Option CfgErr :=
  if e.engine == "" then some .missingEngine
  else if !knownEngines.contains e.engine then some .unknownEngine
  else match checkGo e.go with
    | some x => some x
    | none => match checkKotlin e.kotlin with
      | some x => some x
      | none => checkPython e.python

def validateEntries : List Entry → Option CfgErr
  | [] => none
  | e :: es => match validateEntry e with
    | some x => some x
    | none => validateEntries es

def usesMultipleEngines (es : List Entry) : Bool := (es.map (·.engine)).eraseDups.length > 1

/-- v2ParseConfig after a successful decode -/
def parse (c : Conf) : Option CfgErr :=
  if c.version == "" then some .missingVersion
  else if c.version != "2" then some .unknownVersion
  else if c.entries.isEmpty then some .noPackages
  else if c.hasGlobalGo && usesMultipleEngines c.entries && c.globalUntagged then some .globalOverride
  else if c.hasGlobalGo && !c.globalOverridesOk then some .badOverride
  else validateEntries c.entries

def goOk : Option GoT → Bool
  | none => true
  | some g => g.out != "" && g.overridesOk
def kotlinOk : Option KtT → Bool
  | none => true
  | some k => k.out != "" && k.pkg != ""
def pythonOk : Option PyT → Bool
  | none => true
  | some p => p.overridesOk

/-- an entry none of whose gen targets is at fault -/
def entryOk (e : Entry) : Bool :=
  e.engine != "" && knownEngines.contains e.engine && goOk e.go && kotlinOk e.kotlin && pythonOk e.python

end Sqlc.Cfg.V2
