/-
Model of internal/config/go_type.go: GoType.Parse (string form and object form) and generatePackageID.
Strings are character lists; the fragment is ASCII (strings.ToLower and the regular expressions are
ASCII-exact there). Errors are collapsed to `none` (the implementation's messages are not compared).
-/
namespace Sqlc.Config

structure Parsed where
  importPath : List Char := []
  pkg : List Char := []
  typeName : List Char := []
  basic : Bool := false
deriving Repr, DecidableEq, Inhabited

/-- go/types.Typ entries with non-zero, non-untyped info: the basic types Parse accepts -/
def basicTypes : List String :=
  ["bool", "int", "int8", "int16", "int32", "int64", "uint", "uint8", "uint16", "uint32", "uint64", "uintptr",
   "float32", "float64", "complex64", "complex128", "string"]

/-- strings.LastIndex(input, c) for a single character -/
def lastIndexOf (c : Char) : List Char → Nat → Option Nat → Option Nat
  | [], _, acc => acc
  | x :: xs, i, acc => lastIndexOf c xs (i + 1) (if x == c then some i else acc)

def lastIndex (c : Char) (l : List Char) : Option Nat := lastIndexOf c l 0 none

def isIdentChar (c : Char) : Bool := c.isAlphanum || c == '_'

def splitOn (c : Char) : List Char → List (List Char)
  | [] => [[]]
  | x :: xs =>
    match splitOn c xs with
    | [] => [[]]            -- unreachable
    | h :: t => if x == c then [] :: h :: t else (x :: h) :: t

/-- `^v[0-9]+$` -/
def isVersion : List Char → Bool
  | 'v' :: d :: ds => (d :: ds).all Char.isDigit
  | _ => false

def sanitize (l : List Char) : List Char := (l.map Char.toLower).map (fun c => if isIdentChar c then c else '_')

def generatePackageID (importPath : List Char) : List Char × Bool :=
  let parts := splitOn '/' importPath
  let name := parts.getLastD []
  if isVersion name && parts.length ≥ 2 then (sanitize (parts.getD (parts.length - 2) []), true)
  else if name != [] && name.all isIdentChar then (name, false)
  else (sanitize name, true)

def hasPrefix (p l : List Char) : Bool := p.isPrefixOf l
def hasSuffix (p l : List Char) : Bool := p.reverse.isPrefixOf l.reverse

/-- the object form `{import, package, type, pointer}` -/
def parseObject (path pkgIn name : List Char) (pointer : Bool) : Option Parsed :=
  if path == [] && pkgIn != [] then none else
  let (pkg, outPkg) : List Char × List Char :=
    if pkgIn == [] && path != [] then
      let (p, needsAlias) := generatePackageID path
      (p, if needsAlias then p else [])
    else (pkgIn, pkgIn)
  let tn := if pkg != [] then pkg ++ '.' :: name else name
  let tn := if pointer then '*' :: tn else tn
  some { importPath := path, pkg := outPkg, typeName := tn, basic := path == [] && pkgIn == [] }

/-- the string form -/
def parseSpec (input : List Char) : Option Parsed :=
  let lastDot := lastIndex '.' input
  let lastSlash := lastIndex '/' input
  match lastDot, lastSlash with
  | none, none =>
    if basicTypes.contains (String.ofList input) then
      -- (`input[0]` on the empty string panics in Go; the empty spec never reaches here: Spec == "" selects the object form)
      some { typeName := input, basic := true }
    else none
  | none, some _ => none
  | some _, none => none
  | some d, some s =>
    let tn := input.drop (s + 1)
    let tn := if hasPrefix "go-".toList tn then tn.drop 3 else tn
    let tn := if hasSuffix "-go".toList tn then tn.take (tn.length - 3) else tn
    let ip := input.take d
    match input with
    | '*' :: _ => some { importPath := ip.drop 1, typeName := '*' :: tn }
    | _ => some { importPath := ip, typeName := tn }

end Sqlc.Config
