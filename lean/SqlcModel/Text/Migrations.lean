import SqlcModel.Text.Lines
import SqlcModel.Gen.Markers
/-
Model of internal/migrations/migrations.go and internal/sql/sqlpath/read.go.
The marker / suffix literals are REGENERATED from the Go source (`Gen.Markers`); the scan-loop shape
(break at the first line having a marker as prefix, join the kept lines with "\n") is checked by the
translator and tied by the C14 correspondence stream.
-/
namespace Sqlc

def isMarker (l : Bytes) : Bool := Gen.rollbackMarkersB.any (fun m => m.isPrefixOf l)

/-- migrations.RemoveRollbackStatements -/
def removeRollback (s : Bytes) : Bytes :=
  joinNL ((scanLines s).takeWhile (fun l => !isMarker l))

def hasSuffix (suf s : Bytes) : Bool := suf.reverse.isPrefixOf s.reverse

/-- migrations.IsDown -/
def isDown (name : Bytes) : Bool := hasSuffix Gen.downSuffixB name

def SLASH : UInt8 := 47

/-- filepath.Base for clean, non-empty, slash-separated paths without trailing slash -/
def baseName (p : Bytes) : Bytes := (p.reverse.takeWhile (· ≠ SLASH)).reverse

/-- the filter of sqlpath.Glob -/
def keepFile (p : Bytes) : Bool :=
  hasSuffix Gen.globSuffixB p && !(Gen.globHiddenPrefixB.isPrefixOf (baseName p)) && !isDown (baseName p)

/-- bytewise lexicographic order = Go's `<` on strings, which `ioutil.ReadDir` sorts by -/
def bytesLE : Bytes → Bytes → Bool
  | [], _ => true
  | _ :: _, [] => false
  | a :: as, b :: bs => if a < b then true else if b < a then false else bytesLE as bs

inductive PathKind where
  | missing
  | file
  | dir (names : List Bytes)     -- the entries, in any order; ReadDir returns them sorted

def joinPath (d n : Bytes) : Bytes := d ++ SLASH :: n

/-- first loop of Glob: expand directories (one level, ReadDir order), keep listed files in list order -/
def expandPaths (stat : Bytes → PathKind) : List Bytes → Except Bytes (List Bytes)
  | [] => .ok []
  | p :: ps =>
    match stat p with
    | .missing => .error p
    | .file => (expandPaths stat ps).map (p :: ·)
    | .dir names => (expandPaths stat ps).map ((names.mergeSort bytesLE).map (joinPath p) ++ ·)

/-- sqlpath.Glob -/
def glob (stat : Bytes → PathKind) (paths : List Bytes) : Except Bytes (List Bytes) :=
  (expandPaths stat paths).map (·.filter keepFile)

/-- parseCatalog's two nested loops, generic in the per-statement update: errors are collected and
the failing statement is skipped (`merr.Add …; continue`). -/
def applyStmts {σ α ε : Type} (upd : σ → α → Except ε σ) (st : σ × List ε) (stmts : List α) : σ × List ε :=
  stmts.foldl (fun (acc : σ × List ε) s =>
    match upd acc.1 s with
    | .ok c' => (c', acc.2)
    | .error e => (acc.1, acc.2 ++ [e])) st

def parseCatalogFiles {σ α ε : Type} (upd : σ → α → Except ε σ) (c : σ) (files : List (List α)) : σ × List ε :=
  files.foldl (applyStmts upd) (c, [])

end Sqlc
