import SqlcModel.Text.Source
import SqlcModel.Gen.MetaFacts
/-
L0 — model of internal/metadata/meta.go (Parse, validateQueryName). The accepted command set, the
`name:` prefixes and the per-engine comment syntax are REGENERATED (`Gen.MetaFacts`).
Exact for ASCII input (strings.TrimSpace / unicode.IsLetter on non-ASCII runes are out of fragment).
-/
namespace Sqlc

structure CommentSyntax where
  dash : Bool
  hash : Bool
  slashStar : Bool
deriving Repr, DecidableEq

inductive MetaErr where
  | missingType | invalidComment | invalidType | invalidName
deriving Repr, DecidableEq

inductive MetaResult where
  | none                                  -- no annotation: the statement yields no method
  | ok (name cmd : Bytes)
  | err (e : MetaErr)
deriving Repr, DecidableEq

def SP : UInt8 := 32

/-- strings.Split(s, " ") -/
def splitSpace : Bytes → List Bytes
  | [] => [[]]
  | c :: cs =>
    if c = SP then [] :: splitSpace cs
    else match splitSpace cs with
      | [] => [[c]]
      | l :: ls => (c :: l) :: ls

def isLetterB (b : UInt8) : Bool := (65 ≤ b && b ≤ 90) || (97 ≤ b && b ≤ 122) || b = 95
def isDigitB (b : UInt8) : Bool := 48 ≤ b && b ≤ 57

/-- validateQueryName on ASCII -/
def validQueryName : Bytes → Bool
  | [] => false
  | c :: cs => isLetterB c && cs.all (fun b => isLetterB b || isDigitB b)

def cmdsB : List Bytes := Gen.cmdAcceptedB

def pHash : Bytes := b! "#"
def pHashName : Bytes := b! "# name:"

/-- the prefix test at the head of Parse's loop body: `some prefix` when the line is a comment line
of an enabled style, `none` when the line is skipped -/
def annotationPrefix (cs : CommentSyntax) (line : Bytes) : Option Bytes :=
  -- the three `if HasPrefix` blocks run in sequence; a disabled style `continue`s at once
  if hasPrefix pDash line && !cs.dash then none
  else
    let p1 : Bytes := if hasPrefix pDash line then pDashName else []
    if hasPrefix pSlash line && !cs.slashStar then none
    else
      let p2 : Bytes := if hasPrefix pSlash line then pSlashName else p1
      if hasPrefix pHash line && !cs.hash then none
      else
        let p3 : Bytes := if hasPrefix pHash line then pHashName else p2
        if p3.isEmpty then none else if !hasPrefix p3 line then none else some p3

def annotationParts (line : Bytes) : List Bytes :=
  let part0 := splitSpace (trimSpace line)
  if hasPrefix pSlash line then part0.dropLast else part0

/-- what Parse does with one annotation line -/
def parseLine (line : Bytes) : MetaResult :=
  if (annotationParts line).length = 2 then .err .missingType
  else if (annotationParts line).length ≠ 4 then .err .invalidComment
  else if !cmdsB.contains (trimSpace ((annotationParts line).getD 3 [])) then .err .invalidType
  else if !validQueryName ((annotationParts line).getD 2 []) then .err .invalidName
  else .ok ((annotationParts line).getD 2 []) (trimSpace ((annotationParts line).getD 3 []))

/-- metadata.Parse: the first annotation line decides -/
def parseLines (cs : CommentSyntax) : List Bytes → MetaResult
  | [] => .none
  | line :: rest =>
    match annotationPrefix cs line with
    | none => parseLines cs rest
    | some _ => parseLine line

def metaParse (t : Bytes) (cs : CommentSyntax) : MetaResult := parseLines cs (splitNL t)

def commentSyntaxOf (engine : String) : CommentSyntax :=
  match Gen.commentSyntax.find? (·.1 == engine) with
  | some (_, d, h, s) => { dash := d, hash := h, slashStar := s }
  | none => { dash := false, hash := false, slashStar := false }

end Sqlc
