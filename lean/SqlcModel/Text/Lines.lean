/-
L0 text layer: bytes, lines, the `bufio.Scanner`/`ScanLines` model used by
`migrations.RemoveRollbackStatements` and `source.StripComments`, and `strings.Split(_, "\n")`.
Go `string` = `List UInt8`.
-/
namespace Sqlc

abbrev Bytes := List UInt8

def NL : UInt8 := 10
def CR : UInt8 := 13

def B (s : String) : Bytes := s.toUTF8.toList

open Lean in
/-- `b! "abc"` elaborates to the literal byte list `[97, 98, 99]`, so that `decide` can evaluate
witnesses in the kernel (`String.toUTF8` does not reduce there). -/
macro "b!" s:str : term => do
  let bs := s.getString.toUTF8.toList
  let elems ← bs.mapM (fun b => `(($(Syntax.mkNumLit (toString b.toNat)) : UInt8)))
  `([$elems.toArray,*])

def bytesToString (b : Bytes) : String := String.fromUTF8! (ByteArray.mk b.toArray)

/-- `strings.Split(s, "\n")`: always at least one segment. -/
def splitNL : Bytes → List Bytes
  | [] => [[]]
  | c :: cs =>
    if c = NL then [] :: splitNL cs
    else match splitNL cs with
      | [] => [[c]]
      | l :: ls => (c :: l) :: ls

/-- `strings.Join(ls, "\n")` -/
def joinNL : List Bytes → Bytes
  | [] => []
  | [l] => l
  | l :: ls => l ++ NL :: joinNL ls

def dropCR (l : Bytes) : Bytes :=
  if l.getLast? = some CR then l.dropLast else l

/-- the tokens `bufio.Scanner` with `ScanLines` yields (ignoring the 64 KiB token limit, see
`LongLine`): segments between newlines, a final empty segment is not a token, one trailing CR is
dropped from each token. -/
def scanLines (s : Bytes) : List Bytes :=
  let segs := splitNL s
  let segs := if segs.getLast? = some [] then segs.dropLast else segs
  segs.map dropCR

/-- the scanner gives up (silently, because callers ignore `s.Err()`) at the first line whose
length reaches the token limit -/
def maxToken : Nat := 65536
def hasLongLine (s : Bytes) : Bool := (splitNL s).any (fun l => l.length ≥ maxToken - 1)

theorem splitNL_ne_nil (s : Bytes) : splitNL s ≠ [] := by
  induction s with
  | nil => simp [splitNL]
  | cons c cs ih =>
    unfold splitNL
    split
    · simp
    · split <;> simp

theorem joinNL_splitNL (s : Bytes) : joinNL (splitNL s) = s := by
  induction s with
  | nil => simp [splitNL, joinNL]
  | cons c cs ih =>
    unfold splitNL
    split
    · rename_i h
      have hne := splitNL_ne_nil cs
      cases hs : splitNL cs with
      | nil => exact absurd hs hne
      | cons l ls => rw [hs] at ih; simp [joinNL, ih, h]
    · have hne := splitNL_ne_nil cs
      cases hs : splitNL cs with
      | nil => exact absurd hs hne
      | cons l ls =>
        rw [hs] at ih
        cases ls with
        | nil => simp [joinNL] at ih ⊢; exact ih
        | cons l2 ls2 => simp [joinNL] at ih ⊢; exact ih

/-- no segment of `splitNL` contains a newline -/
theorem splitNL_no_nl (s : Bytes) : ∀ l ∈ splitNL s, NL ∉ l := by
  induction s with
  | nil => simp [splitNL]
  | cons c cs ih =>
    unfold splitNL
    split
    · intro l hl
      simp at hl
      rcases hl with rfl | hl
      · simp
      · exact ih l hl
    · rename_i hc
      have hne := splitNL_ne_nil cs
      cases hs : splitNL cs with
      | nil => exact absurd hs hne
      | cons l0 ls =>
        rw [hs] at ih
        intro l hl
        simp at hl
        rcases hl with rfl | hl
        · intro hm
          simp at hm
          rcases hm with h | h
          · exact hc h.symm
          · exact ih l0 (by simp) h
        · exact ih l (by simp [hl])

theorem mem_takeWhile_pos {α : Type} {p : α → Bool} {l : List α} {a : α} (h : a ∈ l.takeWhile p) : p a = true := by
  have := List.all_takeWhile (l := l) (p := p)
  rw [List.all_eq_true] at this
  exact this a h

theorem takeWhile_eq_self {α : Type} {p : α → Bool} {l : List α} (h : ∀ a ∈ l, p a = true) : l.takeWhile p = l := by
  induction l with
  | nil => rfl
  | cons a l ih => simp [List.takeWhile, h a (by simp), ih (fun x hx => h x (by simp [hx]))]

end Sqlc
