import SqlcModel.Text.Lines
/-
L0 — model of internal/source/code.go: LineNumber, Pluck, Mutate, StripComments.
Go strings are byte lists; `for i, r := range s` is modelled by an explicit UTF-8 decoder with Go's
RuneError/width-1 rule because C04 and C17 are *about* the byte/rune distinction.
-/
namespace Sqlc

/-- is a UTF-8 continuation byte -/
def isCont (b : UInt8) : Bool := 0x80 ≤ b && b ≤ 0xBF

/-- Go's utf8.DecodeRuneInString on a non-empty input: (rune, width); invalid encodings give
(0xFFFD, 1). -/
def decodeRune : Bytes → Nat × Nat
  | [] => (0xFFFD, 1)
  | b0 :: rest =>
    if b0 < 0x80 then (b0.toNat, 1)
    else if 0xC2 ≤ b0 && b0 ≤ 0xDF then
      match rest with
      | b1 :: _ => if isCont b1 then ((b0.toNat - 0xC0) * 64 + (b1.toNat - 0x80), 2) else (0xFFFD, 1)
      | _ => (0xFFFD, 1)
    else if 0xE0 ≤ b0 && b0 ≤ 0xEF then
      match rest with
      | b1 :: b2 :: _ =>
        let lo : UInt8 := if b0 = 0xE0 then 0xA0 else 0x80
        let hi : UInt8 := if b0 = 0xED then 0x9F else 0xBF
        if lo ≤ b1 && b1 ≤ hi && isCont b2 then
          ((b0.toNat - 0xE0) * 4096 + (b1.toNat - 0x80) * 64 + (b2.toNat - 0x80), 3)
        else (0xFFFD, 1)
      | _ => (0xFFFD, 1)
    else if 0xF0 ≤ b0 && b0 ≤ 0xF4 then
      match rest with
      | b1 :: b2 :: b3 :: _ =>
        let lo : UInt8 := if b0 = 0xF0 then 0x90 else 0x80
        let hi : UInt8 := if b0 = 0xF4 then 0x8F else 0xBF
        if lo ≤ b1 && b1 ≤ hi && isCont b2 && isCont b3 then
          ((b0.toNat - 0xF0) * 262144 + (b1.toNat - 0x80) * 4096 + (b2.toNat - 0x80) * 64 + (b3.toNat - 0x80), 4)
        else (0xFFFD, 1)
      | _ => (0xFFFD, 1)
    else (0xFFFD, 1)

/-- the (byte index, rune) pairs `for i, r := range s` yields -/
def runesAux : Bytes → Nat → Nat → List (Nat × Nat)
  | [], _, _ => []
  | _ :: bs, i, skip + 1 => runesAux bs (i + 1) skip
  | b :: bs, i, 0 =>
    let d := decodeRune (b :: bs)
    (i, d.1) :: runesAux bs (i + 1) (d.2 - 1)

def runes (s : Bytes) : List (Nat × Nat) := runesAux s 0 0

/-- unicode.IsSpace -/
def isSpaceRune (r : Nat) : Bool :=
  r = 0x09 || r = 0x0A || r = 0x0B || r = 0x0C || r = 0x0D || r = 0x20 || r = 0x85 || r = 0xA0 ||
  r = 0x1680 || (0x2000 ≤ r && r ≤ 0x200A) || r = 0x2028 || r = 0x2029 || r = 0x202F || r = 0x205F || r = 0x3000

def DASH : Nat := 45
def NLr : Nat := 10

/-- the state the loop of LineNumber carries after having consumed one rune -/
structure LnState where
  line : Nat
  col : Nat
  comment : Bool
deriving Repr, DecidableEq

/-- one iteration, up to (not including) the `continue`/`break` decisions -/
def lnStep (src : Bytes) (st : LnState) (i r : Nat) : LnState :=
  let col := st.col + 1
  let comment := st.comment || (r == DASH && i + 1 < src.length && src[i + 1]? == some 45)
  if r == NLr then { line := st.line + 1, col := 0, comment := false }
  else { line := st.line, col := col, comment := comment }

/-- the loop of source.LineNumber (after the `fix:` commit: `head` is compared with the byte index) -/
def lnLoop (src : Bytes) (head : Nat) : List (Nat × Nat) → LnState → Nat × Nat
  | [], st => (st.line + 1, st.col)
  | (i, r) :: rest, st =>
    let st' := lnStep src st i r
    if i < head then lnLoop src head rest st'
    else if isSpaceRune r then lnLoop src head rest st'
    else if st'.comment then lnLoop src head rest st'
    else (st'.line + 1, st'.col)

/-- source.LineNumber -/
def lineNumber (src : Bytes) (head : Nat) : Nat × Nat :=
  lnLoop src head (runes src) { line := 0, col := 0, comment := false }

/-- source.Pluck: `source[location : location+length]`; Go panics when the bounds are off -/
def pluck (src : Bytes) (loc len : Nat) : Option Bytes :=
  if loc + len ≤ src.length then some ((src.drop loc).take len) else none

structure Edit where
  loc : Int
  old : Bytes
  new : Bytes
deriving Repr, DecidableEq

inductive MutErr where
  | outOfBounds | emptyEdit | panic
deriving Repr, DecidableEq

/-- one iteration of Mutate's loop -/
def applyEdit (s : Bytes) (e : Edit) : Except MutErr Bytes :=
  if e.loc > s.length then .error .outOfBounds
  else if e.new.length = 0 then .error .emptyEdit
  else if e.old.length = 0 then .error .emptyEdit
  else if e.loc < 0 then .error .panic          -- s[:start] with a negative start panics in Go
  else
    let start := e.loc.toNat
    let stop := start + e.old.length - 1
    if stop < s.length then .ok (s.take start ++ e.new ++ s.drop (stop + 1))
    else .ok (s.take start ++ e.new)

def applyEdits : Bytes → List Edit → Except MutErr Bytes
  | s, [] => .ok s
  | s, e :: es => do
    let s' ← applyEdit s e
    applyEdits s' es

/-- `sort.Slice(a, func(i, j) bool { return a[i].Location > a[j].Location })`: any descending
permutation; the executable model uses a stable merge sort. With pairwise distinct locations the
result is unique, which is the case the correspondence compares. -/
def sortEditsDesc (es : List Edit) : List Edit := es.mergeSort (fun a b => a.loc ≥ b.loc)

/-- source.Mutate -/
def mutate (raw : Bytes) (es : List Edit) : Except MutErr Bytes :=
  if es.isEmpty then .ok raw else applyEdits raw (sortEditsDesc es)

/-! ### StripComments -/

def isAsciiSpace (b : UInt8) : Bool := b = 9 || b = 10 || b = 11 || b = 12 || b = 13 || b = 32

/-- strings.TrimSpace restricted to inputs whose leading/trailing white space is ASCII (the driver
reports other inputs as out of fragment) -/
def trimSpace (s : Bytes) : Bytes :=
  ((s.dropWhile isAsciiSpace).reverse.dropWhile isAsciiSpace).reverse

def hasPrefix (p s : Bytes) : Bool := p.isPrefixOf s
def hasSuffixB (suf s : Bytes) : Bool := suf.reverse.isPrefixOf s.reverse

def pDashName : Bytes := b! "-- name:"
def pSlashName : Bytes := b! "/* name:"
def pDash : Bytes := b! "--"
def pSlash : Bytes := b! "/*"
def pStarSlash : Bytes := b! "*/"

def trimPrefix (p s : Bytes) : Bytes := if hasPrefix p s then s.drop p.length else s
def trimSuffix (suf s : Bytes) : Bytes := if hasSuffixB suf s then s.take (s.length - suf.length) else s

inductive LineClass where
  | annotation | comment (text : Bytes) | code
deriving Repr, DecidableEq

def classifyLine (t : Bytes) : LineClass :=
  if hasPrefix pDashName t then .annotation
  else if hasPrefix pSlashName t && hasSuffixB pStarSlash t then .annotation
  else if hasPrefix pDash t then .comment (trimPrefix pDash t)
  else if hasPrefix pSlash t && hasSuffixB pStarSlash t then .comment (trimSuffix pStarSlash (trimPrefix pSlash t))
  else .code

/-- source.StripComments: (kept SQL, doc comments) -/
def stripComments (sql : Bytes) : Bytes × List Bytes :=
  let ls := scanLines (trimSpace sql)
  let kept := ls.filter (fun t => classifyLine t == .code)
  let comments := ls.filterMap (fun t => match classifyLine t with | .comment c => some c | _ => none)
  (joinNL kept, comments)

end Sqlc
