/-
Reference specification for C09 — the documented database-type → Go-type mapping, keyed by
*canonical type*.  Written from docs/reference/datatypes.md, the property statement and database/sql's
documentation; NOT from the code's switch.  Deviations from the general rule ("nullable scalar → the
database/sql Null type of the same family") are marked † with their reason.
-/
namespace Sqlc.Spec

inductive Canon where
  | int2 | int4 | int8 | float4 | float8 | numeric | bool | json | bytea
  | date | time | timetz | timestamp | timestamptz | text | uuid | inet | macaddr | ltree | interval
  | void | any
deriving Repr, DecidableEq

/-- (Go type when NOT NULL, Go type when nullable) -/
def Canon.go : Canon → String × String
  | .int2 => ("int16", "int16")                         -- † no sql.NullInt16 in the Go release the module targets
  | .int4 => ("int32", "sql.NullInt32")
  | .int8 => ("int64", "sql.NullInt64")
  | .float4 => ("float32", "sql.NullFloat64")           -- † no sql.NullFloat32
  | .float8 => ("float64", "sql.NullFloat64")
  | .numeric => ("string", "sql.NullString")            -- lib/pq returns numerics as text
  | .bool => ("bool", "sql.NullBool")
  | .json => ("json.RawMessage", "json.RawMessage")     -- † nil slice is NULL
  | .bytea => ("[]byte", "[]byte")                      -- † nil slice is NULL
  | .date | .time | .timetz | .timestamp | .timestamptz => ("time.Time", "sql.NullTime")
  | .text => ("string", "sql.NullString")
  | .uuid => ("uuid.UUID", "uuid.UUID")                 -- † no null variant offered
  | .inet => ("net.IP", "net.IP")                       -- †
  | .macaddr => ("net.HardwareAddr", "net.HardwareAddr")-- †
  | .ltree => ("string", "sql.NullString")
  | .interval => ("int64", "sql.NullInt64")
  | .void | .any => ("interface{}", "interface{}")

/-- PostgreSQL: every name under which a canonical type can reach the type switch — the name the
real parser produces for each user spelling (keyword types arrive `pg_catalog.`-qualified, plain
identifiers arrive bare) together with the bare keyword spellings other front ends produce. -/
def pgNames : Canon → List String
  | .int2 => ["smallint", "int2", "pg_catalog.int2", "smallserial", "serial2", "pg_catalog.serial2"]
  | .int4 => ["integer", "int", "int4", "pg_catalog.int4", "serial", "serial4", "pg_catalog.serial4"]
  | .int8 => ["bigint", "int8", "pg_catalog.int8", "bigserial", "serial8", "pg_catalog.serial8"]
  | .float4 => ["real", "float4", "pg_catalog.float4"]
  | .float8 => ["float", "double precision", "float8", "pg_catalog.float8"]
  | .numeric => ["numeric", "pg_catalog.numeric", "money"]
  | .bool => ["boolean", "bool", "pg_catalog.bool"]
  | .json => ["json", "jsonb"]
  | .bytea => ["bytea", "blob", "pg_catalog.bytea"]
  | .date => ["date"]
  | .time => ["pg_catalog.time"]
  | .timetz => ["pg_catalog.timetz", "timetz"]
  | .timestamp => ["pg_catalog.timestamp"]
  | .timestamptz => ["pg_catalog.timestamptz", "timestamptz"]
  | .text => ["text", "pg_catalog.varchar", "pg_catalog.bpchar", "bpchar", "string"]
  | .uuid => ["uuid"]
  | .inet => ["inet", "cidr"]
  | .macaddr => ["macaddr", "macaddr8"]
  | .ltree => ["ltree", "lquery", "ltxtquery"]
  | .interval => ["interval", "pg_catalog.interval"]
  | .void => ["void"]
  | .any => ["any"]

def allCanon : List Canon :=
  [.int2, .int4, .int8, .float4, .float8, .numeric, .bool, .json, .bytea, .date, .time, .timetz,
   .timestamp, .timestamptz, .text, .uuid, .inet, .macaddr, .ltree, .interval, .void, .any]

def pgCanonOf (name : String) : Option Canon := allCanon.find? (fun c => (pgNames c).contains name)

/-- names that reach the switch through the real parser but have no arm on the pinned tree
(known finding `bareSpelling`): the bare identifiers `timetz` and `bpchar` -/
def pgKnownMissing : List String := ["timetz", "bpchar"]

/-- MySQL: canonical families and the names the dolphin front end produces -/
inductive MyCanon where
  | text | tinyint | int | bigint | blob | double | decimal | enumT | datetime | bool | json | any
deriving Repr, DecidableEq

def MyCanon.go : MyCanon → String × String
  | .text => ("string", "sql.NullString")
  | .tinyint => ("int32", "sql.NullInt32")       -- display length ≠ 1; tinyint(1) is boolean
  | .int => ("int32", "sql.NullInt32")
  | .bigint => ("int64", "sql.NullInt64")
  | .blob => ("[]byte", "[]byte")
  | .double => ("float64", "sql.NullFloat64")
  | .decimal => ("string", "sql.NullString")
  | .enumT => ("string", "string")
  | .datetime => ("time.Time", "sql.NullTime")
  | .bool => ("bool", "sql.NullBool")
  | .json => ("json.RawMessage", "json.RawMessage")
  | .any => ("interface{}", "interface{}")

def myNames : MyCanon → List String
  | .text => ["varchar", "text", "char", "tinytext", "mediumtext", "longtext"]
  | .tinyint => ["tinyint"]
  | .int => ["int", "integer", "smallint", "mediumint", "year"]
  | .bigint => ["bigint"]
  | .blob => ["blob", "binary", "varbinary", "tinyblob", "mediumblob", "longblob"]
  | .double => ["double", "double precision", "real"]
  | .decimal => ["decimal", "dec", "fixed"]
  | .enumT => ["enum"]
  | .datetime => ["date", "timestamp", "datetime", "time"]
  | .bool => ["boolean", "bool"]
  | .json => ["json"]
  | .any => ["any"]

def allMyCanon : List MyCanon := [.text, .tinyint, .int, .bigint, .blob, .double, .decimal, .enumT, .datetime, .bool, .json, .any]
def myCanonOf (name : String) : Option MyCanon := allMyCanon.find? (fun c => (myNames c).contains name)

/-- documented Go type of a column: array → slice of the NOT NULL element type -/
def docGoType (elem : String × String) (notNull isArray : Bool) : String :=
  if isArray then "[]" ++ elem.1 else if notNull then elem.1 else elem.2

end Sqlc.Spec
