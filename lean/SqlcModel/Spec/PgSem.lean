import SqlcModel.Ast
import SqlcModel.Query.Analyze
/-
PgSem — the shared name-resolution oracle for C02, C05, C06, C07, C10: PostgreSQL's result-row shape
and column resolution for the modelled grammar, written from the PostgreSQL manual (SELECT, "Table
Expressions", "Column References", INSERT/UPDATE/DELETE … RETURNING) — NOT from sqlc's code. It reads
the same generic AST (of the source statement, or of the embedded SQL re-parsed by the real parser).

* a scope is the from-list of one query level, in order; a table reference contributes the table's
  (or CTE's) columns under its alias-or-name; a FROM-subselect contributes its own row shape under its
  alias and HIDES its inner relations; joins concatenate (USING / NATURAL are out of fragment);
* `*` = all columns of the innermost scope, `t.*` = those of the relation named `t`;
* an unqualified column must occur in exactly one relation of the nearest scope that has it;
* every non-star target yields exactly one column, named by its alias or, for a plain column reference
  (possibly under a cast), by the column.
-/
namespace Sqlc.Spec.Sem
open Sqlc Sqlc.Q

structure ColInfo where
  name : String
  named : Bool := true                       -- the name is a column name or an AS alias
  origin : Option (String × String × String) := none     -- (schema, table, column) when a plain column reference
  dataType : String := ""
  notNull : Bool := false
  isArray : Bool := false
  merged : Bool := false                     -- the right-hand copy of a JOIN … USING column: reachable by qualifier only
deriving Repr, DecidableEq, Inhabited

structure Rel where
  qual : String
  cols : List ColInfo
deriving Repr, Inhabited

abbrev Scope := List Rel

inductive SemErr where
  | relationMissing (n : String)
  | columnMissing (n : String)
  | columnAmbiguous (n : String)
  | qualifierMissing (n : String)
  | unsupported (what : String)
deriving Repr, DecidableEq, Inhabited

abbrev SRes := Except SemErr

def tableRel (c : Cat) (schema name qual : String) : SRes Rel :=
  let ns := if schema == "" then c.defaultSchema else schema
  match c.schemas.find? (·.name == ns) with
  | none => .error (.relationMissing name)
  | some s =>
    match s.tables.find? (·.name == name) with
    | none => .error (.relationMissing name)
    | some t => .ok { qual := qual, cols := t.cols.map (fun col =>
        { name := col.name, origin := some (ns, name, col.name), dataType := dataTypeOf col.tschema col.tname,
          notNull := col.notNull, isArray := col.isArray }) }

/-- resolve a column reference against a stack of scopes (innermost first) -/
def resolveCol : List Scope → Option String → String → SRes ColInfo
  | [], _, c => .error (.columnMissing c)
  | sc :: outer, q, c =>
    let rels : List Rel := match q with
      | some qn => sc.filter (fun (r : Rel) => r.qual == qn)
      | none => sc
    let hits := rels.flatMap (fun (r : Rel) => r.cols.filter (fun ci => ci.name == c && (q.isSome || !ci.merged)))
    match hits with
    | [h] => .ok h
    | [] =>
      -- a qualifier that names a relation of this level but not this column is an error at this level
      (match q with
       | some _ => if rels.isEmpty then resolveCol outer q c else .error (.columnMissing c)
       | none => resolveCol outer q c)
    | _ => .error (.columnAmbiguous c)

def colRefParts (n : Node) : List String := (n.get "Fields").stringItems

/-- (qualifier, column) of a non-star column reference; a three-part name `s.t.c` is qualified by `t` -/
def colRefName (n : Node) : Option (Option String × String) :=
  match colRefParts n with
  | [c] => some (none, c)
  | [q, c] => some (some q, c)
  | [_, t, c] => some (some t, c)
  | _ => none

def defaultName (v : Node) : String × Bool :=
  match v.kind with
  | "ColumnRef" => ((colRefParts v).getLastD "?column?", true)
  | "FuncCall" => (((v.get "Func").get "Name").strVal, false)
  | "TypeCast" =>
    let a := v.get "Arg"
    -- PostgreSQL names a cast of a column after the column; the property only speaks of plain columns
    -- and AS aliases, so the name of a cast is not checked
    if a.isKind "ColumnRef" then ((colRefParts a).getLastD "?column?", false) else ("cast", false)
  | "CoalesceExpr" => ("coalesce", false)
  | "CaseExpr" => ("case", false)
  | "SubLink" => ("exists", false)
  | _ => ("?column?", false)

structure Pairing where
  number : Nat
  loc : Int := 0              -- source position of this occurrence of the placeholder
  col : SRes ColInfo          -- the column the placeholder is compared with / assigned to / inserted into
deriving Inhabited

def paramOf (n : Node) : Option (Nat × Int) :=
  if n.isKind "ParamRef" then some ((n.get "Number").natVal, (n.get "Location").intVal)
  else if n.isKind "TypeCast" then none     -- an explicitly cast placeholder takes the cast's type, not the column's
  else none

/-- placeholders directly compared with a column reference inside an expression tree, at this level -/
partial def exprPairs (scopes : List Scope) (e : Node) : List Pairing :=
  match e.kind with
  | "A_Expr" =>
    let l := e.get "Lexpr"
    let r := e.get "Rexpr"
    let direct : List Pairing :=
      let sides := [(l, r), (r, l)]
      sides.flatMap (fun (a, b) =>
        if a.isKind "ColumnRef" then
          match colRefName a with
          | some (q, c) =>
            let ps := (match b with
              | .list is => is.filterMap paramOf
              | _ => (paramOf b).toList)
            ps.map (fun n => { number := n.1, loc := n.2, col := resolveCol scopes q c })
          | none => []
        else [])
    direct ++ (if l.isKind "A_Expr" || l.isKind "BoolExpr" then exprPairs scopes l else []) ++
      (if r.isKind "A_Expr" || r.isKind "BoolExpr" then exprPairs scopes r else [])
  | "BoolExpr" => (e.get "Args").items.flatMap (exprPairs scopes)
  | _ => []

structure Sem where
  shape : List ColInfo
  pairs : List Pairing
  loose : Bool := false     -- a column in a position the properties do not speak about (a condition without
                            -- placeholder) does not resolve: the statement may be accepted or rejected
deriving Inhabited

mutual
/-- pre-order nodes of an expression, not descending into sub-selects (they have their own scope) -/
def walkExpr : Node → List Node
  | .nd k fs =>
    if k == "SubLink" || k == "SelectStmt" || k == "InsertStmt" || k == "UpdateStmt" || k == "DeleteStmt" then []
    else .nd k fs :: walkExprFields fs
  | .list is => walkExprItems is
  | _ => []
def walkExprFields : List (String × Bool × Node) → List Node
  | [] => []
  | (_, _, c) :: rest => walkExpr c ++ walkExprFields rest
def walkExprItems : List Node → List Node
  | [] => []
  | c :: rest => walkExpr c ++ walkExprItems rest
end

mutual
/-- the outermost query statements inside an expression (sub-queries: PostgreSQL wraps them in SubLink, the
MySQL conversion does not) -/
def topStmts : Node → List Node
  | .nd k fs =>
    if k == "SelectStmt" || k == "InsertStmt" || k == "UpdateStmt" || k == "DeleteStmt" then [.nd k fs]
    else topStmtsFields fs
  | .list is => topStmtsItems is
  | _ => []
def topStmtsFields : List (String × Bool × Node) → List Node
  | [] => []
  | (_, _, c) :: rest => topStmts c ++ topStmtsFields rest
def topStmtsItems : List Node → List Node
  | [] => []
  | c :: rest => topStmts c ++ topStmtsItems rest
end

/-- every column reference inside an expression (not descending into sub-selects) -/
def innerColRefs (e : Node) : List Node :=
  (walkExpr e).filter (fun n => n.isKind "ColumnRef" && !hasStarRef n)

def allResolve (scopes : List Scope) (e : Node) : SRes Unit :=
  (innerColRefs e).foldlM (fun _ cr =>
    match colRefName cr with
    | some (q, cn) => (resolveCol scopes q cn).map (fun _ => ())
    | none => .ok ()) ()

/-- what `*` (no qualifier parts) or `q.*` stands for at one level: every column of every relation of the level,
or of the relations called `q`, in from-clause order then declaration order -/
def starOf (level : Scope) (parts : List String) : SRes (List ColInfo) :=
  match parts with
  | [] =>
    -- (with merged columns the database lists the USING columns first: not reproduced here)
    if level.any (fun r => r.cols.any (·.merged)) then .error (.unsupported "* over JOIN USING") else
    .ok (level.flatMap (·.cols))
  | qs =>
    let q := qs.getLastD ""
    let rels := level.filter (·.qual == q)
    if rels.isEmpty then .error (.qualifierMissing q) else .ok (rels.flatMap (·.cols))

/-- a column alias list `AS t(a, b)` / `WITH t(a, b) AS` renames the first columns of the relation -/
def applyColNames (names : List String) (cols : List ColInfo) : List ColInfo :=
  (cols.zipIdx).map (fun (ci, i) => match names[i]? with
    | some n => { ci with name := n }
    | none => ci)

def aliasColNames (it : Node) : List String :=
  let a := it.get "Alias"
  if a.isNull then [] else (a.get "Colnames").stringItems

/-- the analysis of one query level; `fuel` bounds the nesting depth -/
def analyzeLevel (c : Cat) : Nat → List (String × List ColInfo) → List Scope → Node → SRes Sem
  | 0, _, _, _ => .error (.unsupported "fuel")
  | fuel + 1, ctes, outer, stmt => do
    -- WITH
    let w := if stmt.isKind "SelectStmt" || stmt.isKind "InsertStmt" || stmt.isKind "UpdateStmt" || stmt.isKind "DeleteStmt" then stmt.get "WithClause" else .null
    let (ctes, ctePairs) ← (if w.isNull then pure (ctes, []) else
      (w.get "Ctes").items.foldlM (fun (st : List (String × List ColInfo) × List Pairing) item => do
        if !item.isKind "CommonTableExpr" then pure st else
        let s ← analyzeLevel c fuel st.1 [] (item.get "Ctequery")
        let nm := (item.get "Ctename").strVal
        let named := applyColNames ((item.get "Aliascolnames").stringItems) s.shape
        -- (a CTE's columns keep their origin: types are tracked THROUGH the CTE)
        pure (st.1 ++ [(nm, named)], st.2 ++ s.pairs)) (ctes, []))
    -- set operations: the left arm's shape
    if stmt.isKind "SelectStmt" && !(stmt.get "Larg").isNull && (stmt.get "TargetList").items.isEmpty then do
      let l ← analyzeLevel c fuel ctes outer (stmt.get "Larg")
      let r ← analyzeLevel c fuel ctes outer (stmt.get "Rarg")
      pure { shape := l.shape, pairs := ctePairs ++ l.pairs ++ r.pairs, loose := l.loose || r.loose }
    else
    -- FROM
    let rec fromItem (fuel : Nat) (it : Node) : SRes (Scope × List Pairing) :=
      match fuel with
      | 0 => .error (.unsupported "fuel")
      | fuel + 1 =>
        match it.kind with
        | "RangeVar" =>
          let tn := rangeVarName it
          let qual := (aliasOf it).getD tn.name
          if tn.schema == "" then
            match (ctes.filter (·.1 == tn.name)).getLast? with
            | some (_, cols) => .ok ([{ qual := qual, cols := applyColNames (aliasColNames it) cols }], [])
            | none => (tableRel c tn.schema tn.name qual).map (fun r => ([{ r with cols := applyColNames (aliasColNames it) r.cols }], []))
          else (tableRel c tn.schema tn.name qual).map (fun r => ([{ r with cols := applyColNames (aliasColNames it) r.cols }], []))
        | "RangeSubselect" => do
          let s ← analyzeLevel c fuel ctes [] (it.get "Subquery")
          match aliasOf it with
          | some a => pure ([{ qual := a, cols := applyColNames (aliasColNames it) s.shape }], s.pairs)
          | none => .error (.unsupported "subquery in FROM without alias")
        | "JoinExpr" => do
          if (it.get "IsNatural").boolVal then .error (.unsupported "NATURAL JOIN") else
          let l ← fromItem fuel (it.get "Larg")
          let r ← fromItem fuel (it.get "Rarg")
          -- JOIN … USING (c): unqualified `c` means the merged column (the left operand's); the right operand's
          -- copy stays reachable through its qualifier
          let usingCols := if (it.get "UsingClause").isNull then [] else (it.get "UsingClause").stringItems
          let r1 := r.1.map (fun (rel : Rel) => { rel with cols := rel.cols.map (fun ci => if usingCols.contains ci.name then { ci with merged := true } else ci) })
          pure (l.1 ++ r1, l.2 ++ r.2)
        | "RangeFunction" =>
          -- a set-returning function in FROM that yields ONE column, named after the alias (or the first name of
          -- the alias' column list); every other form is outside the oracle
          let fname := match (it.get "Functions").items with
            | [one] => (match one.items with
              | call :: _ => ((call.get "Func").get "Name").strVal
              | [] => "")
            | _ => ""
          let single := ["generate_series", "unnest", "regexp_split_to_table", "json_array_elements", "json_array_elements_text",
            "jsonb_array_elements", "jsonb_array_elements_text", "string_to_table", "generate_subscripts"]
          if (it.get "Ordinality").boolVal || (it.get "IsRowsfrom").boolVal || !(it.get "Coldeflist").items.isEmpty || !single.contains fname then
            .error (.unsupported "range function form")
          else match aliasOf it with
            | some a => .ok ([{ qual := a, cols := [{ name := (aliasColNames it).headD a, named := true }] }], [])
            | none => .error (.unsupported "function in FROM without alias")
        | k => .error (.unsupported s!"from item {k}")
    let fromList : List Node := match stmt.kind with
      | "SelectStmt" => (stmt.get "FromClause").items
      | "UpdateStmt" => [stmt.get "Relation"] ++ (stmt.get "FromClause").items
      | "InsertStmt" => [stmt.get "Relation"]
      | "DeleteStmt" => [stmt.get "Relation"] ++ (stmt.get "UsingClause").items
      | "TruncateStmt" => (stmt.get "Relations").items
      | _ => []
    let (scope, fromPairs) ← fromList.foldlM (fun (st : Scope × List Pairing) it => do
      let r ← fromItem fuel it
      pure (st.1 ++ r.1, st.2 ++ r.2)) ([], [])
    let scopes := scope :: outer
    -- join conditions and WHERE: placeholders paired with columns; nested sub-selects see this level as outer
    let rec joinQuals (fuel : Nat) (it : Node) : List Node :=
      match fuel with
      | 0 => []
      | fuel + 1 => if it.isKind "JoinExpr" then joinQuals fuel (it.get "Larg") ++ joinQuals fuel (it.get "Rarg") ++ [it.get "Quals"] else []
    let condNodes := fromList.flatMap (joinQuals fuel) ++ [stmt.get "WhereClause"]
    let wherePairs := condNodes.flatMap (exprPairs scopes)
    -- sub-selects inside the conditions (EXISTS / IN (SELECT …))
    let subs := condNodes.flatMap topStmts
    let subPairs ← subs.foldlM (fun (acc : List Pairing) sub => do
      let s ← analyzeLevel c fuel ctes scopes sub
      pure (acc ++ s.pairs)) []
    -- INSERT … VALUES / SELECT: the k-th value feeds the k-th target column; UPDATE SET: the assigned column
    let tableCols : SRes (List ColInfo) := match scope.head? with
      | some r => .ok r.cols
      | none => .error (.unsupported "no target relation")
    let (dmlPairs, dmlLoose) ← (match stmt.kind with
      | "InsertStmt" => do
        let cols ← tableCols
        let targets := (stmt.get "Cols").items.map (fun rt => (rt.get "Name").strVal)
        let sel := stmt.get "SelectStmt"
        let rows : List (List Node) :=
          if !(sel.get "ValuesLists").isNull && !(sel.get "ValuesLists").items.isEmpty then (sel.get "ValuesLists").items.map (·.items)
          else [(sel.get "TargetList").items.map (fun rt => rt.get "Val")]
        let ps := rows.flatMap (fun row => (row.zipIdx).filterMap (fun (v, i) =>
          (paramOf v).map (fun n =>
            let cn := targets.getD i ""
            ({ number := n.1, loc := n.2, col := match cols.filter (·.name == cn) with
                | [ci] => .ok ci
                | [] => .error (.columnMissing cn)
                | _ => .error (.columnAmbiguous cn) } : Pairing))))
        -- a target column that does not exist and takes no placeholder is outside what C10 speaks about
        let missing := targets.filter (fun t => !cols.any (·.name == t))
        -- ON CONFLICT … DO UPDATE SET col = $n: the assigned column of the target table
        let oc := stmt.get "OnConflictClause"
        let ocPairs : List Pairing := if oc.isNull then [] else
          (oc.get "TargetList").items.filterMap (fun rt => (paramOf (rt.get "Val")).map (fun n =>
            ({ number := n.1, loc := n.2, col := match cols.filter (·.name == (rt.get "Name").strVal) with
                | [ci] => .ok ci
                | _ => .error (.columnMissing (rt.get "Name").strVal) } : Pairing)))
        -- INSERT … SELECT … FROM: the source query is a level of its own
        let srcPairs ← (if (sel.get "FromClause").items.isEmpty then pure [] else do
          let s ← analyzeLevel c fuel ctes outer sel
          pure s.pairs : SRes (List Pairing))
        pure (ps ++ ocPairs ++ srcPairs, !missing.isEmpty)
      | "UpdateStmt" => do
        let cols ← tableCols
        let sets := (stmt.get "TargetList").items
        let missing := sets.filter (fun rt => !cols.any (·.name == (rt.get "Name").strVal))
        pure (sets.filterMap (fun rt => (paramOf (rt.get "Val")).map (fun n =>
            ({ number := n.1, loc := n.2, col := match cols.filter (·.name == (rt.get "Name").strVal) with
                | [ci] => .ok ci
                | _ => .error (.columnMissing (rt.get "Name").strVal) } : Pairing))), !missing.isEmpty)
      | _ => pure ([], false) : SRes (List Pairing × Bool))
    -- result list
    let targets : Node := match stmt.kind with
      | "SelectStmt" => stmt.get "TargetList"
      | _ => stmt.get "ReturningList"
    let retScope : Scope := match stmt.kind with
      | "InsertStmt" => scope.take 1
      | _ => scope          -- UPDATE … FROM and DELETE … USING: RETURNING sees every relation of the statement
    let shape ← targets.items.foldlM (fun (acc : List ColInfo) rt => do
      if !rt.isKind "ResTarget" then pure acc else
      let v := rt.get "Val"
      let alias := (rt.get "Name").strOpt
      if v.isKind "ColumnRef" && hasStarRef v then do
        let cs ← starOf retScope (colRefParts v)
        pure (acc ++ cs)
      else if v.isKind "ColumnRef" then
        match colRefName v with
        | none => .error (.unsupported "column reference with more than three parts")
        | some (q, cn) => do
          let ci ← resolveCol (retScope :: outer) q cn
          pure (acc ++ [{ ci with name := alias.getD ci.name }])
      else do
        let (dn, isCol) := defaultName v
        -- every column mentioned inside a result expression must resolve (sub-selects aside)
        allResolve (retScope :: outer) v
        pure (acc ++ [{ name := alias.getD dn, named := alias.isSome || isCol }])) []
    -- sub-selects inside result expressions (scalar sub-queries) are query levels of their own
    let targetSubs := targets.items.flatMap (fun rt => if rt.isKind "ResTarget" then topStmts (rt.get "Val") else [])
    let targetSubPairs ← targetSubs.foldlM (fun (acc : List Pairing) sub => do
      let s ← analyzeLevel c fuel ctes (retScope :: outer) sub
      pure (acc ++ s.pairs)) []
    -- UPDATE SET values may hold sub-selects too
    let setSubs := if stmt.isKind "UpdateStmt" then (stmt.get "TargetList").items.flatMap (fun rt => topStmts (rt.get "Val")) else []
    let setSubPairs ← setSubs.foldlM (fun (acc : List Pairing) sub => do
      let s ← analyzeLevel c fuel ctes scopes sub
      pure (acc ++ s.pairs)) []
    let loose := dmlLoose || condNodes.any (fun e => match allResolve scopes e with | .ok _ => false | .error _ => true)
    pure { shape := shape, pairs := ctePairs ++ fromPairs ++ wherePairs ++ subPairs ++ dmlPairs ++ targetSubPairs ++ setSubPairs, loose := loose }

def analyzeStmt (c : Cat) (raw : Node) : SRes Sem :=
  let stmt := raw.get "Stmt"
  analyzeLevel c (nodeSize stmt) [] [] stmt

end Sqlc.Spec.Sem
