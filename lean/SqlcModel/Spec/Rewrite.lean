import SqlcModel.Spec.SqlLex
/-
C04's executable specification: the embedded SQL's token sequence equals the source statement's,
except for the three documented rewrites (star expansion, named parameter → placeholder, comment
removal — comments are not tokens).
-/
namespace Sqlc.Spec.Rw
open Sqlc.Spec.Lex

def isStar (t : Tok) : Bool := t.kind == .op && t.text == [42]
def isP (t : Tok) (b : UInt8) : Bool := t.kind == .punct && t.text == [b]
def isName (t : Tok) : Bool := t.kind == .ident || t.kind == .quoted
def isAt (t : Tok) : Bool := t.kind == .op && t.text == [64]
def identIs (t : Tok) (s : Bytes) : Bool := t.kind == .ident && t.text == s

/-- consume one column reference `name(.name)*`; returns the rest -/
def colref : List Tok → Option (List Tok)
  | n :: rest =>
    if !isName n then none else
    let rec more : Nat → List Tok → List Tok
      | 0, r => r
      | f + 1, d :: m :: r => if isP d 46 && isName m then more f r else d :: m :: r
      | _, r => r
    some (more rest.length rest)
  | [] => none

/-- placeholder that a named parameter may become: `$k` (PostgreSQL) or `?` (MySQL); returns k (0 for ?) -/
def placeholder (mysql : Bool) (t : Tok) : Option Nat :=
  if mysql then (if t.kind == .qmark then some 0 else none)
  else if t.kind == .param then (String.ofList ((t.text.drop 1).map (fun b => Char.ofNat b.toNat))).toNat? else none

structure Acc where
  names : List (Bytes × Nat) := []     -- named parameter occurrences in source text order: (name, number given)
  stars : Nat := 0                      -- expanded stars
  positional : List (Nat × Nat) := []   -- ($n in source → placeholder seen), for positional mode
deriving Repr

/-- `posMode`: Kotlin's positional mode, every `$n` of the source becomes `?` -/
def matchToks (mysql posMode : Bool) : Nat → List Tok → List Tok → Acc → Option Acc
  | 0, _, _, _ => none
  | _, [], [], acc => some acc
  | fuel + 1, src, emb, acc =>
    -- named parameter  @name
    let tryAt : Option Acc :=
      match src, emb with
      | a :: n :: srest, p :: erest =>
        if !mysql && isAt a && n.kind == .ident then
          match placeholder mysql p with
          | some k => matchToks mysql posMode fuel srest erest { acc with names := acc.names ++ [(n.text, k)] }
          | none => none
        else none
      | _, _ => none
    match tryAt with
    | some r => some r
    | none =>
    -- named parameter  sqlc.arg(x)
    let tryArg : Option Acc :=
      match src, emb with
      | s :: d :: a :: l :: x :: r :: srest, p :: erest =>
        if identIs s (b! "sqlc") && isP d 46 && identIs a (b! "arg") && isP l 40 && isP r 41 &&
           (x.kind == .ident || x.kind == .string) then
          let name := if x.kind == .string then (x.text.drop 1).dropLast else x.text
          match placeholder mysql p with
          | some k => matchToks mysql posMode fuel srest erest { acc with names := acc.names ++ [(name.map lower, k)] }
          | none => none
        else none
      | _, _ => none
    match tryArg with
    | some r => some r
    | none =>
    match src, emb with
    | s :: srest, e :: erest =>
      if s == e then matchToks mysql posMode fuel srest erest acc
      else if posMode && s.kind == .param && e.kind == .qmark then
        matchToks mysql posMode fuel srest erest acc
      else if isStar s then
        -- star expansion: k ≥ 1 comma-separated column references, try every k
        let rec expand : Nat → List Tok → Option Acc
          | 0, _ => none
          | f + 1, em =>
            match colref em with
            | none => none
            | some r =>
              match matchToks mysql posMode fuel srest r { acc with stars := acc.stars + 1 } with
              | some a => some a
              | none =>
                match r with
                | c :: r' => if isP c 44 then expand f r' else none
                | [] => none
        expand (emb.length + 1) emb
      else none
    | _, _ => none

def stripSemis (ts : List Tok) : List Tok := (ts.reverse.dropWhile (fun t => isP t 59)).reverse

/-- one name ↔ one number, distinct names ↔ distinct numbers -/
def namesConsistent (ns : List (Bytes × Nat)) : Bool :=
  ns.all (fun a => ns.all (fun b => (a.1 == b.1) == (a.2 == b.2)))

/-- numbers are handed out 1..m in order of first use in the source text -/
def firstUseOrder (ns : List (Bytes × Nat)) : Bool :=
  let firsts := ns.foldl (fun (seen : List (Bytes × Nat)) a => if seen.any (·.1 == a.1) then seen else seen ++ [a]) []
  firsts.map (·.2) == (List.range firsts.length).map (· + 1)

end Sqlc.Spec.Rw
