/-
Reference specification for C11 — what each query command promises, written from
docs/reference/query-annotations.md and the property statement, NOT from the template.
-/
namespace Sqlc.Spec

/-- (cmd, result tuple with `T` for the row type, driver entry point with prepared queries, without,
number of checked error paths inside the method, rows.Close checked, rows.Err checked, scans) -/
def contractTable : List (String × String × String × String × Nat × Bool × Bool × Bool) := [
  (":exec",       "error",               "exec",     "ExecContext",     0, false, false, false),
  (":execresult", "(sql.Result, error)", "exec",     "ExecContext",     0, false, false, false),
  (":execrows",   "(int64, error)",      "exec",     "ExecContext",     1, false, false, false),
  (":many",       "([]T, error)",        "query",    "QueryContext",    4, true,  true,  true),
  (":one",        "(T, error)",          "queryRow", "QueryRowContext", 0, false, false, true)]

def contractOf (cmd : String) := contractTable.find? (·.1 == cmd)

/-- commands whose data-modifying statements need a RETURNING clause -/
def needsReturning : List String := [":many", ":one"]

/-- the five commands of the documentation -/
def commands : List String := [":exec", ":execresult", ":execrows", ":many", ":one"]

end Sqlc.Spec
