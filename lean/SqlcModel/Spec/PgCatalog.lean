import SqlcModel.Catalog.Model
/-
Reference specification for C08 (also used by C14, C05): what PostgreSQL's catalog holds after a DDL
statement, for the modelled statement subset. Written from the PostgreSQL manual pages of each
statement — NOT from sqlc's handlers. Names are unique per namespace in PostgreSQL, so the spec is
phrased with set-like operations (`filter` removes every object of a name, `map` updates every object
of a name); it reuses the catalog record types of the model only as a container.

Namespace rule: a relation's name also occupies the type namespace of its schema. SQLSTATEs are those
of the manual's appendix A (duplicate_schema 42P06, invalid_schema_name 3F000, duplicate_table 42P07,
undefined_table 42P01, duplicate_column 42701, undefined_column 42703, duplicate_object 42710,
undefined_object 42704). Dependency errors (DROP without CASCADE) are outside the property; the spec
behaves as with CASCADE.
-/
namespace Sqlc.Spec.Pg
open Sqlc.Cat

def hasSchema (c : Catalog) (n : String) : Bool := c.schemas.any (·.name == n)
def schemaOf (c : Catalog) (n : String) : Option Schema := c.schemas.find? (·.name == n)
def hasRel (s : Schema) (n : String) : Bool := s.tables.any (·.name == n)
def hasType (s : Schema) (n : String) : Bool := s.types.any (·.name == n)
def relOf (s : Schema) (n : String) : Option Table := s.tables.find? (·.name == n)
def typeOf (s : Schema) (n : String) : Option Ty := s.types.find? (·.name == n)
def hasCol (t : Table) (n : String) : Bool := t.cols.any (·.name == n)

def mapSchema (c : Catalog) (n : String) (f : Schema → Schema) : Catalog :=
  { c with schemas := c.schemas.map (fun s => if s.name == n then f s else s) }
def mapRel (s : Schema) (n : String) (f : Table → Table) : Schema :=
  { s with tables := s.tables.map (fun t => if t.name == n then f t else t) }
def mapType (s : Schema) (n : String) (f : Ty → Ty) : Schema :=
  { s with types := s.types.map (fun t => if t.name == n then f t else t) }
def mapCol (t : Table) (n : String) (f : Column → Column) : Table :=
  { t with cols := t.cols.map (fun c => if c.name == n then f c else c) }

def distinct : List String → Bool
  | [] => true
  | a :: as => !as.contains a && distinct as

def alterCmd (t : Table) : AlterCmd → Except Err Table
  | .add d guard =>
    if hasCol t d.name then (if guard then .ok t else .error eColumnExists)
    else .ok { t with cols := t.cols ++ [mkColumn d] }
  | .drop col guard =>
    if hasCol t col then .ok { t with cols := t.cols.filter (·.name != col) }
    else if guard then .ok t else .error eColumnNotFound
  | .setType col ts tn arr =>
    if hasCol t col then .ok (mapCol t col (fun c => { c with tschema := ts, tname := tn, isArray := arr }))
    else .error eColumnNotFound
  | .setNotNull col =>
    if hasCol t col then .ok (mapCol t col (fun c => { c with notNull := true })) else .error eColumnNotFound
  | .dropNotNull col =>
    if hasCol t col then .ok (mapCol t col (fun c => { c with notNull := false })) else .error eColumnNotFound

def dropSchemaStep (guard : Bool) (c : Catalog) (n : String) : Except Err Catalog :=
  if hasSchema c n then .ok { c with schemas := c.schemas.filter (·.name != n) }
  else if guard then .ok c else .error eSchemaNotFound

def dropTableStep (guard : Bool) (c : Catalog) (q : QName) : Except Err Catalog :=
  match schemaOf c (ns c q) with
  | none => if guard then .ok c else .error eSchemaNotFound
  | some s =>
    if hasRel s q.name then .ok (mapSchema c (ns c q) (fun s => { s with tables := s.tables.filter (·.name != q.name) }))
    else if guard then .ok c else .error eRelationNotFound

def dropTypeStep (guard : Bool) (c : Catalog) (q : QName) : Except Err Catalog :=
  match schemaOf c (ns c q) with
  | none => if guard then .ok c else .error eSchemaNotFound
  | some s =>
    if hasType s q.name then .ok (mapSchema c (ns c q) (fun s => { s with types := s.types.filter (·.name != q.name) }))
    else if guard then .ok c else .error eTypeNotFound

def step (c : Catalog) : DDL → Except Err Catalog
  | .createSchema n guard =>
    if hasSchema c n then (if guard then .ok c else .error eSchemaExists)
    else .ok { c with schemas := c.schemas ++ [{ name := n }] }
  | .dropSchema names guard => names.foldlM (dropSchemaStep guard) c
  | .createTable q guard cols =>
    match schemaOf c (ns c q) with
    | none => .error eSchemaNotFound
    | some s =>
      if hasRel s q.name then (if guard then .ok c else .error eRelationExists)
      else if hasType s q.name then .error eTypeExists
      else if !distinct (cols.map (·.name)) then .error eColumnExists
      else .ok (mapSchema c (ns c q) (fun s => { s with tables := s.tables ++
        [{ relSchema := q.schema, name := q.name, cols := cols.map mkColumn }] }))
  | .dropTable rels guard => rels.foldlM (dropTableStep guard) c
  | .renameTable q newName =>
    match schemaOf c (ns c q) with
    | none => .error eSchemaNotFound
    | some s =>
      if !hasRel s q.name then .error eRelationNotFound
      else if hasRel s newName then .error eRelationExists
      else if hasType s newName then .error eTypeExists
      else .ok (mapSchema c (ns c q) (fun s => mapRel s q.name (fun t => { t with name := newName })))
  | .setSchema q newSchema =>
    match schemaOf c (ns c q) with
    | none => .error eSchemaNotFound
    | some s =>
      match relOf s q.name with
      | none => .error eRelationNotFound
      | some t =>
        match schemaOf c newSchema with
        | none => .error eSchemaNotFound
        | some s2 =>
          if hasRel s2 q.name then .error eRelationExists
          else if hasType s2 q.name then .error eTypeExists
          else
            let c1 := mapSchema c (ns c q) (fun s => { s with tables := s.tables.filter (·.name != q.name) })
            .ok (mapSchema c1 newSchema (fun s => { s with tables := s.tables ++ [t] }))
  | .alterTable q cmds =>
    if cmds.isEmpty then .ok c else
    match schemaOf c (ns c q) with
    | none => .error eSchemaNotFound
    | some s =>
      match relOf s q.name with
      | none => .error eRelationNotFound
      | some t =>
        (cmds.foldlM alterCmd t).map
          (fun t' => mapSchema c (ns c q) (fun s => mapRel s q.name (fun _ => t')))
  | .renameColumn q col newName =>
    match schemaOf c (ns c q) with
    | none => .error eSchemaNotFound
    | some s =>
      match relOf s q.name with
      | none => .error eRelationNotFound
      | some t =>
        if hasCol t newName then .error eColumnExists
        else if !hasCol t col then .error eColumnNotFound
        else .ok (mapSchema c (ns c q) (fun s => mapRel s q.name (fun t => mapCol t col (fun c => { c with name := newName }))))
  | .createEnum q vals =>
    match schemaOf c (ns c q) with
    | none => .error eSchemaNotFound
    | some s =>
      if hasRel s q.name then .error eRelationExists
      else if hasType s q.name then .error eTypeExists
      else if !distinct vals then .error eOther
      else .ok (mapSchema c (ns c q) (fun s => { s with types := s.types ++ [.enum q.name vals ""] }))
  | .createComposite q =>
    match schemaOf c (ns c q) with
    | none => .error eSchemaNotFound
    | some s =>
      if hasRel s q.name then .error eRelationExists
      else if hasType s q.name then .error eTypeExists
      else .ok (mapSchema c (ns c q) (fun s => { s with types := s.types ++ [.composite q.name ""] }))
  | .addValue q val guard pos =>
    match schemaOf c (ns c q) with
    | none => .error eSchemaNotFound
    | some s =>
      match typeOf s q.name with
      | none => .error eTypeNotFound
      | some (.composite _ _) => .error eOther
      | some (.enum _ vals _) =>
        if vals.contains val then (if guard then .ok c else .error eOther)
        else
          let place : Option Nat := match pos with
            | none => some vals.length
            | some (isAfter, nb) => (vals.findIdx? (· == nb)).map (fun i => if isAfter then i + 1 else i)
          match place with
          | none => .error eOther
          | some i => .ok (mapSchema c (ns c q) (fun s => mapType s q.name (fun
              | .enum n vs cm => .enum n (vs.take i ++ val :: vs.drop i) cm
              | t => t)))
  | .renameValue q old new =>
    match schemaOf c (ns c q) with
    | none => .error eSchemaNotFound
    | some s =>
      match typeOf s q.name with
      | none => .error eTypeNotFound
      | some (.composite _ _) => .error eOther
      | some (.enum _ vals _) =>
        if !vals.contains old then .error eOther
        else if vals.contains new then .error eOther
        else .ok (mapSchema c (ns c q) (fun s => mapType s q.name (fun
            | .enum n vs cm => .enum n (vs.map (fun v => if v == old then new else v)) cm
            | t => t)))
  | .dropType tys guard => tys.foldlM (dropTypeStep guard) c
  | .commentSchema n text =>
    if hasSchema c n then .ok (mapSchema c n (fun s => { s with comment := text.getD "" })) else .error eSchemaNotFound
  | .commentTable q text =>
    match schemaOf c (ns c q) with
    | none => .error eSchemaNotFound
    | some s =>
      if hasRel s q.name then .ok (mapSchema c (ns c q) (fun s => mapRel s q.name (fun t => { t with comment := text.getD "" })))
      else .error eRelationNotFound
  | .commentColumn q col text =>
    match schemaOf c (ns c q) with
    | none => .error eSchemaNotFound
    | some s =>
      match relOf s q.name with
      | none => .error eRelationNotFound
      | some t =>
        if hasCol t col then
          .ok (mapSchema c (ns c q) (fun s => mapRel s q.name (fun t => mapCol t col (fun c => { c with comment := text.getD "" }))))
        else .error eColumnNotFound
  | .commentType q text =>
    match schemaOf c (ns c q) with
    | none => .error eSchemaNotFound
    | some s =>
      if hasType s q.name then .ok (mapSchema c (ns c q) (fun s => mapType s q.name (fun t => t.setComment (text.getD ""))))
      else .error eTypeNotFound

def run (c : Catalog) : List DDL → Except Err Catalog
  | [] => .ok c
  | op :: ops => do
    let c' ← step c op
    run c' ops

/-- the well-formedness invariant of a PostgreSQL catalog: names unique per namespace -/
def wfTable (t : Table) : Bool := distinct (t.cols.map (·.name))
def wfSchema (s : Schema) : Bool :=
  distinct (s.tables.map (·.name) ++ s.types.map (·.name)) && s.tables.all wfTable &&
  s.types.all (fun | .enum _ vs _ => distinct vs | .composite _ _ => true)
def wf (c : Catalog) : Bool := distinct (c.schemas.map (·.name)) && c.schemas.all wfSchema

end Sqlc.Spec.Pg
