/-
Reserved words of the two dialects, written from the manuals — NOT from sqlc's reserved.go.

* PostgreSQL 12/13, Appendix C "SQL Key Words": the keywords marked "reserved" and "reserved (can be
  function or type)". An identifier spelled like one of them must be double-quoted.
* MySQL 8.0, "Keywords and Reserved Words": a core of the words marked (R) that occur as column / table
  names in practice. (The full list has ~260 entries; the core below is the part this spec vouches for.)
-/
namespace Sqlc.Spec

def pgReservedDoc : List String := [
  "all", "analyse", "analyze", "and", "any", "array", "as", "asc", "asymmetric", "both", "case", "cast",
  "check", "collate", "column", "constraint", "create", "current_catalog", "current_date", "current_role",
  "current_time", "current_timestamp", "current_user", "default", "deferrable", "desc", "distinct", "do",
  "else", "end", "except", "false", "fetch", "for", "foreign", "from", "grant", "group", "having", "in",
  "initially", "intersect", "into", "lateral", "leading", "limit", "localtime", "localtimestamp", "not",
  "null", "offset", "on", "only", "or", "order", "placing", "primary", "references", "returning", "select",
  "session_user", "some", "symmetric", "table", "then", "to", "trailing", "true", "union", "unique", "user",
  "using", "variadic", "when", "where", "window", "with"]

def pgReservedFuncOrTypeDoc : List String := [
  "authorization", "binary", "collation", "concurrently", "cross", "current_schema", "freeze", "full",
  "ilike", "inner", "is", "isnull", "join", "left", "like", "natural", "notnull", "outer", "overlaps",
  "right", "similar", "tablesample", "verbose"]

def mysqlReservedCoreDoc : List String := [
  "add", "all", "alter", "and", "as", "asc", "between", "by", "case", "change", "check", "column",
  "condition", "constraint", "create", "cross", "database", "default", "delete", "desc", "describe",
  "distinct", "drop", "else", "exists", "explain", "false", "for", "foreign", "from", "fulltext", "function",
  "grant", "group", "groups", "having", "if", "ignore", "in", "index", "inner", "insert", "interval", "into",
  "is", "join", "key", "keys", "left", "like", "limit", "lock", "match", "not", "null", "of", "on", "option",
  "or", "order", "outer", "over", "partition", "primary", "range", "rank", "read", "references", "rename",
  "replace", "right", "row", "rows", "schema", "select", "set", "show", "system", "table", "then", "to",
  "trigger", "true", "union", "unique", "update", "usage", "use", "using", "values", "when", "where",
  "while", "window", "with", "write"]

end Sqlc.Spec
