import SqlcModel.Text.Lines
/-
Reference specification for C14, written from the property statement and the four tools' own
documentation — NOT from sqlc's code.
-/
namespace Sqlc.Spec

/-- goose `-- +goose Down`, sql-migrate `-- +migrate Down`, tern's separator, dbmate `-- migrate:down` -/
def docMarkers : List Bytes := [
  [45, 45, 32, 43, 103, 111, 111, 115, 101, 32, 68, 111, 119, 110],
  [45, 45, 32, 43, 109, 105, 103, 114, 97, 116, 101, 32, 68, 111, 119, 110],
  [45, 45, 45, 45, 32, 99, 114, 101, 97, 116, 101, 32, 97, 98, 111, 118, 101, 32, 47, 32, 100, 114, 111, 112, 32, 98, 101, 108, 111, 119, 32, 45, 45, 45, 45],
  [45, 45, 32, 109, 105, 103, 114, 97, 116, 101, 58, 100, 111, 119, 110]]

def docSqlSuffix : Bytes := [46, 115, 113, 108]                              -- ".sql"
def docDownSuffix : Bytes := [46, 100, 111, 119, 110, 46, 115, 113, 108]     -- ".down.sql"
def docHiddenPrefix : Bytes := [46]                                          -- "."

def isBlank (c : UInt8) : Bool := c = 32 || c = 9 || c = 13

/-- A rollback-marker *line*: one of the four markers, alone on the line or followed by blank-separated
options (`-- +migrate Down notransaction`, `-- migrate:down transaction:false`). A line that merely
starts with the marker's characters (`-- +goose Downgrade notes`) is a near miss, not a marker. -/
def isMarkerLine (l : Bytes) : Bool :=
  docMarkers.any (fun m => m.isPrefixOf l &&
    (match (l.drop m.length).head? with
     | none => true
     | some c => isBlank c))

/-- the `up` part of a migration file, as a list of lines -/
def upLines (lines : List Bytes) : List Bytes := lines.takeWhile (fun l => !isMarkerLine l)

end Sqlc.Spec
