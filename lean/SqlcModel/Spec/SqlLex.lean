import SqlcModel.Text.Lines
/-
Reference lexer for the PostgreSQL / MySQL token classes that matter to C03, C04, C20 — written from
the PostgreSQL manual ("Lexical Structure") and the MySQL manual, NOT from sqlc's code.
Comments and white space produce no tokens.
-/
namespace Sqlc.Spec.Lex

inductive Kind where
  | ident | quoted | string | number | param | qmark | op | punct
deriving Repr, DecidableEq, BEq

structure Tok where
  kind : Kind
  text : Bytes
deriving Repr, DecidableEq, BEq

def isIdStart (b : UInt8) : Bool := (65 ≤ b && b ≤ 90) || (97 ≤ b && b ≤ 122) || b = 95 || b ≥ 128
def isDigit (b : UInt8) : Bool := 48 ≤ b && b ≤ 57
def isIdCont (b : UInt8) : Bool := isIdStart b || isDigit b || b = 36
def isWs (b : UInt8) : Bool := b = 32 || b = 9 || b = 10 || b = 13 || b = 12 || b = 11
def isOpChar (b : UInt8) : Bool :=
  b = 43 || b = 45 || b = 42 || b = 47 || b = 60 || b = 62 || b = 61 || b = 126 || b = 33 || b = 64 ||
  b = 35 || b = 37 || b = 94 || b = 38 || b = 124

def lower (b : UInt8) : UInt8 := if 65 ≤ b && b ≤ 90 then b + 32 else b

/-- skip to just after the closing quote `q`; a doubled quote is an escaped quote; with `bs` a
backslash escapes the next byte -/
def scanQuoted (q : UInt8) (bs : Bool) : Bytes → Bytes → Bytes × Bytes
  | [], acc => (acc.reverse, [])
  | c :: rest, acc =>
    if bs && c = 92 then
      match rest with
      | d :: rest' => scanQuoted q bs rest' (d :: c :: acc)
      | [] => ((c :: acc).reverse, [])
    else if c = q then
      match rest with
      | d :: rest' => if d = q then scanQuoted q bs rest' (d :: c :: acc) else ((c :: acc).reverse, rest)
      | [] => ((c :: acc).reverse, [])
    else scanQuoted q bs rest (c :: acc)

def skipLine : Bytes → Bytes
  | [] => []
  | c :: rest => if c = 10 then rest else skipLine rest

/-- nested block comment (PostgreSQL nests, MySQL does not: `nest = false`) -/
def skipBlock (nest : Bool) : Bytes → Nat → Bytes
  | [], _ => []
  | [_], _ => []
  | a :: b :: rest, depth =>
    if a = 42 && b = 47 then (if depth = 0 then rest else skipBlock nest rest (depth - 1))
    else if nest && a = 47 && b = 42 then skipBlock nest rest (depth + 1)
    else skipBlock nest (b :: rest) depth

def takeWhileB (p : UInt8 → Bool) : Bytes → Bytes × Bytes
  | [] => ([], [])
  | c :: rest => if p c then let (a, b) := takeWhileB p rest; (c :: a, b) else ([], c :: rest)

/-- find the end of a dollar-quoted string with delimiter `delim` (e.g. `$tag$`) -/
def scanDollar (delim : Bytes) : Bytes → Bytes → Bytes × Bytes
  | [], acc => (acc.reverse, [])
  | c :: rest, acc =>
    if delim.isPrefixOf (c :: rest) then (acc.reverse ++ delim, (c :: rest).drop delim.length)
    else scanDollar delim rest (c :: acc)

/-- `mysql = true`: `#` starts a line comment, backticks quote identifiers, `?` is a placeholder,
backslash escapes inside strings, block comments do not nest -/
def lexAux (mysql : Bool) : Nat → Bytes → List Tok → List Tok
  | 0, _, acc => acc.reverse
  | _, [], acc => acc.reverse
  | fuel + 1, c :: rest, acc =>
    if isWs c then lexAux mysql fuel rest acc
    else if c = 45 && rest.head? = some 45 then lexAux mysql fuel (skipLine rest) acc
    else if mysql && c = 35 then lexAux mysql fuel (skipLine rest) acc
    else if c = 47 && rest.head? = some 42 then lexAux mysql fuel (skipBlock (!mysql) (rest.drop 1) 0) acc
    else if c = 39 then
      let (s, r) := scanQuoted 39 mysql rest []
      lexAux mysql fuel r (⟨.string, c :: s⟩ :: acc)
    else if (c = 69 || c = 101) && rest.head? = some 39 && !mysql then
      let (s, r) := scanQuoted 39 true (rest.drop 1) []
      lexAux mysql fuel r (⟨.string, c :: 39 :: s⟩ :: acc)
    else if c = 34 then
      let (s, r) := scanQuoted 34 false rest []
      lexAux mysql fuel r (⟨.quoted, c :: s⟩ :: acc)
    else if mysql && c = 96 then
      let (s, r) := scanQuoted 96 false rest []
      lexAux mysql fuel r (⟨.quoted, c :: s⟩ :: acc)
    else if c = 36 && !mysql then
      let (ds, r) := takeWhileB isDigit rest
      if !ds.isEmpty then lexAux mysql fuel r (⟨.param, c :: ds⟩ :: acc)
      else
        let (tag, r2) := takeWhileB (fun b => isIdCont b && b != 36) rest
        if r2.head? = some 36 then
          let delim := c :: tag ++ [36]
          let (body, r3) := scanDollar delim (r2.drop 1) []
          lexAux mysql fuel r3 (⟨.string, delim ++ body⟩ :: acc)
        else lexAux mysql fuel rest (⟨.op, [c]⟩ :: acc)
    else if mysql && c = 63 then lexAux mysql fuel rest (⟨.qmark, [c]⟩ :: acc)
    else if isIdStart c then
      let (w, r) := takeWhileB isIdCont rest
      lexAux mysql fuel r (⟨.ident, (c :: w).map lower⟩ :: acc)
    else if isDigit c then
      let (w, r) := takeWhileB (fun b => isDigit b || b = 46 || isIdStart b) rest
      lexAux mysql fuel r (⟨.number, c :: w⟩ :: acc)
    else if c = 58 && rest.head? = some 58 then lexAux mysql fuel (rest.drop 1) (⟨.punct, [58, 58]⟩ :: acc)
    else if isOpChar c then
      -- an operator run stops before a comment opener
      let rec opRun : Bytes → Bytes → Bytes × Bytes
        | [], a => (a.reverse, [])
        | d :: ds, a =>
          if !isOpChar d then (a.reverse, d :: ds)
          else if d = 45 && ds.head? = some 45 then (a.reverse, d :: ds)
          else if d = 47 && ds.head? = some 42 then (a.reverse, d :: ds)
          else opRun ds (d :: a)
      let (w, r) := opRun rest [c]
      lexAux mysql fuel r (⟨.op, w⟩ :: acc)
    else lexAux mysql fuel rest (⟨.punct, [c]⟩ :: acc)

def lex (mysql : Bool) (s : Bytes) : List Tok := lexAux mysql (s.length + 1) s []

/-- distinct `$n` numbers in order of first appearance -/
def paramNumbers (ts : List Tok) : List Nat :=
  ts.filterMap (fun t => if t.kind == .param then (String.ofList ((t.text.drop 1).map (fun b => Char.ofNat b.toNat))).toNat? else none)

def qmarkCount (ts : List Tok) : Nat := (ts.filter (·.kind == .qmark)).length

end Sqlc.Spec.Lex
