/-
The engine-neutral AST of internal/sql/ast as a generic tree.

A node carries its kind and its fields; the node-valued fields that the REAL `astutils.Walk` visits
come first, in the order Walk visits them, flagged `true` (the harness obtains that order by running
Walk with a recording visitor), all other fields follow flagged `false`. The model therefore needs
no per-kind knowledge of the ~230 node kinds, and `walk` below is Walk for every kind.
-/
namespace Sqlc

inductive Node where
  | nd (kind : String) (fields : List (String × Bool × Node))
  | list (items : List Node)
  | str (s : String)
  | num (i : Int)
  | bool (b : Bool)
  | null
deriving Repr, Inhabited

namespace Node

def kind : Node → String
  | .nd k _ => k
  | .list _ => "List"
  | _ => ""

def isKind (n : Node) (k : String) : Bool := n.kind == k

def fields : Node → List (String × Bool × Node)
  | .nd _ fs => fs
  | _ => []

def lookupField : List (String × Bool × Node) → String → Node
  | [], _ => .null
  | (n, _, v) :: rest, f => if n == f then v else lookupField rest f

/-- field access; absent (nil / zero) fields read as `null` -/
def get (n : Node) (f : String) : Node := lookupField n.fields f

def isNull : Node → Bool
  | .null => true
  | _ => false

def items : Node → List Node
  | .list is => is
  | .nd "Slice" _ => []
  | _ => []

def strVal : Node → String
  | .str s => s
  | _ => ""

def strOpt : Node → Option String
  | .str s => some s
  | _ => none

def intVal : Node → Int
  | .num i => i
  | _ => 0

def natVal (n : Node) : Nat := n.intVal.toNat

def boolVal : Node → Bool
  | .bool b => b
  | _ => false

/-- `*ast.String` items of a list, as astutils.Join / stringSlice see them -/
def stringItems (l : Node) : List String :=
  l.items.filterMap (fun it => if it.isKind "String" then some (it.get "Str").strVal else none)

def joinStrings (l : Node) (sep : String) : String := sep.intercalate l.stringItems

mutual
/-- the nodes `astutils.Walk` visits, in visiting order (pre-order) -/
def walk : Node → List Node
  | .nd k fs => .nd k fs :: walkFields fs
  | .list is => .list is :: walkItems is
  | _ => []
def walkFields : List (String × Bool × Node) → List Node
  | [] => []
  | (_, true, c) :: rest => walk c ++ walkFields rest
  | (_, false, _) :: rest => walkFields rest
def walkItems : List Node → List Node
  | [] => []
  | c :: rest => walk c ++ walkItems rest
end

/-- astutils.Search -/
def search (root : Node) (p : Node → Bool) : List Node := root.walk.filter p

end Node
end Sqlc
