import SqlcModel.GoGen.Types
import SqlcModel.Spec.DocTypes
import SqlcModel.Gen.Untranslatable
/-
C09 — Every supported database type maps to its documented Go type.
The domain (type-switch arms × nullability × array-ness) is finite and is enumerated completely by
`decide` over the REGENERATED tables; the lift to `goType` for arbitrary columns is by unfolding.
-/
namespace Sqlc.C09
open Sqlc Sqlc.GoGen Sqlc.Spec

/-- O1: every spelling of every arm of postgresType is a documented name of a canonical type whose
documented Go types are exactly the arm's results. -/
theorem pg_arms_documented :
    Gen.pgTypeArms.all (fun arm => arm.1.all (fun sp =>
      match pgCanonOf sp with
      | some c => c.go == (arm.2.1, arm.2.2)
      | none => false)) = true := by decide

/-- O2: every documented name of every canonical type has an arm — except the listed known-missing
bare spellings. -/
theorem pg_names_covered :
    allCanon.all (fun c => (pgNames c).all (fun n =>
      pgKnownMissing.contains n || (lookupArm Gen.pgTypeArms n).isSome)) = true := by decide

/-- the hypothesis in O2 is forced on the pinned tree: witness -/
theorem pg_known_missing_witness :
    pgKnownMissing.all (fun n => (lookupArm Gen.pgTypeArms n).isNone && (pgCanonOf n).isSome) = true := by decide

theorem mysql_arms_documented :
    Gen.mysqlTypeArms.all (fun arm => arm.1.all (fun sp =>
      match myCanonOf sp with
      | some c => c.go == (arm.2.1, arm.2.2)
      | none => false)) = true := by decide

theorem mysql_names_covered :
    allMyCanon.all (fun c => (myNames c).all (fun n => (lookupArm Gen.mysqlTypeArms n).isSome)) = true := by decide

/-- tinyint(1) is boolean -/
theorem mysql_tinyint1_documented :
    Gen.mysqlTinyint1 = [(["tinyint"], (MyCanon.bool.go).1, (MyCanon.bool.go).2)] := by decide

theorem array_prefix_documented : Gen.arrayPrefix = "[]" := by decide

/-- lookup of a documented name returns the documented pair (lifts O1 from the table to `lookupArm`) -/
theorem lookup_documented (n : String) (r : String × String)
    (h : lookupArm Gen.pgTypeArms n = some r) : ∃ c, pgCanonOf n = some c ∧ c.go = r := by
  unfold lookupArm at h
  cases hf : Gen.pgTypeArms.find? (fun a => a.1.contains n) with
  | none => rw [hf] at h; exact absurd h (by simp)
  | some arm =>
    rw [hf] at h
    have h : arm.2 = r := by simpa using h
    have hmem := List.mem_of_find?_eq_some hf
    have hp := List.find?_some hf
    have hall := pg_arms_documented
    rw [List.all_eq_true] at hall
    have h1 := hall arm hmem
    rw [List.all_eq_true] at h1
    have hn : n ∈ arm.1 := by simpa using hp
    have h2 := h1 n hn
    cases hc : pgCanonOf n with
    | none => simp [hc] at h2
    | some c =>
      simp [hc] at h2
      exact ⟨c, rfl, by rw [← h]; exact h2⟩

/-- C09 (PostgreSQL, no overrides): for EVERY column whose type name has an arm, whatever its position
(model field, result column, parameter — all call `goType`), the Go type is the documented one:
slice of the NOT NULL element type for arrays, NOT NULL / nullable representation otherwise. -/
theorem C09_pg (env : TypeEnv) (col : Column) (r : String × String)
    (hpg : env.engine = "postgresql") (hov : env.overrides = [])
    (h : lookupArm Gen.pgTypeArms col.dataType = some r) :
    ∃ c, pgCanonOf col.dataType = some c ∧
      goType env col = docGoType c.go col.notNull col.isArray := by
  obtain ⟨c, hc, hgo⟩ := lookup_documented col.dataType r h
  refine ⟨c, hc, ?_⟩
  unfold goType columnOverride goInnerType dbTypeOverride postgresType docGoType pick
  simp only [hov, hpg, h, hgo, List.find?_nil, Option.map_none, array_prefix_documented]
  cases col.isArray <;> cases col.notNull <;> simp

/-- aliases agree: two names of one canonical type always give the same Go type -/
theorem C09_aliases_agree (env : TypeEnv) (c1 c2 : Column) (r1 r2 : String × String)
    (hpg : env.engine = "postgresql") (hov : env.overrides = [])
    (h1 : lookupArm Gen.pgTypeArms c1.dataType = some r1)
    (h2 : lookupArm Gen.pgTypeArms c2.dataType = some r2)
    (hsame : pgCanonOf c1.dataType = pgCanonOf c2.dataType)
    (hnn : c1.notNull = c2.notNull) (har : c1.isArray = c2.isArray) :
    goType env c1 = goType env c2 := by
  obtain ⟨a, ha, hga⟩ := C09_pg env c1 r1 hpg hov h1
  obtain ⟨b, hb, hgb⟩ := C09_pg env c2 r2 hpg hov h2
  rw [ha, hb] at hsame
  cases hsame
  rw [hga, hgb, hnn, har]

/-- unknown types (no arm, no enum/composite of that name) map to interface{} -/
theorem C09_unknown (env : TypeEnv) (col : Column)
    (hpg : env.engine = "postgresql") (hov : env.overrides = [])
    (h : lookupArm Gen.pgTypeArms col.dataType = none)
    (hno : ∀ p, parseRel col.dataType = some p →
      pgFallbackTypes env.defaultSchema env.rename (if p.1 == "" then env.defaultSchema else p.1) p.2 (col.notNull || col.isArray) env.schemas = none) :
    goType env col = if col.isArray then "[]interface{}" else "interface{}" := by
  unfold goType columnOverride goInnerType dbTypeOverride postgresType
  simp only [hov, hpg, h, List.find?_nil, Option.map_none, array_prefix_documented]
  cases hp : parseRel col.dataType with
  | none => cases col.isArray <;> simp
  | some p =>
    have := hno p hp
    simp only [this]
    cases col.isArray <;> simp

/-- non-vacuity: a concrete column meets the hypotheses of C09_pg -/
example : lookupArm Gen.pgTypeArms "pg_catalog.int4" = some ("int32", "sql.NullInt32") := by decide

theorem translator_complete : Gen.untranslatable = [] := by decide

end Sqlc.C09
