import SqlcModel.GoGen.Query
import SqlcModel.Gen.ImportFacts
import SqlcModel.Gen.TemplateFacts
import SqlcModel.Gen.Untranslatable
/-
C01 — Generated Go package always compiles.

Whether a Go package compiles is decided by the Go type checker; the correspondence stream therefore runs
go/parser, go/format and go/types (source importer) on every emitted package (harness/c01.go). What Lean
proves are the pieces of the generator that are tables and loops, regenerated from /repo on every run:

* `C01_imports_present` — for each of the three per-file import functions (modelImports, interfaceImports,
  queryImports) and every Go type an arm of postgresType / mysqlType can answer: if the type is
  package-qualified, some rule of that function matches it (strings.HasPrefix on the "[]"-trimmed type)
  and imports a package whose name is that qualifier. So no engine type can be used without its import;
* `C01_imports_needed` — conversely every rule's prefix is itself qualified by the last path element of the
  package it imports, and (`qualifier_of_prefix`) every type a rule matches carries the same qualifier: a
  rule never fires for a type that does not use its package;
* `C01_rules_agree` — the three functions have the same rules (queryImports additionally the slice-scan
  rule), so a type is treated the same in every file;
* `C01_fields_distinct_partial` — columnsToStruct: when the Go names of the columns are pairwise distinct no
  suffix is applied and the fields are exactly those names, hence distinct;
* `C01_querier_assertion`, `C01_fixed_idents` — the interface template asserts `var _ Querier = (*Queries)(nil)`
  (regenerated fact) and the identifiers the templates declare unconditionally.

The full statement is FALSE of the unchanged code: the recorded findings (paramEqColumn — named in the
property text —, casingCollision, singularCollision, enumLabelCollision, enumLabelEmpty, renameCollision,
helperMethodName, constReceiverClash, columnNamedLikeLocal) are inputs for which generation succeeds and the
package does not type-check. None of them is in the scope of the theorems above: they concern identifier
derivation across SEVERAL declarations, which sqlc never checks.
-/
set_option linter.unusedSimpArgs false
set_option maxRecDepth 100000
namespace Sqlc.C01
open Sqlc Sqlc.GoGen

/-- the package qualifier of a Go type spelled `pkg.Name` (after trimming a leading "[]") -/
def trimSlice : List Char → List Char
  | '[' :: ']' :: rest => rest
  | l => l

def qualifierOf (l : List Char) : Option (List Char) :=
  if l.contains '.' then some (l.takeWhile (· != '.')) else none

/-- the package name an import path brings into scope: its last element -/
def lastSegment (p : List Char) : List Char :=
  (p.reverse.takeWhile (· != '/')).reverse

def rulesOf (fn : String) : List (List Char × List Char) :=
  match Gen.importRules.find? (·.1 == fn) with
  | some (_, rs) => rs
  | none => []

def covered (fn : String) (ty : List Char) : Bool :=
  match qualifierOf (trimSlice ty) with
  | none => true
  | some q => (rulesOf fn).any (fun r => r.1.isPrefixOf (trimSlice ty) && lastSegment r.2 == q)

theorem C01_imports_present :
    ∀ fn ∈ ["modelImports", "interfaceImports", "queryImports"], ∀ ty ∈ Gen.armGoTypes, covered fn ty = true := by
  decide +kernel

theorem C01_imports_needed :
    ∀ fn ∈ ["modelImports", "interfaceImports", "queryImports"], ∀ r ∈ rulesOf fn,
      r.1 = ['[', ']'] ∨ qualifierOf r.1 = some (lastSegment r.2) := by
  decide +kernel

theorem takeWhile_prefix (p t : List Char) (h : p.isPrefixOf t = true) (hd : p.contains '.' = true) :
    t.takeWhile (· != '.') = p.takeWhile (· != '.') ∧ t.contains '.' = true := by
  induction p generalizing t with
  | nil => simp at hd
  | cons a p ih =>
    cases t with
    | nil => simp [List.isPrefixOf] at h
    | cons b t =>
      simp only [List.isPrefixOf, Bool.and_eq_true, beq_iff_eq] at h
      obtain ⟨hab, hpt⟩ := h
      subst hab
      by_cases ha : a = '.'
      · subst ha; simp
      · have hd' : p.contains '.' = true := by
          simp only [List.contains_cons, Bool.or_eq_true, beq_iff_eq] at hd
          rcases hd with hd | hd
          · exact absurd hd.symm ha
          · exact hd
        obtain ⟨h1, h2⟩ := ih t hpt hd'
        refine ⟨?_, ?_⟩
        · simp [List.takeWhile_cons, ha, h1]
        · have hm : '.' ∈ t := by simpa using h2
          simp [hm]

/-- every type a qualified rule matches carries the rule's qualifier -/
theorem qualifier_of_prefix (p t : List Char) (q : List Char) (h : p.isPrefixOf t = true) (hq : qualifierOf p = some q) :
    qualifierOf t = some q := by
  unfold qualifierOf at hq ⊢
  by_cases hd : p.contains '.' = true
  · obtain ⟨h1, h2⟩ := takeWhile_prefix p t h hd
    rw [if_pos hd] at hq
    rw [if_pos h2, h1]; exact hq
  · rw [if_neg hd] at hq; exact absurd hq (by simp)

theorem C01_rules_agree :
    rulesOf "modelImports" = rulesOf "interfaceImports" ∧
    rulesOf "queryImports" = (['[', ']'], "github.com/lib/pq".toList) :: rulesOf "modelImports" := by
  decide +kernel

theorem C01_querier_assertion : Gen.templateHasQuerierAssertion = true := by decide

theorem C01_fixed_idents :
    ∀ n ∈ ["Close", "DBTX", "New", "Prepare", "Querier", "Queries", "WithTx"], n ∈ Gen.templateFixedIdents := by decide

/-! ### columnsToStruct without duplicates -/

def baseName (env : TypeEnv) (c : GoColumn) (i : Nat) : String := structName env.rename (columnName c.col.name i)

theorem lookupStr_zero_of_not_mem (m : List (String × Nat)) (k : String) (h : ∀ e ∈ m, e.1 ≠ k) : lookupStr m k = 0 := by
  unfold lookupStr
  have : m.find? (·.1 == k) = none := by
    rw [List.find?_eq_none]; intro e he; simpa using h e he
  simp [this]

theorem bump_keys (m : List (String × Nat)) (k : String) (e : String × Nat) (he : e ∈ bump m k) :
    e.1 = k ∨ ∃ e' ∈ m, e'.1 = e.1 := by
  unfold bump at he
  by_cases hm : m.any (·.1 == k) = true
  · rw [if_pos hm] at he
    rw [List.mem_map] at he
    obtain ⟨e', he', heq⟩ := he
    by_cases hk : (e'.1 == k) = true
    · rw [if_pos hk] at heq; left; rw [← heq]; simpa using hk
    · rw [if_neg hk] at heq; right; exact ⟨e', he', by rw [heq]⟩
  · rw [if_neg hm] at he
    rw [List.mem_append] at he
    rcases he with he | he
    · right; exact ⟨e, he, rfl⟩
    · left; simp at he; rw [he]

theorem setNat_vals_zero (m : List (Nat × Nat)) (k : Nat) (h : ∀ e ∈ m, e.2 = 0) : ∀ e ∈ setNat m k 0, e.2 = 0 := by
  intro e he
  unfold setNat at he
  by_cases hm : m.any (·.1 == k) = true
  · rw [if_pos hm] at he
    rw [List.mem_map] at he
    obtain ⟨e', he', heq⟩ := he
    by_cases hk : (e'.1 == k) = true
    · rw [if_pos hk] at heq; rw [← heq]
    · rw [if_neg hk] at heq; rw [← heq]; exact h e' he'
  · rw [if_neg hm] at he
    rw [List.mem_append] at he
    rcases he with he | he
    · exact h e he
    · simp at he; rw [he]

theorem lookupNat_zero (m : List (Nat × Nat)) (k : Nat) (h : ∀ e ∈ m, e.2 = 0) : lookupNat m k = none ∨ lookupNat m k = some 0 := by
  unfold lookupNat
  cases hf : m.find? (·.1 == k) with
  | none => left; rfl
  | some e => right; simp [h e (List.mem_of_find?_eq_some hf)]

def suffixOf (c : GoColumn) (i : Nat) (seen : List (String × Nat)) (sfx : List (Nat × Nat)) : Nat :=
  match lookupNat sfx c.id with
  | some o => o
  | none => let v := lookupStr seen (columnName c.col.name i); if v > 0 then v + 1 else 0

def fieldOf (env : TypeEnv) (c : GoColumn) (i suffix : Nat) : Field :=
  let colName := columnName c.col.name i
  let fieldName := structName env.rename colName
  let (tag, fname) := if suffix > 0 then (s!"{colName}_{suffix}", s!"{fieldName}_{suffix}") else (colName, fieldName)
  { name := fname, type := goType env (toTypeColumn c.col), dbTag := tag }

theorem c2sLoop_cons (env : TypeEnv) (c : GoColumn) (rest : List GoColumn) (i : Nat) (seen : List (String × Nat)) (sfx : List (Nat × Nat)) :
    c2sLoop env (c :: rest) i seen sfx =
      fieldOf env c i (suffixOf c i seen sfx) ::
        c2sLoop env rest (i + 1) (bump seen (columnName c.col.name i)) (setNat sfx c.id (suffixOf c i seen sfx)) := rfl

/-- with pairwise distinct column names no suffix is ever chosen: the fields are named by structName of the
column names, in order -/
theorem c2sLoop_no_suffix (env : TypeEnv) : ∀ (cols : List GoColumn) (i : Nat) (seen : List (String × Nat)) (sfx : List (Nat × Nat)),
    ((cols.zipIdx i).map (fun ci => columnName ci.1.col.name ci.2)).Nodup →
    (∀ ci ∈ cols.zipIdx i, ∀ e ∈ seen, e.1 ≠ columnName ci.1.col.name ci.2) →
    (∀ e ∈ sfx, e.2 = 0) →
    (c2sLoop env cols i seen sfx).map (·.name) = (cols.zipIdx i).map (fun ci => baseName env ci.1 ci.2) := by
  intro cols
  induction cols with
  | nil => intro i seen sfx _ _ _; simp [c2sLoop]
  | cons c cs ih =>
    intro i seen sfx hnd hseen hsfx
    simp only [List.zipIdx_cons, List.map_cons, List.nodup_cons] at hnd
    have hzero : lookupStr seen (columnName c.col.name i) = 0 :=
      lookupStr_zero_of_not_mem seen _ (fun e he => hseen (c, i) (by simp [List.zipIdx_cons]) e he)
    have hsuffix : suffixOf c i seen sfx = 0 := by
      unfold suffixOf
      rcases lookupNat_zero sfx c.id hsfx with h | h
      · rw [h]; simp [hzero]
      · rw [h]
    rw [c2sLoop_cons, hsuffix]
    simp only [List.map_cons, List.zipIdx_cons]
    congr 1
    apply ih (i + 1)
    · exact hnd.2
    · intro ci hci e he
      rcases bump_keys seen _ e he with h | ⟨e', he', h⟩
      · rw [h]; intro heq
        apply hnd.1
        rw [List.mem_map]
        exact ⟨ci, hci, heq.symm⟩
      · rw [← h]; exact hseen ci (by simp [List.zipIdx_cons, hci]) e' he'
    · exact setNat_vals_zero sfx c.id hsfx

theorem C01_fields_distinct_partial (env : TypeEnv) (name : String) (cols : List GoColumn)
    (hcols : ((cols.zipIdx).map (fun ci => columnName ci.1.col.name ci.2)).Nodup)
    (hbase : ((cols.zipIdx).map (fun ci => baseName env ci.1 ci.2)).Nodup) :
    ((columnsToStruct env name cols).fields.map (·.name)).Nodup := by
  unfold columnsToStruct
  simp only
  rw [c2sLoop_no_suffix env cols 0 [] [] hcols (by simp) (by simp)]
  exact hbase

theorem translator_complete : Gen.untranslatable = [] := by decide

end Sqlc.C01
