import SqlcModel.Query.Analyze
import SqlcModel.GoGen.Query
import SqlcModel.Gen.Untranslatable
import SqlcModel.Gen.ValidationFacts
/-
C03 — Arguments bind one-to-one, in order, to the SQL placeholders.
-/
set_option linter.unusedSimpArgs false
namespace Sqlc.C03
open Sqlc Sqlc.Q Sqlc.GoGen

/-! ### uniqueParamRefs + sort: one reference per number, ascending -/

def uniqStep (acc : List ParamRef × List Nat) (r : ParamRef) : List ParamRef × List Nat :=
  if acc.2.contains r.number then acc else (acc.1 ++ [r], r.number :: acc.2)

theorem unique_eq_fold (l : List ParamRef) : uniqueParamRefs l = (l.foldl uniqStep ([], [])).1 := rfl

theorem uniq_inv (l : List ParamRef) (acc : List ParamRef × List Nat)
    (h1 : (acc.1.map (·.number)).Nodup) (h2 : ∀ k, k ∈ acc.2 ↔ k ∈ acc.1.map (·.number)) :
    ((l.foldl uniqStep acc).1.map (·.number)).Nodup ∧
    (∀ k, k ∈ (l.foldl uniqStep acc).2 ↔ k ∈ (l.foldl uniqStep acc).1.map (·.number)) ∧
    (∀ k, k ∈ (l.foldl uniqStep acc).1.map (·.number) ↔ (k ∈ acc.1.map (·.number) ∨ k ∈ l.map (·.number))) := by
  induction l generalizing acc with
  | nil =>
    refine ⟨h1, h2, ?_⟩
    intro k
    simp only [List.foldl_nil, List.map_nil, List.not_mem_nil, or_false]
  | cons x xs ih =>
    simp only [List.foldl_cons]
    by_cases hc : acc.2.contains x.number = true
    · have hstep : uniqStep acc x = acc := by unfold uniqStep; rw [if_pos hc]
      rw [hstep]
      obtain ⟨a, b, c⟩ := ih acc h1 h2
      refine ⟨a, b, ?_⟩
      intro k
      rw [c k]
      have hx : x.number ∈ acc.1.map (·.number) := (h2 _).mp (by simpa using hc)
      constructor
      · rintro (h | h)
        · exact Or.inl h
        · exact Or.inr (by simp only [List.map_cons, List.mem_cons]; exact Or.inr h)
      · rintro (h | h)
        · exact Or.inl h
        · simp only [List.map_cons, List.mem_cons] at h
          rcases h with h | h
          · left; rw [h]; exact hx
          · exact Or.inr h
    · have hstep : uniqStep acc x = (acc.1 ++ [x], x.number :: acc.2) := by unfold uniqStep; rw [if_neg hc]
      rw [hstep]
      have hnot : x.number ∉ acc.1.map (·.number) := by
        intro hm
        have := (h2 _).mpr hm
        exact hc (by simpa using this)
      obtain ⟨a, b, c⟩ := ih (acc.1 ++ [x], x.number :: acc.2)
        (by
          show ((acc.1 ++ [x]).map (·.number)).Nodup
          rw [List.map_append, List.nodup_append]
          refine ⟨h1, by simp, ?_⟩
          intro p hp q hq
          simp only [List.map_cons, List.map_nil, List.mem_cons, List.not_mem_nil, or_false] at hq
          subst hq
          intro e; subst e; exact hnot hp)
        (by
          intro k
          show k ∈ x.number :: acc.2 ↔ k ∈ (acc.1 ++ [x]).map (·.number)
          rw [List.map_append, List.mem_append, List.mem_cons, h2 k]
          simp only [List.map_cons, List.map_nil, List.mem_cons, List.not_mem_nil, or_false]
          constructor
          · rintro (h | h)
            · exact Or.inr h
            · exact Or.inl h
          · rintro (h | h)
            · exact Or.inr h
            · exact Or.inl h)
      refine ⟨a, b, ?_⟩
      intro k
      rw [c k]
      show (k ∈ (acc.1 ++ [x]).map (·.number) ∨ k ∈ xs.map (·.number)) ↔ _
      rw [List.map_append, List.mem_append]
      simp only [List.map_cons, List.map_nil, List.mem_cons, List.not_mem_nil, or_false]
      constructor
      · rintro ((h | h) | h)
        · exact Or.inl h
        · exact Or.inr (Or.inl h)
        · exact Or.inr (Or.inr h)
      · rintro (h | h | h)
        · exact Or.inl (Or.inl h)
        · exact Or.inl (Or.inr h)
        · exact Or.inr h

theorem unique_nodup (l : List ParamRef) : ((uniqueParamRefs l).map (·.number)).Nodup := by
  rw [unique_eq_fold]
  exact (uniq_inv l ([], []) (by simp) (by simp)).1

theorem unique_mem (l : List ParamRef) (k : Nat) :
    k ∈ (uniqueParamRefs l).map (·.number) ↔ k ∈ l.map (·.number) := by
  rw [unique_eq_fold]
  have := (uniq_inv l ([], []) (by simp) (by simp)).2.2 k
  simpa using this

/-- a duplicate-free ascending list of naturals whose members are exactly 1..n is `[1, …, n]` -/
theorem sorted_nodup_is_range (l : List Nat) (n : Nat) (hs : l.Pairwise (· ≤ ·)) (hd : l.Nodup)
    (hm : ∀ k, k ∈ l ↔ (1 ≤ k ∧ k ≤ n)) : l = List.range' 1 n := by
  have hperm : l.Perm (List.range' 1 n) := by
    rw [List.perm_ext_iff_of_nodup hd (List.nodup_range' (step := 1))]
    intro k
    rw [hm k, List.mem_range'_1]
    omega
  apply List.Perm.eq_of_pairwise (le := (· ≤ ·)) _ hs _ hperm
  · intro a b _ _ h1 h2; exact Nat.le_antisymm h1 h2
  · have := List.pairwise_lt_range' (s := 1) (n := n)
    exact this.imp (fun h => Nat.le_of_lt h)

/-- C03 (numbering): whatever order the placeholders were found in and however often each occurs, if
the numbers that occur are exactly 1..n (which validate.ParamRef enforces), the parameter list after
de-duplication and sorting is numbered exactly 1, 2, …, n: the k-th parameter is `$k`. -/
theorem C03_numbers (l : List ParamRef) (n : Nat)
    (h : ∀ k, k ∈ l.map (·.number) ↔ (1 ≤ k ∧ k ≤ n)) :
    (sortRefs (uniqueParamRefs l)).map (·.number) = List.range' 1 n := by
  apply sorted_nodup_is_range
  · have hs := List.pairwise_mergeSort (le := fun (a b : ParamRef) => decide (a.number ≤ b.number))
      (fun a b c h1 h2 => by simp only [decide_eq_true_eq] at *; omega)
      (fun a b => by simp only [Bool.or_eq_true, decide_eq_true_eq]; omega) (uniqueParamRefs l)
    unfold sortRefs
    rw [List.pairwise_map]
    exact hs.imp (fun h => by simpa using h)
  · exact ((List.mergeSort_perm (uniqueParamRefs l) _).map (·.number)).nodup_iff.mpr (unique_nodup l)
  · intro k
    unfold sortRefs
    rw [((List.mergeSort_perm (uniqueParamRefs l) _).map (·.number)).mem_iff, unique_mem, h k]

/-! ### validate.ParamRef -/

theorem mem_distinct (l : List Nat) (k : Nat) : k ∈ distinctNums l ↔ k ∈ l := by
  induction l with
  | nil => simp [distinctNums]
  | cons n ns ih =>
    unfold distinctNums
    by_cases h : n ∈ distinctNums ns
    · rw [if_pos h, ih]
      constructor
      · intro hk; exact List.mem_cons_of_mem _ hk
      · intro hk
        rcases List.mem_cons.mp hk with rfl | hk
        · exact ih.mp h
        · exact hk
    · rw [if_neg h]; simp [ih]

theorem nodup_distinct (l : List Nat) : (distinctNums l).Nodup := by
  induction l with
  | nil => simp [distinctNums]
  | cons n ns ih =>
    unfold distinctNums
    by_cases h : n ∈ distinctNums ns
    · rw [if_pos h]; exact ih
    · rw [if_neg h]; exact List.nodup_cons.mpr ⟨h, ih⟩

/-- pigeonhole: n distinct naturals among which every one of 1..n occurs are exactly 1..n -/
theorem pigeon : ∀ (n : Nat) (S : List Nat), S.Nodup → S.length = n → (∀ i, 1 ≤ i → i ≤ n → i ∈ S) →
    ∀ k ∈ S, 1 ≤ k ∧ k ≤ n
  | 0, S, _, hl, _, k, hk => by
    have : S = [] := List.eq_nil_of_length_eq_zero hl
    rw [this] at hk; cases hk
  | n + 1, S, hd, hl, hall, k, hk => by
    have hn : n + 1 ∈ S := hall (n + 1) (by omega) (by omega)
    by_cases hkn : k = n + 1
    · omega
    · have hk' : k ∈ S.erase (n + 1) := (List.mem_erase_of_ne hkn).mpr hk
      have := pigeon n (S.erase (n + 1)) (hd.erase _) (by rw [List.length_erase_of_mem hn, hl]; rfl)
        (fun i h1 h2 => (List.mem_erase_of_ne (by omega)).mpr (hall i h1 (by omega))) k hk'
      omega

/-- **validate.ParamRef, characterised.** A statement passes iff the numbers of its placeholders are exactly
1..n for n the number of distinct ones — whatever the order and however often each is repeated. -/
theorem paramRefCheck_none_iff (nums : List Nat) :
    paramRefCheck nums = none ↔ ∀ k, k ∈ nums ↔ (1 ≤ k ∧ k ≤ (distinctNums nums).length) := by
  unfold paramRefCheck
  rw [List.find?_eq_none]
  constructor
  · intro h k
    have hall : ∀ i, 1 ≤ i → i ≤ (distinctNums nums).length → i ∈ distinctNums nums := by
      intro i h1 h2
      have := h i (List.mem_range'_1.mpr ⟨h1, by omega⟩)
      rw [mem_distinct]
      simpa using this
    constructor
    · intro hk
      exact pigeon _ (distinctNums nums) (nodup_distinct nums) rfl hall k ((mem_distinct nums k).mpr hk)
    · intro ⟨h1, h2⟩
      exact (mem_distinct nums k).mp (hall k h1 h2)
  · intro h i hi
    have := List.mem_range'_1.mp hi
    have : i ∈ nums := (h i).mpr ⟨this.1, by omega⟩
    simpa using this

/-- O (regenerated): the body of validate.ParamRef is the one `paramRefCheck` was written from -/
theorem paramRef_site :
    Gen.paramRefBody = ["var allrefs []*ast.ParamRef",
      "astutils.Walk(astutils.VisitorFunc(func(node ast.Node) { switch n := node.(type) { case *ast.ParamRef: allrefs = append(allrefs, n) } }), n)",
      "seen := map[int]struct{}{}",
      "for _, r := range allrefs { seen[r.Number] = struct{}{} }",
      "for i := 1; i <= len(seen); i += 1 { if _, ok := seen[i]; !ok { return &sqlerr.Error{ Code: \"42P18\", Message: fmt.Sprintf(\"could not determine data type of parameter $%d\", i), } } }",
      "return nil"] ∧
    Gen.paramRefPaths = [(["for i := 1; i <= len(seen); i += 1", "if _, ok := seen[i]; !ok"], "&<lit>"), ([], "nil")] := ⟨rfl, rfl⟩

/-- **C03 (numbering), with the validator inside the model.** A statement that validate.ParamRef lets through
yields, after de-duplication and sorting, parameters numbered exactly 1, 2, …, n — the k-th parameter is `$k` —
and one it rejects has a hole in its numbering (`paramRefCheck_none_iff`). -/
theorem C03_numbers_validated (l : List ParamRef) (h : paramRefCheck (l.map (·.number)) = none) :
    (sortRefs (uniqueParamRefs l)).map (·.number) = List.range' 1 (distinctNums (l.map (·.number))).length :=
  C03_numbers l _ ((paramRefCheck_none_iff _).mp h)

example : paramRefCheck [1, 1, 3] = some 2 ∧ paramRefCheck [2, 1, 2] = none ∧ paramRefCheck [] = none ∧ paramRefCheck [2] = some 1 := by decide

/-! ### one parameter per reference, call arguments in parameter order -/

/-- if every reference resolves to exactly one parameter carrying its number (the trigger-free case:
`paramTriggers = []`), resolveCatalogRefs' output is numbered like its input -/
theorem foldlM_single {α β ε : Type} (f : α → Except ε (List β)) (num : α → Nat) (pnum : β → Nat) :
    ∀ (args : List α) (acc out : List β),
      (∀ a ∈ args, ∃ p, f a = .ok [p] ∧ pnum p = num a) →
      args.foldlM (fun acc a => do let ps ← f a; pure (acc ++ ps)) acc = .ok out →
      out.map pnum = acc.map pnum ++ args.map num
  | [], acc, out, _, h => by simp [pure, Except.pure] at h; subst h; simp
  | a :: rest, acc, out, hall, h => by
    obtain ⟨p, hp, hn⟩ := hall a (by simp)
    simp only [List.foldlM_cons, hp, bind, Except.bind, pure, Except.pure] at h
    have := foldlM_single f num pnum rest (acc ++ [p]) out (fun x hx => hall x (by simp [hx])) h
    rw [this]; simp [hn]

/-- the driver call's argument list has one entry per parameter, in parameter order -/
theorem callargs_one_per_param (env : TypeEnv) (m : String) (ps : List Parameter)
    (hname : ∀ p ∈ ps, paramName p ≠ "") :
    ((argOf env m ps).params).length = ps.length := by
  match ps with
  | [] => simp [argOf, QueryValue.params, QueryValue.isEmpty]
  | [p] =>
    have hp := hname p (by simp)
    simp [argOf, QueryValue.params, QueryValue.isEmpty, hp]
  | p :: q :: rest =>
    have hlen : ∀ (cols : List GoColumn) (i : Nat) (s : List (String × Nat)) (x : List (Nat × Nat)),
        (c2sLoop env cols i s x).length = cols.length := by
      intro cols
      induction cols with
      | nil => intro i s x; simp [c2sLoop]
      | cons c cs ih => intro i s x; simp [c2sLoop, ih]
    simp [argOf, QueryValue.params, QueryValue.isEmpty, columnsToStruct, hlen]

/-- the scan list has one destination per result column, in column order -/
theorem scan_one_per_column (env : TypeEnv) (m : String) (cs : List Q.Column) (h : cs ≠ []) :
    ((retOfFresh env m cs).scan).length = cs.length := by
  match cs with
  | [] => exact absurd rfl h
  | [c] => simp [retOfFresh, QueryValue.scan]
  | c :: d :: rest =>
    have hlen : ∀ (cols : List GoColumn) (i : Nat) (s : List (String × Nat)) (x : List (Nat × Nat)),
        (c2sLoop env cols i s x).length = cols.length := by
      intro cols
      induction cols with
      | nil => intro i s x; simp [c2sLoop]
      | cons c cs ih => intro i s x; simp [c2sLoop, ih]
    simp [retOfFresh, QueryValue.scan, columnsToStruct, hlen]

/-- witnesses that the trigger hypotheses are forced (decided on the faithful model): a placeholder
without a handled parent is dropped, one repeated inside a call is duplicated -/
def wParam (n : Nat) (loc : Int) : Node := .nd "ParamRef" [("Number", false, .num n), ("Location", false, .num loc)]
def wRefNoParent : ParamRef := { parent := .none, rv := none, number := 1, location := 10 }
theorem witness_noParent :
    (match resolveOne { defaultSchema := "public", schemas := [] } [] [] [] [] none wRefNoParent with
     | .ok ps => ps.length | .error _ => 99) = 0 := by decide

/-! ### findParameters records every placeholder the tree walk reaches

`C03_found_all`: for every tree in which (a) a ParamRef has no walked children and (b) no ResTarget carries a
MultiAssignRef value (the one case in which Visit deliberately skips a placeholder), the location of every
ParamRef node of `walk root` is in `(findParameters root).seen` — it was either recorded by the ParamRef arm or
bound to an INSERT column by the InsertStmt arm. Nothing is lost BEFORE resolution; what is lost later is lost
by resolveCatalogRefs (the recorded findings noParent / funcArgNested). Proved by mutual structural recursion
over the tree, its field lists and its item lists. -/

def locOf (n : Node) : Int := (n.get "Location").intVal

/-- the only skip in Visit: a ResTarget whose value is a MultiAssignRef -/
def skipsMulti (p : Node) : Bool := p.isKind "ResTarget" && (p.get "Val").isKind "MultiAssignRef"

def goodParent : Parent → Prop
  | .node p => skipsMulti p = false
  | _ => True

theorem paramSet_good (parent : Parent) (num : Nat) (h : goodParent parent) : paramSet parent num = true := by
  unfold paramSet
  cases parent with
  | node p =>
    simp only [goodParent, skipsMulti] at h
    simp only [h, Bool.false_eq_true, if_false]
  | none => rfl
  | limitCount => rfl
  | limitOffset => rfl

theorem effectiveParent_good (d : PDown) (num : Nat) (h : goodParent d.parent) : goodParent (effectiveParent d num) := by
  unfold effectiveParent
  simp only
  split
  · trivial
  · split
    · trivial
    · exact h

theorem paramArm_seen (d : PDown) (n : Node) (acc : PAcc) (hd : goodParent d.parent) :
    locOf n ∈ (paramArm d n acc).seen ∧ ∀ l ∈ acc.seen, l ∈ (paramArm d n acc).seen := by
  unfold paramArm
  simp only
  by_cases hs : acc.seen.contains (n.get "Location").intVal = true
  · rw [if_pos hs]
    exact ⟨by simpa [locOf] using hs, fun l hl => hl⟩
  · rw [if_neg hs, if_pos (paramSet_good _ _ (effectiveParent_good d _ hd))]
    exact ⟨by simp [locOf], fun l hl => by simp [hl]⟩

theorem insertStep_seen_mono (cols : Node) (rv : Option Node) (u : Bool) (acc : PAcc) (it : Node × Nat) :
    ∀ l ∈ acc.seen, l ∈ (insertStep cols rv u acc it).seen := by
  intro l hl
  unfold insertStep
  by_cases h1 : acc.panic.isSome = true
  · rw [if_pos h1]; exact hl
  · rw [if_neg h1]
    simp only
    by_cases h2 : (!(if u then (if it.1.isKind "ResTarget" then it.1.get "Val" else Node.null) else it.1).isKind "ParamRef") = true
    · rw [if_pos h2]; exact hl
    · rw [if_neg h2]
      cases colItem cols it.2 with
      | none => exact hl
      | some c => simp [hl]

theorem foldl_insertStep_mono (cols : Node) (rv : Option Node) (u : Bool) :
    ∀ (items : List (Node × Nat)) (acc : PAcc), ∀ l ∈ acc.seen, l ∈ (items.foldl (insertStep cols rv u) acc).seen := by
  intro items
  induction items with
  | nil => intro acc l hl; exact hl
  | cons it rest ih => intro acc l hl; exact ih _ l (insertStep_seen_mono cols rv u acc it l hl)

theorem insertArm_seen_mono (n : Node) (acc : PAcc) : ∀ l ∈ acc.seen, l ∈ (insertArm n acc).seen := by
  intro l hl
  unfold insertArm
  simp only
  split
  · exact hl
  · split
    · exact hl
    · split
      · exact foldl_insertStep_mono _ _ _ _ _ l hl
      · have h1 := foldl_insertStep_mono (n.get "Cols") (let r := n.get "Relation"; if r.isNull then none else some r) true
          ((n.get "SelectStmt").get "TargetList").items.zipIdx acc l hl
        -- the VALUES rows: a fold of folds
        have : ∀ (rows : List Node) (a : PAcc), l ∈ a.seen →
            l ∈ (rows.foldl (fun acc row => if row.isKind "List" then
                insertAddRefs (n.get "Cols") (let r := n.get "Relation"; if r.isNull then none else some r) acc row.items false else acc) a).seen := by
          intro rows
          induction rows with
          | nil => intro a ha; exact ha
          | cons row rest ih =>
            intro a ha
            simp only [List.foldl_cons]
            apply ih
            split
            · exact foldl_insertStep_mono _ _ _ _ _ l ha
            · exact ha
        exact this _ _ h1

/-! ### the walk -/

/-- the hypotheses on the tree: every ResTarget in it is free of MultiAssignRef values, and a ParamRef has no
walked children (true of every tree the engines' converters build) -/
def GoodNode (n : Node) : Prop := skipsMulti n = false ∧ (n.isKind "ParamRef" → Node.walkFields n.fields = [])

theorem visitDown_good (d : PDown) (n : Node) (hd : goodParent d.parent) (hn : skipsMulti n = false) :
    goodParent (visitDown d n).parent := by
  unfold visitDown
  split
  all_goals first
    | exact hn
    | exact hd
    | (simp only []; split <;> (try split) <;> exact hd)

mutual
theorem findP_all : ∀ (n : Node) (d : PDown) (acc : PAcc), goodParent d.parent → (∀ m ∈ n.walk, GoodNode m) →
    (∀ l ∈ acc.seen, l ∈ (findP d n acc).seen) ∧
    (∀ m ∈ n.walk, m.isKind "ParamRef" → locOf m ∈ (findP d n acc).seen)
  | .nd k fs, d, acc, hd, hg => by
    unfold findP
    simp only
    by_cases hk : (k == "ParamRef") = true
    · rw [if_pos hk]
      have hp := paramArm_seen d (.nd k fs) acc hd
      refine ⟨hp.2, ?_⟩
      intro m hm hmk
      -- the node itself is the only walked ParamRef below it
      have hleaf : Node.walkFields fs = [] := (hg (.nd k fs) (by simp [Node.walk])).2 (by simpa [Node.isKind, Node.kind] using hk)
      simp only [Node.walk, hleaf, List.mem_cons, List.not_mem_nil, or_false] at hm
      rw [hm]; exact hp.1
    · rw [if_neg hk]
      have hself : GoodNode (.nd k fs) := hg _ (by simp [Node.walk])
      have hd' := visitDown_good d (.nd k fs) hd hself.1
      have hrec := findPFields_all fs (visitDown d (.nd k fs)) (if k == "InsertStmt" then insertArm (.nd k fs) acc else acc) hd'
        (fun m hm => hg m (by simp [Node.walk, hm]))
      refine ⟨?_, ?_⟩
      · intro l hl
        apply hrec.1
        split
        · exact insertArm_seen_mono _ _ l hl
        · exact hl
      · intro m hm hmk
        simp only [Node.walk, List.mem_cons] at hm
        rcases hm with hm | hm
        · rw [hm] at hmk
          exact absurd (by simpa [Node.isKind, Node.kind] using hmk) hk
        · exact hrec.2 m hm hmk
  | .list is, d, acc, hd, hg => by
    unfold findP
    have hrec := findPItems_all is d acc hd (fun m hm => hg m (by simp [Node.walk, hm]))
    refine ⟨hrec.1, ?_⟩
    intro m hm hmk
    simp only [Node.walk, List.mem_cons] at hm
    rcases hm with hm | hm
    · rw [hm] at hmk; simp [Node.isKind, Node.kind] at hmk
    · exact hrec.2 m hm hmk
  | .str _, _, acc, _, _ => by unfold findP; exact ⟨fun l hl => hl, fun m hm => by simp [Node.walk] at hm⟩
  | .num _, _, acc, _, _ => by unfold findP; exact ⟨fun l hl => hl, fun m hm => by simp [Node.walk] at hm⟩
  | .bool _, _, acc, _, _ => by unfold findP; exact ⟨fun l hl => hl, fun m hm => by simp [Node.walk] at hm⟩
  | .null, _, acc, _, _ => by unfold findP; exact ⟨fun l hl => hl, fun m hm => by simp [Node.walk] at hm⟩
theorem findPFields_all : ∀ (fs : List (String × Bool × Node)) (d : PDown) (acc : PAcc), goodParent d.parent →
    (∀ m ∈ Node.walkFields fs, GoodNode m) →
    (∀ l ∈ acc.seen, l ∈ (findPFields d fs acc).seen) ∧
    (∀ m ∈ Node.walkFields fs, m.isKind "ParamRef" → locOf m ∈ (findPFields d fs acc).seen)
  | [], _, acc, _, _ => by unfold findPFields; exact ⟨fun l hl => hl, fun m hm => by simp [Node.walkFields] at hm⟩
  | (_, true, c) :: rest, d, acc, hd, hg => by
    unfold findPFields
    have h1 := findP_all c d acc hd (fun m hm => hg m (by simp [Node.walkFields, hm]))
    have h2 := findPFields_all rest d (findP d c acc) hd (fun m hm => hg m (by simp [Node.walkFields, hm]))
    refine ⟨fun l hl => h2.1 l (h1.1 l hl), ?_⟩
    intro m hm hmk
    simp only [Node.walkFields, List.mem_append] at hm
    rcases hm with hm | hm
    · exact h2.1 _ (h1.2 m hm hmk)
    · exact h2.2 m hm hmk
  | (_, false, _) :: rest, d, acc, hd, hg => by
    unfold findPFields
    exact findPFields_all rest d acc hd (fun m hm => hg m (by simp [Node.walkFields, hm]))
theorem findPItems_all : ∀ (is : List Node) (d : PDown) (acc : PAcc), goodParent d.parent →
    (∀ m ∈ Node.walkItems is, GoodNode m) →
    (∀ l ∈ acc.seen, l ∈ (findPItems d is acc).seen) ∧
    (∀ m ∈ Node.walkItems is, m.isKind "ParamRef" → locOf m ∈ (findPItems d is acc).seen)
  | [], _, acc, _, _ => by unfold findPItems; exact ⟨fun l hl => hl, fun m hm => by simp [Node.walkItems] at hm⟩
  | c :: rest, d, acc, hd, hg => by
    unfold findPItems
    have h1 := findP_all c d acc hd (fun m hm => hg m (by simp [Node.walkItems, hm]))
    have h2 := findPItems_all rest d (findP d c acc) hd (fun m hm => hg m (by simp [Node.walkItems, hm]))
    refine ⟨fun l hl => h2.1 l (h1.1 l hl), ?_⟩
    intro m hm hmk
    simp only [Node.walkItems, List.mem_append] at hm
    rcases hm with hm | hm
    · exact h2.1 _ (h1.2 m hm hmk)
    · exact h2.2 m hm hmk
end

/-- every placeholder the walk reaches is recorded (its location is in `seen`) -/
theorem C03_found_all (root : Node) (hg : ∀ m ∈ root.walk, GoodNode m) :
    ∀ m ∈ root.walk, m.isKind "ParamRef" → locOf m ∈ (findParameters root).seen := by
  unfold findParameters
  exact (findP_all root {} {} trivial hg).2

theorem translator_complete : Gen.untranslatable = [] := by decide

end Sqlc.C03
