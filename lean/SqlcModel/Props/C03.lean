import SqlcModel.Query.Analyze
import SqlcModel.GoGen.Query
import SqlcModel.Gen.Untranslatable
/-
C03 — Arguments bind one-to-one, in order, to the SQL placeholders.
-/
set_option linter.unusedSimpArgs false
namespace Sqlc.C03
open Sqlc Sqlc.Q Sqlc.GoGen

/-! ### uniqueParamRefs + sort: one reference per number, ascending -/

def uniqStep (acc : List ParamRef × List Nat) (r : ParamRef) : List ParamRef × List Nat :=
  if acc.2.contains r.number then acc else (acc.1 ++ [r], r.number :: acc.2)

theorem unique_eq_fold (l : List ParamRef) : uniqueParamRefs l = (l.foldl uniqStep ([], [])).1 := rfl

theorem uniq_inv (l : List ParamRef) (acc : List ParamRef × List Nat)
    (h1 : (acc.1.map (·.number)).Nodup) (h2 : ∀ k, k ∈ acc.2 ↔ k ∈ acc.1.map (·.number)) :
    ((l.foldl uniqStep acc).1.map (·.number)).Nodup ∧
    (∀ k, k ∈ (l.foldl uniqStep acc).2 ↔ k ∈ (l.foldl uniqStep acc).1.map (·.number)) ∧
    (∀ k, k ∈ (l.foldl uniqStep acc).1.map (·.number) ↔ (k ∈ acc.1.map (·.number) ∨ k ∈ l.map (·.number))) := by
  induction l generalizing acc with
  | nil =>
    refine ⟨h1, h2, ?_⟩
    intro k
    simp only [List.foldl_nil, List.map_nil, List.not_mem_nil, or_false]
  | cons x xs ih =>
    simp only [List.foldl_cons]
    by_cases hc : acc.2.contains x.number = true
    · have hstep : uniqStep acc x = acc := by unfold uniqStep; rw [if_pos hc]
      rw [hstep]
      obtain ⟨a, b, c⟩ := ih acc h1 h2
      refine ⟨a, b, ?_⟩
      intro k
      rw [c k]
      have hx : x.number ∈ acc.1.map (·.number) := (h2 _).mp (by simpa using hc)
      constructor
      · rintro (h | h)
        · exact Or.inl h
        · exact Or.inr (by simp only [List.map_cons, List.mem_cons]; exact Or.inr h)
      · rintro (h | h)
        · exact Or.inl h
        · simp only [List.map_cons, List.mem_cons] at h
          rcases h with h | h
          · left; rw [h]; exact hx
          · exact Or.inr h
    · have hstep : uniqStep acc x = (acc.1 ++ [x], x.number :: acc.2) := by unfold uniqStep; rw [if_neg hc]
      rw [hstep]
      have hnot : x.number ∉ acc.1.map (·.number) := by
        intro hm
        have := (h2 _).mpr hm
        exact hc (by simpa using this)
      obtain ⟨a, b, c⟩ := ih (acc.1 ++ [x], x.number :: acc.2)
        (by
          show ((acc.1 ++ [x]).map (·.number)).Nodup
          rw [List.map_append, List.nodup_append]
          refine ⟨h1, by simp, ?_⟩
          intro p hp q hq
          simp only [List.map_cons, List.map_nil, List.mem_cons, List.not_mem_nil, or_false] at hq
          subst hq
          intro e; subst e; exact hnot hp)
        (by
          intro k
          show k ∈ x.number :: acc.2 ↔ k ∈ (acc.1 ++ [x]).map (·.number)
          rw [List.map_append, List.mem_append, List.mem_cons, h2 k]
          simp only [List.map_cons, List.map_nil, List.mem_cons, List.not_mem_nil, or_false]
          constructor
          · rintro (h | h)
            · exact Or.inr h
            · exact Or.inl h
          · rintro (h | h)
            · exact Or.inr h
            · exact Or.inl h)
      refine ⟨a, b, ?_⟩
      intro k
      rw [c k]
      show (k ∈ (acc.1 ++ [x]).map (·.number) ∨ k ∈ xs.map (·.number)) ↔ _
      rw [List.map_append, List.mem_append]
      simp only [List.map_cons, List.map_nil, List.mem_cons, List.not_mem_nil, or_false]
      constructor
      · rintro ((h | h) | h)
        · exact Or.inl h
        · exact Or.inr (Or.inl h)
        · exact Or.inr (Or.inr h)
      · rintro (h | h | h)
        · exact Or.inl (Or.inl h)
        · exact Or.inl (Or.inr h)
        · exact Or.inr h

theorem unique_nodup (l : List ParamRef) : ((uniqueParamRefs l).map (·.number)).Nodup := by
  rw [unique_eq_fold]
  exact (uniq_inv l ([], []) (by simp) (by simp)).1

theorem unique_mem (l : List ParamRef) (k : Nat) :
    k ∈ (uniqueParamRefs l).map (·.number) ↔ k ∈ l.map (·.number) := by
  rw [unique_eq_fold]
  have := (uniq_inv l ([], []) (by simp) (by simp)).2.2 k
  simpa using this

/-- a duplicate-free ascending list of naturals whose members are exactly 1..n is `[1, …, n]` -/
theorem sorted_nodup_is_range (l : List Nat) (n : Nat) (hs : l.Pairwise (· ≤ ·)) (hd : l.Nodup)
    (hm : ∀ k, k ∈ l ↔ (1 ≤ k ∧ k ≤ n)) : l = List.range' 1 n := by
  have hperm : l.Perm (List.range' 1 n) := by
    rw [List.perm_ext_iff_of_nodup hd (List.nodup_range' (step := 1))]
    intro k
    rw [hm k, List.mem_range'_1]
    omega
  apply List.Perm.eq_of_pairwise (le := (· ≤ ·)) _ hs _ hperm
  · intro a b _ _ h1 h2; exact Nat.le_antisymm h1 h2
  · have := List.pairwise_lt_range' (s := 1) (n := n)
    exact this.imp (fun h => Nat.le_of_lt h)

/-- C03 (numbering): whatever order the placeholders were found in and however often each occurs, if
the numbers that occur are exactly 1..n (which validate.ParamRef enforces), the parameter list after
de-duplication and sorting is numbered exactly 1, 2, …, n: the k-th parameter is `$k`. -/
theorem C03_numbers (l : List ParamRef) (n : Nat)
    (h : ∀ k, k ∈ l.map (·.number) ↔ (1 ≤ k ∧ k ≤ n)) :
    (sortRefs (uniqueParamRefs l)).map (·.number) = List.range' 1 n := by
  apply sorted_nodup_is_range
  · have hs := List.pairwise_mergeSort (le := fun (a b : ParamRef) => decide (a.number ≤ b.number))
      (fun a b c h1 h2 => by simp only [decide_eq_true_eq] at *; omega)
      (fun a b => by simp only [Bool.or_eq_true, decide_eq_true_eq]; omega) (uniqueParamRefs l)
    unfold sortRefs
    rw [List.pairwise_map]
    exact hs.imp (fun h => by simpa using h)
  · exact ((List.mergeSort_perm (uniqueParamRefs l) _).map (·.number)).nodup_iff.mpr (unique_nodup l)
  · intro k
    unfold sortRefs
    rw [((List.mergeSort_perm (uniqueParamRefs l) _).map (·.number)).mem_iff, unique_mem, h k]

/-! ### one parameter per reference, call arguments in parameter order -/

/-- if every reference resolves to exactly one parameter carrying its number (the trigger-free case:
`paramTriggers = []`), resolveCatalogRefs' output is numbered like its input -/
theorem foldlM_single {α β ε : Type} (f : α → Except ε (List β)) (num : α → Nat) (pnum : β → Nat) :
    ∀ (args : List α) (acc out : List β),
      (∀ a ∈ args, ∃ p, f a = .ok [p] ∧ pnum p = num a) →
      args.foldlM (fun acc a => do let ps ← f a; pure (acc ++ ps)) acc = .ok out →
      out.map pnum = acc.map pnum ++ args.map num
  | [], acc, out, _, h => by simp [pure, Except.pure] at h; subst h; simp
  | a :: rest, acc, out, hall, h => by
    obtain ⟨p, hp, hn⟩ := hall a (by simp)
    simp only [List.foldlM_cons, hp, bind, Except.bind, pure, Except.pure] at h
    have := foldlM_single f num pnum rest (acc ++ [p]) out (fun x hx => hall x (by simp [hx])) h
    rw [this]; simp [hn]

/-- the driver call's argument list has one entry per parameter, in parameter order -/
theorem callargs_one_per_param (env : TypeEnv) (m : String) (ps : List Parameter)
    (hname : ∀ p ∈ ps, paramName p ≠ "") :
    ((argOf env m ps).params).length = ps.length := by
  match ps with
  | [] => simp [argOf, QueryValue.params, QueryValue.isEmpty]
  | [p] =>
    have hp := hname p (by simp)
    simp [argOf, QueryValue.params, QueryValue.isEmpty, hp]
  | p :: q :: rest =>
    have hlen : ∀ (cols : List GoColumn) (i : Nat) (s : List (String × Nat)) (x : List (Nat × Nat)),
        (c2sLoop env cols i s x).length = cols.length := by
      intro cols
      induction cols with
      | nil => intro i s x; simp [c2sLoop]
      | cons c cs ih => intro i s x; simp [c2sLoop, ih]
    simp [argOf, QueryValue.params, QueryValue.isEmpty, columnsToStruct, hlen]

/-- the scan list has one destination per result column, in column order -/
theorem scan_one_per_column (env : TypeEnv) (m : String) (cs : List Q.Column) (h : cs ≠ []) :
    ((retOfFresh env m cs).scan).length = cs.length := by
  match cs with
  | [] => exact absurd rfl h
  | [c] => simp [retOfFresh, QueryValue.scan]
  | c :: d :: rest =>
    have hlen : ∀ (cols : List GoColumn) (i : Nat) (s : List (String × Nat)) (x : List (Nat × Nat)),
        (c2sLoop env cols i s x).length = cols.length := by
      intro cols
      induction cols with
      | nil => intro i s x; simp [c2sLoop]
      | cons c cs ih => intro i s x; simp [c2sLoop, ih]
    simp [retOfFresh, QueryValue.scan, columnsToStruct, hlen]

/-- witnesses that the trigger hypotheses are forced (decided on the faithful model): a placeholder
without a handled parent is dropped, one repeated inside a call is duplicated -/
def wParam (n : Nat) (loc : Int) : Node := .nd "ParamRef" [("Number", false, .num n), ("Location", false, .num loc)]
def wRefNoParent : ParamRef := { parent := .none, rv := none, number := 1, location := 10 }
theorem witness_noParent :
    (match resolveOne { defaultSchema := "public", schemas := [] } [] [] [] [] none wRefNoParent with
     | .ok ps => ps.length | .error _ => 99) = 0 := by decide

theorem translator_complete : Gen.untranslatable = [] := by decide

end Sqlc.C03
