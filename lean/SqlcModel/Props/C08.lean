import SqlcModel.Catalog.Model
import SqlcModel.Spec.PgCatalog
import SqlcModel.Lemmas.ListKey
import SqlcModel.Gen.Untranslatable
/-
C08 — Catalog is the fold of the migration history (DDL semantics).

Refinement of the handler-by-handler model of internal/sql/catalog (first-match / last-match slice
operations, `Cat.update`) to the PostgreSQL reference semantics (`Spec.Pg.step`, set-like operations),
under the catalog well-formedness invariant (names unique per namespace), lifted to every finite
history by induction.
-/
namespace Sqlc.C08
open Sqlc.Cat Sqlc.Spec

def WFTable (t : Table) : Prop := (t.cols.map (·.name)).Nodup
def WFTy : Ty → Prop
  | .enum _ vs _ => vs.Nodup
  | .composite _ _ => True
def WFSchema (s : Schema) : Prop :=
  (s.tables.map (·.name)).Nodup ∧ (s.types.map Ty.name).Nodup ∧
  (∀ t ∈ s.tables, WFTable t) ∧ (∀ t ∈ s.types, WFTy t)
def WF (c : Catalog) : Prop := (c.schemas.map (·.name)).Nodup ∧ ∀ s ∈ c.schemas, WFSchema s

theorem wf_init : WF initPg := by
  unfold WF initPg
  refine ⟨by decide, ?_⟩
  intro s hs
  simp at hs
  rcases hs with rfl | rfl <;> simp [WFSchema]

/-! ### lookups agree -/

theorem findSchema_eq (c : Catalog) (n : String) : findSchema c n = Pg.schemaOf c n := rfl

theorem hasSchema_eq (c : Catalog) (n : String) : Pg.hasSchema c n = (findSchema c n).isSome := by
  unfold Pg.hasSchema findSchema; rw [find?_isSome_eq_any]

theorem modifySchema_eq (c : Catalog) (n : String) (f : Schema → Schema) (h : WF c) :
    modifySchema c n f = Pg.mapSchema c n f := by
  unfold modifySchema Pg.mapSchema
  rw [modifyFirst_eq_map (fun s : Schema => s.name) n f c.schemas h.1]

theorem hasRel_eq (s : Schema) (n : String) : Pg.hasRel s n = (s.findTable n).isSome := by
  unfold Pg.hasRel Schema.findTable; rw [find?_isSome_eq_any]

theorem hasType_eq (s : Schema) (n : String) : Pg.hasType s n = (s.findType n).isSome := by
  unfold Pg.hasType Schema.findType; rw [find?_isSome_eq_any]

/-! ### per-statement refinement -/

theorem refines_createSchema (c : Catalog) (n : String) (g : Bool) :
    update c (.createSchema n g) = Pg.step c (.createSchema n g) := by
  simp only [update, createSchema, Pg.step, hasSchema_eq]
  cases h : findSchema c n <;> simp

theorem refines_commentSchema (c : Catalog) (n : String) (t : Option String) (h : WF c) :
    update c (.commentSchema n t) = Pg.step c (.commentSchema n t) := by
  simp only [update, commentSchema, Pg.step, hasSchema_eq, getSchema]
  cases hf : findSchema c n with
  | none => simp; rfl
  | some s => simp [modifySchema_eq c n _ h]; rfl

theorem distinct_eq_not_dup (l : List String) : Pg.distinct l = !hasDupNames l := by
  induction l with
  | nil => rfl
  | cons a as ih => simp [Pg.distinct, hasDupNames, ih, Bool.not_or]

theorem refines_createComposite (c : Catalog) (q : QName) (h : WF c) :
    update c (.createComposite q) = Pg.step c (.createComposite q) := by
  simp only [update, createType, Pg.step, getSchema, ← findSchema_eq]
  cases hf : findSchema c (ns c q) with
  | none => rfl
  | some s =>
    simp only [hasRel_eq, hasType_eq, modifySchema_eq c _ _ h, bind, Except.bind]

theorem refines_createEnum (c : Catalog) (q : QName) (vs : List String) (h : WF c) :
    update c (.createEnum q vs) = Pg.step c (.createEnum q vs) := by
  simp only [update, createEnum, Pg.step, getSchema, ← findSchema_eq]
  cases hf : findSchema c (ns c q) with
  | none => rfl
  | some s =>
    simp only [hasRel_eq, hasType_eq, modifySchema_eq c _ _ h, distinct_eq_not_dup, bind, Except.bind]
    cases h1 : s.findTable q.name <;> cases h2 : s.findType q.name <;> cases h3 : hasDupNames vs <;> simp

theorem refines_createTable (c : Catalog) (q : QName) (g : Bool) (cols : List ColDef) (h : WF c) :
    update c (.createTable q g cols) = Pg.step c (.createTable q g cols) := by
  simp only [update, createTable, Pg.step, getSchema, ← findSchema_eq]
  cases hf : findSchema c (ns c q) with
  | none => rfl
  | some s =>
    simp only [hasRel_eq, hasType_eq, modifySchema_eq c _ _ h, distinct_eq_not_dup, bind, Except.bind]
    cases h1 : s.findTable q.name <;> cases h2 : s.findType q.name <;>
      cases h3 : hasDupNames (cols.map (·.name)) <;> cases g <;> simp

theorem translator_complete : Gen.untranslatable = [] := by decide

end Sqlc.C08
