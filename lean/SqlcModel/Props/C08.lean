import SqlcModel.Catalog.Model
import SqlcModel.Spec.PgCatalog
import SqlcModel.Lemmas.ListKey
import SqlcModel.Lemmas.CatWF
import SqlcModel.Lemmas.CatWFStep
import SqlcModel.Gen.Untranslatable
/-
C08 — Catalog is the fold of the migration history (DDL semantics).

Refinement of the handler-by-handler model of internal/sql/catalog (first-match / last-match slice
operations, `Cat.update`) to the PostgreSQL reference semantics (`Spec.Pg.step`, set-like operations),
under the catalog well-formedness invariant (names unique per namespace), lifted to every finite
history by induction.
-/
set_option linter.unusedSimpArgs false
namespace Sqlc.C08
open Sqlc.Cat Sqlc.Spec

theorem wf_init : WF initPg := by
  unfold WF initPg
  refine ⟨by decide, ?_⟩
  intro s hs
  simp at hs
  rcases hs with rfl | rfl <;> simp [WFSchema]

/-! ### lookups agree -/

theorem findSchema_eq (c : Catalog) (n : String) : findSchema c n = Pg.schemaOf c n := rfl

theorem hasSchema_eq (c : Catalog) (n : String) : Pg.hasSchema c n = (findSchema c n).isSome := by
  unfold Pg.hasSchema findSchema; rw [find?_isSome_eq_any]

theorem modifySchema_eq (c : Catalog) (n : String) (f : Schema → Schema) (h : WF c) :
    modifySchema c n f = Pg.mapSchema c n f := by
  unfold modifySchema Pg.mapSchema
  rw [modifyFirst_eq_map (fun s : Schema => s.name) n f c.schemas h.1]

theorem hasRel_eq (s : Schema) (n : String) : Pg.hasRel s n = (s.findTable n).isSome := by
  unfold Pg.hasRel Schema.findTable; rw [find?_isSome_eq_any]

theorem hasType_eq (s : Schema) (n : String) : Pg.hasType s n = (s.findType n).isSome := by
  unfold Pg.hasType Schema.findType; rw [find?_isSome_eq_any]

/-! ### per-statement refinement -/

theorem refines_createSchema (c : Catalog) (n : String) (g : Bool) :
    update c (.createSchema n g) = Pg.step c (.createSchema n g) := by
  simp only [update, createSchema, Pg.step, hasSchema_eq]
  cases h : findSchema c n <;> simp

theorem refines_commentSchema (c : Catalog) (n : String) (t : Option String) (h : WF c) :
    update c (.commentSchema n t) = Pg.step c (.commentSchema n t) := by
  simp only [update, commentSchema, Pg.step, hasSchema_eq, getSchema]
  cases hf : findSchema c n with
  | none => simp; rfl
  | some s => simp [modifySchema_eq c n _ h]; rfl

theorem distinct_eq_not_dup (l : List String) : Pg.distinct l = !hasDupNames l := by
  induction l with
  | nil => rfl
  | cons a as ih => simp [Pg.distinct, hasDupNames, ih, Bool.not_or]

theorem refines_createComposite (c : Catalog) (q : QName) (h : WF c) :
    update c (.createComposite q) = Pg.step c (.createComposite q) := by
  simp only [update, createType, Pg.step, getSchema, ← findSchema_eq]
  cases hf : findSchema c (ns c q) with
  | none => rfl
  | some s =>
    simp only [hasRel_eq, hasType_eq, modifySchema_eq c _ _ h, bind, Except.bind]

theorem refines_createEnum (c : Catalog) (q : QName) (vs : List String) (h : WF c) :
    update c (.createEnum q vs) = Pg.step c (.createEnum q vs) := by
  simp only [update, createEnum, Pg.step, getSchema, ← findSchema_eq]
  cases hf : findSchema c (ns c q) with
  | none => rfl
  | some s =>
    simp only [hasRel_eq, hasType_eq, modifySchema_eq c _ _ h, distinct_eq_not_dup, bind, Except.bind]
    cases h1 : s.findTable q.name <;> cases h2 : s.findType q.name <;> cases h3 : hasDupNames vs <;> simp

theorem refines_createTable (c : Catalog) (q : QName) (g : Bool) (cols : List ColDef) (h : WF c) :
    update c (.createTable q g cols) = Pg.step c (.createTable q g cols) := by
  simp only [update, createTable, Pg.step, getSchema, ← findSchema_eq]
  cases hf : findSchema c (ns c q) with
  | none => rfl
  | some s =>
    simp only [hasRel_eq, hasType_eq, modifySchema_eq c _ _ h, distinct_eq_not_dup, bind, Except.bind]
    cases h1 : s.findTable q.name <;> cases h2 : s.findType q.name <;>
      cases h3 : hasDupNames (cols.map (·.name)) <;> cases g <;> simp

/-! ### table-level helpers -/

theorem Schema.modifyTable_eq (s : Schema) (n : String) (f : Table → Table) (h : WFSchema s) :
    s.modifyTable n f = Pg.mapRel s n f := by
  unfold Schema.modifyTable Pg.mapRel
  rw [modifyFirst_eq_map (fun t : Table => t.name) n f s.tables h.1]

theorem Schema.modifyType_eq (s : Schema) (n : String) (f : Ty → Ty) (h : WFSchema s) :
    s.modifyType n f = Pg.mapType s n f := by
  unfold Schema.modifyType Pg.mapType
  rw [modifyFirst_eq_map Ty.name n f s.types h.2.1]

theorem modifyTable_eq (c : Catalog) (q : QName) (f : Table → Table) (h : WF c) :
    modifyTable c q f = Pg.mapSchema c (ns c q) (fun s => Pg.mapRel s q.name f) := by
  unfold modifyTable
  rw [modifySchema_eq c _ _ h]
  unfold Pg.mapSchema
  congr 1
  apply List.map_congr_left
  intro s hs
  by_cases hn : (s.name == ns c q) = true
  · simp only [hn, if_true]; exact Schema.modifyTable_eq s q.name f (h.2 s hs)
  · simp only [Bool.not_eq_true] at hn; simp [hn]

theorem modifyType_eq (c : Catalog) (n tn : String) (f : Ty → Ty) (h : WF c) :
    modifySchema c n (fun s => s.modifyType tn f) = Pg.mapSchema c n (fun s => Pg.mapType s tn f) := by
  rw [modifySchema_eq c _ _ h]
  unfold Pg.mapSchema
  congr 1
  apply List.map_congr_left
  intro s hs
  by_cases hn : (s.name == n) = true
  · simp only [hn, if_true]; exact Schema.modifyType_eq s tn f (h.2 s hs)
  · simp only [Bool.not_eq_true] at hn; simp [hn]

theorem mem_of_findSchema (c : Catalog) (n : String) (s : Schema) (h : findSchema c n = some s) :
    s ∈ c.schemas := List.mem_of_find?_eq_some h

theorem mem_of_findTable (s : Schema) (n : String) (t : Table) (h : s.findTable n = some t) :
    t ∈ s.tables := List.mem_of_find?_eq_some h

/-- an update of "the table q" through map-if only depends on the function's value at the table that
the lookups found -/
theorem mapTable_congr (c : Catalog) (q : QName) (s : Schema) (t : Table) (g1 g2 : Table → Table)
    (h : WF c) (hs : findSchema c (ns c q) = some s) (ht : s.findTable q.name = some t) (hg : g1 t = g2 t) :
    Pg.mapSchema c (ns c q) (fun s => Pg.mapRel s q.name g1) =
    Pg.mapSchema c (ns c q) (fun s => Pg.mapRel s q.name g2) := by
  unfold Pg.mapSchema
  congr 1
  apply map_if_congr_found (fun s : Schema => s.name) (ns c q) _ _ c.schemas s h.1 hs
  unfold Pg.mapRel
  congr 1
  exact map_if_congr_found (fun t : Table => t.name) q.name g1 g2 s.tables t
    (h.2 s (mem_of_findSchema c _ s hs)).1 ht hg

theorem hasCol_eq (t : Table) (n : String) : Pg.hasCol t n = (colIdx t n).isSome := by
  unfold Pg.hasCol colIdx; rw [findIdx?_isSome_eq_any]

theorem modifyCol_eq (t : Table) (col : String) (i : Nat) (f : Column → Column)
    (h : WFTable t) (hi : colIdx t col = some i) : modifyCol t i f = Pg.mapCol t col f := by
  unfold modifyCol Pg.mapCol
  rw [modify_findIdx_eq_map (fun c : Column => c.name) col f t.cols i h hi]

theorem refines_commentTable (c : Catalog) (q : QName) (text : Option String) (h : WF c) :
    update c (.commentTable q text) = Pg.step c (.commentTable q text) := by
  simp only [update, commentTable, Pg.step, getTable, ← findSchema_eq, bind, Except.bind]
  cases hf : findSchema c (ns c q) with
  | none => rfl
  | some s =>
    simp only [hasRel_eq]
    cases ht : s.findTable q.name with
    | none => simp
    | some t => simp [modifyTable_eq c q _ h]

theorem refines_renameTable (c : Catalog) (q : QName) (n : String) (h : WF c) :
    update c (.renameTable q n) = Pg.step c (.renameTable q n) := by
  simp only [update, renameTable, Pg.step, getTable, ← findSchema_eq, bind, Except.bind]
  cases hf : findSchema c (ns c q) with
  | none => rfl
  | some s =>
    simp only [hasRel_eq, hasType_eq]
    cases ht : s.findTable q.name with
    | none => simp
    | some t =>
      cases h1 : s.findTable n <;> cases h2 : s.findType n <;> simp [h1, h2, modifyTable_eq c q _ h]

theorem refines_commentColumn (c : Catalog) (q : QName) (col : String) (text : Option String) (h : WF c) :
    update c (.commentColumn q col text) = Pg.step c (.commentColumn q col text) := by
  simp only [update, commentColumn, Pg.step, getTable, ← findSchema_eq, bind, Except.bind]
  cases hf : findSchema c (ns c q) with
  | none => rfl
  | some s =>
    cases ht : s.findTable q.name with
    | none =>
      have hrel : Pg.relOf s q.name = none := ht
      simp [hrel, ht]
    | some t =>
      have hwt : WFTable t := (h.2 s (mem_of_findSchema c _ s hf)).2.2.1 t (mem_of_findTable s _ t ht)
      have hrel : Pg.relOf s q.name = some t := ht
      simp only [ht, hrel, hasCol_eq]
      cases hi : colIdx t col with
      | none => simp [hi]
      | some i =>
        simp only [hi, Option.isSome_some, if_true, modifyTable_eq c q _ h]
        congr 1
        exact mapTable_congr c q s t
          (fun t => modifyCol t i (fun c => { c with comment := text.getD "" }))
          (fun t => Pg.mapCol t col (fun c => { c with comment := text.getD "" }))
          h hf ht (modifyCol_eq t col i _ hwt hi)

theorem refines_renameColumn (c : Catalog) (q : QName) (col n : String) (h : WF c) :
    update c (.renameColumn q col n) = Pg.step c (.renameColumn q col n) := by
  simp only [update, renameColumn, Pg.step, getTable, ← findSchema_eq, bind, Except.bind]
  cases hf : findSchema c (ns c q) with
  | none => rfl
  | some s =>
    cases ht : s.findTable q.name with
    | none =>
      have hrel : Pg.relOf s q.name = none := ht
      simp [hrel, ht]
    | some t =>
      have hwt : WFTable t := (h.2 s (mem_of_findSchema c _ s hf)).2.2.1 t (mem_of_findTable s _ t ht)
      have hrel : Pg.relOf s q.name = some t := ht
      have hlast : lastIdx? (fun c : Column => c.name == col) t.cols = colIdx t col :=
        lastIdx_eq_findIdx (fun c : Column => c.name) col t.cols hwt
      have hany : (t.cols.any fun x => x.name == n) = (colIdx t n).isSome := by
        unfold colIdx; rw [findIdx?_isSome_eq_any]
      simp only [ht, hrel, hasCol_eq, hlast, hany]
      cases hn : (colIdx t n).isSome with
      | true => simp [hn]
      | false =>
        cases hi : colIdx t col with
        | none => simp [hi, hn]
        | some i =>
          simp only [hi, hn, Option.isSome_some, Bool.not_true, Bool.false_eq_true, if_false, modifyTable_eq c q _ h]
          congr 1
          exact mapTable_congr c q s t
            (fun t => modifyCol t i (fun c => { c with name := n }))
            (fun t => Pg.mapCol t col (fun c => { c with name := n }))
            h hf ht (modifyCol_eq t col i _ hwt hi)

/-! ### type-level statements -/

theorem mem_of_findType (s : Schema) (n : String) (t : Ty) (h : s.findType n = some t) :
    t ∈ s.types := List.mem_of_find?_eq_some h

theorem mapType_congr (c : Catalog) (sn tn : String) (s : Schema) (t : Ty) (g1 g2 : Ty → Ty)
    (h : WF c) (hs : findSchema c sn = some s) (ht : s.findType tn = some t) (hg : g1 t = g2 t) :
    Pg.mapSchema c sn (fun s => Pg.mapType s tn g1) = Pg.mapSchema c sn (fun s => Pg.mapType s tn g2) := by
  unfold Pg.mapSchema
  congr 1
  apply map_if_congr_found (fun s : Schema => s.name) sn _ _ c.schemas s h.1 hs
  unfold Pg.mapType
  congr 1
  exact map_if_congr_found Ty.name tn g1 g2 s.types t
    (h.2 s (mem_of_findSchema c _ s hs)).2.1 ht hg

theorem refines_commentType (c : Catalog) (q : QName) (text : Option String) (h : WF c) :
    update c (.commentType q text) = Pg.step c (.commentType q text) := by
  simp only [update, commentType, Pg.step, getSchema, ← findSchema_eq, bind, Except.bind]
  cases hf : findSchema c (ns c q) with
  | none => rfl
  | some s =>
    simp only [hasType_eq]
    cases ht : s.findType q.name with
    | none => simp [ht]
    | some t => simp [ht, modifyType_eq c _ _ _ h]

theorem findType_name (s : Schema) (n : String) (t : Ty) (h : s.findType n = some t) : t.name = n := by
  have := List.find?_some h
  simpa using this

theorem refines_addValue (c : Catalog) (q : QName) (val : String) (g : Bool) (pos : Option (Bool × String))
    (h : WF c) : update c (.addValue q val g pos) = Pg.step c (.addValue q val g pos) := by
  simp only [update, addValue, Pg.step, getSchema, ← findSchema_eq, bind, Except.bind]
  cases hf : findSchema c (ns c q) with
  | none => rfl
  | some s =>
    have htyp : Pg.typeOf s q.name = s.findType q.name := rfl
    simp only [htyp]
    cases ht : s.findType q.name with
    | none => simp [ht]
    | some t =>
      cases t with
      | composite n cm => simp [ht]
      | enum n vals cm =>
        simp only [ht]
        cases hc : vals.contains val with
        | true => simp [hc]
        | false =>
          simp only [hc, Bool.false_eq_true, if_false]
          cases pos with
          | none =>
            simp only [modifyType_eq c _ _ _ h]
            congr 1
            apply mapType_congr c (ns c q) q.name s (.enum n vals cm) _ _ h hf ht
            simp
          | some p =>
            obtain ⟨isAfter, nb⟩ := p
            simp only []
            cases hi : vals.findIdx? (· == nb) with
            | none => simp [hi]
            | some i =>
              simp only [hi, Option.map_some, modifyType_eq c _ _ _ h]
              congr 1

theorem set_findIdx_eq_map : ∀ (l : List String) (old new : String) (i : Nat), l.Nodup →
    l.findIdx? (· == old) = some i → l.set i new = l.map (fun v => if v == old then new else v)
  | [], _, _, _, _, h => by simp at h
  | a :: as, old, new, i, hnd, h => by
    simp only [List.nodup_cons] at hnd
    by_cases ha : (a == old) = true
    · have hk : a = old := by simpa using ha
      simp [List.findIdx?_cons, ha] at h
      subst h
      simp only [List.set_cons_zero, List.map_cons, ha, if_true]
      congr 1
      symm
      rw [List.map_congr_left (g := id)]
      · simp
      · intro b hb
        have : b ≠ old := by
          intro hbo; rw [hbo, ← hk] at hb; exact hnd.1 hb
        simp [this]
    · simp only [Bool.not_eq_true] at ha
      simp [List.findIdx?_cons, ha] at h
      obtain ⟨j, hj, rfl⟩ := h
      simp only [List.set_cons_succ, List.map_cons, ha]
      rw [set_findIdx_eq_map as old new j hnd.2 hj]
      simp

theorem contains_eq_findIdx (l : List String) (v : String) : l.contains v = (l.findIdx? (· == v)).isSome := by
  rw [findIdx?_isSome_eq_any, List.any_beq']

theorem refines_renameValue (c : Catalog) (q : QName) (old new : String) (h : WF c) :
    update c (.renameValue q old new) = Pg.step c (.renameValue q old new) := by
  simp only [update, renameValue, Pg.step, getSchema, ← findSchema_eq, bind, Except.bind]
  cases hf : findSchema c (ns c q) with
  | none => rfl
  | some s =>
    have htyp : Pg.typeOf s q.name = s.findType q.name := rfl
    simp only [htyp]
    cases ht : s.findType q.name with
    | none => simp [ht]
    | some t =>
      cases t with
      | composite n cm => simp [ht]
      | enum n vals cm =>
        have hwf : vals.Nodup := (h.2 s (mem_of_findSchema c _ s hf)).2.2.2 _ (mem_of_findType s _ _ ht)
        have hlast : lastIdx? (· == old) vals = vals.findIdx? (· == old) :=
          lastIdx_eq_findIdx (fun v : String => v) old vals (by simpa using hwf)
        simp only [ht, hlast, contains_eq_findIdx vals old]
        cases hi : vals.findIdx? (· == old) with
        | none => simp [hi]
        | some i =>
          simp only [hi, Option.isSome_some, Bool.not_true, Bool.false_eq_true, if_false]
          cases hc : vals.contains new with
          | true => simp [hc]
          | false =>
            simp only [hc, Bool.false_eq_true, if_false, modifyType_eq c _ _ _ h]
            congr 1
            apply mapType_congr c (ns c q) q.name s (.enum n vals cm) _ _ h hf ht
            simp only []
            rw [set_findIdx_eq_map vals old new i hwf hi]

/-! ### multi-object DROP statements (loops) -/

theorem refines_dropSchema_aux (g : Bool) : ∀ (names : List String) (c : Catalog), WF c →
    dropSchema c names g = names.foldlM (Pg.dropSchemaStep g) c
  | [], c, _ => rfl
  | n :: rest, c, h => by
    simp only [dropSchema, List.foldlM_cons, Pg.dropSchemaStep]
    rw [lastIdx_eq_findIdx (fun s : Schema => s.name) n c.schemas h.1]
    have hany : Pg.hasSchema c n = (c.schemas.findIdx? (fun s => s.name == n)).isSome := by
      unfold Pg.hasSchema; rw [findIdx?_isSome_eq_any]
    rw [hany]
    cases hi : c.schemas.findIdx? (fun s => s.name == n) with
    | none =>
      cases g with
      | true => simp [bind, Except.bind]; exact refines_dropSchema_aux true rest c h
      | false => simp [bind, Except.bind]
    | some i =>
      have hf := eraseIdx_findIdx_eq_filter (fun s : Schema => s.name) n c.schemas i h.1 hi
      simp only [Option.isSome_some, if_true, bind, Except.bind, hf]
      exact refines_dropSchema_aux g rest _ (wf_filter_schemas c _ h)

theorem refines_dropSchema (c : Catalog) (names : List String) (g : Bool) (h : WF c) :
    update c (.dropSchema names g) = Pg.step c (.dropSchema names g) := by
  simp only [update, Pg.step]; exact refines_dropSchema_aux g names c h

theorem wfSchema_filter_tables (s : Schema) (p : Table → Bool) (h : WFSchema s) :
    WFSchema { s with tables := s.tables.filter p } :=
  ⟨nodup_filter_keys _ p s.tables h.1, h.2.1, fun t ht => h.2.2.1 t (List.mem_filter.mp ht).1, h.2.2.2⟩

theorem wfSchema_filter_types (s : Schema) (p : Ty → Bool) (h : WFSchema s) :
    WFSchema { s with types := s.types.filter p } :=
  ⟨h.1, nodup_filter_keys _ p s.types h.2.1, h.2.2.1, fun t ht => h.2.2.2 t (List.mem_filter.mp ht).1⟩

theorem tableIdx_isSome (s : Schema) (n : String) : (s.tableIdx n).isSome = Pg.hasRel s n := by
  unfold Schema.tableIdx Pg.hasRel; rw [findIdx?_isSome_eq_any]

theorem typeIdx_isSome (s : Schema) (n : String) : (s.typeIdx n).isSome = Pg.hasType s n := by
  unfold Schema.typeIdx Pg.hasType; rw [findIdx?_isSome_eq_any]

/-- erasing the found table of the found schema = filtering by name in every schema of that name -/
theorem erase_table_eq (c : Catalog) (sn tn : String) (s : Schema) (i : Nat) (h : WF c)
    (hs : findSchema c sn = some s) (hi : s.tableIdx tn = some i) :
    modifySchema c sn (fun s' => { s' with tables := s'.tables.eraseIdx i }) =
    Pg.mapSchema c sn (fun s' => { s' with tables := s'.tables.filter (·.name != tn) }) := by
  rw [modifySchema_eq c _ _ h]
  unfold Pg.mapSchema
  congr 1
  apply map_if_congr_found (fun s : Schema => s.name) sn _ _ c.schemas s h.1 hs
  rw [eraseIdx_findIdx_eq_filter (fun t : Table => t.name) tn s.tables i
    (h.2 s (mem_of_findSchema c _ s hs)).1 hi]

theorem erase_type_eq (c : Catalog) (sn tn : String) (s : Schema) (i : Nat) (h : WF c)
    (hs : findSchema c sn = some s) (hi : s.typeIdx tn = some i) :
    modifySchema c sn (fun s' => { s' with types := s'.types.eraseIdx i }) =
    Pg.mapSchema c sn (fun s' => { s' with types := s'.types.filter (·.name != tn) }) := by
  rw [modifySchema_eq c _ _ h]
  unfold Pg.mapSchema
  congr 1
  apply map_if_congr_found (fun s : Schema => s.name) sn _ _ c.schemas s h.1 hs
  rw [eraseIdx_findIdx_eq_filter Ty.name tn s.types i
    (h.2 s (mem_of_findSchema c _ s hs)).2.1 hi]

theorem wf_filter_tables (c : Catalog) (sn tn : String) (h : WF c) :
    WF (Pg.mapSchema c sn (fun s' => { s' with tables := s'.tables.filter (·.name != tn) })) :=
  wf_mapSchema c sn _ h (fun s hs _ => ⟨rfl, wfSchema_filter_tables s _ (h.2 s hs)⟩)

theorem wf_filter_types (c : Catalog) (sn tn : String) (h : WF c) :
    WF (Pg.mapSchema c sn (fun s' => { s' with types := s'.types.filter (·.name != tn) })) :=
  wf_mapSchema c sn _ h (fun s hs _ => ⟨rfl, wfSchema_filter_types s _ (h.2 s hs)⟩)

theorem refines_dropTable_aux (g : Bool) : ∀ (rels : List QName) (c : Catalog), WF c →
    dropTable c rels g = rels.foldlM (Pg.dropTableStep g) c
  | [], c, _ => rfl
  | q :: rest, c, h => by
    simp only [dropTable, List.foldlM_cons, Pg.dropTableStep, ← findSchema_eq]
    cases hs : findSchema c (ns c q) with
    | none =>
      cases g with
      | true => simp [bind, Except.bind]; exact refines_dropTable_aux true rest c h
      | false => simp [bind, Except.bind]
    | some s =>
      simp only [← tableIdx_isSome]
      cases hi : s.tableIdx q.name with
      | none =>
        cases g with
        | true => simp [bind, Except.bind]; exact refines_dropTable_aux true rest c h
        | false => simp [bind, Except.bind]
      | some i =>
        simp only [Option.isSome_some, if_true, bind, Except.bind, erase_table_eq c _ _ s i h hs hi]
        exact refines_dropTable_aux g rest _ (wf_filter_tables c _ _ h)

theorem refines_dropTable (c : Catalog) (rels : List QName) (g : Bool) (h : WF c) :
    update c (.dropTable rels g) = Pg.step c (.dropTable rels g) := by
  simp only [update, Pg.step]; exact refines_dropTable_aux g rels c h

theorem refines_dropType_aux (g : Bool) : ∀ (tys : List QName) (c : Catalog), WF c →
    dropType c tys g = tys.foldlM (Pg.dropTypeStep g) c
  | [], c, _ => rfl
  | q :: rest, c, h => by
    simp only [dropType, List.foldlM_cons, Pg.dropTypeStep, ← findSchema_eq]
    cases hs : findSchema c (ns c q) with
    | none =>
      cases g with
      | true => simp [bind, Except.bind]; exact refines_dropType_aux true rest c h
      | false => simp [bind, Except.bind]
    | some s =>
      simp only [← typeIdx_isSome]
      cases hi : s.typeIdx q.name with
      | none =>
        cases g with
        | true => simp [bind, Except.bind]; exact refines_dropType_aux true rest c h
        | false => simp [bind, Except.bind]
      | some i =>
        simp only [Option.isSome_some, if_true, bind, Except.bind, erase_type_eq c _ _ s i h hs hi]
        exact refines_dropType_aux g rest _ (wf_filter_types c _ _ h)

theorem refines_dropType (c : Catalog) (tys : List QName) (g : Bool) (h : WF c) :
    update c (.dropType tys g) = Pg.step c (.dropType tys g) := by
  simp only [update, Pg.step]; exact refines_dropType_aux g tys c h

/-! ### ALTER TABLE (command list) -/

theorem wfTable_alterCmd (t t' : Table) (cmd : AlterCmd) (h : WFTable t) (hr : Pg.alterCmd t cmd = .ok t') :
    WFTable t' := by
  cases cmd with
  | add d g =>
    simp only [Pg.alterCmd] at hr
    cases hc : Pg.hasCol t d.name with
    | true => cases g <;> simp [hc] at hr; subst hr; exact h
    | false =>
      simp [hc] at hr; subst hr
      exact nodup_append_fresh (fun c : Column => c.name) t.cols (mkColumn d) h (by simpa [Pg.hasCol, mkColumn] using hc)
  | drop col g =>
    simp only [Pg.alterCmd] at hr
    cases hc : Pg.hasCol t col with
    | true => simp [hc] at hr; subst hr; exact nodup_filter_keys _ _ t.cols h
    | false => cases g <;> simp [hc] at hr; subst hr; exact h
  | setType col ts tn arr =>
    simp only [Pg.alterCmd] at hr
    cases hc : Pg.hasCol t col with
    | false => simp [hc] at hr
    | true =>
      simp [hc] at hr; subst hr
      unfold WFTable Pg.mapCol
      rw [map_keys_preserved (fun c : Column => c.name)]
      · exact h
      · intro a _; by_cases hn : (a.name == col) = true <;> simp [hn]
  | setNotNull col =>
    simp only [Pg.alterCmd] at hr
    cases hc : Pg.hasCol t col with
    | false => simp [hc] at hr
    | true =>
      simp [hc] at hr; subst hr
      unfold WFTable Pg.mapCol
      rw [map_keys_preserved (fun c : Column => c.name)]
      · exact h
      · intro a _; by_cases hn : (a.name == col) = true <;> simp [hn]
  | dropNotNull col =>
    simp only [Pg.alterCmd] at hr
    cases hc : Pg.hasCol t col with
    | false => simp [hc] at hr
    | true =>
      simp [hc] at hr; subst hr
      unfold WFTable Pg.mapCol
      rw [map_keys_preserved (fun c : Column => c.name)]
      · exact h
      · intro a _; by_cases hn : (a.name == col) = true <;> simp [hn]

theorem refines_alterCmd (t : Table) (cmd : AlterCmd) (h : WFTable t) :
    Cat.alterCmd t cmd = Pg.alterCmd t cmd := by
  cases cmd with
  | add d g => simp [Cat.alterCmd, Pg.alterCmd, Pg.hasCol]
  | drop col g =>
    simp only [Cat.alterCmd, Pg.alterCmd, hasCol_eq]
    cases hi : colIdx t col with
    | none => simp
    | some i =>
      simp only [Option.isSome_some, if_true]
      rw [eraseIdx_findIdx_eq_filter (fun c : Column => c.name) col t.cols i h hi]
  | setType col ts tn arr =>
    simp only [Cat.alterCmd, Pg.alterCmd, hasCol_eq]
    cases hi : colIdx t col with
    | none => simp
    | some i => simp only [Option.isSome_some, if_true, modifyCol_eq t col i _ h hi]
  | setNotNull col =>
    simp only [Cat.alterCmd, Pg.alterCmd, hasCol_eq]
    cases hi : colIdx t col with
    | none => simp
    | some i => simp only [Option.isSome_some, if_true, modifyCol_eq t col i _ h hi]
  | dropNotNull col =>
    simp only [Cat.alterCmd, Pg.alterCmd, hasCol_eq]
    cases hi : colIdx t col with
    | none => simp
    | some i => simp only [Option.isSome_some, if_true, modifyCol_eq t col i _ h hi]

theorem refines_alterCmds : ∀ (cmds : List AlterCmd) (t : Table), WFTable t →
    alterCmds t cmds = cmds.foldlM Pg.alterCmd t
  | [], _, _ => rfl
  | cmd :: rest, t, h => by
    simp only [alterCmds, List.foldlM_cons, refines_alterCmd t cmd h, bind, Except.bind]
    cases hr : Pg.alterCmd t cmd with
    | error e => rfl
    | ok t' => exact refines_alterCmds rest t' (wfTable_alterCmd t t' cmd h hr)

theorem refines_alterTable (c : Catalog) (q : QName) (cmds : List AlterCmd) (h : WF c) :
    update c (.alterTable q cmds) = Pg.step c (.alterTable q cmds) := by
  simp only [update, alterTable, Pg.step]
  cases hcm : cmds.isEmpty with
  | true => simp
  | false =>
    simp only [Bool.false_eq_true, if_false, getTable, ← findSchema_eq, bind, Except.bind]
    cases hf : findSchema c (ns c q) with
    | none => rfl
    | some s =>
      cases ht : s.findTable q.name with
      | none =>
        have hrel : Pg.relOf s q.name = none := ht
        simp [hrel, ht]
      | some t =>
        have hwt : WFTable t := (h.2 s (mem_of_findSchema c _ s hf)).2.2.1 t (mem_of_findTable s _ t ht)
        have hrel : Pg.relOf s q.name = some t := ht
        simp only [ht, hrel, refines_alterCmds cmds t hwt]
        cases hr : cmds.foldlM Pg.alterCmd t with
        | error e => rfl
        | ok t' => simp [Except.map, modifyTable_eq c q _ h]

/-! ### ALTER TABLE ... SET SCHEMA -/

theorem findTable_tableIdx (s : Schema) (n : String) :
    (s.findTable n).isSome = (s.tableIdx n).isSome := by
  unfold Schema.findTable Schema.tableIdx
  rw [find?_isSome_eq_any, findIdx?_isSome_eq_any]

theorem refines_setSchema (c : Catalog) (q : QName) (n : String) (h : WF c) :
    update c (.setSchema q n) = Pg.step c (.setSchema q n) := by
  simp only [update, setSchema, Pg.step, getSchema, ← findSchema_eq, bind, Except.bind]
  cases hf : findSchema c (ns c q) with
  | none => rfl
  | some s =>
    have hrel : Pg.relOf s q.name = s.findTable q.name := rfl
    simp only [hrel]
    have hcons := findTable_tableIdx s q.name
    cases ht : s.findTable q.name with
    | none =>
      cases hi : s.tableIdx q.name <;> simp
    | some t =>
      cases hi : s.tableIdx q.name with
      | none => rw [ht, hi] at hcons; simp at hcons
      | some i =>
        simp only []
        cases hf2 : findSchema c n with
        | none => rfl
        | some s2 =>
          simp only [hasRel_eq, hasType_eq]
          cases h1 : s2.findTable q.name <;> cases h2 : s2.findType q.name <;> simp [h1, h2]
          rw [erase_table_eq c _ _ s i h hf hi]
          rw [modifySchema_eq _ _ _ (wf_filter_tables c _ _ h)]

/-! ### every statement kind refines -/

theorem refines (c : Catalog) (op : DDL) (h : WF c) : update c op = Pg.step c op := by
  cases op with
  | createSchema n g => exact refines_createSchema c n g
  | dropSchema ns g => exact refines_dropSchema c ns g h
  | createTable q g cols => exact refines_createTable c q g cols h
  | dropTable qs g => exact refines_dropTable c qs g h
  | renameTable q n => exact refines_renameTable c q n h
  | setSchema q n => exact refines_setSchema c q n h
  | alterTable q cmds => exact refines_alterTable c q cmds h
  | renameColumn q a b => exact refines_renameColumn c q a b h
  | createEnum q vs => exact refines_createEnum c q vs h
  | createComposite q => exact refines_createComposite c q h
  | addValue q v g p => exact refines_addValue c q v g p h
  | renameValue q a b => exact refines_renameValue c q a b h
  | dropType qs g => exact refines_dropType c qs g h
  | commentSchema n t => exact refines_commentSchema c n t h
  | commentTable q t => exact refines_commentTable c q t h
  | commentColumn q col t => exact refines_commentColumn c q col t h
  | commentType q t => exact refines_commentType c q t h

/-! ### the property: every finite history -/

/-- C08 (full strength on the modelled statement subset): for EVERY finite DDL history, starting from
the initial PostgreSQL catalog, the handler model yields exactly the catalog — or rejects at exactly
the statement and with the error class — that the PostgreSQL reference semantics yields. -/
theorem C08_history_refines : ∀ (ops : List DDL) (c : Catalog), WF c → Cat.run c ops = Pg.run c ops
  | [], _, _ => rfl
  | op :: rest, c, h => by
    simp only [Cat.run, Pg.run, refines c op h, bind, Except.bind]
    cases hr : Pg.step c op with
    | error e => rfl
    | ok c' => exact C08_history_refines rest c' (wf_step c c' op h hr)

theorem C08 (ops : List DDL) : Cat.run initPg ops = Pg.run initPg ops :=
  C08_history_refines ops initPg wf_init

/-- and every catalog reached is well formed (names unique per namespace) -/
theorem C08_reachable_wf : ∀ (ops : List DDL) (c c' : Catalog), WF c → Pg.run c ops = .ok c' → WF c'
  | [], c, c', h, hr => by simp [Pg.run] at hr; subst hr; exact h
  | op :: rest, c, c', h, hr => by
    simp only [Pg.run, bind, Except.bind] at hr
    cases h1 : Pg.step c op with
    | error e => simp [h1] at hr
    | ok c1 => simp only [h1] at hr; exact C08_reachable_wf rest c1 c' (wf_step c c1 op h h1) hr

/-- non-vacuity: a concrete non-trivial history runs to a catalog in both semantics -/
def exHistory : List DDL := [
  .createSchema "s1" true, .createSchema "s1" true,
  .createEnum ⟨"", "e1"⟩ ["x", "y"],
  .createTable ⟨"", "t1"⟩ false [⟨"a", "pg_catalog", "int4", false, true⟩, ⟨"b", "", "e1", false, false⟩],
  .alterTable ⟨"", "t1"⟩ [.drop "a" false, .add ⟨"c", "", "text", true, false⟩ true, .setNotNull "b"],
  .addValue ⟨"", "e1"⟩ "z" false (some (false, "y")),
  .renameTable ⟨"", "t1"⟩ "t2", .setSchema ⟨"", "t2"⟩ "s1",
  .dropSchema ["s1"] false, .createSchema "s1" false]

example : (match Cat.run initPg exHistory with | .ok c => c.schemas.length | .error _ => 0) = 3 := by decide

theorem translator_complete : Gen.untranslatable = [] := by decide

end Sqlc.C08
