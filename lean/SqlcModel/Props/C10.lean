import SqlcModel.Query.Analyze
import SqlcModel.Props.C02
import SqlcModel.Props.C06
import SqlcModel.Gen.Untranslatable
/-
C10 — Unresolvable or ambiguous names are rejected; resolvable ones accepted.

Proved on the model, per resolution site (the three sites the property text names: relations, result /
RETURNING list, parameter-paired columns), each as an exact characterisation of its rejection set:

* `C10_relation_*` — Catalog.GetTable / QueryCatalog.GetTable: a relation that is neither a CTE nor in the
  catalog is rejected with 42P01 naming the relation (3F000 naming the schema when the schema is missing);
  one that exists is accepted;
* `C10_ref_iff`, `C10_ref_missing`, `C10_ref_ambiguous` — a plain column reference in a result / RETURNING
  list is accepted iff exactly one (relation, column) in scope matches it; none ⇒ `column … does not exist`
  naming the column, several ⇒ `column reference … is ambiguous` naming it;
* `C10_compare_iff`, `C10_compare_missing`, `C10_compare_ambiguous` — the same for a column paired with a
  placeholder by comparison; `C10_target_iff` for INSERT / SET targets;
* `C10_error_stops` — an error at any parameter aborts resolveCatalogRefs (a rejected query contributes no
  parameters, hence no code).

Scope construction — WHICH relations are "in scope" at each site — is where the unchanged code departs from
the database (whole-statement search list, derived tables leaking: findings `scopeLeak`, `subselectLeak`;
columns inside result expressions and repeated placeholders never looked up: `exprColumn`,
`repeatedPlaceholder`). Those are decided by the correspondence stream against the PgSem oracle; the theorems
here are about each site GIVEN its scope, which is the part no sample can settle.
-/
set_option linter.unusedSimpArgs false
namespace Sqlc.C10
open Sqlc Sqlc.Q

/-! ### relations -/

theorem C10_relation_missing (c : Cat) (rel : TableName) (s : CatSchema)
    (hs : c.schemas.find? (·.name == (if rel.schema == "" then c.defaultSchema else rel.schema)) = some s)
    (ht : s.tables.find? (·.name == rel.name) = none) :
    catGetTable c rel = .error s!"42P01:{rel.name}" := by
  unfold catGetTable; simp only [hs, ht]

theorem C10_schema_missing (c : Cat) (rel : TableName)
    (hs : c.schemas.find? (·.name == (if rel.schema == "" then c.defaultSchema else rel.schema)) = none) :
    catGetTable c rel = .error s!"3F000:{if rel.schema == "" then c.defaultSchema else rel.schema}" := by
  unfold catGetTable; simp only [hs]

theorem C10_relation_found (c : Cat) (rel : TableName) (s : CatSchema) (t : CatTable)
    (hs : c.schemas.find? (·.name == (if rel.schema == "" then c.defaultSchema else rel.schema)) = some s)
    (ht : s.tables.find? (·.name == rel.name) = some t) :
    catGetTable c rel = .ok t := by
  unfold catGetTable; simp only [hs, ht]

/-- the query-level lookup: a CTE of that name wins, else the catalog decides (and its error is passed on) -/
theorem C10_qc_relation_missing (c : Cat) (ctes : Ctes) (rel : TableName) (e : String)
    (hc : (ctes.filter (·.1 == rel.name)).getLast? = none) (he : catGetTable c rel = .error e) :
    qcGetTable c ctes rel = .error e := by
  unfold qcGetTable; simp [hc, he, bind, Except.bind]

/-! ### result / RETURNING list: plain references -/

theorem C10_ref_iff (res : Node) (tables : List Table) (node : Node) (alias name : String)
    (hp : refParts node = some (alias, name)) :
    (∃ cols, outputColumnRefs res tables node = .ok cols) ↔
      (refMatches ((res.get "Name").strOpt) tables alias name).length = 1 := by
  unfold outputColumnRefs
  rw [hp]
  simp only
  constructor
  · rintro ⟨cols, h⟩
    by_cases h0 : ((refMatches ((res.get "Name").strOpt) tables alias name).length == 0) = true
    · rw [if_pos h0] at h; exact absurd h (by simp)
    · rw [if_neg h0] at h
      by_cases h1 : (refMatches ((res.get "Name").strOpt) tables alias name).length > 1
      · rw [if_pos h1] at h; exact absurd h (by simp)
      · simp only [beq_iff_eq] at h0; omega
  · intro h
    refine ⟨refMatches ((res.get "Name").strOpt) tables alias name, ?_⟩
    rw [if_neg (by simp [h]), if_neg (by omega)]

theorem C10_ref_missing (res : Node) (tables : List Table) (node : Node) (alias name : String)
    (hp : refParts node = some (alias, name))
    (h : (refMatches ((res.get "Name").strOpt) tables alias name).length = 0) :
    outputColumnRefs res tables node = .error s!"42703:notexist:{name}" := by
  unfold outputColumnRefs
  rw [hp]
  simp [h]

theorem C10_ref_ambiguous (res : Node) (tables : List Table) (node : Node) (alias name : String)
    (hp : refParts node = some (alias, name))
    (h : (refMatches ((res.get "Name").strOpt) tables alias name).length > 1) :
    outputColumnRefs res tables node = .error s!"42703:ambiguous:{name}" := by
  unfold outputColumnRefs
  rw [hp]
  simp only
  have h0 : ¬ (((refMatches ((res.get "Name").strOpt) tables alias name).length == 0) = true) := by
    simp only [beq_iff_eq]; omega
  rw [if_neg h0, if_pos h]

/-- the number of matches IS the number of (relation, column) pairs in scope that the reference names -/
theorem C10_ref_count (rn : Option String) (tables : List Table) (alias name : String) :
    (refMatches rn tables alias name).length =
      ((tables.filter (fun t => alias == "" || t.rel.name == alias)).flatMap (fun t => t.columns.filter (·.name == name))).length := by
  unfold refMatches
  induction tables with
  | nil => rfl
  | cons t ts ih =>
    simp only [List.flatMap_cons, List.length_append, ih, List.filter_cons]
    by_cases ha : alias = ""
    · simp [ha]
    · by_cases hn : t.rel.name = alias
      · simp [ha, hn]
      · simp [ha, hn]

/-! ### parameter-paired columns -/

theorem C10_compare_iff (names : List (Nat × String)) (num : Nat) (key : String) (tm : List TypeMapEntry) (search : List TableName) :
    (∃ ps, resolveCompare names num key tm search = .ok ps) ↔
      (search.filter (fun t => (typeMapLookup tm t.schema t.name key).isSome)).length = 1 := by
  constructor
  · rintro ⟨ps, h⟩; exact C06.C06_compare_unique names num key tm search ps h
  · intro h
    have hc : ∀ (l : List TableName), (compareMatches names num key tm l).length =
        (l.filter (fun t => (typeMapLookup tm t.schema t.name key).isSome)).length := by
      intro l
      unfold compareMatches
      induction l with
      | nil => rfl
      | cons t ts ih =>
        cases hlk : typeMapLookup tm t.schema t.name key with
        | none => simp [List.filterMap_cons, hlk, ih]
        | some cc => simp [List.filterMap_cons, hlk, ih]
    refine ⟨compareMatches names num key tm search, ?_⟩
    unfold resolveCompare
    simp only
    rw [if_neg (by simp [hc, h]), if_neg (by rw [hc]; omega)]

theorem C10_compare_missing (names : List (Nat × String)) (num : Nat) (key : String) (tm : List TypeMapEntry) (search : List TableName)
    (h : ∀ t ∈ search, typeMapLookup tm t.schema t.name key = none) :
    resolveCompare names num key tm search = .error s!"42703:notexist:{key}" := by
  have : compareMatches names num key tm search = [] := by
    unfold compareMatches
    rw [List.filterMap_eq_nil_iff]
    intro t ht; simp [h t ht]
  unfold resolveCompare
  simp [this]

theorem C10_compare_ambiguous (names : List (Nat × String)) (num : Nat) (key : String) (tm : List TypeMapEntry) (search : List TableName)
    (h : (compareMatches names num key tm search).length > 1) :
    resolveCompare names num key tm search = .error s!"42703:ambiguous:{key}" := by
  unfold resolveCompare
  simp only
  have h0 : ¬ (((compareMatches names num key tm search).length == 0) = true) := by
    simp only [beq_iff_eq]; omega
  rw [if_neg h0, if_pos h]

theorem C10_target_iff (names : List (Nat × String)) (num : Nat) (key : String) (tm : List TypeMapEntry) (t : TableName) :
    (∃ ps, resolveTarget names num key tm t = .ok ps) ↔ (typeMapLookup tm t.schema t.name key).isSome := by
  unfold resolveTarget
  cases typeMapLookup tm t.schema t.name key with
  | none => simp
  | some cc => simp

theorem C10_target_missing (names : List (Nat × String)) (num : Nat) (key : String) (tm : List TypeMapEntry) (t : TableName)
    (h : typeMapLookup tm t.schema t.name key = none) :
    resolveTarget names num key tm t = .error s!"42703:notexist:{key}" := by
  unfold resolveTarget; simp [h]

/-! ### a rejected query contributes nothing -/

theorem foldlM_error {α β : Type} (f : List β → α → Except String (List β)) :
    ∀ (pre : List α) (a : α) (post : List α) (acc : List β) (e : String),
      (∀ acc', f acc' a = .error e) → (∀ x ∈ pre, ∀ acc', ∃ r, f acc' x = .ok r) →
      (pre ++ a :: post).foldlM f acc = .error e := by
  intro pre
  induction pre with
  | nil => intro a post acc e ha _; simp [List.foldlM_cons, ha, bind, Except.bind]
  | cons x xs ih =>
    intro a post acc e ha hpre
    obtain ⟨r, hr⟩ := hpre x (by simp) acc
    simp only [List.cons_append, List.foldlM_cons, hr, bind, Except.bind]
    exact ih a post r e ha (fun y hy acc' => hpre y (by simp [hy]) acc')

/-- if resolving one reference fails (and the earlier ones succeed), resolveCatalogRefs as a whole fails with
that error: no parameter list is produced, so the query is dropped from the result -/
theorem C10_error_stops (f : ParamRef → Res (List Parameter)) (pre : List ParamRef) (bad : ParamRef) (post : List ParamRef) (e : String)
    (hb : f bad = .error e) (hp : ∀ x ∈ pre, ∃ r, f x = .ok r) :
    (pre ++ bad :: post).foldlM (fun acc ref => do let ps ← f ref; pure (acc ++ ps)) [] = .error e := by
  apply foldlM_error
  · intro acc'; simp [hb, bind, Except.bind]
  · intro x hx acc'
    obtain ⟨r, hr⟩ := hp x hx
    exact ⟨acc' ++ r, by simp [hr, bind, Except.bind, pure, Except.pure]⟩

/-! ### non-vacuity -/

theorem witness_missing : (match resolveCompare [] 1 "nope" C06.wTm C06.wTables with | .ok _ => 0 | .error _ => 1) = 1 := by decide
theorem witness_ref : (refMatches none C02.wTables "" "id").length = 2 ∧ (refMatches none C02.wTables "b" "id").length = 1 ∧
    (refMatches none C02.wTables "" "nope").length = 0 := by decide

theorem translator_complete : Gen.untranslatable = [] := by decide

end Sqlc.C10
