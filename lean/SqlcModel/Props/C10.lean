import SqlcModel.Query.Analyze
import SqlcModel.Spec.PgSem
import SqlcModel.Props.C02
import SqlcModel.Props.C06
import SqlcModel.Gen.Untranslatable
/-
C10 — Unresolvable or ambiguous names are rejected; resolvable ones accepted.

Proved on the model, per resolution site (the three sites the property text names: relations, result /
RETURNING list, parameter-paired columns), each as an exact characterisation of its rejection set:

* `C10_relation_*` — Catalog.GetTable / QueryCatalog.GetTable: a relation that is neither a CTE nor in the
  catalog is rejected with 42P01 naming the relation (3F000 naming the schema when the schema is missing);
  one that exists is accepted;
* `C10_ref_iff`, `C10_ref_missing`, `C10_ref_ambiguous` — a plain column reference in a result / RETURNING
  list is accepted iff exactly one (relation, column) in scope matches it; none ⇒ `column … does not exist`
  naming the column, several ⇒ `column reference … is ambiguous` naming it;
* `C10_compare_iff`, `C10_compare_missing`, `C10_compare_ambiguous` — the same for a column paired with a
  placeholder by comparison; `C10_target_iff` for INSERT / SET targets;
* `C10_error_stops` — an error at any parameter aborts resolveCatalogRefs (a rejected query contributes no
  parameters, hence no code).

Scope construction — WHICH relations are "in scope" at each site — is where the unchanged code departs from
the database (whole-statement search list, derived tables leaking: findings `scopeLeak`, `subselectLeak`;
columns inside result expressions and repeated placeholders never looked up: `exprColumn`,
`repeatedPlaceholder`). Those are decided by the correspondence stream against the PgSem oracle; the theorems
here are about each site GIVEN its scope, which is the part no sample can settle.
-/
set_option linter.unusedSimpArgs false
namespace Sqlc.C10
open Sqlc Sqlc.Q Sqlc.Spec.Sem Sqlc.C02

/-! ### relations -/

theorem C10_relation_missing (c : Cat) (rel : TableName) (s : CatSchema)
    (hs : c.schemas.find? (·.name == (if rel.schema == "" then c.defaultSchema else rel.schema)) = some s)
    (ht : s.tables.find? (·.name == rel.name) = none) :
    catGetTable c rel = .error s!"42P01:{rel.name}" := by
  unfold catGetTable; simp only [hs, ht]

theorem C10_schema_missing (c : Cat) (rel : TableName)
    (hs : c.schemas.find? (·.name == (if rel.schema == "" then c.defaultSchema else rel.schema)) = none) :
    catGetTable c rel = .error s!"3F000:{if rel.schema == "" then c.defaultSchema else rel.schema}" := by
  unfold catGetTable; simp only [hs]

theorem C10_relation_found (c : Cat) (rel : TableName) (s : CatSchema) (t : CatTable)
    (hs : c.schemas.find? (·.name == (if rel.schema == "" then c.defaultSchema else rel.schema)) = some s)
    (ht : s.tables.find? (·.name == rel.name) = some t) :
    catGetTable c rel = .ok t := by
  unfold catGetTable; simp only [hs, ht]

/-- the query-level lookup: a CTE of that name wins, else the catalog decides (and its error is passed on) -/
theorem C10_qc_relation_missing (c : Cat) (ctes : Ctes) (rel : TableName) (e : String)
    (hc : (ctes.filter (·.1 == rel.name)).getLast? = none) (he : catGetTable c rel = .error e) :
    qcGetTable c ctes rel = .error e := by
  unfold qcGetTable; simp [hc, he, bind, Except.bind]

/-! ### result / RETURNING list: plain references -/

theorem C10_ref_iff (res : Node) (tables : List Table) (node : Node) (alias name : String)
    (hp : refParts node = some (alias, name)) :
    (∃ cols, outputColumnRefs res tables node = .ok cols) ↔
      (refMatches ((res.get "Name").strOpt) tables alias name).length = 1 := by
  unfold outputColumnRefs
  rw [hp]
  simp only
  constructor
  · rintro ⟨cols, h⟩
    by_cases h0 : ((refMatches ((res.get "Name").strOpt) tables alias name).length == 0) = true
    · rw [if_pos h0] at h; exact absurd h (by simp)
    · rw [if_neg h0] at h
      by_cases h1 : (refMatches ((res.get "Name").strOpt) tables alias name).length > 1
      · rw [if_pos h1] at h; exact absurd h (by simp)
      · simp only [beq_iff_eq] at h0; omega
  · intro h
    refine ⟨refMatches ((res.get "Name").strOpt) tables alias name, ?_⟩
    rw [if_neg (by simp [h]), if_neg (by omega)]

theorem C10_ref_missing (res : Node) (tables : List Table) (node : Node) (alias name : String)
    (hp : refParts node = some (alias, name))
    (h : (refMatches ((res.get "Name").strOpt) tables alias name).length = 0) :
    outputColumnRefs res tables node = .error s!"42703:notexist:{name}" := by
  unfold outputColumnRefs
  rw [hp]
  simp [h]

theorem C10_ref_ambiguous (res : Node) (tables : List Table) (node : Node) (alias name : String)
    (hp : refParts node = some (alias, name))
    (h : (refMatches ((res.get "Name").strOpt) tables alias name).length > 1) :
    outputColumnRefs res tables node = .error s!"42703:ambiguous:{name}" := by
  unfold outputColumnRefs
  rw [hp]
  simp only
  have h0 : ¬ (((refMatches ((res.get "Name").strOpt) tables alias name).length == 0) = true) := by
    simp only [beq_iff_eq]; omega
  rw [if_neg h0, if_pos h]

/-- the number of matches IS the number of (relation, column) pairs in scope that the reference names -/
theorem C10_ref_count (rn : Option String) (tables : List Table) (alias name : String) :
    (refMatches rn tables alias name).length =
      ((tables.filter (fun t => alias == "" || t.rel.name == alias)).flatMap (fun t => t.columns.filter (·.name == name))).length := by
  unfold refMatches
  induction tables with
  | nil => rfl
  | cons t ts ih =>
    simp only [List.flatMap_cons, List.length_append, ih, List.filter_cons]
    by_cases ha : alias = ""
    · simp [ha]
    · by_cases hn : t.rel.name = alias
      · simp [ha, hn]
      · simp [ha, hn]

/-! ### parameter-paired columns -/

theorem C10_compare_iff (names : List (Nat × String)) (num : Nat) (key : String) (tm : List TypeMapEntry) (search : List TableName) :
    (∃ ps, resolveCompare names num key tm search = .ok ps) ↔
      (search.filter (fun t => (typeMapLookup tm t.schema t.name key).isSome)).length = 1 := by
  constructor
  · rintro ⟨ps, h⟩; exact C06.C06_compare_unique names num key tm search ps h
  · intro h
    have hc : ∀ (l : List TableName), (compareMatches names num key tm l).length =
        (l.filter (fun t => (typeMapLookup tm t.schema t.name key).isSome)).length := by
      intro l
      unfold compareMatches
      induction l with
      | nil => rfl
      | cons t ts ih =>
        cases hlk : typeMapLookup tm t.schema t.name key with
        | none => simp [List.filterMap_cons, hlk, ih]
        | some cc => simp [List.filterMap_cons, hlk, ih]
    refine ⟨compareMatches names num key tm search, ?_⟩
    unfold resolveCompare
    simp only
    rw [if_neg (by simp [hc, h]), if_neg (by rw [hc]; omega)]

theorem C10_compare_missing (names : List (Nat × String)) (num : Nat) (key : String) (tm : List TypeMapEntry) (search : List TableName)
    (h : ∀ t ∈ search, typeMapLookup tm t.schema t.name key = none) :
    resolveCompare names num key tm search = .error s!"42703:notexist:{key}" := by
  have : compareMatches names num key tm search = [] := by
    unfold compareMatches
    rw [List.filterMap_eq_nil_iff]
    intro t ht; simp [h t ht]
  unfold resolveCompare
  simp [this]

theorem C10_compare_ambiguous (names : List (Nat × String)) (num : Nat) (key : String) (tm : List TypeMapEntry) (search : List TableName)
    (h : (compareMatches names num key tm search).length > 1) :
    resolveCompare names num key tm search = .error s!"42703:ambiguous:{key}" := by
  unfold resolveCompare
  simp only
  have h0 : ¬ (((compareMatches names num key tm search).length == 0) = true) := by
    simp only [beq_iff_eq]; omega
  rw [if_neg h0, if_pos h]

theorem C10_target_iff (names : List (Nat × String)) (num : Nat) (key : String) (tm : List TypeMapEntry) (t : TableName) :
    (∃ ps, resolveTarget names num key tm t = .ok ps) ↔ (typeMapLookup tm t.schema t.name key).isSome := by
  unfold resolveTarget
  cases typeMapLookup tm t.schema t.name key with
  | none => simp
  | some cc => simp

theorem C10_target_missing (names : List (Nat × String)) (num : Nat) (key : String) (tm : List TypeMapEntry) (t : TableName)
    (h : typeMapLookup tm t.schema t.name key = none) :
    resolveTarget names num key tm t = .error s!"42703:notexist:{key}" := by
  unfold resolveTarget; simp [h]

/-! ### a rejected query contributes nothing -/

theorem foldlM_error {α β : Type} (f : List β → α → Except String (List β)) :
    ∀ (pre : List α) (a : α) (post : List α) (acc : List β) (e : String),
      (∀ acc', f acc' a = .error e) → (∀ x ∈ pre, ∀ acc', ∃ r, f acc' x = .ok r) →
      (pre ++ a :: post).foldlM f acc = .error e := by
  intro pre
  induction pre with
  | nil => intro a post acc e ha _; simp [List.foldlM_cons, ha, bind, Except.bind]
  | cons x xs ih =>
    intro a post acc e ha hpre
    obtain ⟨r, hr⟩ := hpre x (by simp) acc
    simp only [List.cons_append, List.foldlM_cons, hr, bind, Except.bind]
    exact ih a post r e ha (fun y hy acc' => hpre y (by simp [hy]) acc')

/-- if resolving one reference fails (and the earlier ones succeed), resolveCatalogRefs as a whole fails with
that error: no parameter list is produced, so the query is dropped from the result -/
theorem C10_error_stops (f : ParamRef → Res (List Parameter)) (pre : List ParamRef) (bad : ParamRef) (post : List ParamRef) (e : String)
    (hb : f bad = .error e) (hp : ∀ x ∈ pre, ∃ r, f x = .ok r) :
    (pre ++ bad :: post).foldlM (fun acc ref => do let ps ← f ref; pure (acc ++ ps)) [] = .error e := by
  apply foldlM_error
  · intro acc'; simp [hb, bind, Except.bind]
  · intro x hx acc'
    obtain ⟨r, hr⟩ := hp x hx
    exact ⟨acc' ++ r, by simp [hr, bind, Except.bind, pure, Except.pure]⟩

/-! ### non-vacuity -/

theorem witness_missing : (match resolveCompare [] 1 "nope" C06.wTm C06.wTables with | .ok _ => 0 | .error _ => 1) = 1 := by decide
theorem witness_ref : (refMatches none C02.wTables "" "id").length = 2 ∧ (refMatches none C02.wTables "b" "id").length = 1 ∧
    (refMatches none C02.wTables "" "nope").length = 0 := by decide

/-! ### one query level: the model's rule refines the database's rule -/

def qualOf (alias : String) : Option String := if alias = "" then none else some alias

/-- the candidates PgSem.resolveCol looks at in one level -/
def specHits (sc : Scope) (q : Option String) (c : String) : List ColInfo :=
  let rels : List Rel := match q with
    | some qn => sc.filter (fun (r : Rel) => r.qual == qn)
    | none => sc
  rels.flatMap (fun (r : Rel) => r.cols.filter (fun ci => ci.name == c && (q.isSome || !ci.merged)))

theorem resolveCol_single (sc : Scope) (q : Option String) (c : String) :
    resolveCol [sc] q c = (match specHits sc q c with
      | [h] => .ok h
      | [] => .error (.columnMissing c)
      | _ :: _ :: _ => .error (.columnAmbiguous c)) := by
  unfold resolveCol specHits
  cases q with
  | none =>
    simp only
    generalize (List.flatMap (fun (r : Rel) => r.cols.filter (fun ci => ci.name == c && ((none : Option String).isSome || !ci.merged))) sc) = hits
    match hits with
    | [] => simp [resolveCol]
    | [h] => rfl
    | _ :: _ :: _ => rfl
  | some qn =>
    simp only
    generalize (List.flatMap (fun (r : Rel) => r.cols.filter (fun ci => ci.name == c && ((some qn : Option String).isSome || !ci.merged))) (sc.filter (fun (r : Rel) => r.qual == qn))) = hits
    match hits with
    | [] => simp [resolveCol]
    | [h] => rfl
    | _ :: _ :: _ => rfl

theorem hits_unqualified (rn : Option String) (tables : List Table) (name : String) :
    (specHits (levelOf tables) none name).length = (refMatches rn tables "" name).length := by
  unfold specHits levelOf refMatches
  induction tables with
  | nil => simp
  | cons t ts ih =>
    simp only [List.map_cons, List.flatMap_cons, List.length_append] at ih ⊢
    rw [ih]
    simp [relOf, colInfoOf, List.filter_map, Function.comp_def]

theorem hits_qualified (rn : Option String) (tables : List Table) (alias name : String) (h : alias ≠ "") :
    (specHits (levelOf tables) (some alias) name).length = (refMatches rn tables alias name).length := by
  unfold specHits levelOf refMatches
  induction tables with
  | nil => simp
  | cons t ts ih =>
    simp only [List.map_cons, List.flatMap_cons, List.length_append, List.filter_cons] at ih ⊢
    by_cases hq : t.rel.name = alias
    · simp [relOf, colInfoOf, hq, h, List.filter_map, Function.comp_def] at ih ⊢
      omega
    · have hq' : ¬ alias = t.rel.name := fun e => hq e.symm
      simp [relOf, colInfoOf, hq, hq', h, List.filter_map, Function.comp_def] at ih ⊢
      omega

theorem hits_length (rn : Option String) (tables : List Table) (alias name : String) :
    (specHits (levelOf tables) (qualOf alias) name).length = (refMatches rn tables alias name).length := by
  unfold qualOf
  by_cases h : alias = ""
  · rw [if_pos h, h]; exact hits_unqualified rn tables name
  · rw [if_neg h]; exact hits_qualified rn tables alias name h

/-- **C10, one level (refinement).** For a plain column reference and the relations of ONE query level, the
model's verdict is a function of the database's verdict (`PgSem.resolveCol` on that level alone): resolvable
⇒ accepted, missing ⇒ rejected as missing naming the column, ambiguous ⇒ rejected as ambiguous naming it.
The three cases are exhaustive (`resolveCol_single`), so acceptance coincides. Everything sqlc gets wrong
about names is therefore in WHICH relations it puts in `tables` (findings scopeLeak, subselectLeak,
nestedLevel), never in how it matches a reference against them. -/
theorem C10_flat_level_refines (res : Node) (tables : List Table) (node : Node) (alias name : String)
    (hp : refParts node = some (alias, name)) :
    (∀ h, resolveCol [levelOf tables] (qualOf alias) name = .ok h → ∃ cols, outputColumnRefs res tables node = .ok cols) ∧
    (resolveCol [levelOf tables] (qualOf alias) name = .error (.columnMissing name) →
        outputColumnRefs res tables node = .error s!"42703:notexist:{name}") ∧
    (resolveCol [levelOf tables] (qualOf alias) name = .error (.columnAmbiguous name) →
        outputColumnRefs res tables node = .error s!"42703:ambiguous:{name}") := by
  have hl := hits_length ((res.get "Name").strOpt) tables alias name
  rw [resolveCol_single]
  refine ⟨?_, ?_, ?_⟩
  · intro h hh
    apply (C10_ref_iff res tables node alias name hp).mpr
    split at hh <;> simp_all
  · intro hh
    apply C10_ref_missing res tables node alias name hp
    split at hh <;> simp_all
  · intro hh
    apply C10_ref_ambiguous res tables node alias name hp
    split at hh <;> simp_all
    omega

/-- and conversely: what the model accepts at one level, the database resolves at that level -/
theorem C10_flat_level_complete (res : Node) (tables : List Table) (node : Node) (alias name : String)
    (hp : refParts node = some (alias, name)) (cols : List Column)
    (hok : outputColumnRefs res tables node = .ok cols) :
    ∃ h, resolveCol [levelOf tables] (qualOf alias) name = .ok h := by
  have h1 := (C10_ref_iff res tables node alias name hp).mp ⟨cols, hok⟩
  have hl := hits_length ((res.get "Name").strOpt) tables alias name
  rw [resolveCol_single]
  rw [h1] at hl
  match hs : specHits (levelOf tables) (qualOf alias) name, hl with
  | [h], _ => exact ⟨h, rfl⟩

theorem witness_flat : (match resolveCol [levelOf C02.wTables] (qualOf "b") "id" with | .ok _ => 1 | .error _ => 0) = 1 ∧
    (match resolveCol [levelOf C02.wTables] (qualOf "") "id" with | .error (.columnAmbiguous _) => 1 | _ => 0) = 1 := by decide

/-! ### one query level: the resolved column's attributes -/

/-- the catalog-derived columns a reference (alias, name) matches, before they are renamed for the result -/
def matched (tables : List Table) (alias name : String) : List Column :=
  tables.flatMap (fun t => if alias != "" && t.rel.name != alias then [] else t.columns.filter (·.name == name))

theorem refMatches_eq_map (rn : Option String) (tables : List Table) (alias name : String) :
    refMatches rn tables alias name = (matched tables alias name).map (fun c =>
      ({ name := rn.getD c.name, table := c.table, dataType := c.dataType, notNull := c.notNull, isArray := c.isArray } : Column)) := by
  unfold refMatches matched
  induction tables with
  | nil => rfl
  | cons t ts ih =>
    simp only [List.flatMap_cons, List.map_append]
    rw [ih]
    by_cases h : (alias != "" && t.rel.name != alias) = true
    · simp [h]
    · simp [h]

theorem specHits_unq_map (tables : List Table) (name : String) :
    specHits (levelOf tables) none name = (matched tables "" name).map colInfoOf := by
  unfold specHits levelOf matched
  induction tables with
  | nil => rfl
  | cons t ts ih =>
    simp only [List.map_cons, List.flatMap_cons, List.map_append] at ih ⊢
    rw [ih]
    simp [relOf, colInfoOf, List.filter_map, Function.comp_def]

theorem specHits_q_map (tables : List Table) (alias name : String) (ha : alias ≠ "") :
    specHits (levelOf tables) (some alias) name = (matched tables alias name).map colInfoOf := by
  unfold specHits levelOf matched
  induction tables with
  | nil => rfl
  | cons t ts ih =>
    simp only [List.map_cons, List.flatMap_cons, List.map_append, List.filter_cons] at ih ⊢
    by_cases hq : t.rel.name = alias
    · simp [relOf, colInfoOf, hq, ha, List.filter_map, Function.comp_def] at ih ⊢
      rw [ih]
    · have hq' : ¬ alias = t.rel.name := fun e => hq e.symm
      simp [relOf, colInfoOf, hq, hq', ha, List.filter_map, Function.comp_def] at ih ⊢
      rw [ih]

theorem specHits_eq_map (tables : List Table) (alias name : String) :
    specHits (levelOf tables) (qualOf alias) name = (matched tables alias name).map colInfoOf := by
  unfold qualOf
  by_cases ha : alias = ""
  · rw [if_pos ha, ha]; exact specHits_unq_map tables name
  · rw [if_neg ha]; exact specHits_q_map tables alias name ha

/-- **C05, one level (refinement).** When a plain reference resolves — in the model and, on the same level, in
the database's rule — the result column the model produces carries the data type, nullability and array-ness of
the very column the database resolves the reference to. -/
theorem C05_flat_level_attrs (res : Node) (tables : List Table) (node : Node) (alias name : String)
    (hp : refParts node = some (alias, name)) (cols : List Column)
    (hok : outputColumnRefs res tables node = .ok cols) (h : ColInfo)
    (hs : resolveCol [levelOf tables] (qualOf alias) name = .ok h) :
    ∃ c, cols = [c] ∧ c.dataType = h.dataType ∧ c.notNull = h.notNull ∧ c.isArray = h.isArray := by
  have hc : cols = refMatches ((res.get "Name").strOpt) tables alias name := by
    unfold outputColumnRefs at hok
    rw [hp] at hok
    simp only at hok
    split at hok
    · cases hok
    · split at hok
      · cases hok
      · injection hok with e; exact e.symm
  rw [resolveCol_single, specHits_eq_map] at hs
  rw [hc, refMatches_eq_map]
  match hm : matched tables alias name, hs with
  | [c0], hs =>
    simp only [List.map_cons, List.map_nil] at hs ⊢
    injection hs with e
    refine ⟨_, rfl, ?_, ?_, ?_⟩ <;> simp [← e, colInfoOf]
  | [], hs => simp at hs
  | _ :: _ :: _, hs => simp at hs

/-! ### one query level, parameter-paired columns -/

def entryOf (tm : List TypeMapEntry) (t : TableName) : Option TypeMapEntry :=
  (tm.filter (fun e => e.schema == t.schema && e.name == t.name)).getLast?

/-- a catalog column as the database's rule sees it -/
def catColInfo (c : CatCol) : ColInfo := { name := c.name, dataType := colDT c, notNull := c.notNull, isArray := c.isArray }

/-- the relations a compared column is searched in, as one database level -/
def compareLevel (tm : List TypeMapEntry) (search : List TableName) : Scope :=
  search.map (fun t => ({ qual := t.name, cols := match entryOf tm t with
    | none => []
    | some e => e.cols.map catColInfo } : Rel))

theorem filter_nodup_length (l : List CatCol) (key : String) (h : (l.map (·.name)).Nodup) :
    (l.filter (·.name == key)).length = if (l.find? (·.name == key)).isSome then 1 else 0 := by
  induction l with
  | nil => rfl
  | cons c cs ih =>
    simp only [List.map_cons, List.nodup_cons] at h
    by_cases hc : c.name = key
    · have hnone : cs.filter (·.name == key) = [] := by
        apply List.filter_eq_nil_iff.mpr
        intro x hx hxk
        apply h.1
        simp only [beq_iff_eq] at hxk
        rw [hc, ← hxk]
        exact List.mem_map.mpr ⟨x, hx, rfl⟩
      simp [List.filter_cons, List.find?_cons, hc, hnone]
    · simp [List.filter_cons, List.find?_cons, hc, ih h.2]

theorem compare_hits (names : List (Nat × String)) (num : Nat) (key : String) (tm : List TypeMapEntry)
    (hnd : ∀ e ∈ tm, (e.cols.map (·.name)).Nodup) (search : List TableName) :
    (specHits (compareLevel tm search) none key).length = (compareMatches names num key tm search).length := by
  unfold specHits compareLevel compareMatches
  induction search with
  | nil => rfl
  | cons t ts ih =>
    simp only [List.map_cons, List.flatMap_cons, List.length_append, List.filterMap_cons] at ih ⊢
    rw [ih]
    unfold typeMapLookup
    unfold entryOf
    cases he : (tm.filter (fun e => e.schema == t.schema && e.name == t.name)).getLast? with
    | none => simp
    | some e =>
      have hmem : e ∈ tm := by
        have := List.mem_of_getLast? he
        exact (List.mem_filter.mp this).1
      have hn := filter_nodup_length e.cols key (hnd e hmem)
      simp only [List.filter_map, Function.comp_def, List.length_map]
      have hfe : (e.cols.filter (fun x => (catColInfo x).name == key && ((none : Option String).isSome || !(catColInfo x).merged))) = e.cols.filter (·.name == key) := by
        apply List.filter_congr; intro x _; simp [catColInfo]
      rw [hfe, hn]
      cases hf : e.cols.find? (·.name == key) with
      | none => simp
      | some cc => simp; omega

/-- **C10, one level, parameter-paired columns (refinement).** Given the relations `searchTables` selected and
a catalog whose tables have pairwise distinct column names (the C08 invariant), the model's verdict on the
column a placeholder is compared with is a function of the database's verdict on that level. -/
theorem C10_compare_refines (names : List (Nat × String)) (num : Nat) (key : String) (tm : List TypeMapEntry)
    (hnd : ∀ e ∈ tm, (e.cols.map (·.name)).Nodup) (search : List TableName) :
    (∀ h, resolveCol [compareLevel tm search] none key = .ok h → ∃ ps, resolveCompare names num key tm search = .ok ps) ∧
    (resolveCol [compareLevel tm search] none key = .error (.columnMissing key) →
        resolveCompare names num key tm search = .error s!"42703:notexist:{key}") ∧
    (resolveCol [compareLevel tm search] none key = .error (.columnAmbiguous key) →
        resolveCompare names num key tm search = .error s!"42703:ambiguous:{key}") := by
  have hl := compare_hits names num key tm hnd search
  rw [resolveCol_single]
  unfold resolveCompare
  simp only
  refine ⟨?_, ?_, ?_⟩
  · intro h hh
    have h1 : (compareMatches names num key tm search).length = 1 := by
      split at hh
      · next heq => rw [heq] at hl; simpa using hl.symm
      · exact absurd hh (by simp)
      · exact absurd hh (by simp)
    refine ⟨compareMatches names num key tm search, ?_⟩
    rw [if_neg (by simp [h1]), if_neg (by omega)]
  · intro hh
    have h0 : (compareMatches names num key tm search).length = 0 := by
      split at hh
      · exact absurd hh (by simp)
      · next heq => rw [heq] at hl; simpa using hl.symm
      · exact absurd hh (by simp)
    rw [if_pos (by simp [h0])]
  · intro hh
    have h2 : (compareMatches names num key tm search).length > 1 := by
      split at hh
      · exact absurd hh (by simp)
      · exact absurd hh (by simp)
      · next heq => rw [heq] at hl; simp at hl; omega
    have hne : ¬ ((compareMatches names num key tm search).length == 0) = true := by
      simp only [beq_iff_eq]; omega
    rw [if_neg hne, if_pos h2]
theorem filter_nodup_eq (l : List CatCol) (key : String) (h : (l.map (·.name)).Nodup) :
    l.filter (·.name == key) = (l.find? (·.name == key)).toList := by
  induction l with
  | nil => rfl
  | cons c cs ih =>
    simp only [List.map_cons, List.nodup_cons] at h
    by_cases hc : c.name = key
    · have hnone : cs.filter (·.name == key) = [] := by
        apply List.filter_eq_nil_iff.mpr
        intro x hx hxk
        apply h.1
        simp only [beq_iff_eq] at hxk
        rw [hc, ← hxk]
        exact List.mem_map.mpr ⟨x, hx, rfl⟩
      simp [List.filter_cons, List.find?_cons, hc, hnone]
    · simp [List.filter_cons, List.find?_cons, hc, ih h.2]

/-- the catalog columns the comparison arm finds, table by table -/
def compareCols (key : String) (tm : List TypeMapEntry) (search : List TableName) : List CatCol :=
  search.filterMap (fun t => typeMapLookup tm t.schema t.name key)

theorem compareMatches_eq (names : List (Nat × String)) (num : Nat) (key : String) (tm : List TypeMapEntry) (search : List TableName) :
    (compareMatches names num key tm search).map (fun p => p.column.map (fun c => (c.dataType, c.notNull, c.isArray))) =
      (compareCols key tm search).map (fun cc => some (colDT cc, cc.notNull, cc.isArray)) := by
  unfold compareMatches compareCols
  induction search with
  | nil => rfl
  | cons t ts ih =>
    simp only [List.filterMap_cons]
    cases hl : typeMapLookup tm t.schema t.name key with
    | none => simpa using ih
    | some cc => simp [compareParam, ih]

theorem compare_hits_eq (key : String) (tm : List TypeMapEntry)
    (hnd : ∀ e ∈ tm, (e.cols.map (·.name)).Nodup) (search : List TableName) :
    specHits (compareLevel tm search) none key = (compareCols key tm search).map catColInfo := by
  unfold specHits compareLevel compareCols
  induction search with
  | nil => rfl
  | cons t ts ih =>
    simp only [List.map_cons, List.flatMap_cons, List.filterMap_cons] at ih ⊢
    rw [ih]
    unfold typeMapLookup entryOf
    cases he : (tm.filter (fun e => e.schema == t.schema && e.name == t.name)).getLast? with
    | none => simp
    | some e =>
      have hmem : e ∈ tm := (List.mem_filter.mp (List.mem_of_getLast? he)).1
      have hf := filter_nodup_eq e.cols key (hnd e hmem)
      simp only [List.filter_map, Function.comp_def]
      have hfe : (e.cols.filter (fun x => (catColInfo x).name == key && ((none : Option String).isSome || !(catColInfo x).merged))) = e.cols.filter (·.name == key) := by
        apply List.filter_congr; intro x _; simp [catColInfo]
      rw [hfe, hf]
      cases hfind : e.cols.find? (·.name == key) with
      | none => simp
      | some cc => simp

/-- **C06, one level (refinement).** When the column a placeholder is compared with resolves — in the model and,
on the level `searchTables` selected, in the database's rule — the parameter takes the data type, nullability and
array-ness of the very column the database resolves the name to. -/
theorem C06_compare_attrs (names : List (Nat × String)) (num : Nat) (key : String) (tm : List TypeMapEntry)
    (hnd : ∀ e ∈ tm, (e.cols.map (·.name)).Nodup) (search : List TableName) (ps : List Parameter) (h : ColInfo)
    (hok : resolveCompare names num key tm search = .ok ps)
    (hs : resolveCol [compareLevel tm search] none key = .ok h) :
    ∃ p c, ps = [p] ∧ p.column = some c ∧ c.dataType = h.dataType ∧ c.notNull = h.notNull ∧ c.isArray = h.isArray := by
  have hps : ps = compareMatches names num key tm search := by
    unfold resolveCompare at hok
    simp only at hok
    split at hok
    · cases hok
    · split at hok
      · cases hok
      · injection hok with e; exact e.symm
  rw [resolveCol_single, compare_hits_eq key tm hnd] at hs
  have hm := compareMatches_eq names num key tm search
  rw [← hps] at hm
  match hc : compareCols key tm search, hs with
  | [cc], hs =>
    rw [hc] at hm
    simp only [List.map_cons, List.map_nil] at hs hm
    injection hs with e
    cases ps with
    | nil => simp at hm
    | cons p rest =>
      cases rest with
      | cons _ _ => simp at hm
      | nil =>
        simp only [List.map_cons, List.map_nil, List.cons.injEq, and_true] at hm
        cases hp : p.column with
        | none => rw [hp] at hm; simp at hm
        | some c =>
          rw [hp] at hm
          simp only [Option.map_some, Option.some.injEq, Prod.mk.injEq] at hm
          exact ⟨p, c, rfl, hp, by rw [hm.1, ← e]; rfl, by rw [hm.2.1, ← e]; rfl, by rw [hm.2.2, ← e]; rfl⟩
  | [], hs => simp at hs
  | _ :: _ :: _, hs => simp at hs

/-- the hypothesis is met by the witness catalog -/
example : ∀ e ∈ C06.wTm, (e.cols.map (·.name)).Nodup := by decide

theorem translator_complete : Gen.untranslatable = [] := by decide

end Sqlc.C10
