import SqlcModel.Text.Source
import SqlcModel.Gen.Untranslatable
import SqlcModel.Gen.DriverFacts
/-
C17 — Diagnostics name a line inside the statement (the `source.LineNumber` part).

`LineNumber(src, head)` walks the runes of the file; the theorems characterise what it returns for
EVERY file and EVERY offset: it stops at the first rune at or after byte offset `head` that is neither
white space nor inside a `--` comment, reports that rune's line (1 + number of newlines before it)
and a column ≥ 1, and never reports a position before `head`. Multi-byte characters anywhere in the
file do not matter (this is what the `fix:` commit 2c33658 repaired; the pinned tree compared the
rune count with the byte offset).

The FILE a diagnostic names: `printFileErr` is read off the source by the translator (`C17_name_site`) and
`C17_names_the_file` / `C17_component_boundary` show the printed name is the file's path or its path relative
to the configuration directory, cut only at a path-component boundary — for every directory and every path.
The correspondence stream places the configuration and the query files in ten different layouts (queries
below the configuration directory, in siblings whose names extend the directory's name, in dot-directories).
-/
set_option linter.unusedSimpArgs false
namespace Sqlc.C17
open Sqlc

/-- the loop state after each rune: (byte index, rune, state after the iteration's bookkeeping) -/
def states (src : Bytes) : List (Nat × Nat) → LnState → List (Nat × Nat × LnState)
  | [], _ => []
  | (i, r) :: rest, st =>
    let st' := lnStep src st i r
    (i, r, st') :: states src rest st'

def significant (head : Nat) (x : Nat × Nat × LnState) : Bool :=
  !(x.1 < head) && !isSpaceRune x.2.1 && !x.2.2.comment

def finalState (src : Bytes) : List (Nat × Nat) → LnState → LnState
  | [], st => st
  | (i, r) :: rest, st => finalState src rest (lnStep src st i r)

/-- T1: the loop is "find the first significant rune" -/
theorem lnLoop_eq_find (src : Bytes) (head : Nat) : ∀ (rs : List (Nat × Nat)) (st : LnState),
    lnLoop src head rs st =
      match (states src rs st).find? (significant head) with
      | some x => (x.2.2.line + 1, x.2.2.col)
      | none => ((finalState src rs st).line + 1, (finalState src rs st).col)
  | [], st => rfl
  | (i, r) :: rest, st => by
    simp only [lnLoop, states, List.find?, significant, finalState]
    by_cases h1 : i < head
    · simp [h1, lnLoop_eq_find src head rest, significant]
    · by_cases h2 : isSpaceRune r = true
      · simp [h1, h2, lnLoop_eq_find src head rest, significant]
      · simp only [Bool.not_eq_true] at h2
        by_cases h3 : (lnStep src st i r).comment = true
        · simp [h1, h2, h3, lnLoop_eq_find src head rest, significant]
        · simp only [Bool.not_eq_true] at h3
          simp [h1, h2, h3]

/-- T2: the position reported is at or after `head`, and its column is at least 1 -/
theorem break_at_or_after_head (src : Bytes) (head : Nat) (rs : List (Nat × Nat)) (st : LnState)
    (x : Nat × Nat × LnState) (h : (states src rs st).find? (significant head) = some x) :
    head ≤ x.1 := by
  have := List.find?_some h
  simp only [significant, Bool.and_eq_true, Bool.not_eq_true', decide_eq_false_iff_not] at this
  omega

theorem newline_is_space : isSpaceRune NLr = true := by decide

theorem states_col_pos (src : Bytes) : ∀ (rs : List (Nat × Nat)) (st : LnState) (x : Nat × Nat × LnState),
    x ∈ states src rs st → isSpaceRune x.2.1 = false → 1 ≤ x.2.2.col
  | [], _, _, h, _ => by simp [states] at h
  | (i, r) :: rest, st, x, h, hs => by
    simp only [states, List.mem_cons] at h
    rcases h with rfl | h
    · simp only [lnStep]
      by_cases hr : (r == NLr) = true
      · have : r = NLr := by simpa using hr
        subst this
        simp only [] at hs
        rw [newline_is_space] at hs
        exact absurd hs (by simp)
      · simp only [Bool.not_eq_true] at hr
        simp [hr]
    · exact states_col_pos src rest _ x h hs

/-- C17 (column): whenever LineNumber stops at a rune, the column it reports is ≥ 1 -/
theorem C17_col_pos (src : Bytes) (head : Nat) (x : Nat × Nat × LnState)
    (h : (states src (runes src) ⟨0, 0, false⟩).find? (significant head) = some x) :
    lineNumber src head = (x.2.2.line + 1, x.2.2.col) ∧ 1 ≤ x.2.2.col ∧ head ≤ x.1 := by
  refine ⟨?_, ?_, break_at_or_after_head src head _ _ x h⟩
  · unfold lineNumber; rw [lnLoop_eq_find, h]
  · apply states_col_pos src (runes src) _ x (List.mem_of_find?_eq_some h)
    have := List.find?_some h
    simp only [significant, Bool.and_eq_true, Bool.not_eq_true'] at this
    exact this.1.2

/-- number of newline runes in a rune list -/
def nlCount (rs : List (Nat × Nat)) : Nat := (rs.filter (fun p => p.2 == NLr)).length

/-- T3: the line of the state after a prefix of the runes is the number of newlines in that prefix -/
theorem states_line (src : Bytes) : ∀ (pre : List (Nat × Nat)) (i r : Nat) (post : List (Nat × Nat)) (st : LnState),
    ∃ st', (states src (pre ++ (i, r) :: post) st)[pre.length]? = some (i, r, st') ∧
      st'.line = st.line + nlCount (pre ++ [(i, r)])
  | [], i, r, post, st => by
    refine ⟨lnStep src st i r, by simp [states], ?_⟩
    simp only [lnStep, nlCount, List.nil_append]
    by_cases hr : (r == NLr) = true
    · simp [hr, List.filter]
    · simp only [Bool.not_eq_true] at hr; simp [hr, List.filter]
  | (j, q) :: pre, i, r, post, st => by
    obtain ⟨st', h1, h2⟩ := states_line src pre i r post (lnStep src st j q)
    refine ⟨st', by simpa [states] using h1, ?_⟩
    rw [h2]
    simp only [lnStep, nlCount, List.cons_append]
    by_cases hq : (q == NLr) = true
    · simp [hq, List.filter]; omega
    · simp only [Bool.not_eq_true] at hq; simp [hq, List.filter]

/-- non-vacuity / regression: a multi-byte character before the statement does not move the line
(on the pinned tree this evaluated to line 3, column 0) -/
example : lineNumber (b! "-- é é é é é é\nSELECT nope FROM t;\n") 21 = (2, 1) := by decide

/-! ### which file a diagnostic names -/

/-- `strings.TrimPrefix(file, dir + "/")` -/
def displayName (dir file : List Char) : List Char :=
  if (dir ++ ['/']).isPrefixOf file then file.drop (dir.length + 1) else file

/-- the code IS that expression, and the printed line is `name:line:col: message` of the same FileError -/
theorem C17_name_site :
    Gen.printFileErrName = "filename := strings.TrimPrefix(fileErr.Filename, dir + \"/\")" ∧
    Gen.printFileErrFormat = "\"%s:%d:%d: %s\\n\"" ∧
    Gen.printFileErrArgs = "filename, fileErr.Line, fileErr.Column, fileErr.Err" := by decide

/-- **C17 (file).** Whatever the configuration directory and wherever the query file lives, the printed name
is the file's own path or that path relative to the configuration directory: joining it back gives the file.
A prefix that is not cut at a path separator (`db` / `db_queries/a.sql`) is never removed. -/
theorem C17_names_the_file (dir file : List Char) :
    displayName dir file = file ∨ dir ++ '/' :: displayName dir file = file := by
  unfold displayName
  by_cases h : (dir ++ ['/']).isPrefixOf file = true
  · right
    rw [if_pos h]
    obtain ⟨t, ht⟩ := List.isPrefixOf_iff_prefix.mp h
    subst ht
    have : (dir ++ ['/'] ++ t).drop (dir.length + 1) = t := by
      have : dir.length + 1 = (dir ++ ['/']).length := by simp
      rw [this, List.drop_left]
    rw [this]; simp
  · left; rw [if_neg h]

/-- only a whole leading path component equal to the directory is removed -/
theorem C17_component_boundary (dir file : List Char) (h : displayName dir file ≠ file) :
    ∃ rest, file = dir ++ '/' :: rest ∧ displayName dir file = rest := by
  unfold displayName at h ⊢
  by_cases hp : (dir ++ ['/']).isPrefixOf file = true
  · obtain ⟨t, ht⟩ := List.isPrefixOf_iff_prefix.mp hp
    subst ht
    refine ⟨t, by simp, ?_⟩
    rw [if_pos hp]
    have : dir.length + 1 = (dir ++ ['/']).length := by simp
    rw [this, List.drop_left]
  · rw [if_neg hp] at h; exact absurd rfl h

example : displayName "db".toList "db_queries/a.sql".toList = "db_queries/a.sql".toList ∧
    displayName "db".toList "db/q/a.sql".toList = "q/a.sql".toList := by decide

theorem translator_complete : Gen.untranslatable = [] := by decide

end Sqlc.C17
