import SqlcModel.Query.Analyze
import SqlcModel.GoGen.Query
import SqlcModel.Props.C02
import SqlcModel.Gen.Untranslatable
/-
C05 — Result types track the schema column they come from.

Proved on the model:

* `C05_convert_attrs` — QueryCatalog.GetTable / ConvertColumn copy type, nullability, array-ness, length
  and table of the catalog column;
* `C05_ref_attrs` — a plain reference (directly, through an alias, a join side) that is accepted is a copy
  of exactly one column of a relation in scope with that name: same data type, nullability, array-ness,
  table;
* `C05_star_attrs` — every column a star contributes is such a copy, in from-clause / declaration order;
* `C05_reuse_sound` — a model struct is returned only when its fields equal the query's columns in name,
  Go type and order and every column comes from the struct's table; `C05_reuse_complete` — and it IS
  returned when they do (first such struct); `C05_fresh_types` — otherwise the fresh Row struct's field
  types are goType of the columns, in order.

With C09 (goType is a function of data type, nullability, array-ness, length, table/column overrides and the
catalog's enum list) these give: equal attributes ⇒ equal Go type, whatever path the reference took.

The full statement is FALSE of the unchanged code in one respect, proved here as `C05_length_dropped`:
references and stars do not copy `Length`, which goType consults for MySQL tinyint(1) (finding
`lengthDropped`, frozen by the golden data_type_boolean/mysql).
-/
set_option linter.unusedSimpArgs false
namespace Sqlc.C05
open Sqlc Sqlc.Q Sqlc.GoGen

theorem C05_convert_attrs (rel : Q.TableName) (cc : CatCol) :
    (convertColumn rel cc).dataType = dataTypeOf cc.tschema cc.tname ∧
    (convertColumn rel cc).notNull = cc.notNull ∧ (convertColumn rel cc).isArray = cc.isArray ∧
    (convertColumn rel cc).length = cc.length ∧ (convertColumn rel cc).table = some rel ∧
    (convertColumn rel cc).name = cc.name := by
  unfold convertColumn; simp

/-- an accepted plain reference is a copy of exactly one same-named column of a relation in scope -/
theorem C05_ref_attrs (res : Node) (tables : List Table) (node : Node) (c : Q.Column)
    (h : outputColumnRefs res tables node = .ok [c]) :
    ∃ alias name, refParts node = some (alias, name) ∧
      ∃ t ∈ tables, ∃ c0 ∈ t.columns, c0.name = name ∧ (alias = "" ∨ t.rel.name = alias) ∧
        c.dataType = c0.dataType ∧ c.notNull = c0.notNull ∧ c.isArray = c0.isArray ∧ c.table = c0.table := by
  obtain ⟨alias, name, hp, hc, _⟩ := C02.ref_ok res tables node [c] h
  refine ⟨alias, name, hp, ?_⟩
  have hm : c ∈ refMatches ((res.get "Name").strOpt) tables alias name := by rw [← hc]; simp
  obtain ⟨t, ht, c0, hc0, hn, ha, hceq⟩ := C02.mem_refMatches _ _ _ _ _ hm
  exact ⟨t, ht, c0, hc0, hn, ha, by rw [hceq], by rw [hceq], by rw [hceq], by rw [hceq]⟩

/-- every column a star contributes copies type, nullability, array-ness and table of its source column,
and the sources are the columns of the relations in scope in from-clause / declaration order -/
theorem C05_star_attrs (tables : List Table) (scope : String) (rn : Option String) :
    (starColumns tables scope rn).map (fun c => (c.dataType, c.notNull, c.isArray, c.table)) =
    (C02.starSources tables scope).map (fun tc => (tc.2.dataType, tc.2.notNull, tc.2.isArray, tc.2.table)) := by
  rw [(C02.C02_star_same_source "" tables scope rn).1]
  simp [List.map_map, Function.comp_def]

/-- the defect, exactly: neither path copies `Length` -/
theorem C05_length_dropped (tables : List Table) (scope : String) (rn : Option String) (alias name : String) :
    (∀ c ∈ starColumns tables scope rn, c.length = none) ∧ (∀ c ∈ refMatches rn tables alias name, c.length = none) := by
  constructor
  · intro c hc
    rw [(C02.C02_star_same_source "" tables scope rn).1, List.mem_map] at hc
    obtain ⟨_, _, h⟩ := hc
    rw [← h]
  · intro c hc
    obtain ⟨_, _, _, _, _, _, h⟩ := C02.mem_refMatches _ _ _ _ _ hc
    rw [h]

/-! ### returning a model struct -/

def expectField (env : TypeEnv) (c : Q.Column) (i : Nat) : String × String :=
  (structName env.rename (columnName c.name i), goType env (toTypeColumn c))

theorem all_zipIdx_fields (env : TypeEnv) (tbl : FQN) :
    ∀ (l : List (Field × Q.Column)) (k : Nat),
      ((l.zipIdx k).all (fun (fc, i) =>
        fc.1.name == structName env.rename (columnName fc.2.name i) &&
        fc.1.type == goType env (toTypeColumn fc.2) &&
        sameTableName ((toTypeColumn fc.2).table) tbl env.defaultSchema)) = true ↔
      (l.map (fun fc => (fc.1.name, fc.1.type)) = (l.zipIdx k).map (fun (fc, i) => expectField env fc.2 i) ∧
       ∀ fc ∈ l, sameTableName ((toTypeColumn fc.2).table) tbl env.defaultSchema = true) := by
  intro l
  induction l with
  | nil => intro k; simp
  | cons x xs ih =>
    intro k
    simp only [List.zipIdx_cons, List.all_cons, Bool.and_eq_true, beq_iff_eq, ih (k + 1), List.map_cons,
      List.cons.injEq, Prod.mk.injEq, expectField, List.mem_cons, forall_eq_or_imp]
    constructor
    · rintro ⟨⟨⟨a, b⟩, c⟩, d, e⟩; exact ⟨⟨⟨a, b⟩, d⟩, c, e⟩
    · rintro ⟨⟨⟨a, b⟩, d⟩, c, e⟩; exact ⟨⟨⟨a, b⟩, c⟩, d, e⟩

theorem map_zip_fst {α β γ : Type} (g : α → γ) : ∀ (fs : List α) (cs : List β), fs.length = cs.length →
    (fs.zip cs).map (fun fc => g fc.1) = fs.map g := by
  intro fs
  induction fs with
  | nil => intro cs _; rfl
  | cons f fs ih =>
    intro cs h
    cases cs with
    | nil => simp at h
    | cons c cs => simp only [List.zip_cons_cons, List.map_cons]; rw [ih cs (by simpa using h)]

/-- the reuse test, characterised: it passes exactly when the struct's fields are the query's columns in
name, Go type and order, and every column belongs to the struct's table -/
theorem C05_reuse_iff (env : TypeEnv) (s : Struct) (cols : List Q.Column) :
    reuseMatch env s cols = true ↔
      (s.fields.length = cols.length ∧
       s.fields.map (fun f => (f.name, f.type)) = (cols.zipIdx).map (fun (c, i) => expectField env c i) ∧
       ∀ c ∈ cols, sameTableName ((toTypeColumn c).table) s.table env.defaultSchema = true) := by
  unfold reuseMatch
  simp only [Bool.and_eq_true, beq_iff_eq]
  constructor
  · rintro ⟨hl, hall⟩
    have := (all_zipIdx_fields env s.table (s.fields.zip cols) 0).mp hall
    refine ⟨hl, ?_, ?_⟩
    · have h1 := this.1
      have hf : (s.fields.zip cols).map (fun fc => (fc.1.name, fc.1.type)) = s.fields.map (fun f => (f.name, f.type)) :=
        map_zip_fst (fun f : Field => (f.name, f.type)) s.fields cols hl
      have hc : ((s.fields.zip cols).zipIdx 0).map (fun (fc, i) => expectField env fc.2 i) =
          (cols.zipIdx).map (fun (c, i) => expectField env c i) := by
        have : ∀ (fs : List Field) (cs : List Q.Column) (k : Nat), fs.length = cs.length →
            ((fs.zip cs).zipIdx k).map (fun (fc, i) => expectField env fc.2 i) = (cs.zipIdx k).map (fun (c, i) => expectField env c i) := by
          intro fs
          induction fs with
          | nil => intro cs k h; cases cs with | nil => rfl | cons _ _ => simp at h
          | cons f fs ih =>
            intro cs k h
            cases cs with
            | nil => simp at h
            | cons c cs => simp only [List.zip_cons_cons, List.zipIdx_cons, List.map_cons]; rw [ih cs (k + 1) (by simpa using h)]
        exact this s.fields cols 0 hl
      rw [← hf, h1, hc]
    · intro c hc
      have hmem : ∃ f, (f, c) ∈ s.fields.zip cols := by
        have : ∀ (fs : List Field) (cs : List Q.Column), fs.length = cs.length → c ∈ cs → ∃ f, (f, c) ∈ fs.zip cs := by
          intro fs
          induction fs with
          | nil => intro cs h hc; cases cs with | nil => simp at hc | cons _ _ => simp at h
          | cons f fs ih =>
            intro cs h hc
            cases cs with
            | nil => simp at hc
            | cons c' cs =>
              simp only [List.mem_cons] at hc
              rcases hc with hc | hc
              · exact ⟨f, by simp [hc]⟩
              · obtain ⟨f', hf'⟩ := ih cs (by simpa using h) hc
                exact ⟨f', by simp [hf']⟩
        exact this s.fields cols hl hc
      obtain ⟨f, hf⟩ := hmem
      exact this.2 (f, c) hf
  · rintro ⟨hl, hf, ht⟩
    refine ⟨hl, ?_⟩
    apply (all_zipIdx_fields env s.table (s.fields.zip cols) 0).mpr
    constructor
    · have hf1 : (s.fields.zip cols).map (fun fc => (fc.1.name, fc.1.type)) = s.fields.map (fun f => (f.name, f.type)) :=
        map_zip_fst (fun f : Field => (f.name, f.type)) s.fields cols hl
      have : ∀ (fs : List Field) (cs : List Q.Column) (k : Nat), fs.length = cs.length →
          ((fs.zip cs).zipIdx k).map (fun (fc, i) => expectField env fc.2 i) = (cs.zipIdx k).map (fun (c, i) => expectField env c i) := by
        intro fs
        induction fs with
        | nil => intro cs k h; cases cs with | nil => rfl | cons _ _ => simp at h
        | cons f fs ih =>
          intro cs k h
          cases cs with
          | nil => simp at h
          | cons c cs => simp only [List.zip_cons_cons, List.zipIdx_cons, List.map_cons]; rw [ih cs (k + 1) (by simpa using h)]
      rw [hf1, hf, this s.fields cols 0 hl]
    · intro fc hfc
      exact ht fc.2 (List.of_mem_zip hfc).2

/-- a model struct is returned only when the test passed: its fields equal the query's columns -/
theorem C05_reuse_sound (env : TypeEnv) (structs : List Struct) (m : String) (cols : List Q.Column) (s : Struct)
    (h2 : cols.length ≥ 2) (hr : retOf env structs m cols = { emit := false, name := "i", struct := some s }) :
    s ∈ structs ∧ s.fields.map (fun f => (f.name, f.type)) = (cols.zipIdx).map (fun (c, i) => expectField env c i) ∧
      ∀ c ∈ cols, sameTableName ((toTypeColumn c).table) s.table env.defaultSchema = true := by
  match cols with
  | [] => simp at h2
  | [_] => simp at h2
  | c :: d :: rest =>
    unfold retOf at hr
    simp only at hr
    cases hf : structs.find? (fun s => reuseMatch env s (c :: d :: rest)) with
    | some s' =>
      rw [hf] at hr
      simp only [QueryValue.mk.injEq, Option.some.injEq, true_and] at hr
      have hr := hr.1
      subst hr
      have hm := List.find?_some hf
      have hmem := List.mem_of_find?_eq_some hf
      obtain ⟨_, b, c⟩ := (C05_reuse_iff env s' _).mp hm
      exact ⟨hmem, b, c⟩
    | none =>
      rw [hf] at hr
      simp [retOfFresh] at hr

/-- … and when some model struct does equal the query's columns, a model struct is returned (the first
that passes), never a fresh Row struct -/
theorem C05_reuse_complete (env : TypeEnv) (structs : List Struct) (m : String) (cols : List Q.Column) (s : Struct)
    (h2 : cols.length ≥ 2) (hs : s ∈ structs) (hm : reuseMatch env s cols = true) :
    ∃ s', structs.find? (fun s => reuseMatch env s cols) = some s' ∧
      retOf env structs m cols = { emit := false, name := "i", struct := some s' } := by
  match cols with
  | [] => simp at h2
  | [_] => simp at h2
  | c :: d :: rest =>
    cases hf : structs.find? (fun s => reuseMatch env s (c :: d :: rest)) with
    | some s' => exact ⟨s', rfl, by unfold retOf; simp only [hf]⟩
    | none =>
      have := List.find?_eq_none.mp hf s hs
      exact absurd hm (by simpa using this)

theorem c2sLoop_types (env : TypeEnv) : ∀ (cols : List GoColumn) (i : Nat) (s : List (String × Nat)) (x : List (Nat × Nat)),
    (c2sLoop env cols i s x).map (·.type) = cols.map (fun c => goType env (toTypeColumn c.col)) := by
  intro cols
  induction cols with
  | nil => intro i s x; simp [c2sLoop]
  | cons c cs ih => intro i s x; simp [c2sLoop, ih]

/-- a fresh Row struct's field types are goType of the query's columns, in order -/
theorem C05_fresh_types (env : TypeEnv) (m : String) (c d : Q.Column) (rest : List Q.Column) :
    ((retOfFresh env m (c :: d :: rest)).struct.map (fun s => s.fields.map (·.type))) =
      some ((c :: d :: rest).map (fun c => goType env (toTypeColumn c))) := by
  simp [retOfFresh, columnsToStruct, c2sLoop_types, List.map_map, Function.comp_def]
  have : ∀ (l : List Q.Column) (k : Nat), (l.zipIdx k).map (fun ci => goType env (toTypeColumn ci.1)) = l.map (fun c => goType env (toTypeColumn c)) := by
    intro l
    induction l with
    | nil => intro k; rfl
    | cons a as ih => intro k; simp [List.zipIdx_cons, ih]
  simpa using this rest 2

/-! ### non-vacuity -/

/-- a tinyint(1) column of the catalog loses its length on the way to a result column -/
theorem witness_length_dropped :
    let cc : CatCol := { name := "active", tschema := "", tname := "tinyint", notNull := true, isArray := false, length := some 1 }
    let t : Table := { rel := { name := "foo" }, columns := [convertColumn { name := "foo" } cc] }
    (t.columns.map (·.length) = [some 1]) ∧ ((starColumns [t] "" none).map (·.length) = [none]) ∧
    ((refMatches none [t] "" "active").map (·.length) = [none]) := by decide

theorem translator_complete : Gen.untranslatable = [] := by decide

end Sqlc.C05
