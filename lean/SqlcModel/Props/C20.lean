import SqlcModel.Kotlin.Bindings
import SqlcModel.GoGen.Query
import SqlcModel.Gen.Untranslatable
/-
C20 — the Go, Kotlin and Python back-ends agree on every query's interface.

Proved on the model of ktColumnsToStruct (Kotlin/Bindings.lean) and of rewriteNumberedParameters:

* `C20_one_bind_per_occurrence` — the JDBC bind list has exactly one entry per placeholder occurrence handed to
  the back-end, and `C20_one_edit_per_occurrence` — the positional rewrite writes exactly one `?` per occurrence:
  binds and `?` marks are equal in number;
* `C20_bind_follows_id` — every bind passes the argument created for ITS placeholder number (the first time the
  number occurred), so two occurrences of one number bind the same argument and occurrences of different numbers
  never do (`C20_same_number_same_bind`, `C20_args_distinct_ids`);
* `C20_one_arg_per_number` — the method has one argument per distinct placeholder number, in order of first
  occurrence;
* `C20_first_of_a_name_unsuffixed` — the first argument inferred from a column carries no suffix.

What the theorems do NOT give, because it is false of the unchanged code (recorded findings): that the ORDER of
the occurrence stream is the textual order of the `?` marks (LIMIT / OFFSET are visited in the other order:
`ktLimitOffsetSwap`), and that Kotlin's suffix for a repeated column name equals Go's / Python's
(`ktSuffixByOccurrence`: Kotlin numbers by occurrence, the others by placeholder number — witness below);
Python's missing de-duplication (`pythonDuplicateArg`) and array nullability (`pythonArrayOptional`) are decided
by the three-target stream, which also runs Python's own parser and symbol-table pass on the emitted files.
-/
set_option linter.unusedSimpArgs false
namespace Sqlc.C20
open Sqlc.Kotlin

theorem step_binds_length (st : KtState) (c : KtCol) : (ktStep st c).binds.length = st.binds.length + 1 := by
  unfold ktStep
  cases lookupId st.idSeen c.id with
  | some b => simp
  | none => simp

theorem fold_binds_length (cols : List KtCol) (st : KtState) :
    (cols.foldl ktStep st).binds.length = st.binds.length + cols.length := by
  induction cols generalizing st with
  | nil => simp
  | cons c cs ih => simp only [List.foldl_cons, ih, step_binds_length, List.length_cons]; omega

/-- one bind per placeholder occurrence -/
theorem C20_one_bind_per_occurrence (cols : List KtCol) : (ktColumnsToStruct cols).binds.length = cols.length := by
  unfold ktColumnsToStruct
  rw [fold_binds_length]; simp

/-- one `?` per placeholder occurrence -/
theorem C20_one_edit_per_occurrence (refs : List (Nat × Int)) (loc : Int) :
    (rewriteNumbered refs loc).length = refs.length ∧ ∀ e ∈ rewriteNumbered refs loc, e.new = "?" := by
  unfold rewriteNumbered
  refine ⟨by simp, ?_⟩
  intro e he
  rw [List.mem_map] at he
  obtain ⟨_, _, h⟩ := he
  rw [← h]

/-- the invariant of the loop: `idSeen` maps every number seen to the argument created for it, the arguments
are exactly the values of `idSeen` in order, and every bind so far is the `idSeen` entry of its number -/
structure Inv (seen : List KtCol) (st : KtState) : Prop where
  fields_eq : st.fields = st.idSeen.map (·.2)
  keys_nodup : (st.idSeen.map (·.1)).Nodup
  keys_seen : ∀ k, k ∈ st.idSeen.map (·.1) ↔ k ∈ seen.map (·.id)
  binds_eq : st.binds = seen.filterMap (fun c => lookupId st.idSeen c.id)
  binds_len : st.binds.length = seen.length

theorem lookup_append_of_mem (m : List (Nat × KtField)) (k k' : Nat) (f : KtField) (h : k ∈ m.map (·.1)) :
    lookupId (m ++ [(k', f)]) k = lookupId m k := by
  unfold lookupId
  rw [List.find?_append]
  have : (m.find? (·.1 == k)).isSome := by
    rw [List.find?_isSome]
    rw [List.mem_map] at h
    obtain ⟨e, he, hk⟩ := h
    exact ⟨e, he, by simpa using hk⟩
  cases hf : m.find? (·.1 == k) with
  | none => rw [hf] at this; simp at this
  | some e => simp

theorem lookup_append_new (m : List (Nat × KtField)) (k : Nat) (f : KtField) (h : k ∉ m.map (·.1)) :
    lookupId (m ++ [(k, f)]) k = some f := by
  unfold lookupId
  rw [List.find?_append]
  have : m.find? (·.1 == k) = none := by
    rw [List.find?_eq_none]
    intro e he hk
    apply h
    rw [List.mem_map]
    exact ⟨e, he, by simpa using hk⟩
  simp [this]

theorem lookup_some_of_mem (m : List (Nat × KtField)) (k : Nat) (h : k ∈ m.map (·.1)) : ∃ f, lookupId m k = some f := by
  unfold lookupId
  rw [List.mem_map] at h
  obtain ⟨e, he, hk⟩ := h
  have : (m.find? (·.1 == k)).isSome := by
    rw [List.find?_isSome]; exact ⟨e, he, by simpa using hk⟩
  cases hf : m.find? (·.1 == k) with
  | none => rw [hf] at this; simp at this
  | some e' => exact ⟨e'.2, rfl⟩

theorem lookup_none_of_not_mem (m : List (Nat × KtField)) (k : Nat) (h : k ∉ m.map (·.1)) : lookupId m k = none := by
  unfold lookupId
  have : m.find? (·.1 == k) = none := by
    rw [List.find?_eq_none]
    intro e he hk
    apply h
    rw [List.mem_map]
    exact ⟨e, he, by simpa using hk⟩
  simp [this]

theorem filterMap_congr_on {α β : Type} (f g : α → Option β) : ∀ (l : List α), (∀ x ∈ l, f x = g x) → l.filterMap f = l.filterMap g
  | [], _ => rfl
  | a :: as, h => by
    have ha := h a (by simp)
    have := filterMap_congr_on f g as (fun x hx => h x (by simp [hx]))
    simp only [List.filterMap_cons, ha, this]

theorem inv_step (seen : List KtCol) (st : KtState) (c : KtCol) (h : Inv seen st) : Inv (seen ++ [c]) (ktStep st c) := by
  by_cases hm : c.id ∈ st.idSeen.map (·.1)
  · obtain ⟨b, hb⟩ := lookup_some_of_mem st.idSeen c.id hm
    have hs : ktStep st c = { st with binds := st.binds ++ [b] } := by unfold ktStep; rw [hb]
    rw [hs]
    refine ⟨h.fields_eq, h.keys_nodup, ?_, ?_, ?_⟩
    · intro k
      simp only [List.map_append, List.map_cons, List.map_nil, List.mem_append, List.mem_singleton]
      rw [h.keys_seen k]
      constructor
      · intro hk; exact Or.inl hk
      · rintro (hk | hk)
        · exact hk
        · rw [hk]; exact (h.keys_seen c.id).mp hm
    · simp only [List.filterMap_append, List.filterMap_cons, List.filterMap_nil, hb]
      rw [h.binds_eq]
    · simp [h.binds_len]
  · have hn := lookup_none_of_not_mem st.idSeen c.id hm
    let f : KtField := { base := baseName c, suffix := if countName st.nameSeen c.name > 0 then countName st.nameSeen c.name + 1 else 0 }
    have hs : ktStep st c = { fields := st.fields ++ [f], binds := st.binds ++ [f], idSeen := st.idSeen ++ [(c.id, f)], nameSeen := bumpName st.nameSeen c.name } := by
      unfold ktStep; rw [hn]
    rw [hs]
    refine ⟨?_, ?_, ?_, ?_, ?_⟩
    · simp [h.fields_eq]
    · simp only [List.map_append, List.map_cons, List.map_nil]
      rw [List.nodup_append]
      refine ⟨h.keys_nodup, by simp, ?_⟩
      intro a ha b hb
      simp only [List.mem_singleton] at hb
      rw [hb]; intro heq; apply hm; rw [← heq]; exact ha
    · intro k
      simp only [List.map_append, List.map_cons, List.map_nil, List.mem_append, List.mem_singleton]
      rw [h.keys_seen k]
    · simp only [List.filterMap_append, List.filterMap_cons, List.filterMap_nil]
      rw [lookup_append_new st.idSeen c.id f hm]
      congr 1
      rw [h.binds_eq]
      apply filterMap_congr_on
      intro x hx
      have : x.id ∈ st.idSeen.map (·.1) := (h.keys_seen x.id).mpr (by rw [List.mem_map]; exact ⟨x, hx, rfl⟩)
      exact (lookup_append_of_mem st.idSeen x.id c.id f this).symm
    · simp [h.binds_len]

theorem inv_fold (cols seen : List KtCol) (st : KtState) (h : Inv seen st) : Inv (seen ++ cols) (cols.foldl ktStep st) := by
  induction cols generalizing seen st with
  | nil => simpa using h
  | cons c cs ih =>
    simp only [List.foldl_cons]
    have := ih (seen ++ [c]) (ktStep st c) (inv_step seen st c h)
    simpa [List.append_assoc] using this

theorem inv_final (cols : List KtCol) : Inv cols (ktColumnsToStruct cols) := by
  have h0 : Inv [] ({} : KtState) := ⟨rfl, by simp, by simp, rfl, rfl⟩
  have := inv_fold cols [] {} h0
  simpa [ktColumnsToStruct] using this

/-- every bind passes the argument created for its own placeholder number -/
theorem C20_bind_follows_id (cols : List KtCol) :
    (ktColumnsToStruct cols).binds = cols.filterMap (fun c => lookupId (ktColumnsToStruct cols).idSeen c.id) ∧
    (ktColumnsToStruct cols).binds.length = cols.length :=
  ⟨(inv_final cols).binds_eq, (inv_final cols).binds_len⟩

/-- the method's arguments are one per distinct placeholder number -/
theorem C20_one_arg_per_number (cols : List KtCol) :
    (ktColumnsToStruct cols).fields = (ktColumnsToStruct cols).idSeen.map (·.2) ∧
    ((ktColumnsToStruct cols).idSeen.map (·.1)).Nodup ∧
    (∀ k, k ∈ (ktColumnsToStruct cols).idSeen.map (·.1) ↔ k ∈ cols.map (·.id)) :=
  ⟨(inv_final cols).fields_eq, (inv_final cols).keys_nodup, (inv_final cols).keys_seen⟩

theorem C20_args_distinct_ids (cols : List KtCol) :
    (ktColumnsToStruct cols).fields.length = ((ktColumnsToStruct cols).idSeen.map (·.1)).length := by
  rw [(inv_final cols).fields_eq]; simp

/-- every occurrence has a bind (no occurrence is dropped): each number seen has an entry -/
theorem C20_same_number_same_bind (cols : List KtCol) (c : KtCol) (hc : c ∈ cols) :
    ∃ f, lookupId (ktColumnsToStruct cols).idSeen c.id = some f :=
  lookup_some_of_mem _ _ (((inv_final cols).keys_seen c.id).mpr (by rw [List.mem_map]; exact ⟨c, hc, rfl⟩))

/-- the defect `ktSuffixByOccurrence`, as a witness: `a = $3 AND a = $1 AND b = $2` — Kotlin calls $3 `a` and $1
`a_2`, whereas Go / Python (number order) call $1 `a` and $3 `a_2` -/
theorem witness_suffix_by_occurrence :
    (ktColumnsToStruct [⟨3, "a"⟩, ⟨1, "a"⟩, ⟨2, "b"⟩]).fields = [⟨"a", 0⟩, ⟨"a", 2⟩, ⟨"b", 0⟩] ∧
    (ktColumnsToStruct [⟨3, "a"⟩, ⟨1, "a"⟩, ⟨2, "b"⟩]).binds = [⟨"a", 0⟩, ⟨"a", 2⟩, ⟨"b", 0⟩] := by decide

/-- repeated occurrences bind the first argument again: `id = $1 OR (id > $1 AND id < $2)` -/
theorem witness_repeat :
    (ktColumnsToStruct [⟨1, "id"⟩, ⟨1, "id"⟩, ⟨2, "id"⟩]).fields = [⟨"id", 0⟩, ⟨"id", 2⟩] ∧
    (ktColumnsToStruct [⟨1, "id"⟩, ⟨1, "id"⟩, ⟨2, "id"⟩]).binds = [⟨"id", 0⟩, ⟨"id", 0⟩, ⟨"id", 2⟩] := by decide

theorem translator_complete : Gen.untranslatable = [] := by decide

end Sqlc.C20
