import SqlcModel.Text.Source
import SqlcModel.Gen.Untranslatable
/-
C04 — Embedded SQL is the user's statement, modulo documented rewrites (the text-edit core).

`source.Mutate` is proved to implement simultaneous substitution: for every statement text that is cut
into `gap₁ old₁ gap₂ old₂ … tail`, applying the edits `oldₖ ↦ newₖ` — in whatever order they were
appended — yields `gap₁ new₁ gap₂ new₂ … tail`. Unbounded in the number, position and size of edits.
-/
set_option linter.unusedSimpArgs false
namespace Sqlc.C04
open Sqlc

structure Piece where
  gap : Bytes
  old : Bytes
  new : Bytes
deriving Repr, DecidableEq

def srcOf : List Piece → Bytes → Bytes
  | [], tail => tail
  | p :: ps, tail => p.gap ++ p.old ++ srcOf ps tail

def dstOf : List Piece → Bytes → Bytes
  | [], tail => tail
  | p :: ps, tail => p.gap ++ p.new ++ dstOf ps tail

/-- the edits a rewrite pass emits for the pieces, with absolute offsets starting at `off` -/
def editsOf : List Piece → Nat → List Edit
  | [], _ => []
  | p :: ps, off =>
    { loc := ((off + p.gap.length : Nat) : Int), old := p.old, new := p.new } ::
      editsOf ps (off + p.gap.length + p.old.length)

def WellFormed (ps : List Piece) : Prop := ∀ p ∈ ps, p.old ≠ [] ∧ p.new ≠ []

/-- one edit whose `old` text really sits at its location replaces exactly that text -/
theorem applyEdit_fits (pre old new post : Bytes) (ho : old ≠ []) (hn : new ≠ []) :
    applyEdit (pre ++ old ++ post) { loc := (pre.length : Int), old := old, new := new } =
      .ok (pre ++ new ++ post) := by
  have hol : 0 < old.length := List.length_pos_iff.mpr ho
  have hnl : 0 < new.length := List.length_pos_iff.mpr hn
  unfold applyEdit
  simp only [List.length_append]
  have h1 : ¬ ((pre.length : Int) > ((pre.length + old.length + post.length : Nat) : Int)) := by omega
  have h2 : ¬ (new.length = 0) := by omega
  have h3 : ¬ (old.length = 0) := by omega
  have h4 : ¬ ((pre.length : Int) < 0) := by omega
  simp only [h1, h2, h3, h4, if_false, Int.toNat_natCast]
  by_cases hp : pre.length + old.length - 1 < pre.length + old.length + post.length
  · simp only [hp, if_true]
    have e1 : (pre ++ old ++ post).take pre.length = pre := by simp [List.append_assoc]
    have e2 : (pre ++ old ++ post).drop (pre.length + old.length - 1 + 1) = post := by
      have : pre.length + old.length - 1 + 1 = (pre ++ old).length := by simp; omega
      rw [this]; simp
    rw [e1, e2]
  · exfalso; omega

theorem applyEdits_append (s : Bytes) (a b : List Edit) :
    applyEdits s (a ++ b) = (applyEdits s a).bind (fun s' => applyEdits s' b) := by
  induction a generalizing s with
  | nil => simp [applyEdits, Except.bind]
  | cons e es ih =>
    simp only [List.cons_append, applyEdits, bind, Except.bind]
    cases applyEdit s e with
    | error x => rfl
    | ok s' => exact ih s'

/-- applying the edits from the right end towards the left performs the simultaneous substitution -/
theorem applyEdits_pieces : ∀ (ps : List Piece) (pre tail : Bytes), WellFormed ps →
    applyEdits (pre ++ srcOf ps tail) (editsOf ps pre.length).reverse = .ok (pre ++ dstOf ps tail)
  | [], pre, tail, _ => by simp [srcOf, dstOf, editsOf, applyEdits]
  | p :: ps, pre, tail, h => by
    have hp := h p (by simp)
    have hrest : WellFormed ps := fun q hq => h q (by simp [hq])
    simp only [editsOf, List.reverse_cons, applyEdits_append]
    have hlen : pre.length + p.gap.length + p.old.length = (pre ++ p.gap ++ p.old).length := by
      simp [List.length_append]; omega
    rw [hlen]
    have hsrc : pre ++ srcOf (p :: ps) tail = (pre ++ p.gap ++ p.old) ++ srcOf ps tail := by
      simp [srcOf, List.append_assoc]
    rw [hsrc, applyEdits_pieces ps (pre ++ p.gap ++ p.old) tail hrest]
    simp only [Except.bind, applyEdits]
    have hloc : ((pre.length + p.gap.length : Nat) : Int) = ((pre ++ p.gap).length : Int) := by
      simp [List.length_append]
    rw [hloc]
    have := applyEdit_fits (pre ++ p.gap) p.old p.new (dstOf ps tail) hp.1 hp.2
    rw [this]
    simp [dstOf, List.append_assoc, bind, Except.bind, applyEdits]

/-- offsets of the emitted edits increase strictly -/
theorem editsOf_loc_lower : ∀ (ps : List Piece) (off : Nat) (e : Edit), e ∈ editsOf ps off →
    (off : Int) ≤ e.loc
  | [], _, _, h => by simp [editsOf] at h
  | p :: ps, off, e, h => by
    simp only [editsOf, List.mem_cons] at h
    rcases h with rfl | h
    · simp; omega
    · have := editsOf_loc_lower ps _ e h
      omega

theorem editsOf_desc : ∀ (ps : List Piece) (off : Nat), WellFormed ps →
    (editsOf ps off).reverse.Pairwise (fun a b => decide (a.loc ≥ b.loc) = true)
  | [], _, _ => by simp [editsOf]
  | p :: ps, off, h => by
    have hp := h p (by simp)
    have hol : 0 < p.old.length := List.length_pos_iff.mpr hp.1
    simp only [editsOf, List.reverse_cons, List.pairwise_append]
    refine ⟨editsOf_desc ps _ (fun q hq => h q (by simp [hq])), by simp, ?_⟩
    intro a ha b hb
    simp at hb; subst hb
    have := editsOf_loc_lower ps _ a (by simpa using ha)
    simp only [decide_eq_true_eq]
    omega

/-- C04 (text edits): the order in which the rewrite passes append their edits is irrelevant —
`Mutate` sorts them and performs the simultaneous substitution. -/
theorem C04_mutate_substitution (ps : List Piece) (tail : Bytes) (es : List Edit)
    (hw : WellFormed ps) (hne : ps ≠ []) (hperm : es.Perm (editsOf ps 0)) :
    mutate (srcOf ps tail) es = .ok (dstOf ps tail) := by
  have hes : es.isEmpty = false := by
    cases es with
    | nil =>
      have := hperm.length_eq
      cases ps with
      | nil => exact absurd rfl hne
      | cons p ps => simp [editsOf] at this
    | cons e es => rfl
  unfold mutate
  simp only [hes, Bool.false_eq_true, if_false]
  -- the sorted list is the reverse of the emitted list
  have hsorted : sortEditsDesc es = (editsOf ps 0).reverse := by
    unfold sortEditsDesc
    apply List.Perm.eq_of_pairwise (le := fun a b => decide (a.loc ≥ b.loc) = true)
    · intro a b ha hb hab hba
      simp only [decide_eq_true_eq] at hab hba
      -- equal locations ⇒ same element of the strictly descending list
      have hloc : a.loc = b.loc := by omega
      have hb' : b ∈ (editsOf ps 0).reverse := hb
      have ha' : a ∈ (editsOf ps 0).reverse :=
        (List.Perm.mem_iff ((List.mergeSort_perm es _).trans (hperm.trans (List.reverse_perm _).symm))).mp ha
      -- in a strictly descending list two members with the same key coincide
      have strict : ∀ (l : List Edit), l.Pairwise (fun x y => x.loc > y.loc) → ∀ x ∈ l, ∀ y ∈ l, x.loc = y.loc → x = y := by
        intro l hl
        induction hl with
        | nil => intro x hx; simp at hx
        | cons hhead _ ih =>
          intro x hx y hy hxy
          rcases List.mem_cons.mp hx with hxe | hx <;> rcases List.mem_cons.mp hy with hye | hy
          · rw [hxe, hye]
          · have := hhead y hy; rw [hxe] at hxy; omega
          · have := hhead x hx; rw [hye] at hxy; omega
          · exact ih x hx y hy hxy
      refine strict _ ?_ a ha' b hb' hloc
      -- strictness: from editsOf_desc plus old ≠ []
      have hstrict : ∀ (ps : List Piece) (off : Nat), WellFormed ps →
          (editsOf ps off).reverse.Pairwise (fun x y => x.loc > y.loc) := by
        intro ps
        induction ps with
        | nil => intro off _; simp [editsOf]
        | cons p ps ih =>
          intro off h
          have hp := h p (by simp)
          have hol : 0 < p.old.length := List.length_pos_iff.mpr hp.1
          simp only [editsOf, List.reverse_cons, List.pairwise_append]
          refine ⟨ih _ (fun q hq => h q (by simp [hq])), by simp, ?_⟩
          intro x hx y hy
          simp at hy; subst hy
          have := editsOf_loc_lower ps _ x (by simpa using hx)
          simp only []
          omega
      exact hstrict ps 0 hw
    · apply List.pairwise_mergeSort
      · intro a b c hab hbc; simp only [decide_eq_true_eq] at *; omega
      · intro a b; simp only [Bool.or_eq_true, decide_eq_true_eq]; omega
    · exact editsOf_desc ps 0 hw
    · exact (List.mergeSort_perm es _).trans (hperm.trans (List.reverse_perm _).symm)
  rw [hsorted]
  have := applyEdits_pieces ps [] tail hw
  simpa using this

/-- non-vacuity: two rewrites in one statement, appended in text order or in reverse -/
def exPieces : List Piece := [⟨b! "SELECT ", b! "*", b! "id, name"⟩, ⟨b! " FROM t WHERE id = ", b! "@id", b! "$1"⟩]
theorem exPieces_wf : WellFormed exPieces := by
  intro p hp
  simp only [exPieces, List.mem_cons, List.mem_nil_iff, or_false] at hp
  rcases hp with rfl | rfl <;> exact ⟨by decide, by decide⟩
example : mutate (srcOf exPieces (b! " LIMIT 1")) (editsOf exPieces 0).reverse =
    .ok (dstOf exPieces (b! " LIMIT 1")) :=
  C04_mutate_substitution exPieces _ _ exPieces_wf (by simp [exPieces]) (List.reverse_perm _)
example : dstOf exPieces (b! " LIMIT 1") = b! "SELECT id, name FROM t WHERE id = $1 LIMIT 1" := by decide

/-- `Mutate` rejects exactly: an out-of-range start and an empty old/new text (first edit shown) -/
theorem applyEdit_errors (s : Bytes) (e : Edit) (err : MutErr) (h : applyEdit s e = .error err) :
    (err = .outOfBounds ∧ e.loc > s.length) ∨ (err = .emptyEdit ∧ (e.new = [] ∨ e.old = [])) ∨
    (err = .panic ∧ e.loc < 0) := by
  unfold applyEdit at h
  split at h
  · left; simp at h; exact ⟨h.symm, by assumption⟩
  · split at h
    · right; left; simp at h; refine ⟨h.symm, Or.inl ?_⟩
      rename_i hn; exact List.eq_nil_of_length_eq_zero hn
    · split at h
      · right; left; simp at h; refine ⟨h.symm, Or.inr ?_⟩
        rename_i ho; exact List.eq_nil_of_length_eq_zero ho
      · split at h
        · right; right; simp at h; exact ⟨h.symm, by assumption⟩
        · simp only [] at h; split at h <;> simp at h

/-! ### StripComments -/

/-- what is kept is, in order, exactly the lines that are neither an annotation nor a full-line
comment; what is returned as documentation is, in order, exactly the full-line comments -/
theorem strip_kept (sql : Bytes) :
    (stripComments sql).1 = joinNL ((scanLines (trimSpace sql)).filter (fun t => classifyLine t == .code)) := rfl

theorem strip_no_comment_survives (sql : Bytes) :
    ∀ l ∈ (scanLines (trimSpace sql)).filter (fun t => classifyLine t == .code),
      hasPrefix pDashName l = false ∧ hasPrefix pDash l = false := by
  intro l hl
  have hc := (List.mem_filter.mp hl).2
  unfold classifyLine at hc
  cases h1 : hasPrefix pDashName l with
  | true => simp [h1] at hc
  | false =>
    refine ⟨rfl, ?_⟩
    cases h2 : hasPrefix pDash l with
    | false => rfl
    | true =>
      simp only [h1, Bool.false_eq_true, if_false, h2, if_true] at hc
      split at hc <;> simp at hc

theorem translator_complete : Gen.untranslatable = [] := by decide

end Sqlc.C04
