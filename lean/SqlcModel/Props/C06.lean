import SqlcModel.Query.Analyze
import SqlcModel.Gen.Untranslatable
/-
C06 — Parameter types and names track the column they are used with.

Proved on the model of resolveCatalogRefs (internal/compiler/resolve.go), arm by arm:

* `C06_compare_tracks` — a placeholder compared with column `key` that is accepted becomes exactly ONE
  parameter, and it copies the data type, nullability and array-ness of a column named `key` of a table
  of the search list, is attributed to that table, and is named `key` unless the user named it;
  `C06_compare_unique` — and no other table of the search list has such a column;
* `C06_search_alias` / `C06_search_unqualified` — the search list is the aliased table alone when the
  qualifier is an alias, every table of the statement when there is no qualifier;
* `C06_target_tracks` — the same for INSERT column lists and UPDATE SET targets;
* `C06_limit`, `C06_offset` — LIMIT / OFFSET placeholders are non-null integers;
* `C06_cast` — an explicitly cast placeholder takes the cast's type;
* `C06_name_user`, `C06_name_default` — the user's name wins, the column's is the default.

The full statement is FALSE of the unchanged code for a placeholder on the LEFT of a comparison
(`$1 = col`: the arm searches `Lexpr` for the column): the finding `placeholderLeft`, proved as
`C06_placeholder_left`; and the search list of an unqualified column is the whole statement's, not the
query level's (finding `scopeLeak`, decided by the correspondence stream against PgSem).
-/
set_option linter.unusedSimpArgs false
namespace Sqlc.C06
open Sqlc Sqlc.Q

theorem C06_name_user (names : List (Nat × String)) (n : Nat) (s dflt : String)
    (h : names.find? (·.1 == n) = some (n, s)) : parameterName names n dflt = s := by
  unfold parameterName; rw [h]

theorem C06_name_default (names : List (Nat × String)) (n : Nat) (dflt : String)
    (h : names.find? (·.1 == n) = none) : parameterName names n dflt = dflt := by
  unfold parameterName; rw [h]

theorem mem_compareMatches (names : List (Nat × String)) (num : Nat) (key : String) (tm : List TypeMapEntry)
    (search : List TableName) (p : Parameter) (h : p ∈ compareMatches names num key tm search) :
    ∃ t ∈ search, ∃ cc, typeMapLookup tm t.schema t.name key = some cc ∧ p = compareParam names num key t cc := by
  unfold compareMatches at h
  rw [List.mem_filterMap] at h
  obtain ⟨t, ht, hp⟩ := h
  cases hl : typeMapLookup tm t.schema t.name key with
  | none => rw [hl] at hp; simp at hp
  | some cc => rw [hl] at hp; simp at hp; exact ⟨t, ht, cc, hl, hp.symm⟩

theorem compare_ok (names : List (Nat × String)) (num : Nat) (key : String) (tm : List TypeMapEntry)
    (search : List TableName) (ps : List Parameter) (h : resolveCompare names num key tm search = .ok ps) :
    ps = compareMatches names num key tm search ∧ ps.length = 1 := by
  unfold resolveCompare at h
  simp only at h
  by_cases h0 : ((compareMatches names num key tm search).length == 0) = true
  · rw [if_pos h0] at h; exact absurd h (by simp)
  · rw [if_neg h0] at h
    by_cases h1 : (compareMatches names num key tm search).length > 1
    · rw [if_pos h1] at h; exact absurd h (by simp)
    · rw [if_neg h1] at h
      injection h with h
      refine ⟨h.symm, ?_⟩
      rw [← h]
      simp only [beq_iff_eq] at h0
      omega

/-- an accepted comparison yields one parameter that copies a column named `key` of a searched table -/
theorem C06_compare_tracks (names : List (Nat × String)) (num : Nat) (key : String) (tm : List TypeMapEntry)
    (search : List TableName) (ps : List Parameter) (h : resolveCompare names num key tm search = .ok ps) :
    ∃ t ∈ search, ∃ cc, typeMapLookup tm t.schema t.name key = some cc ∧
      ps = [{ number := num, column := some { name := parameterName names num key, dataType := colDT cc,
                                              notNull := cc.notNull, isArray := cc.isArray, table := some t } }] := by
  obtain ⟨hps, hl⟩ := compare_ok names num key tm search ps h
  match ps, hl with
  | [p], _ =>
    have hm : p ∈ compareMatches names num key tm search := by rw [← hps]; simp
    obtain ⟨t, ht, cc, hlk, hp⟩ := mem_compareMatches names num key tm search p hm
    exact ⟨t, ht, cc, hlk, by rw [hp]; rfl⟩

/-- … and exactly one position of the search list has a column `key` -/
theorem C06_compare_unique (names : List (Nat × String)) (num : Nat) (key : String) (tm : List TypeMapEntry)
    (search : List TableName) (ps : List Parameter) (h : resolveCompare names num key tm search = .ok ps) :
    (search.filter (fun t => (typeMapLookup tm t.schema t.name key).isSome)).length = 1 := by
  obtain ⟨hps, hl⟩ := compare_ok names num key tm search ps h
  have : ∀ (l : List TableName), (compareMatches names num key tm l).length =
      (l.filter (fun t => (typeMapLookup tm t.schema t.name key).isSome)).length := by
    intro l
    unfold compareMatches
    induction l with
    | nil => rfl
    | cons t ts ih =>
      cases hlk : typeMapLookup tm t.schema t.name key with
      | none => simp [List.filterMap_cons, hlk, ih]
      | some cc => simp [List.filterMap_cons, hlk, ih]
  rw [← this, ← hps]; exact hl

theorem C06_search_unqualified (tables : List TableName) (aliasMap : List (String × TableName)) :
    searchTables tables aliasMap "" = tables := by
  unfold searchTables; simp

theorem C06_search_alias (tables : List TableName) (aliasMap : List (String × TableName)) (alias : String) (t : TableName)
    (ha : alias ≠ "") (h : (aliasMap.filter (·.1 == alias)).getLast? = some (alias, t)) :
    searchTables tables aliasMap alias = [t] := by
  unfold searchTables
  have : (alias != "") = true := by simpa using ha
  simp [this, h]

/-- INSERT column list / UPDATE SET target -/
theorem C06_target_tracks (names : List (Nat × String)) (num : Nat) (key : String) (tm : List TypeMapEntry)
    (t : TableName) (ps : List Parameter) (h : resolveTarget names num key tm t = .ok ps) :
    ∃ cc, typeMapLookup tm t.schema t.name key = some cc ∧
      ps = [{ number := num, column := some { name := parameterName names num key, dataType := colDT cc,
                                              notNull := cc.notNull, isArray := cc.isArray,
                                              table := some { schema := t.schema, name := t.name } } }] := by
  unfold resolveTarget at h
  cases hl : typeMapLookup tm t.schema t.name key with
  | none => rw [hl] at h; exact absurd h (by simp)
  | some cc => rw [hl] at h; injection h with h; exact ⟨cc, rfl, by rw [← h]; rfl⟩

section arms
variable (c : Cat) (names : List (Nat × String)) (tables : List TableName)
  (aliasMap : List (String × TableName)) (tm : List TypeMapEntry) (dt : Option TableName)

theorem C06_limit (rv : Option Node) (num : Nat) (loc : Int) :
    resolveOne c names tables aliasMap tm dt { parent := .limitCount, rv := rv, number := num, location := loc } =
      .ok [{ number := num, column := some { name := parameterName names num "limit", dataType := "integer", notNull := true } }] := rfl

theorem C06_offset (rv : Option Node) (num : Nat) (loc : Int) :
    resolveOne c names tables aliasMap tm dt { parent := .limitOffset, rv := rv, number := num, location := loc } =
      .ok [{ number := num, column := some { name := parameterName names num "offset", dataType := "integer", notNull := true } }] := rfl

/-- an explicitly cast placeholder takes the cast's type (toColumn of the type name), non-null -/
theorem C06_cast (fs : List (String × Bool × Node)) (rv : Option Node) (num : Nat) (loc : Int) (col : Column)
    (hn : ((Node.nd "TypeCast" fs).get "TypeName").isNull = false)
    (hc : toColumn ((Node.nd "TypeCast" fs).get "TypeName") = .ok col) :
    resolveOne c names tables aliasMap tm dt { parent := .node (.nd "TypeCast" fs), rv := rv, number := num, location := loc } =
      .ok [{ number := num, column := some { col with name := parameterName names num col.name } }] := by
  unfold resolveOne
  simp [Node.kind, hn, hc]

/-- toColumn always answers non-null -/
theorem toColumn_notNull (tn : Node) (col : Column) (h : toColumn tn = .ok col) : col.notNull = true := by
  unfold toColumn at h
  split at h
  · exact absurd h (by simp)
  · simp only at h
    split at h
    · exact absurd h (by simp)
    · split at h
      · exact absurd h (by simp)
      · injection h with h; rw [← h]

/-- the defect `placeholderLeft`, exactly: when the left operand of the enclosing comparison holds no
column reference, the parameter is typed `any` (or `string` for `||`) and gets no column name —
whatever column stands on the right -/
theorem C06_placeholder_left (fs : List (String × Bool × Node)) (rv : Option Node) (num : Nat) (loc : Int)
    (hl : ((Node.nd "A_Expr" fs).get "Lexpr").search (·.isKind "ColumnRef") = []) :
    ∃ dtp, (dtp = "any" ∨ dtp = "string") ∧
    resolveOne c names tables aliasMap tm dt { parent := .node (.nd "A_Expr" fs), rv := rv, number := num, location := loc } =
      .ok [{ number := num, column := some { name := parameterName names num "", dataType := dtp } }] := by
  unfold resolveOne
  simp only [Node.kind, hl]
  by_cases h : (((Node.nd "A_Expr" fs).get "Name").joinStrings "." == "||") = true
  · exact ⟨"string", Or.inr rfl, by simp [h]⟩
  · exact ⟨"any", Or.inl rfl, by simp [h]⟩

end arms

/-! ### non-vacuity: a two-table statement where `name` is compared -/

def wTm : List TypeMapEntry :=
  [{ schema := "", name := "authors", cols := [{ name := "id", tschema := "pg_catalog", tname := "int8", notNull := true, isArray := false },
                                               { name := "bio", tschema := "", tname := "text", notNull := false, isArray := false }] },
   { schema := "", name := "books", cols := [{ name := "id", tschema := "pg_catalog", tname := "int8", notNull := true, isArray := false }] }]
def wTables : List TableName := [{ name := "authors" }, { name := "books" }]

theorem witness_accept : (match resolveCompare [] 1 "bio" wTm wTables with | .ok ps => ps.length | .error _ => 99) = 1 := by decide
theorem witness_ambiguous : (match resolveCompare [] 1 "id" wTm wTables with | .ok _ => 0 | .error _ => 1) = 1 := by decide

theorem translator_complete : Gen.untranslatable = [] := by decide

end Sqlc.C06
