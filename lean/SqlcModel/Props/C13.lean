import SqlcModel.Text.Migrations
import SqlcModel.Spec.OrderSites
import SqlcModel.Gen.OrderSites
import SqlcModel.Gen.Untranslatable
/-
C13 — Output is deterministic and independent of declaration order.

Go maps are iterated in random order and `sort.Slice` is not stable. The theorems show that neither
can reach the output: a collection with pairwise distinct sort keys has exactly ONE sorted
arrangement, so whatever order a map range or the input files deliver the items in — and whatever
unstable algorithm sorts them — the sorted result is the same.
-/
set_option linter.unusedSimpArgs false
namespace Sqlc.C13
open Sqlc

/-- O1: the order-sensitive sites of the current source are exactly the audited ones -/
theorem sites_covered : Gen.mapRangeSites = Spec.auditedMapRanges ∧ Gen.sortSites = Spec.auditedSorts := by decide

/-! ### Go's `<` on strings is a total order (bytewise lexicographic) -/

theorem bytesLE_refl : ∀ a : Bytes, bytesLE a a = true
  | [] => rfl
  | x :: xs => by simp [bytesLE, bytesLE_refl xs]

theorem bytesLE_total : ∀ a b : Bytes, (bytesLE a b || bytesLE b a) = true
  | [], _ => by simp [bytesLE]
  | _ :: _, [] => by simp [bytesLE]
  | x :: xs, y :: ys => by
    simp only [bytesLE]
    by_cases h1 : x < y
    · simp [h1]
    · by_cases h2 : y < x
      · simp [h1, h2]
      · simp only [h1, h2, if_false]; exact bytesLE_total xs ys

theorem bytesLE_antisymm : ∀ a b : Bytes, bytesLE a b = true → bytesLE b a = true → a = b
  | [], [], _, _ => rfl
  | [], _ :: _, _, h => by simp [bytesLE] at h
  | _ :: _, [], h, _ => by simp [bytesLE] at h
  | x :: xs, y :: ys, h1, h2 => by
    simp only [bytesLE] at h1 h2
    by_cases hxy : x < y
    · have : ¬ y < x := by
        intro h; exact absurd (UInt8.lt_trans hxy h) (UInt8.lt_irrefl x)
      simp [hxy, this] at h2
    · by_cases hyx : y < x
      · simp [hxy, hyx] at h1
      · simp only [hxy, hyx, if_false] at h1 h2
        have hx : x = y := by
          have h3 : ¬ x.toNat < y.toNat := hxy
          have h4 : ¬ y.toNat < x.toNat := hyx
          exact UInt8.toNat_inj.mp (by omega)
        rw [hx, bytesLE_antisymm xs ys h1 h2]

theorem bytesLE_trans : ∀ a b c : Bytes, bytesLE a b = true → bytesLE b c = true → bytesLE a c = true
  | [], _, _, _, _ => by simp [bytesLE]
  | _ :: _, [], _, h, _ => by simp [bytesLE] at h
  | _ :: _, _ :: _, [], _, h => by simp [bytesLE] at h
  | x :: xs, y :: ys, z :: zs, h1, h2 => by
    simp only [bytesLE] at h1 h2 ⊢
    have eqOf : ∀ {a b : UInt8}, ¬ a < b → ¬ b < a → a = b := by
      intro a b h3 h4
      have h3' : ¬ a.toNat < b.toNat := h3
      have h4' : ¬ b.toNat < a.toNat := h4
      exact UInt8.toNat_inj.mp (by omega)
    by_cases hxy : x < y
    · by_cases hyz : y < z
      · have : x < z := UInt8.lt_trans hxy hyz
        simp [this]
      · by_cases hzy : z < y
        · simp [hyz, hzy] at h2
        · have hyz' : y = z := eqOf hyz hzy
          subst hyz'; simp [hxy]
    · by_cases hyx : y < x
      · simp [hxy, hyx] at h1
      · have hxy' : x = y := eqOf hxy hyx
        subst hxy'
        simp only [hxy, if_false] at h1
        by_cases hxz : x < z
        · simp [hxz]
        · by_cases hzx : z < x
          · simp [hxz, hzx] at h2
          · simp only [hxz, hzx, if_false] at h2 ⊢
            exact bytesLE_trans xs ys zs h1 h2

/-! ### one sorted arrangement -/

/-- any two arrangements of the same items that are both sorted by a key with pairwise distinct
values coincide -/
theorem sorted_unique {α : Type} (key : α → Bytes) (l1 l2 : List α)
    (hperm : l1.Perm l2) (hdist : (l1.map key).Nodup)
    (h1 : l1.Pairwise (fun a b => bytesLE (key a) (key b) = true))
    (h2 : l2.Pairwise (fun a b => bytesLE (key a) (key b) = true)) : l1 = l2 := by
  apply List.Perm.eq_of_pairwise (le := fun a b => bytesLE (key a) (key b) = true) _ h1 h2 hperm
  intro a b ha hb hab hba
  have hk : key a = key b := bytesLE_antisymm _ _ hab hba
  have hb1 : b ∈ l1 := hperm.symm.subset hb
  -- distinct keys ⇒ equal keys mean the same element
  have inj : ∀ (l : List α), (l.map key).Nodup → ∀ x ∈ l, ∀ y ∈ l, key x = key y → x = y := by
    intro l hl
    induction l with
    | nil => intro x hx; simp at hx
    | cons c cs ih =>
      simp only [List.map_cons, List.nodup_cons] at hl
      intro x hx y hy hxy
      rcases List.mem_cons.mp hx with hxe | hx <;> rcases List.mem_cons.mp hy with hye | hy
      · rw [hxe, hye]
      · exfalso; apply hl.1; rw [← hxe, hxy]; exact List.mem_map.mpr ⟨y, hy, rfl⟩
      · exfalso; apply hl.1; rw [← hye, ← hxy]; exact List.mem_map.mpr ⟨x, hx, rfl⟩
      · exact ih hl.2 x hx y hy hxy
  exact inj l1 hdist a ha b hb1 hk

/-- what `sort.Slice(xs, func(i, j) bool { return key(xs[i]) < key(xs[j]) })` promises, and nothing
more: some sorted permutation -/
structure SortOracle (α : Type) (key : α → Bytes) where
  sort : List α → List α
  perm : ∀ l, (sort l).Perm l
  sorted : ∀ l, (sort l).Pairwise (fun a b => bytesLE (key a) (key b) = true)

/-- C13 (core): with pairwise distinct keys, ANY two sorting algorithms applied to ANY two orderings of
the same items (two map iteration orders, two orders of the queries in a file, two orders of the
declarations in a schema) return the same list. -/
theorem C13_order_irrelevant {α : Type} (key : α → Bytes) (o1 o2 : SortOracle α key) (l1 l2 : List α)
    (hperm : l1.Perm l2) (hdist : (l1.map key).Nodup) : o1.sort l1 = o2.sort l2 := by
  apply sorted_unique key _ _ _ _ (o1.sorted l1) (o2.sorted l2)
  · exact (o1.perm l1).trans (hperm.trans (o2.perm l2).symm)
  · exact ((o1.perm l1).map key).nodup_iff.mpr hdist

/-- the executable model's sort (merge sort) is one such oracle -/
def mergeOracle {α : Type} (key : α → Bytes) : SortOracle α key where
  sort l := l.mergeSort (fun a b => bytesLE (key a) (key b))
  perm l := List.mergeSort_perm l _
  sorted l := by
    have := List.pairwise_mergeSort (le := fun a b => bytesLE (key a) (key b))
      (fun a b c h1 h2 => bytesLE_trans _ _ _ h1 h2) (fun a b => bytesLE_total _ _) l
    simpa using this

/-- reordering the annotated queries of a file (distinct names by C11.names_nodup) leaves the sorted
query list — hence every output byte derived from it — unchanged -/
theorem C13_query_permutation {α : Type} (name : α → Bytes) (qs qs' : List α)
    (hperm : qs.Perm qs') (hdist : (qs.map name).Nodup) :
    (mergeOracle name).sort qs = (mergeOracle name).sort qs' :=
  C13_order_irrelevant name _ _ qs qs' hperm hdist

/-- the hypothesis `hdist` is not an artefact of the proof: with two items under one key the (stable) sort
keeps the order it was given, so two orderings of the same items give two results. sqlc reaches this point
when two tables get one struct name (`item` / `items` → `Item`): recorded finding dupStructOrder. -/
theorem C13_distinct_keys_needed :
    ∃ (l1 l2 : List (Bytes × Nat)), l1.Perm l2 ∧
      (mergeOracle (α := Bytes × Nat) (·.1)).sort l1 ≠ (mergeOracle (α := Bytes × Nat) (·.1)).sort l2 := by
  refine ⟨[(b! "Item", 0), (b! "Item", 1)], [(b! "Item", 1), (b! "Item", 0)], by decide, ?_⟩
  have h1 : (mergeOracle (α := Bytes × Nat) (·.1)).sort [(b! "Item", 0), (b! "Item", 1)] = [(b! "Item", 0), (b! "Item", 1)] :=
    List.mergeSort_of_pairwise (by decide)
  have h2 : (mergeOracle (α := Bytes × Nat) (·.1)).sort [(b! "Item", 1), (b! "Item", 0)] = [(b! "Item", 1), (b! "Item", 0)] :=
    List.mergeSort_of_pairwise (by decide)
  rw [h1, h2]; decide

/-- non-vacuity -/
example : bytesLE (b! "GetAuthor") (b! "ListAuthors") = true ∧ bytesLE (b! "ListAuthors") (b! "GetAuthor") = false := by decide

theorem translator_complete : Gen.untranslatable = [] := by decide

end Sqlc.C13
