import SqlcModel.Driver.Config
import SqlcModel.Gen.ConfigFacts
import SqlcModel.Gen.Untranslatable
/-
C16 — Config front-ends are equivalent and emit options orthogonal (the configuration part).
-/
set_option linter.unusedSimpArgs false
namespace Sqlc.C16
open Sqlc.Cfg

def fieldNames (l : List (String × String × String × String)) : List String := l.map (·.1)
def tagsOf (l : List (String × String × String × String)) (n : String) : Option (String × String) :=
  (l.find? (·.1 == n)).map (fun f => (f.2.2.1, f.2.2.2))

/-- the documented renamings of Translate() -/
def renamed : List (String × String) := [("Name", "Package"), ("Path", "Out")]
def targetOf (src : String) : String := ((renamed.find? (·.1 == src)).map (·.2)).getD src

/-- O1 (regenerated facts): Translate() is total and faithful —
* every field of a version-1 package flows into the version-2 package exactly once;
* it lands in the field of the same name (Name ↦ Package, Path ↦ Out), Engine/Schema/Queries in `SQL`;
* source and target field carry the same json and yaml keys (except the two renamed ones), so a
  version-2 file written with the same keys means the same thing;
* the top-level overrides and rename flow to the global Go section. -/
theorem translate_total :
    -- every source is a version-1 field and every version-1 field is a source exactly once
    Gen.translateFlows.all (fun f => (fieldNames Gen.v1PackageFields).contains f.2.2) = true ∧
    (fieldNames Gen.v1PackageFields).all (fun n => (Gen.translateFlows.filter (fun f => f.2.2 == n)).length == 1) = true ∧
    -- it lands in the field of the same name (or the documented renaming), in the right struct
    Gen.translateFlows.all (fun f =>
      f.2.1 == targetOf f.2.2 &&
      (if ["Engine", "Schema", "Queries"].contains f.2.2 then f.1 == "SQL" else f.1 == "SQLGo")) = true ∧
    -- source and target field carry the same json / yaml keys
    Gen.translateFlows.all (fun f =>
      (renamed.any (·.1 == f.2.2)) ||
      (let tfields := if f.1 == "SQLGo" then Gen.sqlGoFields else Gen.sqlFields
       tagsOf Gen.v1PackageFields f.2.2 == tagsOf tfields f.2.1 && (tagsOf tfields f.2.1).isSome)) = true ∧
    Gen.translateTopFlows = [("GenGo", "Overrides", "Overrides"), ("GenGo", "Rename", "Rename")] := by
  refine ⟨by decide, by decide, by decide, by decide, by decide⟩

/-- every json key equals the yaml key of the same field: JSON and YAML files use one vocabulary -/
theorem json_yaml_same_keys :
    (Gen.v1PackageFields ++ Gen.sqlGoFields ++ Gen.sqlFields ++ Gen.v1TopFields).all (fun f => f.2.2.1 == f.2.2.2) = true := by decide

/-- Combine takes global overrides first, then the package's -/
theorem combine_order : Gen.combineFlows =
    ["cs.Rename <- conf.Gen.Go.Rename", "cs.Overrides <- append(cs.Overrides, conf.Gen.Go.Overrides)",
     "cs.Rename <- conf.Gen.Kotlin.Rename", "cs.Overrides <- append(cs.Overrides, pkg.Gen.Go.Overrides)",
     "cs.Overrides <- append(cs.Overrides, pkg.Gen.Python.Overrides)"] := by decide

/-- C16 (front ends): for EVERY version-1 configuration, combining the translated configuration for
its k-th package gives exactly the settings one reads off the version-1 package: its own options,
global-then-package overrides, the global rename. -/
theorem C16_v1_settings {Ov : Type} (c : V1Config Ov) (p : V1Pkg Ov) (hp : p ∈ c.packages) :
    ∃ q ∈ (translate c).packages,
      (combine (translate c) q).overrides = c.overrides ++ p.overrides ∧
      (combine (translate c) q).rename = c.rename ∧
      (combine (translate c) q).go = { p.opts with package := p.name, out := p.path } := by
  refine ⟨_, List.mem_map.mpr ⟨p, hp, rfl⟩, ?_, rfl, rfl⟩
  simp [combine, translate]

/-- and a hand-written version-2 configuration with the same content combines to the same settings -/
theorem C16_v1_v2_equal {Ov : Type} (c : V1Config Ov) (c2 : Config Ov) (h : c2 = translate c) (q : Pkg Ov) :
    combine c2 q = combine (translate c) q := by rw [h]

/-- packages are combined independently: the settings of one package do not depend on any other
package of the configuration (C15's package-locality, C19) -/
theorem combine_package_local {Ov : Type} (conf conf' : Config Ov) (p : Pkg Ov)
    (h1 : conf.globalOverrides = conf'.globalOverrides) (h2 : conf.globalRename = conf'.globalRename) :
    (combine conf p).overrides = (combine conf' p).overrides ∧ (combine conf p).rename = (combine conf' p).rename := by
  simp [combine, h1, h2]

theorem translator_complete : Gen.untranslatable = [] := by decide

end Sqlc.C16
