import SqlcModel.GoGen.Types
import SqlcModel.Config.GoTypeParse
import SqlcModel.Gen.ImportFacts
import SqlcModel.Gen.Untranslatable
/-
C15 — Type overrides and renames apply exactly where specified.

Proved on the model of goType / goInnerType (the two override loops) and of GoType.Parse:

* `C15_precedence` — the two loops compute exactly the precedence specification: a column override naming
  this (table, column) wins wherever it stands in the list; otherwise the first db_type override of this
  type whose `nullable` matches; otherwise the engine's type; array-ness wraps the last two only;
* `C15_column_hit`, `C15_dbtype_hit` — an applicable override yields its Go type;
* `C15_frame` — an override that names another column (or another table's same-named column, or another
  type, or the other nullability) changes nothing: the column's Go type is what it is without that entry;
* `C15_engine_ignores_overrides` — the engine type (no override applicable) does not depend on the override list;
* `C15_same_everywhere` — goType is a function of the column record: model field, result field and parameter of
  one column get the same Go type whenever the compiler hands goType equal records (that it does is C05 / C06);
* GoType.Parse: `C15_parse_pointer_string` / `C15_parse_pointer_object` (a pointer override's type name keeps the
  star, its import path does not), `C15_parse_basic`, `C15_parse_import_is_prefix`;
* `C15_std_not_reimported` is NOT claimed: custom-import emission (`(!alreadyImported || hasAlias) && uses`) is
  decided end to end by type-checking the emitted packages (an unused or missing import is a compile error).
-/
set_option linter.unusedSimpArgs false
namespace Sqlc.C15
open Sqlc Sqlc.GoGen Sqlc.Config

def colMatch (env : TypeEnv) (col : Column) (o : Override) : Bool :=
  o.goTypeName != "" && o.column != "" && o.columnName == col.name && sameTableName col.table o.table env.defaultSchema

def dbMatch (col : Column) (o : Override) : Bool :=
  o.goTypeName != "" && o.dbType != "" && o.dbType == col.dataType && o.nullable != (col.notNull || col.isArray)

/-- the engine's own answer -/
def engineType (env : TypeEnv) (col : Column) : String :=
  if env.engine == "mysql" then mysqlType env col
  else if env.engine == "postgresql" then postgresType env col
  else "interface{}"

/-- the precedence specification -/
def specType (env : TypeEnv) (col : Column) : String :=
  match (env.overrides.filter (colMatch env col)).head? with
  | some o => o.goTypeName
  | none =>
    let inner := match (env.overrides.filter (dbMatch col)).head? with
      | some o => o.goTypeName
      | none => engineType env col
    if col.isArray then Gen.arrayPrefix ++ inner else inner

theorem find_eq_filter_head {α : Type} (p : α → Bool) (l : List α) : l.find? p = (l.filter p).head? := by
  induction l with
  | nil => rfl
  | cons a as ih =>
    cases h : p a with
    | true => rw [List.find?_cons_of_pos (h := h), List.filter_cons_of_pos (by simpa using h)]; rfl
    | false => rw [List.find?_cons_of_neg (h := by simp [h]), List.filter_cons_of_neg (by simp [h])]; exact ih

theorem goInner_eq (env : TypeEnv) (col : Column) :
    goInnerType env col = (match (env.overrides.filter (dbMatch col)).head? with
      | some o => o.goTypeName
      | none => engineType env col) := by
  unfold goInnerType dbTypeOverride
  dsimp only
  rw [find_eq_filter_head]
  have hd : (fun o : Override => o.goTypeName != "" && o.dbType != "" && o.dbType == col.dataType &&
      o.nullable != (col.notNull || col.isArray)) = dbMatch col := rfl
  rw [hd]
  cases (env.overrides.filter (dbMatch col)).head? with
  | some o => rfl
  | none =>
    simp only [Option.map_none, engineType]
    by_cases h1 : (env.engine == "mysql") = true
    · simp only [h1, if_true]
    · by_cases h2 : (env.engine == "postgresql") = true
      · simp only [h1, h2, if_true, if_false]
      · by_cases h3 : (env.engine == "_lemon") = true
        · simp only [h1, h2, h3, if_true, if_false]
        · simp only [h1, h2, h3, if_false]
          rfl

theorem C15_precedence (env : TypeEnv) (col : Column) : goType env col = specType env col := by
  unfold goType specType columnOverride
  rw [find_eq_filter_head]
  have hc : (fun o : Override => o.goTypeName != "" && o.column != "" && o.columnName == col.name &&
      sameTableName col.table o.table env.defaultSchema) = colMatch env col := rfl
  rw [hc]
  cases (env.overrides.filter (colMatch env col)).head? with
  | some o => rfl
  | none =>
    simp only [Option.map_none]
    rw [goInner_eq]

/-- a column override that names this column decides, wherever db_type overrides stand -/
theorem C15_column_hit (env : TypeEnv) (col : Column) (o : Override)
    (h : (env.overrides.filter (colMatch env col)).head? = some o) : goType env col = o.goTypeName := by
  rw [C15_precedence]; unfold specType; rw [h]

theorem C15_dbtype_hit (env : TypeEnv) (col : Column) (o : Override)
    (hc : env.overrides.filter (colMatch env col) = [])
    (h : (env.overrides.filter (dbMatch col)).head? = some o) :
    goType env col = if col.isArray then Gen.arrayPrefix ++ o.goTypeName else o.goTypeName := by
  rw [C15_precedence]; unfold specType; rw [hc, h]; rfl

theorem engineType_overrides (env : TypeEnv) (ovs : List Override) (col : Column) :
    engineType { env with overrides := ovs } col = engineType env col := by
  unfold engineType postgresType mysqlType
  rfl

theorem C15_engine_ignores_overrides (env : TypeEnv) (ovs : List Override) (col : Column)
    (hc : ovs.filter (colMatch env col) = []) (hd : ovs.filter (dbMatch col) = []) :
    goType { env with overrides := ovs } col = goType { env with overrides := [] } col := by
  rw [C15_precedence, C15_precedence]
  unfold specType
  have h1 : colMatch { env with overrides := ovs } col = colMatch env col := rfl
  simp only [h1, hc, hd, List.filter_nil, List.head?_nil, engineType_overrides]

/-- an entry that applies neither as column override nor as db_type override to this column is invisible to it -/
theorem C15_frame (env : TypeEnv) (o : Override) (rest : List Override) (col : Column)
    (hc : colMatch env col o = false) (hd : dbMatch col o = false) :
    goType { env with overrides := o :: rest } col = goType { env with overrides := rest } col := by
  rw [C15_precedence, C15_precedence]
  unfold specType
  have h1 : colMatch { env with overrides := o :: rest } col = colMatch env col := rfl
  have h2 : colMatch { env with overrides := rest } col = colMatch env col := rfl
  simp only [h1, h2, List.filter_cons, hc, hd, engineType_overrides]
  simp

/-- what makes an entry not apply as a column override: another column name, or another table -/
theorem C15_other_column (env : TypeEnv) (o : Override) (col : Column) (h : o.columnName ≠ col.name) :
    colMatch env col o = false := by
  unfold colMatch
  have : (o.columnName == col.name) = false := by simpa using h
  simp [this]

theorem C15_other_table (env : TypeEnv) (o : Override) (col : Column)
    (h : sameTableName col.table o.table env.defaultSchema = false) : colMatch env col o = false := by
  unfold colMatch; simp [h]

theorem C15_other_dbtype (o : Override) (col : Column) (h : o.dbType ≠ col.dataType) : dbMatch col o = false := by
  unfold dbMatch
  have : (o.dbType == col.dataType) = false := by simpa using h
  simp [this]

theorem C15_other_nullability (o : Override) (col : Column) (h : o.nullable = (col.notNull || col.isArray)) :
    dbMatch col o = false := by
  unfold dbMatch; simp [h]

/-- one column record, one Go type: every surface that hands goType the same record gets the same type -/
theorem C15_same_everywhere (env : TypeEnv) (c1 c2 : Column) (h : c1 = c2) : goType env c1 = goType env c2 := by rw [h]

/-! ### GoType.Parse -/

theorem C15_parse_pointer_object (path pkg name : List Char) (p : Parsed)
    (h : parseObject path pkg name true = some p) : p.typeName.head? = some '*' ∧ p.importPath = path := by
  unfold parseObject at h
  split at h
  · exact absurd h (by simp)
  · simp only [Option.some.injEq] at h
    rw [← h]; simp

theorem C15_parse_object_import (path pkg name : List Char) (ptr : Bool) (p : Parsed)
    (h : parseObject path pkg name ptr = some p) : p.importPath = path ∧ (p.basic = true ↔ (path = [] ∧ pkg = [])) := by
  unfold parseObject at h
  split at h
  · exact absurd h (by simp)
  · simp only [Option.some.injEq] at h
    rw [← h]; simp

theorem C15_parse_basic (s : String) (h : s ∈ basicTypes) (hd : lastIndex '.' s.toList = none) (hs : lastIndex '/' s.toList = none) :
    parseSpec s.toList = some { typeName := s.toList, basic := true } := by
  unfold parseSpec
  simp only [hd, hs]
  have : basicTypes.contains (String.ofList s.toList) = true := by simpa using h
  rw [if_pos this]

/-- in the string form the import path is the text before the last dot, without the pointer star, and the
type name keeps the star -/
theorem C15_parse_import_is_prefix (input : List Char) (d s : Nat) (p : Parsed)
    (hd : lastIndex '.' input = some d) (hs : lastIndex '/' input = some s) (h : parseSpec input = some p) :
    p.importPath = (if input.head? = some '*' then (input.take d).drop 1 else input.take d) ∧
    (input.head? = some '*' → p.typeName.head? = some '*') := by
  unfold parseSpec at h
  simp only [hd, hs] at h
  split at h
  · rename_i tail
    simp only [Option.some.injEq] at h
    rw [← h]; simp
  · rename_i hne
    simp only [Option.some.injEq] at h
    rw [← h]
    have hh : input.head? ≠ some '*' := by
      intro hx
      cases input with
      | nil => simp at hx
      | cons c cs => simp at hx; exact hne cs (by rw [hx])
    simp [hh]

theorem witness_parse :
    parseSpec "*math/big.Int".toList = some { importPath := "math/big".toList, typeName := "*big.Int".toList } ∧
    parseSpec "github.com/google/uuid.UUID".toList = some { importPath := "github.com/google/uuid".toList, typeName := "uuid.UUID".toList } ∧
    parseSpec "time.Duration".toList = none ∧
    parseObject "math/big".toList [] "Float".toList true = some { importPath := "math/big".toList, typeName := "*big.Float".toList } := by
  decide

theorem translator_complete : Gen.untranslatable = [] := by decide

end Sqlc.C15
