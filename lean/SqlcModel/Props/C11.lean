import SqlcModel.Text.Meta
import SqlcModel.Spec.Contract
import SqlcModel.Driver.Compile
import SqlcModel.Gen.TemplateFacts
import SqlcModel.Gen.Untranslatable
/-
C11 — Query annotation determines the generated method's contract.
-/
set_option linter.unusedSimpArgs false
namespace Sqlc.C11
open Sqlc

/-- O1: for all five commands the per-command blocks of the Go template (regenerated facts) promise
exactly the documented contract: result tuple, driver entry point with and without prepared queries,
the checked error paths of `:many`, the scan. Complete enumeration of the 5 × 8 table. -/
theorem contract_table :
    Gen.templateContract.length = Spec.contractTable.length ∧
    (Gen.templateContract.zip Spec.contractTable).all (fun p =>
      let g := p.1
      let s := p.2
      g.1 == s.1 && g.2.1 == s.2.1 && g.2.2.1 == s.2.1 && g.2.2.2.1 == s.2.2.1 && g.2.2.2.2.1 == s.2.2.2.1 &&
      g.2.2.2.2.2.1 == s.2.2.2.2.1 && g.2.2.2.2.2.2.1 == s.2.2.2.2.2.1 && g.2.2.2.2.2.2.2.1 == s.2.2.2.2.2.2.1 &&
      g.2.2.2.2.2.2.2.2.1 == s.2.2.2.2.2.2.2) = true := by decide

/-- the interface file asserts `var _ Querier = (*Queries)(nil)` -/
theorem querier_assertion : Gen.templateHasQuerierAssertion = true := by decide

/-- O2: accepted commands are exactly the five documented ones; RETURNING is required for exactly
`:one` and `:many`; comment syntaxes per engine -/
theorem commands_documented : Gen.cmdAccepted = Spec.commands ∧ Gen.cmdConstants = Spec.commands ∧
    Gen.cmdNeedsReturning = Spec.needsReturning := by decide

theorem comment_syntax_documented :
    Gen.commentSyntax = [("postgresql", true, false, true), ("mysql", true, true, true), ("sqlite", true, false, false)] := by decide

/-- soundness of the annotation parser: whatever text it accepts, the command is one of the five and
the name is an identifier -/
theorem parseLine_sound (line name cmd : Bytes) (h : parseLine line = .ok name cmd) :
    cmd ∈ cmdsB ∧ validQueryName name = true := by
  unfold parseLine at h
  split at h
  · exact absurd h (by simp)
  · split at h
    · exact absurd h (by simp)
    · split at h
      · exact absurd h (by simp)
      · split at h
        · exact absurd h (by simp)
        · rename_i h1 h2 h3 h4
          injection h with hn hc
          subst hn; subst hc
          simp only [Bool.not_eq_true, Bool.not_eq_false'] at h3 h4
          exact ⟨by simpa using h3, h4⟩

theorem parse_sound (t name cmd : Bytes) (cs : CommentSyntax) (h : metaParse t cs = .ok name cmd) :
    cmd ∈ cmdsB ∧ validQueryName name = true := by
  unfold metaParse at h
  generalize splitNL t = ls at h
  induction ls with
  | nil => simp [parseLines] at h
  | cons l ls ih =>
    simp only [parseLines] at h
    cases hp : annotationPrefix cs l with
    | none => rw [hp] at h; exact ih h
    | some p => rw [hp] at h; exact parseLine_sound l name cmd h

/-- statements without an annotation line yield no method (Parse returns the empty name) -/
theorem no_annotation_none (t : Bytes) (cs : CommentSyntax)
    (h : ∀ l ∈ splitNL t, annotationPrefix cs l = none) : metaParse t cs = .none := by
  unfold metaParse
  generalize splitNL t = ls at h
  induction ls with
  | nil => rfl
  | cons l ls ih =>
    simp only [parseLines, h l (by simp)]
    exact ih (fun x hx => h x (by simp [hx]))

/-- every command's text is free of white space, so `TrimSpace` leaves it alone (used below) -/
theorem cmds_no_space : cmdsB.all (fun c => c.all (fun b => !isAsciiSpace b) && !c.isEmpty) = true := by decide

/-- non-vacuity and the canonical forms: the three comment styles -/
example : metaParse (b! "-- name: GetAuthor :one") ⟨true, false, true⟩ = .ok (b! "GetAuthor") (b! ":one") := by decide
example : metaParse (b! "/* name: List_2 :many */") ⟨true, false, true⟩ = .ok (b! "List_2") (b! ":many") := by decide
example : metaParse (b! "# name: Del :execrows") ⟨true, true, true⟩ = .ok (b! "Del") (b! ":execrows") := by decide
example : metaParse (b! "# name: Del :execrows") ⟨true, false, true⟩ = .none := by decide
example : metaParse (b! "-- name: 9x :one") ⟨true, false, true⟩ = .err .invalidName := by decide
example : metaParse (b! "-- name: X :lots") ⟨true, false, true⟩ = .err .invalidType := by decide
example : metaParse (b! "-- name:") ⟨true, false, true⟩ = .err .missingType := by decide
example : metaParse (b! "-- name: X") ⟨true, false, true⟩ = .err .invalidComment := by decide
example : metaParse (b! "-- name: X :one extra") ⟨true, false, true⟩ = .err .invalidComment := by decide

/-! ### duplicate names -/

theorem nameFold_inv (names : List String) (st : NameFold)
    (h1 : st.seen.Nodup) (h2 : ∀ n, n ≠ "" → (n ∈ st.accepted ↔ n ∈ st.seen))
    (h3 : (st.accepted.filter (· != "")).Nodup) :
    let r := names.foldl nameStep st
    r.seen.Nodup ∧ (∀ n, n ≠ "" → (n ∈ r.accepted ↔ n ∈ r.seen)) ∧ (r.accepted.filter (· != "")).Nodup := by
  induction names generalizing st with
  | nil => exact ⟨h1, h2, h3⟩
  | cons n ns ih =>
    simp only [List.foldl_cons]
    apply ih
    · unfold nameStep
      by_cases hn : (n != "") = true
      · simp only [hn, if_true]
        by_cases hc : st.seen.contains n = true
        · simp only [hc, if_true]; exact h1
        · simp only [Bool.not_eq_true] at hc
          simp only [hc, Bool.false_eq_true, if_false]
          rw [List.nodup_append]
          refine ⟨h1, by simp, ?_⟩
          intro a ha b hb
          simp at hb; subst hb
          intro hab; subst hab
          have : st.seen.contains a = true := by simpa using ha
          rw [hc] at this; exact absurd this (by simp)
      · simp only [Bool.not_eq_true] at hn
        simp only [hn, Bool.false_eq_true, if_false]; exact h1
    · intro m hm
      unfold nameStep
      by_cases hn : (n != "") = true
      · simp only [hn, if_true]
        by_cases hc : st.seen.contains n = true
        · simp only [hc, if_true]; exact h2 m hm
        · simp only [Bool.not_eq_true] at hc
          simp only [hc, Bool.false_eq_true, if_false, List.mem_append, List.mem_singleton]
          rw [h2 m hm]
      · simp only [Bool.not_eq_true] at hn
        have hne : n = "" := by simpa using hn
        simp only [hn, Bool.false_eq_true, if_false, List.mem_append, List.mem_singleton]
        rw [h2 m hm]
        constructor
        · rintro (h | h)
          · exact h
          · rw [hne] at h; exact absurd h hm
        · intro h; exact Or.inl h
    · unfold nameStep
      by_cases hn : (n != "") = true
      · simp only [hn, if_true]
        by_cases hc : st.seen.contains n = true
        · simp only [hc, if_true]; exact h3
        · simp only [Bool.not_eq_true] at hc
          simp only [hc, Bool.false_eq_true, if_false, List.filter_append]
          rw [List.nodup_append]
          refine ⟨h3, by simp [List.filter, hn], ?_⟩
          intro a ha b hb
          simp [List.filter, hn] at hb; subst hb
          intro hab; subst hab
          have hmem := (List.mem_filter.mp ha)
          have hne : a ≠ "" := by simpa using hmem.2
          have := (h2 a hne).mp hmem.1
          have : st.seen.contains a = true := by simpa using this
          rw [hc] at this; exact absurd this (by simp)
      · simp only [Bool.not_eq_true] at hn
        simp only [hn, Bool.false_eq_true, if_false, List.filter_append]
        have : ([n].filter (· != "")) = [] := by simp [List.filter, hn]
        rw [this, List.append_nil]; exact h3

/-- C11 (duplicate names): whatever the list of annotated statements, the queries that survive the
name check have pairwise distinct names -/
theorem names_nodup (names : List String) : ((nameFold names).accepted.filter (· != "")).Nodup :=
  (nameFold_inv names {} List.nodup_nil (by intro n _; simp) (by simp)).2.2

/-- and a repeated name is reported (not silently dropped): each statement is either accepted or
counted as a duplicate -/
theorem names_accounted (names : List String) :
    (nameFold names).accepted.length + (nameFold names).dupErrors = names.length := by
  unfold nameFold
  suffices ∀ st : NameFold, (names.foldl nameStep st).accepted.length + (names.foldl nameStep st).dupErrors =
      st.accepted.length + st.dupErrors + names.length by simpa using this {}
  induction names with
  | nil => intro st; simp
  | cons n ns ih =>
    intro st
    simp only [List.foldl_cons, ih, List.length_cons]
    unfold nameStep
    by_cases hn : (n != "") = true
    · simp only [hn, if_true]
      by_cases hc : st.seen.contains n = true
      · simp only [hc, if_true]; omega
      · simp only [Bool.not_eq_true] at hc
        simp only [hc, Bool.false_eq_true, if_false, List.length_append, List.length_singleton]; omega
    · simp only [Bool.not_eq_true] at hn
      simp only [hn, Bool.false_eq_true, if_false, List.length_append, List.length_singleton]; omega

/-- RETURNING is demanded exactly for :one/:many on data-modifying statements -/
theorem returning_required (cmd : String) (k : StmtKind) (ret : Bool) :
    validateCmd Gen.cmdNeedsReturning cmd k ret = false ↔
      ((cmd = ":one" ∨ cmd = ":many") ∧ (k = .insert ∨ k = .update ∨ k = .delete) ∧ ret = false) := by
  have hg : Gen.cmdNeedsReturning = [":many", ":one"] := by decide
  unfold validateCmd
  rw [hg]
  by_cases h1 : cmd = ":one"
  · subst h1; cases k <;> cases ret <;> simp
  · by_cases h2 : cmd = ":many"
    · subst h2; cases k <;> cases ret <;> simp
    · simp [h1, h2]

theorem translator_complete : Gen.untranslatable = [] := by decide

end Sqlc.C11
