import SqlcModel.Driver.Generate
import SqlcModel.Gen.Untranslatable
import SqlcModel.Config.Validate
import SqlcModel.Gen.ValidationFacts
/-
C12 — Generation is all-or-nothing with a truthful exit status.
For ANY list of packages and ANY placement of failing packages, given the loop shape read off the
current source (`genFacts`, regenerated).

"A package of the configuration is in error" includes the configuration itself: `Config/Validate.lean` models
v2ParseConfig's checks; `C12_config_accepted_iff` / `C12_config_fault_rejected` show that a fault in ANY gen
target of ANY entry rejects the configuration, `validation_sites` ties the model to the control skeleton of
the validation functions as the translator reads it off the source (every `return` with the guards above it),
and the correspondence stream runs config.ParseConfig next to the model on structured configurations (verdict
and error class must agree).
-/
set_option linter.unusedSimpArgs false
namespace Sqlc.C12
open Sqlc.Drv Sqlc.Cfg.V2

/-- O1: the loop of the current source has the shape the property needs: both failure branches set
`errored`, the gate follows the loop and returns (nil, error), output is only written on the success
path and only returned when nothing errored; genCmd/checkCmd exit non-zero on error, genCmd writes only
after the check and checkCmd never writes. -/
theorem loop_shape : genFacts.sound = true ∧ Gen.genCmdExitsOnError = true ∧
    Gen.genCmdWritesOnlyAfterCheck = true ∧ Gen.checkCmdExitsOnError = true ∧ Gen.checkCmdWriteCalls = 0 := by decide

theorem runLoop_errored_mono (f : LoopFacts) : ∀ (ps : List PkgOutcome) (st : LoopState),
    st.errored = true → (runLoop f ps st).errored = true
  | [], _, h => h
  | .ok fs :: ps, st, h => by
    simp only [runLoop, loopStep, if_true]
    exact runLoop_errored_mono f ps _ h
  | .parseFail :: ps, st, h => by
    simp only [runLoop, loopStep]
    by_cases hb : (f.parseFailAction != Action.brk) = true
    · simp only [hb, if_true]; exact runLoop_errored_mono f ps _ (by simp [h])
    · simp [hb, h]
  | .genFail :: ps, st, h => by
    simp only [runLoop, loopStep]
    by_cases hb : (f.genFailAction != Action.brk) = true
    · simp only [hb, if_true]; exact runLoop_errored_mono f ps _ (by simp [h])
    · simp [hb, h]

theorem runLoop_diags_mono (f : LoopFacts) : ∀ (ps : List PkgOutcome) (st : LoopState),
    st.diags ≤ (runLoop f ps st).diags
  | [], _ => Nat.le_refl _
  | .ok fs :: ps, st => by
    simp only [runLoop, loopStep, if_true]
    exact runLoop_diags_mono f ps { st with output := insertFiles st.output fs }
  | .parseFail :: ps, st => by
    simp only [runLoop, loopStep]
    by_cases hb : (f.parseFailAction != Action.brk) = true
    · simp only [hb, if_true]; exact Nat.le_trans (by simp) (runLoop_diags_mono f ps _)
    · simp [hb]
  | .genFail :: ps, st => by
    simp only [runLoop, loopStep]
    by_cases hb : (f.genFailAction != Action.brk) = true
    · simp only [hb, if_true]; exact Nat.le_trans (by simp) (runLoop_diags_mono f ps _)
    · simp [hb]

/-- all packages fine ⇒ the loop reaches the end with the union of all files and no error -/
theorem runLoop_allOk (f : LoopFacts) : ∀ (ps : List PkgOutcome) (st : LoopState), allOk ps = true →
    runLoop f ps st = { st with output := unionFiles ps st.output }
  | [], st, _ => rfl
  | .ok fs :: ps, st, h => by
    simp only [runLoop, loopStep, if_true]
    rw [runLoop_allOk f ps _ (by simpa [allOk] using h)]
    simp [unionFiles]
  | .parseFail :: _, _, h => by simp [allOk] at h
  | .genFail :: _, _, h => by simp [allOk] at h

/-- some package fails ⇒ `errored` is set when the loop ends (whether it breaks or continues) -/
theorem runLoop_notAllOk (f : LoopFacts) (hs : f.sound = true) : ∀ (ps : List PkgOutcome) (st : LoopState),
    allOk ps = false → (runLoop f ps st).errored = true ∧ st.diags + 1 ≤ (runLoop f ps st).diags
  | [], _, h => by simp [allOk] at h
  | .ok fs :: ps, st, h => by
    simp only [runLoop, loopStep, if_true]
    exact runLoop_notAllOk f hs ps _ (by simpa [allOk] using h)
  | .parseFail :: ps, st, _ => by
    simp only [LoopFacts.sound, Bool.and_eq_true] at hs
    have h1 : f.parseFailSetsErrored = true := hs.1.1.1.1.1.1.1
    simp only [runLoop, loopStep, h1, Bool.or_true]
    by_cases hb : (f.parseFailAction != Action.brk) = true
    · simp only [hb, if_true]
      exact ⟨runLoop_errored_mono f ps _ rfl,
        runLoop_diags_mono f ps { output := st.output, errored := true, diags := st.diags + 1 }⟩
    · simp [hb]
  | .genFail :: ps, st, _ => by
    simp only [LoopFacts.sound, Bool.and_eq_true] at hs
    have h1 : f.genFailSetsErrored = true := hs.1.1.1.1.1.1.2
    simp only [runLoop, loopStep, h1, Bool.or_true]
    by_cases hb : (f.genFailAction != Action.brk) = true
    · simp only [hb, if_true]
      exact ⟨runLoop_errored_mono f ps _ rfl,
        runLoop_diags_mono f ps { output := st.output, errored := true, diags := st.diags + 1 }⟩
    · simp [hb]

/-- C12: for every package list, output is produced iff every package is fine, and then it is the
complete file set of every package; otherwise nothing is returned and at least one diagnostic was
printed. Holds for any `break`/`continue` choice in the two failure branches. -/
theorem C12_all_or_nothing (f : LoopFacts) (hs : f.sound = true) (pkgs : List PkgOutcome) :
    (allOk pkgs = true → generate f pkgs = (some (unionFiles pkgs []), 0)) ∧
    (allOk pkgs = false → (generate f pkgs).1 = none ∧ 1 ≤ (generate f pkgs).2) := by
  have hgate : f.gateAfterLoop = true := by
    simp only [LoopFacts.sound, Bool.and_eq_true] at hs; exact hs.1.1.1.1.1.2
  constructor
  · intro h
    unfold generate
    rw [runLoop_allOk f pkgs {} h]
    simp
  · intro h
    unfold generate
    have := runLoop_notAllOk f hs pkgs {} h
    simp only [hgate, this.1, Bool.and_self, if_true]
    refine ⟨trivial, ?_⟩
    have h2 := this.2
    simpa using h2

/-- instantiated with the loop of the current source -/
theorem C12 (pkgs : List PkgOutcome) :
    (allOk pkgs = true → generate genFacts pkgs = (some (unionFiles pkgs []), 0)) ∧
    (allOk pkgs = false → (generate genFacts pkgs).1 = none ∧ 1 ≤ (generate genFacts pkgs).2) :=
  C12_all_or_nothing genFacts loop_shape.1 pkgs

/-- non-vacuity -/
example : generate genFacts [.ok [("a/db.go", "x")], .genFail, .ok [("b/db.go", "y")]] = (none, 1) := by decide
example : generate genFacts [.ok [("a/db.go", "x")], .ok [("b/db.go", "y")]] =
    (some [("a/db.go", "x"), ("b/db.go", "y")], 0) := by decide

/-! ### configuration validation (version 2) -/

/-- the control skeleton of v2ParseConfig as audited: one return per check, every per-entry check inside
`range conf.SQL` and under the guard of ITS OWN gen target only, no return between the targets of an entry -/
def expectedV2Paths : List (List String × String) := [
  (["if err := dec.Decode(&conf); err != nil"], "conf, err"),
  (["if conf.Version == \"\""], "conf, ErrMissingVersion"),
  (["if conf.Version != \"2\""], "conf, ErrUnknownVersion"),
  (["if len(conf.SQL) == 0"], "conf, ErrNoPackages"),
  (["if err := conf.validateGlobalOverrides(); err != nil"], "conf, err"),
  (["if conf.Gen.Go != nil", "range conf.Gen.Go.Overrides", "if err := conf.Gen.Go.Overrides[i].Parse(); err != nil"], "conf, err"),
  (["range conf.SQL", "if conf.SQL[j].Engine == \"\""], "conf, ErrMissingEngine"),
  (["range conf.SQL", "switch conf.SQL[j].Engine default"], "conf, ErrUnknownEngine"),
  (["range conf.SQL", "if conf.SQL[j].Gen.Go != nil", "if conf.SQL[j].Gen.Go.Out == \"\""], "conf, ErrNoPackagePath"),
  (["range conf.SQL", "if conf.SQL[j].Gen.Go != nil", "range conf.SQL[j].Gen.Go.Overrides", "if err := conf.SQL[j].Gen.Go.Overrides[i].Parse(); err != nil"], "conf, err"),
  (["range conf.SQL", "if conf.SQL[j].Gen.Kotlin != nil", "if conf.SQL[j].Gen.Kotlin.Out == \"\""], "conf, ErrKotlinNoOutPath"),
  (["range conf.SQL", "if conf.SQL[j].Gen.Kotlin != nil", "if conf.SQL[j].Gen.Kotlin.Package == \"\""], "conf, ErrNoPackageName"),
  (["range conf.SQL", "if conf.SQL[j].Gen.Python != nil", "range conf.SQL[j].Gen.Python.Overrides", "if err := conf.SQL[j].Gen.Python.Overrides[i].Parse(); err != nil"], "conf, err"),
  ([], "conf, nil")]

def expectedV1Paths : List (List String × String) := [
  (["if err := dec.Decode(&settings); err != nil"], "config, err"),
  (["if settings.Version == \"\""], "config, ErrMissingVersion"),
  (["if settings.Version != \"1\""], "config, ErrUnknownVersion"),
  (["if len(settings.Packages) == 0"], "config, ErrNoPackages"),
  (["if err := settings.ValidateGlobalOverrides(); err != nil"], "config, err"),
  (["range settings.Overrides", "if err := settings.Overrides[i].Parse(); err != nil"], "config, err"),
  (["range settings.Packages", "if settings.Packages[j].Path == \"\""], "config, ErrNoPackagePath"),
  (["range settings.Packages", "range settings.Packages[j].Overrides", "if err := settings.Packages[j].Overrides[i].Parse(); err != nil"], "config, err"),
  (["range settings.Packages", "switch settings.Packages[j].Engine default"], "config, ErrUnknownEngine"),
  ([], "settings.Translate(), nil")]

/-- O2 (regenerated): the validation functions of the current source have the audited skeletons -/
theorem validation_sites : Gen.v2ParsePaths = expectedV2Paths ∧ Gen.v1ParsePaths = expectedV1Paths := by decide

/-- the version dispatcher, the engine-tag rule for global overrides and Override.Parse, likewise -/
theorem validation_sites_rest :
    Gen.parseConfigPaths = [
      (["if err := dec.Decode(&version); err != nil"], "config, err"),
      (["if version.Number == \"\""], "config, ErrMissingVersion"),
      (["switch version.Number case \"1\""], "v1ParseConfig(&buf)"),
      (["switch version.Number case \"2\""], "v2ParseConfig(&buf)"),
      (["switch version.Number default"], "config, ErrUnknownVersion")
    ] ∧
    Gen.v2GlobalOverridePaths = [
      (["if c.Gen.Go == nil"], "nil"),
      (["range c.Gen.Go.Overrides", "if usesMultipleEngines && oride.Engine == \"\""], "fmt.Errorf(`the \"engine\" field is required for global type overrides because your configuration uses multiple database engines`)"),
      ([], "nil")
    ] ∧
    Gen.overrideParsePaths = [
      (["if o.Deprecated_PostgresType != \"\"", "if o.DBType != \"\""], "fmt.Errorf(`Type override configurations cannot have \"db_type\" and \"postres_type\" together. Use \"db_type\" alone`)"),
      (["switch  case o.Column != \"\" && o.DBType != \"\""], "fmt.Errorf(\"Override specifying both `column` (%q) and `db_type` (%q) is not valid.\", o.Column, o.DBType)"),
      (["switch  case o.Column == \"\" && o.DBType == \"\""], "fmt.Errorf(\"Override must specify one of either `column` or `db_type`\")"),
      (["if o.Column != \"\"", "switch len(colParts) default"], "fmt.Errorf(\"Override `column` specifier %q is not the proper format, expected '[catalog.][schema.]colname.tablename'\", o.Column)"),
      (["if err != nil"], "err"),
      ([], "nil")
    ] := ⟨rfl, rfl, rfl⟩

theorem checkGo_none_iff (g : Option GoT) :
    checkGo g = none ↔ goOk g = true := by
  cases g with
  | none => simp [checkGo, goOk]
  | some g =>
    unfold checkGo goOk
    by_cases h1 : g.out = "" <;> by_cases h2 : g.overridesOk = true <;> simp [h1, h2]

theorem checkKotlin_none_iff (k : Option KtT) :
    checkKotlin k = none ↔ kotlinOk k = true := by
  cases k with
  | none => simp [checkKotlin, kotlinOk]
  | some k =>
    unfold checkKotlin kotlinOk
    by_cases h1 : k.out = "" <;> by_cases h2 : k.pkg = "" <;> simp [h1, h2]

theorem checkPython_none_iff (p : Option PyT) :
    checkPython p = none ↔ pythonOk p = true := by
  cases p with
  | none => simp [checkPython, pythonOk]
  | some p =>
    unfold checkPython pythonOk
    by_cases h2 : p.overridesOk = true <;> simp [h2]

theorem validateEntry_none_iff (e : Entry) : validateEntry e = none ↔ entryOk e = true := by
  unfold validateEntry entryOk
  simp only [Bool.and_eq_true]
  rw [← checkGo_none_iff, ← checkKotlin_none_iff, ← checkPython_none_iff]
  by_cases h1 : e.engine = ""
  · simp [h1]
  by_cases h2 : e.engine ∈ knownEngines
  · cases hg : checkGo e.go with
    | some x => simp [h1, h2]
    | none =>
      cases hk : checkKotlin e.kotlin with
      | some x => simp [h1, h2]
      | none => simp [h1, h2]
  · simp [h1, h2]

theorem validateEntries_none_iff : ∀ (es : List Entry), validateEntries es = none ↔ ∀ e ∈ es, entryOk e = true
  | [] => by simp [validateEntries]
  | e :: es => by
    unfold validateEntries
    cases h : validateEntry e with
    | some x =>
      have : ¬ entryOk e = true := fun hk => by rw [(validateEntry_none_iff e).mpr hk] at h; cases h
      simp [this]
    | none =>
      have hk := (validateEntry_none_iff e).mp h
      simp [hk, validateEntries_none_iff es]

/-- **C12 (configuration).** A version-2 configuration is accepted iff its header is in order and EVERY gen
target of EVERY entry is; so a fault in any target of any entry — the second target of an entry, the last
entry of the list — rejects the whole configuration before anything is compiled or written. -/
theorem C12_config_accepted_iff (c : Conf) :
    parse c = none ↔
      (c.version = "2" ∧ c.entries ≠ [] ∧
       ¬ (c.hasGlobalGo = true ∧ usesMultipleEngines c.entries = true ∧ c.globalUntagged = true) ∧
       ¬ (c.hasGlobalGo = true ∧ c.globalOverridesOk = false) ∧
       ∀ e ∈ c.entries, entryOk e = true) := by
  unfold parse
  by_cases hv0 : (c.version == "") = true
  · rw [if_pos hv0]
    have : c.version = "" := by simpa using hv0
    simp [this]
  rw [if_neg hv0]
  by_cases hv : (c.version != "2") = true
  · rw [if_pos hv]
    have : ¬ c.version = "2" := by simpa using hv
    simp [this]
  rw [if_neg hv]
  have hv2 : c.version = "2" := by simpa using hv
  by_cases he : c.entries.isEmpty = true
  · rw [if_pos he]
    have : c.entries = [] := by simpa using he
    simp [this]
  rw [if_neg he]
  have he2 : c.entries ≠ [] := by simpa using he
  by_cases hg : (c.hasGlobalGo && usesMultipleEngines c.entries && c.globalUntagged) = true
  · rw [if_pos hg]
    have : c.hasGlobalGo = true ∧ usesMultipleEngines c.entries = true ∧ c.globalUntagged = true := by
      simpa [Bool.and_eq_true, and_assoc] using hg
    simp [this]
  rw [if_neg hg]
  have hg2 : ¬ (c.hasGlobalGo = true ∧ usesMultipleEngines c.entries = true ∧ c.globalUntagged = true) := by
    intro h; apply hg; simp [h.1, h.2.1, h.2.2]
  by_cases ho : (c.hasGlobalGo && !c.globalOverridesOk) = true
  · rw [if_pos ho]
    have : c.hasGlobalGo = true ∧ c.globalOverridesOk = false := by simpa using ho
    simp [this]
  rw [if_neg ho]
  have ho2 : ¬ (c.hasGlobalGo = true ∧ c.globalOverridesOk = false) := by
    intro h; apply ho; simp [h.1, h.2]
  rw [validateEntries_none_iff]
  exact ⟨fun h => ⟨hv2, he2, hg2, ho2, h⟩, fun h => h.2.2.2.2⟩

theorem C12_config_fault_rejected (c : Conf) (e : Entry) (he : e ∈ c.entries) (hf : entryOk e = false) :
    (parse c).isSome = true := by
  cases h : parse c with
  | some _ => rfl
  | none =>
    have := ((C12_config_accepted_iff c).mp h).2.2.2.2 e he
    rw [hf] at this; cases this

/-- non-vacuity: a two-target entry whose SECOND target is at fault, behind a fine entry -/
def wFine : Entry := ⟨"postgresql", some ⟨"db", "db", true⟩, none, none⟩
def wSecondTargetBad : Entry := ⟨"postgresql", some ⟨"db2", "db2", true⟩, some ⟨"kt", ""⟩, none⟩
def wAllTargets : Entry := ⟨"postgresql", some ⟨"db", "db", true⟩, some ⟨"kt", "p"⟩, some ⟨true⟩⟩
example : parse ⟨"2", false, false, true, [wFine, wSecondTargetBad]⟩ = some .noPackageName := by decide
example : parse ⟨"2", false, false, true, [wAllTargets]⟩ = none := by decide

theorem translator_complete : Gen.untranslatable = [] := by decide

end Sqlc.C12
