import SqlcModel.Driver.Generate
import SqlcModel.Gen.Untranslatable
/-
C12 — Generation is all-or-nothing with a truthful exit status.
For ANY list of packages and ANY placement of failing packages, given the loop shape read off the
current source (`genFacts`, regenerated).
-/
set_option linter.unusedSimpArgs false
namespace Sqlc.C12
open Sqlc.Drv

/-- O1: the loop of the current source has the shape the property needs: both failure branches set
`errored`, the gate follows the loop and returns (nil, error), output is only written on the success
path and only returned when nothing errored; genCmd/checkCmd exit non-zero on error, genCmd writes only
after the check and checkCmd never writes. -/
theorem loop_shape : genFacts.sound = true ∧ Gen.genCmdExitsOnError = true ∧
    Gen.genCmdWritesOnlyAfterCheck = true ∧ Gen.checkCmdExitsOnError = true ∧ Gen.checkCmdWriteCalls = 0 := by decide

theorem runLoop_errored_mono (f : LoopFacts) : ∀ (ps : List PkgOutcome) (st : LoopState),
    st.errored = true → (runLoop f ps st).errored = true
  | [], _, h => h
  | .ok fs :: ps, st, h => by
    simp only [runLoop, loopStep, if_true]
    exact runLoop_errored_mono f ps _ h
  | .parseFail :: ps, st, h => by
    simp only [runLoop, loopStep]
    by_cases hb : (f.parseFailAction != Action.brk) = true
    · simp only [hb, if_true]; exact runLoop_errored_mono f ps _ (by simp [h])
    · simp [hb, h]
  | .genFail :: ps, st, h => by
    simp only [runLoop, loopStep]
    by_cases hb : (f.genFailAction != Action.brk) = true
    · simp only [hb, if_true]; exact runLoop_errored_mono f ps _ (by simp [h])
    · simp [hb, h]

theorem runLoop_diags_mono (f : LoopFacts) : ∀ (ps : List PkgOutcome) (st : LoopState),
    st.diags ≤ (runLoop f ps st).diags
  | [], _ => Nat.le_refl _
  | .ok fs :: ps, st => by
    simp only [runLoop, loopStep, if_true]
    exact runLoop_diags_mono f ps { st with output := insertFiles st.output fs }
  | .parseFail :: ps, st => by
    simp only [runLoop, loopStep]
    by_cases hb : (f.parseFailAction != Action.brk) = true
    · simp only [hb, if_true]; exact Nat.le_trans (by simp) (runLoop_diags_mono f ps _)
    · simp [hb]
  | .genFail :: ps, st => by
    simp only [runLoop, loopStep]
    by_cases hb : (f.genFailAction != Action.brk) = true
    · simp only [hb, if_true]; exact Nat.le_trans (by simp) (runLoop_diags_mono f ps _)
    · simp [hb]

/-- all packages fine ⇒ the loop reaches the end with the union of all files and no error -/
theorem runLoop_allOk (f : LoopFacts) : ∀ (ps : List PkgOutcome) (st : LoopState), allOk ps = true →
    runLoop f ps st = { st with output := unionFiles ps st.output }
  | [], st, _ => rfl
  | .ok fs :: ps, st, h => by
    simp only [runLoop, loopStep, if_true]
    rw [runLoop_allOk f ps _ (by simpa [allOk] using h)]
    simp [unionFiles]
  | .parseFail :: _, _, h => by simp [allOk] at h
  | .genFail :: _, _, h => by simp [allOk] at h

/-- some package fails ⇒ `errored` is set when the loop ends (whether it breaks or continues) -/
theorem runLoop_notAllOk (f : LoopFacts) (hs : f.sound = true) : ∀ (ps : List PkgOutcome) (st : LoopState),
    allOk ps = false → (runLoop f ps st).errored = true ∧ st.diags + 1 ≤ (runLoop f ps st).diags
  | [], _, h => by simp [allOk] at h
  | .ok fs :: ps, st, h => by
    simp only [runLoop, loopStep, if_true]
    exact runLoop_notAllOk f hs ps _ (by simpa [allOk] using h)
  | .parseFail :: ps, st, _ => by
    simp only [LoopFacts.sound, Bool.and_eq_true] at hs
    have h1 : f.parseFailSetsErrored = true := hs.1.1.1.1.1.1.1
    simp only [runLoop, loopStep, h1, Bool.or_true]
    by_cases hb : (f.parseFailAction != Action.brk) = true
    · simp only [hb, if_true]
      exact ⟨runLoop_errored_mono f ps _ rfl,
        runLoop_diags_mono f ps { output := st.output, errored := true, diags := st.diags + 1 }⟩
    · simp [hb]
  | .genFail :: ps, st, _ => by
    simp only [LoopFacts.sound, Bool.and_eq_true] at hs
    have h1 : f.genFailSetsErrored = true := hs.1.1.1.1.1.1.2
    simp only [runLoop, loopStep, h1, Bool.or_true]
    by_cases hb : (f.genFailAction != Action.brk) = true
    · simp only [hb, if_true]
      exact ⟨runLoop_errored_mono f ps _ rfl,
        runLoop_diags_mono f ps { output := st.output, errored := true, diags := st.diags + 1 }⟩
    · simp [hb]

/-- C12: for every package list, output is produced iff every package is fine, and then it is the
complete file set of every package; otherwise nothing is returned and at least one diagnostic was
printed. Holds for any `break`/`continue` choice in the two failure branches. -/
theorem C12_all_or_nothing (f : LoopFacts) (hs : f.sound = true) (pkgs : List PkgOutcome) :
    (allOk pkgs = true → generate f pkgs = (some (unionFiles pkgs []), 0)) ∧
    (allOk pkgs = false → (generate f pkgs).1 = none ∧ 1 ≤ (generate f pkgs).2) := by
  have hgate : f.gateAfterLoop = true := by
    simp only [LoopFacts.sound, Bool.and_eq_true] at hs; exact hs.1.1.1.1.1.2
  constructor
  · intro h
    unfold generate
    rw [runLoop_allOk f pkgs {} h]
    simp
  · intro h
    unfold generate
    have := runLoop_notAllOk f hs pkgs {} h
    simp only [hgate, this.1, Bool.and_self, if_true]
    refine ⟨trivial, ?_⟩
    have h2 := this.2
    simpa using h2

/-- instantiated with the loop of the current source -/
theorem C12 (pkgs : List PkgOutcome) :
    (allOk pkgs = true → generate genFacts pkgs = (some (unionFiles pkgs []), 0)) ∧
    (allOk pkgs = false → (generate genFacts pkgs).1 = none ∧ 1 ≤ (generate genFacts pkgs).2) :=
  C12_all_or_nothing genFacts loop_shape.1 pkgs

/-- non-vacuity -/
example : generate genFacts [.ok [("a/db.go", "x")], .genFail, .ok [("b/db.go", "y")]] = (none, 1) := by decide
example : generate genFacts [.ok [("a/db.go", "x")], .ok [("b/db.go", "y")]] =
    (some [("a/db.go", "x"), ("b/db.go", "y")], 0) := by decide

theorem translator_complete : Gen.untranslatable = [] := by decide

end Sqlc.C12
