import SqlcModel.Text.Migrations
import SqlcModel.Spec.Migrations
import SqlcModel.Gen.Untranslatable
/-
C14 — Migration files: rollback parts ignored, lexical order, split-invariant.
Property theorems only.
-/
namespace Sqlc.C14
open Sqlc

/-- O1 (translator obligation): the literals in the Go source are the documented ones. -/
theorem markers_are_documented : Gen.rollbackMarkersB = Spec.docMarkers := by decide
theorem suffixes_are_documented :
    Gen.globSuffixB = Spec.docSqlSuffix ∧ Gen.downSuffixB = Spec.docDownSuffix ∧
    Gen.globHiddenPrefixB = Spec.docHiddenPrefix := by decide

/-- a near-miss line: starts with a marker's characters but is not a marker line
(the known finding `Trig_markerPrefix`) -/
def nearMiss (l : Bytes) : Bool := isMarker l && !Spec.isMarkerLine l

theorem markerLine_isMarker (l : Bytes) (h : Spec.isMarkerLine l = true) : isMarker l = true := by
  unfold Spec.isMarkerLine at h
  unfold isMarker
  rw [markers_are_documented]
  simp only [List.any_eq_true, Bool.and_eq_true] at h ⊢
  obtain ⟨m, hm, hp, _⟩ := h
  exact ⟨m, hm, hp⟩

/-- FULL statement: the kept text is exactly the lines before the first rollback-marker line. -/
def C14_rollback_full : Prop :=
  ∀ s : Bytes, removeRollback s = joinNL (Spec.upLines (scanLines s))

/-- PARTIAL (proved): the full statement holds for every file without a near-miss line. -/
theorem C14_rollback_partial (s : Bytes) (h : ∀ l ∈ scanLines s, nearMiss l = false) :
    removeRollback s = joinNL (Spec.upLines (scanLines s)) := by
  unfold removeRollback Spec.upLines
  congr 1
  generalize scanLines s = ls at h
  induction ls with
  | nil => rfl
  | cons l ls ih =>
    have hl := h l (by simp)
    have ih' := ih (fun x hx => h x (by simp [hx]))
    by_cases hm : isMarker l = true
    · have hs : Spec.isMarkerLine l = true := by
        unfold nearMiss at hl; simp [hm] at hl; exact hl
      simp [List.takeWhile, hm, hs]
    · have hs : Spec.isMarkerLine l = false := by
        cases hsl : Spec.isMarkerLine l with
        | false => rfl
        | true => exact absurd (markerLine_isMarker l hsl) hm
      simp only [Bool.not_eq_true] at hm
      simp [List.takeWhile, hm, hs, ih']

/-- witness that the hypothesis is forced: a near-miss line cuts the file (decided on the model). -/
def wNearMiss : Bytes := b! "CREATE TABLE a (id int);\n-- +goose Downgrade notes\nCREATE TABLE b (id int);"
theorem C14_rollback_witness :
    (removeRollback wNearMiss == joinNL (Spec.upLines (scanLines wNearMiss))) = false := by decide

/-- non-vacuity: a real migration with a marker satisfies the hypothesis and is cut. -/
def wGoose : Bytes := b! "-- +goose Up\nCREATE TABLE a (id int);\n-- +goose Down\nDROP TABLE a;\n"
example : (scanLines wGoose).all (fun l => !nearMiss l) = true ∧
    removeRollback wGoose = b! "-- +goose Up\nCREATE TABLE a (id int);" := by decide

/-- nothing that survives is a marker line; nothing before the first marker is lost -/
theorem C14_no_marker_survives (s : Bytes) :
    ∀ l ∈ (scanLines s).takeWhile (fun l => !isMarker l), Spec.isMarkerLine l = false := by
  intro l hl
  have := mem_takeWhile_pos hl
  cases hsl : Spec.isMarkerLine l with
  | false => rfl
  | true => simp [markerLine_isMarker l hsl] at this

theorem C14_unmarked_untouched (s : Bytes) (h : ∀ l ∈ scanLines s, isMarker l = false) :
    removeRollback s = joinNL (scanLines s) := by
  unfold removeRollback
  congr 1
  apply takeWhile_eq_self
  intro l hl; simp [h l hl]

/-! ### file selection -/

/-- Glob keeps exactly the expanded entries that pass the documented filter, in order. -/
def docKeep (p : Bytes) : Bool :=
  hasSuffix Spec.docSqlSuffix p && !(Spec.docHiddenPrefix.isPrefixOf (baseName p)) &&
  !(hasSuffix Spec.docDownSuffix (baseName p))

theorem keepFile_eq_docKeep : keepFile = docKeep := by
  funext p
  unfold keepFile docKeep isDown
  rw [suffixes_are_documented.1, suffixes_are_documented.2.1, suffixes_are_documented.2.2]

theorem C14_glob_filter (stat : Bytes → PathKind) (paths : List Bytes) :
    glob stat paths = (expandPaths stat paths).map (·.filter docKeep) := by
  unfold glob; rw [keepFile_eq_docKeep]

/-- listed paths keep list order: the expansion of `ps ++ qs` is the concatenation -/
theorem expandPaths_append (stat : Bytes → PathKind) (ps qs : List Bytes) (a b : List Bytes)
    (ha : expandPaths stat ps = .ok a) (hb : expandPaths stat qs = .ok b) :
    expandPaths stat (ps ++ qs) = .ok (a ++ b) := by
  induction ps generalizing a with
  | nil => simp [expandPaths] at ha; subst ha; simpa using hb
  | cons p ps ih =>
    simp only [List.cons_append, expandPaths] at ha ⊢
    cases hp : stat p with
    | missing => simp [hp] at ha
    | file =>
      simp only [hp] at ha ⊢
      cases he : expandPaths stat ps with
      | error e => simp [he, Except.map] at ha
      | ok a' =>
        simp [he, Except.map] at ha; subst ha
        simp [ih a' he, Except.map]
    | dir names =>
      simp only [hp] at ha ⊢
      cases he : expandPaths stat ps with
      | error e => simp [he, Except.map] at ha
      | ok a' =>
        simp [he, Except.map] at ha; subst ha
        simp [ih a' he, Except.map]

/-! ### split invariance of the catalog fold -/

theorem applyStmts_append {σ α ε : Type} (upd : σ → α → Except ε σ) (st : σ × List ε) (a b : List α) :
    applyStmts upd st (a ++ b) = applyStmts upd (applyStmts upd st a) b := by
  unfold applyStmts; rw [List.foldl_append]

/-- Cutting a history into consecutive files at statement boundaries never changes the catalog nor
the error list: `parseCatalog` over the files = one pass over their concatenation. -/
theorem C14_split_invariant {σ α ε : Type} (upd : σ → α → Except ε σ) (c : σ) (files : List (List α)) :
    parseCatalogFiles upd c files = applyStmts upd (c, []) files.flatten := by
  unfold parseCatalogFiles
  generalize (c, ([] : List ε)) = st
  induction files generalizing st with
  | nil => simp [applyStmts]
  | cons f fs ih => simp only [List.foldl_cons, List.flatten_cons, applyStmts_append]; exact ih _

/-- hence two arrangements of the same history agree, and empty files are irrelevant -/
theorem C14_arrangements_agree {σ α ε : Type} (upd : σ → α → Except ε σ) (c : σ)
    (f1 f2 : List (List α)) (h : f1.flatten = f2.flatten) :
    parseCatalogFiles upd c f1 = parseCatalogFiles upd c f2 := by
  rw [C14_split_invariant, C14_split_invariant, h]

/-- translator fail-closed obligation -/
theorem translator_complete : Gen.untranslatable = [] := by decide

end Sqlc.C14
