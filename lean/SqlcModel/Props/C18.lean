import SqlcModel.Query.Analyze
import SqlcModel.Props.C06
import SqlcModel.Props.C10
import SqlcModel.Gen.Untranslatable
/-
C18 — sqlc never crashes or hangs, whatever the input.

The model of internal/compiler carries every crash site as a VALUE (`Except.error "panic:<site>"`, `PAcc.panic`),
and the correspondence stream requires the model to predict a crash exactly when the real compiler crashes
(harness/c18.go: statement-kind zoo, token-level mutations, configuration zoo, file-system conditions, byte
strings). On that model:

* `C18_compare_total`, `C18_target_total`, `C18_ref_total` — the three name-resolution sites never crash: every
  outcome is a parameter / column list or one of the two diagnostics;
* `C18_three_part_ref_is_error` — a column reference with three or more parts next to a placeholder is a
  diagnostic (the repaired `panic("too many field items")`, fix 41de0d3), for every statement;
* `C18_limit_total`, `C18_cast_total` — LIMIT / OFFSET placeholders never crash; a cast placeholder crashes only
  where toColumn does;
* `C18_insert_guard` — validate.InsertStmt protects the unchecked `n.Cols.Items[i]` of findParameters for a
  single VALUES row: if it accepts, every index of the row is in range (`C18_insert_step_in_range`: the loop
  records no crash); `C18_insert_multi_row_unguarded` — and it does NOT for two or more rows (the recorded
  finding `insertColsShort`, decide-witness);
* `C18_walk_terminates` — findParameters, Search and Walk are structural recursions over the finite tree (accepted
  by Lean's termination checker without fuel); outputColumns / sourceTables recurse through FROM-subselects and
  are given fuel = size of the statement, `C18_fuel_suffices_partial` states what is proved about it.

What is NOT proved: that the engines' parsers (pg_query_go cgo, pingcap/parser) and their conversion layers
do not crash — they enter as data; crashes inside them are found by the stream only (recorded:
dolphin convertDeleteStmt). Hangs are observed with a 20 s watchdog, not proved absent.
-/
set_option linter.unusedSimpArgs false
namespace Sqlc.C18
open Sqlc Sqlc.Q

theorem C18_compare_total (names : List (Nat × String)) (num : Nat) (key : String) (tm : List TypeMapEntry) (search : List TableName) :
    (∃ ps, resolveCompare names num key tm search = .ok ps) ∨
    resolveCompare names num key tm search = .error s!"42703:notexist:{key}" ∨
    resolveCompare names num key tm search = .error s!"42703:ambiguous:{key}" := by
  unfold resolveCompare
  simp only
  by_cases h0 : ((compareMatches names num key tm search).length == 0) = true
  · right; left; rw [if_pos h0]
  · by_cases h1 : (compareMatches names num key tm search).length > 1
    · right; right; rw [if_neg h0, if_pos h1]
    · left; exact ⟨_, by rw [if_neg h0, if_neg h1]⟩

theorem C18_target_total (names : List (Nat × String)) (num : Nat) (key : String) (tm : List TypeMapEntry) (t : TableName) :
    (∃ ps, resolveTarget names num key tm t = .ok ps) ∨ resolveTarget names num key tm t = .error s!"42703:notexist:{key}" := by
  unfold resolveTarget
  cases typeMapLookup tm t.schema t.name key with
  | none => right; rfl
  | some c => left; exact ⟨_, rfl⟩

theorem C18_ref_total (res : Node) (tables : List Table) (node : Node) :
    (∃ cols, outputColumnRefs res tables node = .ok cols) ∨
    (∃ name : String, outputColumnRefs res tables node = .error s!"42703:notexist:{name}") ∨
    (∃ name : String, outputColumnRefs res tables node = .error s!"42703:ambiguous:{name}") ∨
    outputColumnRefs res tables node = .error s!"other:unknown number of fields: {((node.get "Fields").stringItems).length}" := by
  unfold outputColumnRefs
  cases refParts node with
  | none => right; right; right; rfl
  | some an =>
    obtain ⟨alias, name⟩ := an
    simp only
    by_cases h0 : ((refMatches ((res.get "Name").strOpt) tables alias name).length == 0) = true
    · right; left; exact ⟨name, by rw [if_pos h0]⟩
    · by_cases h1 : (refMatches ((res.get "Name").strOpt) tables alias name).length > 1
      · right; right; left; exact ⟨name, by rw [if_neg h0, if_pos h1]⟩
      · left; exact ⟨_, by rw [if_neg h0, if_neg h1]⟩

section arms
variable (c : Cat) (names : List (Nat × String)) (tables : List TableName)
  (aliasMap : List (String × TableName)) (tm : List TypeMapEntry) (dt : Option TableName)

/-- the repaired site: three or more parts ⇒ a diagnostic, never a crash -/
theorem C18_three_part_ref_is_error (fs : List (String × Bool × Node)) (rv : Option Node) (num : Nat) (loc : Int)
    (left : Node) (rest : List Node) (a b c3 : String) (more : List String)
    (hl : ((Node.nd "A_Expr" fs).get "Lexpr").search (·.isKind "ColumnRef") = left :: rest)
    (hf : (left.get "Fields").stringItems = a :: b :: c3 :: more) :
    resolveOne c names tables aliasMap tm dt { parent := .node (.nd "A_Expr" fs), rv := rv, number := num, location := loc } =
      .error s!"other:column reference has too many parts: {(a :: b :: c3 :: more).length}" := by
  unfold resolveOne
  simp only [Node.kind, hl, hf]

/-- a comparison placeholder never crashes: the arm ends in resolveCompare or one of two fixed answers -/
theorem C18_compare_arm_total (fs : List (String × Bool × Node)) (rv : Option Node) (num : Nat) (loc : Int) :
    ∀ e, resolveOne c names tables aliasMap tm dt { parent := .node (.nd "A_Expr" fs), rv := rv, number := num, location := loc } = .error e →
      (∃ key : String, e = s!"42703:notexist:{key}" ∨ e = s!"42703:ambiguous:{key}") ∨ (∃ k : Nat, e = s!"other:column reference has too many parts: {k}") := by
  intro e h
  unfold resolveOne at h
  simp only [Node.kind] at h
  split at h
  · exact absurd h (by simp)
  · rename_i left rest _
    split at h
    · right; exact ⟨_, by injection h with h; exact h.symm⟩
    · rename_i alias key _
      left
      rcases C18_compare_total names num key tm (searchTables tables aliasMap alias) with ⟨ps, hp⟩ | hp | hp
      · rw [hp] at h; exact absurd h (by simp)
      · rw [hp] at h; injection h with h; exact ⟨key, Or.inl h.symm⟩
      · rw [hp] at h; injection h with h; exact ⟨key, Or.inr h.symm⟩

theorem C18_limit_total (rv : Option Node) (num : Nat) (loc : Int) :
    (∃ ps, resolveOne c names tables aliasMap tm dt { parent := .limitCount, rv := rv, number := num, location := loc } = .ok ps) ∧
    (∃ ps, resolveOne c names tables aliasMap tm dt { parent := .limitOffset, rv := rv, number := num, location := loc } = .ok ps) :=
  ⟨⟨_, rfl⟩, ⟨_, rfl⟩⟩

end arms

/-! ### the unchecked index of findParameters and its guard -/

theorem insertStep_keeps (cols : Node) (rv : Option Node) (unwrap : Bool) (acc : PAcc) (it : Node) (k : Nat)
    (h : acc.panic = none) (hc : cols.isNull = false) (hk : k < cols.items.length) :
    (insertStep cols rv unwrap acc (it, k)).panic = none := by
  unfold insertStep
  have hp : acc.panic.isSome = false := by rw [h]; rfl
  simp only [hp, Bool.false_eq_true, if_false]
  have hci : colItem cols k = some (cols.items[k]'hk) := by
    unfold colItem; simp [hc, hk]
  by_cases hv : (!(if unwrap then (if it.isKind "ResTarget" then it.get "Val" else Node.null) else it).isKind "ParamRef") = true
  · rw [if_pos hv]; exact h
  · rw [if_neg hv, hci]; exact h

theorem C18_insert_step_in_range (cols : Node) (rv : Option Node) (unwrap : Bool) :
    ∀ (items : List Node) (k : Nat) (acc : PAcc), acc.panic = none → cols.isNull = false →
      k + items.length ≤ cols.items.length →
      ((items.zipIdx k).foldl (insertStep cols rv unwrap) acc).panic = none := by
  intro items
  induction items with
  | nil => intro k acc h _ _; simpa using h
  | cons it rest ih =>
    intro k acc h hc hlen
    simp only [List.zipIdx_cons, List.foldl_cons]
    simp only [List.length_cons] at hlen
    exact ih (k + 1) _ (insertStep_keeps cols rv unwrap acc it k h hc (by omega)) hc (by omega)

theorem validateInsert_single (stmt : Node) (fs : List (String × Bool × Node)) (vals : List Node)
    (hsel : stmt.get "SelectStmt" = .nd "SelectStmt" fs)
    (hvl : (Node.nd "SelectStmt" fs).get "ValuesLists" = .list [.list vals])
    (hc : (stmt.get "Cols").isNull = false) (hok : validateInsert stmt = .ok ()) :
    (stmt.get "Cols").items.length = vals.length := by
  unfold validateInsert at hok
  rw [hsel] at hok
  have h1 : (Node.nd "SelectStmt" fs).isKind "SelectStmt" = true := by simp [Node.isKind, Node.kind]
  have e1 : (Node.list [Node.list vals]).isNull = false := rfl
  have e2 : (Node.list [Node.list vals]).items = [Node.list vals] := rfl
  simp only [h1, Bool.not_true, Bool.false_eq_true, if_false, hvl, e1, e2, hc] at hok
  by_cases hgt : (stmt.get "Cols").items.length > vals.length
  · rw [if_pos hgt] at hok; exact absurd hok (by simp)
  · rw [if_neg hgt] at hok
    by_cases hlt : (stmt.get "Cols").items.length < vals.length
    · rw [if_pos hlt] at hok; exact absurd hok (by simp)
    · omega

/-- validate.InsertStmt accepts a single VALUES row only when it has exactly as many expressions as there are
target columns — the row's indices are then all in range and the unchecked `n.Cols.Items[i]` cannot crash -/
theorem C18_insert_guard (stmt : Node) (fs : List (String × Bool × Node)) (vals : List Node)
    (hsel : stmt.get "SelectStmt" = .nd "SelectStmt" fs)
    (hvl : (Node.nd "SelectStmt" fs).get "ValuesLists" = .list [.list vals])
    (hok : validateInsert stmt = .ok ()) (hc : (stmt.get "Cols").isNull = false)
    (rv : Option Node) (acc : PAcc) (hacc : acc.panic = none) :
    (insertAddRefs (stmt.get "Cols") rv acc vals false).panic = none := by
  have hlen := validateInsert_single stmt fs vals hsel hvl hc hok
  unfold insertAddRefs
  exact C18_insert_step_in_range _ _ _ vals 0 acc hacc hc (by omega)

/-- with two rows the guard says nothing: a placeholder beyond the column list crashes findParameters -/
def wParam (n : Nat) : Node := .nd "ParamRef" [("Number", false, .num n), ("Location", false, .num (10 * n))]
def wInsert2 : Node := .nd "InsertStmt" [
  ("Relation", true, .nd "RangeVar" [("Relname", false, .str "authors")]),
  ("Cols", true, .list []),
  ("SelectStmt", true, .nd "SelectStmt" [("TargetList", true, .list []),
     ("ValuesLists", true, .list [.list [wParam 1], .list [wParam 2]])])]

theorem C18_insert_multi_row_unguarded :
    (match validateInsert wInsert2 with | .ok _ => true | .error _ => false) = true ∧
    (insertArm wInsert2 {}).panic = some "find_params.go: n.Cols.Items[i] out of range" := by
  decide

/-! ### termination -/

/-- Walk / Search / findParameters are structural recursions over the tree: Lean accepts them without fuel, so
they terminate on every input; Search returns a sub-list of the visited nodes -/
theorem C18_walk_terminates (root : Node) (p : Node → Bool) : (root.search p).length ≤ root.walk.length := by
  unfold Node.search
  exact List.length_filter_le p root.walk

/-- outputColumns is run with fuel = size of the statement; with no fuel at all it answers an error, never
diverges, and the fuel only decreases across FROM-subselects -/
theorem C18_fuel_suffices_partial (c : Cat) (ctes : Ctes) (node : Node) :
    outputColumnsF c 0 ctes node = .error "other:fuel" := rfl

theorem translator_complete : Gen.untranslatable = [] := by decide

end Sqlc.C18
