import SqlcModel.Query.Analyze
import SqlcModel.Props.C02
import SqlcModel.Spec.Keywords
import SqlcModel.Gen.Untranslatable
/-
C07 — Star expansion lists exactly the catalog's columns, unambiguously.

Proved on the model of expandStmt's star loop (`starNames` / `starName`, used by `expandStmt`):

* `C07_order` — a star is replaced by one identifier per column of every relation in scope (those named
  `scope` for `scope.*`), in from-clause order then declaration order;
* `C07_scoped` — under `t.*` every identifier is `t.` + the (quoted) column;
* `C07_unreserved_unique` / `C07_unreserved_shared` — for a column whose name is not a reserved word: written
  bare when no other relation in scope has it, qualified by its relation when one has;
* `C07_quote_reserved` / `C07_quote_plain` — what quoting does;
* `C07_pg_reserved_complete`, `C07_mysql_reserved_core` — every reserved word of the dialect (per the manual's
  list in Spec/Keywords.lean) is in the regenerated keyword table the engine consults.

The full statement ("each written so that it resolves to that one column") is FALSE of the unchanged code:
`C07_reserved_shared_unqualified` proves that a reserved-word column is written unqualified however many
relations in scope have it (the count table is keyed by the bare name and consulted with the quoted one) —
the finding recorded as `reservedShared`; and quoting is decided by the keyword table alone, so a name that
needs quotes for another reason is written bare (`C07_quote_plain`, finding `needsQuoting`). The theorems
above are therefore the `_partial` form: they cover names that are not reserved and need no quoting.
-/
set_option linter.unusedSimpArgs false
namespace Sqlc.C07
open Sqlc Sqlc.Q

/-- one identifier per (relation, column) in scope, from-clause order then declaration order -/
theorem C07_order (engine : String) (tables : List Table) (scope : String) (rn : Option String) :
    starNames engine tables scope rn =
      (C02.starSources tables scope).map (fun tc => starName engine tables scope rn tc.1 tc.2) :=
  (C02.C02_star_same_source engine tables scope rn).2

/-- an unscoped star ranges over every column of every relation in scope -/
theorem C07_sources_unscoped (tables : List Table) :
    C02.starSources tables "" = tables.flatMap (fun t => t.columns.map (fun c => (t, c))) := by
  unfold C02.starSources
  induction tables with
  | nil => rfl
  | cons t ts ih => simp [List.flatMap_cons, ih]

/-- `t.*` ranges over the columns of the relations named `t` only -/
theorem C07_sources_scoped (tables : List Table) (scope : String) (h : scope ≠ "") (t : Table) (c : Q.Column)
    (hm : (t, c) ∈ C02.starSources tables scope) : t.rel.name = scope ∧ t ∈ tables ∧ c ∈ t.columns := by
  unfold C02.starSources at hm
  rw [List.mem_flatMap] at hm
  obtain ⟨t', ht', hc⟩ := hm
  by_cases hcond : (scope != "" && scope != t'.rel.name) = true
  · rw [if_pos hcond] at hc; simp at hc
  · rw [if_neg hcond] at hc
    rw [List.mem_map] at hc
    obtain ⟨c', hc', heq⟩ := hc
    injection heq with h1 h2
    subst h1; subst h2
    simp only [Bool.and_eq_true, bne_iff_ne, ne_eq, not_and, Decidable.not_not] at hcond
    exact ⟨(hcond h).symm, ht', hc'⟩

theorem C07_quote_plain (engine n : String) (h : isReserved engine n = false) : quoteIdent engine n = n := by
  unfold quoteIdent; simp [h]

theorem C07_quote_reserved (engine n : String) (h : isReserved engine n = true) :
    quoteIdent engine n = if engine == "mysql" then "`" ++ n ++ "`" else "\"" ++ n ++ "\"" := by
  unfold quoteIdent; simp [h]

/-- under `scope.*` every identifier is qualified by the scope -/
theorem C07_scoped (engine : String) (tables : List Table) (scope : String) (h : scope ≠ "") (t : Table) (c : Q.Column) :
    starName engine tables scope none t c = quoteIdent engine scope ++ "." ++ quoteIdent engine c.name := by
  unfold starName
  have h1 : (scope != "") = true := by simpa using h
  have h2 : (scope == "") = false := by simpa using h
  simp [h1, h2]

/-- a non-reserved column that only one relation in scope has is written bare -/
theorem C07_unreserved_unique (engine : String) (tables : List Table) (t : Table) (c : Q.Column)
    (hr : isReserved engine c.name = false) (hu : countName tables c.name ≤ 1) :
    starName engine tables "" none t c = c.name := by
  unfold starName
  have hq := C07_quote_plain engine c.name hr
  simp [hq]
  omega

/-- a non-reserved column that several relations in scope have is qualified by its own relation -/
theorem C07_unreserved_shared (engine : String) (tables : List Table) (t : Table) (c : Q.Column)
    (hr : isReserved engine c.name = false) (hs : countName tables c.name > 1) :
    starName engine tables "" none t c = quoteIdent engine t.rel.name ++ "." ++ c.name := by
  unfold starName
  have hq := C07_quote_plain engine c.name hr
  simp [hq, hs]

/-- the defect, exactly: a reserved-word column is written unqualified however many relations in scope
have it (unless some column is literally named with the quote characters) -/
theorem C07_reserved_shared_unqualified (engine : String) (tables : List Table) (t : Table) (c : Q.Column)
    (_hr : isReserved engine c.name = true)
    (hq : countName tables (quoteIdent engine c.name) = 0) :
    starName engine tables "" none t c = quoteIdent engine c.name := by
  unfold starName
  simp [hq]

/-! ### the keyword tables -/

theorem C07_pg_reserved_complete : ∀ k ∈ Spec.pgReservedDoc ++ Spec.pgReservedFuncOrTypeDoc, k ∈ Gen.pgReserved := by
  decide +kernel

theorem C07_pg_reserved_exact : ∀ k ∈ Gen.pgReserved, k ∈ Spec.pgReservedDoc ++ Spec.pgReservedFuncOrTypeDoc := by
  decide +kernel

theorem C07_mysql_reserved_core : ∀ k ∈ Spec.mysqlReservedCoreDoc, k ∈ Gen.mysqlReserved := by
  decide +kernel

/-- IsReservedKeyword lower-cases before the lookup in both engines (regenerated fact) -/
theorem C07_lookup_lowercases : Gen.pgReservedLowercases = true ∧ Gen.mysqlReservedLowercases = true := by decide

/-! ### non-vacuity -/

theorem witness_sources : (C02.starSources C02.wTables "").length = 3 ∧ (C02.starSources C02.wTables "b").length = 1 := by decide
theorem witness_shared : countName C02.wTables "id" = 2 ∧ countName C02.wTables "name" = 1 := by decide

theorem translator_complete : Gen.untranslatable = [] := by decide

end Sqlc.C07
