import SqlcModel.Driver.Isolation
import SqlcModel.Gen.Sites
import SqlcModel.Gen.Untranslatable
/-
C19 — Packages are compiled in isolation; concurrent runs do not interfere.
-/
set_option linter.unusedSimpArgs false
namespace Sqlc.C19
open Sqlc.Drv

/-- O1 (regenerated): no function reachable from cmd.Generate assigns to, locks, or takes the address
of a package-level variable (outside `init` and the declarations themselves) -/
theorem no_global_writes : Gen.globalWrites = [] := by decide

/-- run `i`'s final local state depends only on how many steps run `i` took -/
theorem exec_local {L G : Type} (s : Sys L G) (g : G) : ∀ (sched : List Nat) (locals : Nat → L) (i : Nat),
    s.exec g sched locals i = iter (fun l => s.step i l g) (sched.count i) (locals i)
  | [], _, _ => rfl
  | j :: rest, locals, i => by
    simp only [Sys.exec]
    rw [exec_local s g rest _ i]
    by_cases h : i = j
    · subst h; simp [List.count_cons, iter]
    · have h' : ¬ (j = i) := fun e => h e.symm
      simp [List.count_cons, h, h']

/-- C19 (non-interference): any two interleavings in which every run performs the same number of
steps leave every run with the same local state — in particular the fully serial schedule. Unbounded
in the number of runs and steps. -/
theorem C19_noninterference {L G : Type} (s : Sys L G) (g : G) (s1 s2 : List Nat) (locals : Nat → L)
    (h : ∀ i, s1.count i = s2.count i) : s.exec g s1 locals = s.exec g s2 locals := by
  funext i
  rw [exec_local, exec_local, h i]

/-- the serial schedule of runs 0..n-1 with `k i` steps each is one such interleaving -/
def serial (k : Nat → Nat) : Nat → List Nat
  | 0 => []
  | n + 1 => serial k n ++ List.replicate (k n) n

example {L G : Type} (s : Sys L G) (g : G) (locals : Nat → L) :
    s.exec g [0, 1, 0, 1, 1] locals = s.exec g (serial (fun i => if i = 0 then 2 else 3) 2) locals :=
  C19_noninterference s g _ _ locals (by intro i; simp [serial]; rcases i with _ | _ | i <;> simp [List.count_cons, List.count_replicate] <;> omega)

/-! ### isolation inside one run -/

/-- inserting a package's files leaves entries under other keys alone -/
theorem mem_insertFiles_other (out fs : Files) (k v : String) (hk : ∀ kv ∈ fs, kv.1 ≠ k) :
    (k, v) ∈ insertFiles out fs ↔ (k, v) ∈ out := by
  unfold insertFiles
  induction fs generalizing out with
  | nil => simp
  | cons kv rest ih =>
    simp only [List.foldl_cons]
    rw [ih _ (fun x hx => hk x (by simp [hx]))]
    have hne : kv.1 ≠ k := hk kv (by simp)
    simp only [List.mem_append, List.mem_filter, List.mem_singleton]
    constructor
    · rintro (⟨h, _⟩ | h)
      · exact h
      · exfalso; apply hne; rw [← h]
    · intro h; left; exact ⟨h, by simpa using fun e => hne e.symm⟩

/-- C19 (isolation, one direction): in a run in which every package is fine, a file under a key that
no LATER package writes is exactly what its own package generated there — whatever the other packages
declare, and in particular for every order of a list of packages with pairwise disjoint output
directories. -/
theorem C19_isolation (pre post : List PkgOutcome) (fs : Files) (k v : String)
    (hpost : ∀ p ∈ post, ∀ k' ∈ keysOf p, k' ≠ k) (out : Files) :
    (k, v) ∈ unionFiles (pre ++ .ok fs :: post) out ↔ (k, v) ∈ insertFiles (unionFiles pre out) fs := by
  induction pre generalizing out with
  | nil =>
    simp only [List.nil_append, unionFiles]
    generalize insertFiles out fs = o
    induction post generalizing o with
    | nil => simp [unionFiles]
    | cons p ps ih =>
      have hrest : ∀ q ∈ ps, ∀ k' ∈ keysOf q, k' ≠ k := fun q hq => hpost q (by simp [hq])
      cases p with
      | ok gs =>
        simp only [unionFiles]
        rw [ih hrest]
        apply mem_insertFiles_other
        intro kv hkv
        exact hpost (.ok gs) (by simp) kv.1 (by simp [keysOf]; exact ⟨kv.2, hkv⟩)
      | parseFail => simp only [unionFiles]; exact ih hrest o
      | genFail => simp only [unionFiles]; exact ih hrest o
  | cons p ps ih =>
    cases p with
    | ok gs => simp only [List.cons_append, unionFiles]; exact ih _
    | parseFail => simp only [List.cons_append, unionFiles]; exact ih _
    | genFail => simp only [List.cons_append, unionFiles]; exact ih _

theorem translator_complete : Gen.untranslatable = [] := by decide

end Sqlc.C19
