import SqlcModel.Query.Analyze
import SqlcModel.GoGen.Query
import SqlcModel.Gen.Untranslatable
import SqlcModel.Spec.PgSem
/-
C02 — Result-row shape matches what the embedded SQL returns.

What is proved on the model (internal/compiler output_columns.go / expand.go, codegen result.go / query.go):

* `C02_scan_arity` — whatever struct the method returns (a model struct that passed the reuse test or a
  fresh Row struct), the scan list has exactly one destination per inferred result column;
* `C02_star_agree` — for every `*` / `t.*` target the number of columns inferred (outputColumns' star arm)
  equals the number of identifiers the expansion writes into the embedded SQL (expandStmt's star loop),
  and position by position they come from the same column (`C02_star_same_source`): the two copies of the
  loop (the Go text says "This code is copied in func expand()") cannot drift apart without breaking this;
* `C02_ref_single`, `C02_ref_name` — a plain column reference contributes exactly one column, carrying the
  AS alias if there is one and the column's name otherwise.

What is NOT a theorem: that `sourceTables` puts exactly the database's relations in scope. It does not
(derived tables leak their inner relations — the finding recorded as `subselectLeak`); that half of the
property is decided by the correspondence stream against the PgSem oracle (Spec/PgSem.lean).
-/
set_option linter.unusedSimpArgs false
namespace Sqlc.C02
open Sqlc Sqlc.Q Sqlc.GoGen Sqlc.Spec.Sem

/-! ### the star arm of outputColumns and the star loop of expandStmt agree -/

theorem flatMap_cond_length {α β γ : Type} (l : List α) (p : α → Bool) (cols : α → List β)
    (f : α → β → γ) (g : α → β → String) :
    (l.flatMap (fun t => if p t then [] else (cols t).map (f t))).length =
    (l.flatMap (fun t => if p t then [] else (cols t).map (g t))).length := by
  induction l with
  | nil => rfl
  | cons t ts ih =>
    simp only [List.flatMap_cons, List.length_append, ih]
    by_cases h : p t = true
    · simp [h]
    · simp [h]

/-- one inferred column per identifier written, for every star target -/
theorem C02_star_agree (engine : String) (tables : List Table) (scope : String) (rn : Option String) :
    (starColumns tables scope rn).length = (starNames engine tables scope rn).length := by
  unfold starColumns starNames
  exact flatMap_cond_length tables (fun t => scope != "" && scope != t.rel.name) (fun t => t.columns) _ _

/-- the (table, column) pairs a star ranges over: from-clause order, then declaration order -/
def starSources (tables : List Table) (scope : String) : List (Table × Q.Column) :=
  tables.flatMap (fun t => if scope != "" && scope != t.rel.name then [] else t.columns.map (fun c => (t, c)))

theorem flatMap_cond_map {α β γ : Type} (l : List α) (p : α → Bool) (cols : α → List β) (f : α → β → γ) :
    (l.flatMap (fun t => if p t then [] else (cols t).map (f t))) =
    (l.flatMap (fun t => if p t then [] else (cols t).map (fun c => (t, c)))).map (fun tc => f tc.1 tc.2) := by
  induction l with
  | nil => rfl
  | cons t ts ih =>
    simp only [List.flatMap_cons, List.map_append, ih]
    by_cases h : p t = true
    · simp [h]
    · simp [h, List.map_map, Function.comp_def]

/-- position by position, the inferred column and the written identifier come from the same column of
the same relation -/
theorem C02_star_same_source (engine : String) (tables : List Table) (scope : String) (rn : Option String) :
    starColumns tables scope rn = (starSources tables scope).map (fun tc =>
      ({ name := rn.getD tc.2.name, scope := scope, table := tc.2.table, dataType := tc.2.dataType,
         notNull := tc.2.notNull, isArray := tc.2.isArray } : Q.Column)) ∧
    starNames engine tables scope rn = (starSources tables scope).map (fun tc => starName engine tables scope rn tc.1 tc.2) := by
  constructor
  · unfold starColumns starSources
    exact flatMap_cond_map tables (fun t => scope != "" && scope != t.rel.name) (fun t => t.columns) _
  · unfold starNames starSources
    exact flatMap_cond_map tables (fun t => scope != "" && scope != t.rel.name) (fun t => t.columns) _

/-- an unaliased `*` names its columns after the catalog's columns, in order -/
theorem C02_star_names (tables : List Table) :
    (starColumns tables "" none).map (·.name) = tables.flatMap (fun t => t.columns.map (·.name)) := by
  unfold starColumns
  induction tables with
  | nil => rfl
  | cons t ts ih =>
    simp only [List.flatMap_cons, List.map_append, ih]
    simp [List.map_map, Function.comp_def]

/-! ### plain column references -/

theorem ref_ok (res : Node) (tables : List Table) (node : Node) (cols : List Q.Column)
    (h : outputColumnRefs res tables node = .ok cols) :
    ∃ alias name, refParts node = some (alias, name) ∧
      cols = refMatches ((res.get "Name").strOpt) tables alias name ∧ cols.length = 1 := by
  unfold outputColumnRefs at h
  cases hp : refParts node with
  | none => rw [hp] at h; exact absurd h (by simp)
  | some an =>
    obtain ⟨alias, name⟩ := an
    rw [hp] at h
    simp only at h
    by_cases h0 : ((refMatches ((res.get "Name").strOpt) tables alias name).length == 0) = true
    · rw [if_pos h0] at h; exact absurd h (by simp)
    · rw [if_neg h0] at h
      by_cases h1 : (refMatches ((res.get "Name").strOpt) tables alias name).length > 1
      · rw [if_pos h1] at h; exact absurd h (by simp)
      · rw [if_neg h1] at h
        injection h with h
        refine ⟨alias, name, rfl, h.symm, ?_⟩
        rw [← h]
        simp only [beq_iff_eq] at h0
        omega

/-- a plain reference that is accepted contributes exactly one column -/
theorem C02_ref_single (res : Node) (tables : List Table) (node : Node) (cols : List Q.Column)
    (h : outputColumnRefs res tables node = .ok cols) : cols.length = 1 := by
  obtain ⟨_, _, _, _, hl⟩ := ref_ok res tables node cols h
  exact hl

theorem mem_refMatches (rn : Option String) (tables : List Table) (alias name : String) (c : Q.Column)
    (h : c ∈ refMatches rn tables alias name) :
    ∃ t ∈ tables, ∃ c0 ∈ t.columns, c0.name = name ∧ (alias = "" ∨ t.rel.name = alias) ∧
      c = ({ name := rn.getD c0.name, table := c0.table, dataType := c0.dataType, notNull := c0.notNull, isArray := c0.isArray } : Q.Column) := by
  unfold refMatches at h
  rw [List.mem_flatMap] at h
  obtain ⟨t, ht, hc⟩ := h
  by_cases hcond : (alias != "" && t.rel.name != alias) = true
  · rw [if_pos hcond] at hc; simp at hc
  · rw [if_neg hcond] at hc
    rw [List.mem_map] at hc
    obtain ⟨c0, hc0, hceq⟩ := hc
    rw [List.mem_filter] at hc0
    refine ⟨t, ht, c0, hc0.1, by simpa using hc0.2, ?_, hceq.symm⟩
    simp only [Bool.and_eq_true, bne_iff_ne, ne_eq, not_and, Decidable.not_not] at hcond
    by_cases ha : alias = ""
    · exact Or.inl ha
    · exact Or.inr (hcond ha)

/-- … and it carries the AS alias when there is one, the referenced column's name otherwise -/
theorem C02_ref_name (res : Node) (tables : List Table) (node : Node) (c : Q.Column)
    (h : outputColumnRefs res tables node = .ok [c]) :
    ∃ alias name, refParts node = some (alias, name) ∧
      c.name = ((res.get "Name").strOpt).getD name := by
  obtain ⟨alias, name, hp, hc, _⟩ := ref_ok res tables node [c] h
  refine ⟨alias, name, hp, ?_⟩
  have hm : c ∈ refMatches ((res.get "Name").strOpt) tables alias name := by rw [← hc]; simp
  obtain ⟨t, _, c0, _, hn, _, hceq⟩ := mem_refMatches _ _ _ _ _ hm
  rw [hceq]
  cases (res.get "Name").strOpt with
  | some n => rfl
  | none => simp [hn]

/-! ### the scan list -/

theorem c2sLoop_length (env : TypeEnv) : ∀ (cols : List GoColumn) (i : Nat) (s : List (String × Nat)) (x : List (Nat × Nat)),
    (c2sLoop env cols i s x).length = cols.length := by
  intro cols
  induction cols with
  | nil => intro i s x; simp [c2sLoop]
  | cons c cs ih => intro i s x; simp [c2sLoop, ih]

/-- the generated method scans exactly one destination per inferred result column, whether it returns a
model struct (reuse test passed) or a fresh Row struct -/
theorem C02_scan_arity (env : TypeEnv) (structs : List Struct) (m : String) (cs : List Q.Column) (h : cs ≠ []) :
    ((retOf env structs m cs).scan).length = cs.length := by
  match cs with
  | [] => exact absurd rfl h
  | [c] => simp [retOf, QueryValue.scan]
  | c :: d :: rest =>
    unfold retOf
    simp only
    cases hf : structs.find? (fun s => reuseMatch env s (c :: d :: rest)) with
    | some s =>
      have hm := List.find?_some hf
      unfold reuseMatch at hm
      simp only [Bool.and_eq_true, beq_iff_eq] at hm
      simp [QueryValue.scan, hm.1]
    | none =>
      simp [retOfFresh, QueryValue.scan, columnsToStruct, c2sLoop_length]

/-! ### non-vacuity -/

def wTables : List Table :=
  [{ rel := { name := "a" }, columns := [{ name := "id", dataType := "int8", notNull := true }, { name := "name", dataType := "text" }] },
   { rel := { name := "b" }, columns := [{ name := "id", dataType := "int8", notNull := true }] }]

theorem witness_star : (starColumns wTables "" none).map (·.name) = ["id", "name", "id"] ∧
    (starColumns wTables "b" none).map (·.name) = ["id"] := by decide

theorem witness_star_names : (starNames "postgresql" wTables "" none).length = 3 := by
  rw [← C02_star_agree]; decide

/-! ### one query level as the database sees it -/

/-- one query level as the database sees it, built from the model's tables in scope -/
def colInfoOf (c : Q.Column) : ColInfo := { name := c.name, dataType := c.dataType, notNull := c.notNull, isArray := c.isArray }
def relOf (t : Table) : Rel := { qual := t.rel.name, cols := t.columns.map colInfoOf }
def levelOf (tables : List Table) : Scope := tables.map relOf

/-! ### one query level: star expansion refines the database's rule -/

theorem star_names_all (tables : List Table) :
    (starColumns tables "" none).map (·.name) = ((levelOf tables).flatMap (·.cols)).map (·.name) := by
  unfold starColumns levelOf
  induction tables with
  | nil => rfl
  | cons t ts ih =>
    simp only [List.flatMap_cons, List.map_append, List.map_cons] at ih ⊢
    rw [ih]
    simp [relOf, colInfoOf, Function.comp_def]

theorem star_names_qualified (tables : List Table) (q : String) (hq : q ≠ "") :
    (starColumns tables q none).map (·.name) = (((levelOf tables).filter (·.qual == q)).flatMap (·.cols)).map (·.name) := by
  unfold starColumns levelOf
  induction tables with
  | nil => rfl
  | cons t ts ih =>
    simp only [List.flatMap_cons, List.map_append, List.map_cons, List.filter_cons] at ih ⊢
    rw [ih]
    by_cases h : t.rel.name = q
    · have h' : ¬ (q != t.rel.name) = true := by simp [h]
      simp [relOf, colInfoOf, h, hq, Function.comp_def]
    · have h' : (q != t.rel.name) = true := by simp; exact fun e => h e.symm
      simp [relOf, colInfoOf, h, hq, h', Function.comp_def]

/-- a level built from the model's tables has no merged (JOIN … USING) columns -/
theorem levelOf_not_merged (tables : List Table) : (levelOf tables).any (fun r => r.cols.any (·.merged)) = false := by
  unfold levelOf
  induction tables with
  | nil => rfl
  | cons t ts ih =>
    simp only [List.map_cons, List.any_cons, ih, Bool.or_false]
    simp [relOf, colInfoOf]

theorem starOf_all (tables : List Table) : starOf (levelOf tables) [] = .ok ((levelOf tables).flatMap (·.cols)) := by
  simp [starOf, levelOf_not_merged]

/-- **C02 / C07, one level (refinement).** What the model puts for `*` and for `q.*` is, name by name and in
the same order, what the database's rule (`PgSem.starOf` on that level alone) puts — for every list of tables in
scope; and `q.*` with a qualifier no relation of the level carries is the one case the database rejects. -/
theorem C02_star_refines (tables : List Table) :
    (∃ cs, starOf (levelOf tables) [] = .ok cs ∧ cs.map (·.name) = (starColumns tables "" none).map (·.name)) ∧
    (∀ q, q ≠ "" → (∃ t ∈ tables, t.rel.name = q) →
      ∃ cs, starOf (levelOf tables) [q] = .ok cs ∧ cs.map (·.name) = (starColumns tables q none).map (·.name)) ∧
    (∀ q, (∀ t ∈ tables, t.rel.name ≠ q) → starOf (levelOf tables) [q] = .error (.qualifierMissing q)) := by
  refine ⟨⟨_, starOf_all tables, (star_names_all tables).symm⟩, ?_, ?_⟩
  · intro q hq ⟨t, ht, htq⟩
    have hne : ((levelOf tables).filter (·.qual == q)).isEmpty = false := by
      rw [List.isEmpty_eq_false_iff_exists_mem]
      refine ⟨relOf t, List.mem_filter.mpr ⟨List.mem_map.mpr ⟨t, ht, rfl⟩, by simp [relOf, htq]⟩⟩
    refine ⟨((levelOf tables).filter (·.qual == q)).flatMap (·.cols), ?_, (star_names_qualified tables q hq).symm⟩
    simp [starOf, hne]
  · intro q hnone
    have he : ((levelOf tables).filter (·.qual == q)) = [] := by
      apply List.filter_eq_nil_iff.mpr
      intro r hr
      obtain ⟨t, ht, rfl⟩ := List.mem_map.mp hr
      simp [relOf, hnone t ht]
    simp [starOf, he]


theorem translator_complete : Gen.untranslatable = [] := by decide

end Sqlc.C02
