import SqlcModel.Driver.Json
import SqlcModel.Driver.Generate
import SqlcModel.Config.Validate
namespace Sqlc.Drv
open Lean

def readFiles (j : Json) (k : String) : Files :=
  (jarr j k).filterMap (fun kv => match kv with
    | .arr #[.str p, .str h] => some (p, h)
    | _ => none)

def filesJson (fs : Files) : Json :=
  Json.arr ((fs.mergeSort (fun a b => a.1 ≤ b.1)).map (fun kv => Json.arr #[Json.str kv.1, Json.str kv.2])).toArray

def c12 (kind : String) (inp impl : Json) : Verdict :=
  match kind with
  | "multi" =>
    let outs : List PkgOutcome := (jarr inp "outcomes").map (fun o =>
      if jbool o "ok" then .ok (readFiles o "files")
      else if jstr o "kind" == "genFail" then .genFail else .parseFail)
    let anyPanic := (jarr inp "outcomes").any (jbool · "panic") || jbool impl "panic"
    let (res, diags) := generate genFacts outs
    let m := match res with
      | some fs => Json.mkObj [("ok", true), ("files", filesJson fs), ("diag", false), ("panic", false)]
      | none => Json.mkObj [("ok", false), ("files", filesJson []), ("diag", decide (diags > 0)), ("panic", false)]
    -- the property, stated on the implementation's observation alone
    let allFine := allOk outs
    let ok := jbool impl "ok"
    -- a package built with an injected fault must fail when generated alone
    let faultAccepted := ((jarr inp "packages").zip (jarr inp "outcomes")).any (fun po => jstr po.1 "fault" != "" && jbool po.2 "ok")
    let faultSilent := ((jarr inp "packages").zip (jarr inp "outcomes")).any (fun po => jstr po.1 "fault" != "" && !jbool po.2 "ok" && !jbool po.2 "diag")
    let spec : String :=
      if anyPanic then "na"
      else if faultAccepted then "fail:a package with an injected fault (bad statement / missing or unreadable input / empty query set) generated successfully"
      else if faultSilent then "fail:a faulty package failed without a diagnostic"
      else if allFine then
        if !ok then "fail:no package is in error but generation failed"
        else if jbool impl "diag" then "fail:error diagnostics printed although nothing is in error"
        else if (filesJson (readFiles impl "files")).compress != (filesJson (unionFiles outs [])).compress then
          "fail:output is not the complete file set of every package"
        else "ok"
      else
        if ok then "fail:a package is in error but generation reported success"
        else if !(readFiles impl "files").isEmpty then "fail:output produced although a package is in error"
        else if !jbool impl "diag" then "fail:failure without a diagnostic"
        else "ok"
    { model := m, compare := !anyPanic, frag := if anyPanic then "out:panic (C18)" else "in", specImpl := spec }
  | "cfgval" =>
    -- config.ParseConfig on a version-2 configuration next to the model of v2ParseConfig: same verdict, same error
    let readEntry (e : Json) : Cfg.V2.Entry :=
      let g := jobj e "go"; let k := jobj e "kotlin"; let p := jobj e "python"
      ⟨jstr e "engine",
       if jhas e "go" then some ⟨jstr g "out", jstr g "package", jbool g "overridesOk"⟩ else none,
       if jhas e "kotlin" then some ⟨jstr k "out", jstr k "package"⟩ else none,
       if jhas e "python" then some ⟨jbool p "overridesOk"⟩ else none⟩
    let c : Cfg.V2.Conf := ⟨jstr inp "version", jbool inp "hasGlobalGo", jbool inp "globalUntagged", jbool inp "globalOverridesOk", (jarr inp "entries").map readEntry⟩
    let m := match Cfg.V2.parse c with | none => "ok" | some e => e.name
    -- the property on the implementation alone: a faulty target anywhere must reject the configuration
    let anyFault := c.entries.any (fun e => !Cfg.V2.entryOk e)
    let spec := if anyFault && jstr impl "verdict" == "ok" then "fail:a gen target of an entry is at fault but the configuration was accepted" else "ok"
    { model := Json.mkObj [("verdict", m)], specImpl := spec }
  | _ => { compare := false, frag := "e2e" }

end Sqlc.Drv
