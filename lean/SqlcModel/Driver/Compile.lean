/-
L4 — the statement loop of compiler.parseQueries as far as names are concerned: a query whose name
was already seen is an error (`duplicate query name`), unnamed queries are kept but yield no method.
-/
namespace Sqlc

/-- fold state: names seen so far, accepted queries (in order), number of duplicate-name errors -/
structure NameFold where
  seen : List String := []
  accepted : List String := []
  dupErrors : Nat := 0

def nameStep (st : NameFold) (name : String) : NameFold :=
  if name != "" then
    if st.seen.contains name then { st with dupErrors := st.dupErrors + 1 }
    else { st with seen := st.seen ++ [name], accepted := st.accepted ++ [name] }
  else { st with accepted := st.accepted ++ [name] }

def nameFold (names : List String) : NameFold := names.foldl nameStep {}

/-- validate.Cmd: `:one`/`:many` on INSERT/UPDATE/DELETE need a non-empty RETURNING list -/
inductive StmtKind where
  | select | insert | update | delete | truncate | other
deriving Repr, DecidableEq

def validateCmd (needsReturning : List String) (cmd : String) (k : StmtKind) (hasReturning : Bool) : Bool :=
  if !needsReturning.contains cmd then true
  else match k with
    | .insert | .update | .delete => hasReturning
    | _ => true

end Sqlc
