import SqlcModel.Driver.Json
import SqlcModel.GoGen.Types
import SqlcModel.Spec.DocTypes
namespace Sqlc.Drv
open Lean Sqlc.GoGen

def readTypeEnv (j : Json) : TypeEnv :=
  { engine := jstr j "engine", defaultSchema := jstr j "default",
    schemas := (jarr j "schemas").map (fun s => (jstr s "name", (jarr s "types").map (fun t =>
      if jstr t "kind" == "enum" then TypeDecl.enum (jstr t "name") else TypeDecl.composite (jstr t "name")))),
    overrides := (jarr j "overrides").map (fun o =>
      let t := jobj o "table"
      { goTypeName := jstr o "goTypeName", dbType := jstr o "dbType", nullable := jbool o "nullable",
        column := jstr o "column", columnName := jstr o "columnName",
        table := { catalog := jstr t "catalog", schema := jstr t "schema", rel := jstr t "rel" } }),
    rename := (jarr j "rename").filterMap (fun kv => match kv with
      | .arr #[.str k, .str v] => some (k, v)
      | _ => none) }

def readColumn (j : Json) : Column :=
  { name := jstr j "name", dataType := jstr j "dataType", notNull := jbool j "notNull", isArray := jbool j "isArray",
    length := (let l := jint j "length"; if l < 0 then none else some l.toNat),
    table := if jhas j "table" then
      let t := jobj j "table"
      some { catalog := jstr t "catalog", schema := jstr t "schema", name := jstr t "name" } else none }

def pgCanonByName (s : String) : Option Spec.Canon :=
  Spec.allCanon.find? (fun c => (reprStr c).endsWith ("." ++ s))
def myCanonByName (s : String) : Option Spec.MyCanon :=
  Spec.allMyCanon.find? (fun c => (reprStr c).endsWith ("." ++ (if s == "enum" then "enumT" else s)))

def c09 (kind : String) (inp impl : Json) : Verdict :=
  match kind with
  | "gotype" =>
    let env := readTypeEnv (jobj inp "env")
    let col := readColumn (jobj inp "col")
    let m := goType env col
    let asciiOK := env.rename.all (fun kv => isAscii kv.1) && isAscii col.dataType
    let doc : Option String :=
      if env.overrides.isEmpty && env.rename.isEmpty then
        if env.engine == "postgresql" then
          (Spec.pgCanonOf col.dataType).map (fun c => Spec.docGoType c.go col.notNull col.isArray)
        else if env.engine == "mysql" then
          if col.dataType == "tinyint" && col.length == some 1 then
            some (Spec.docGoType Spec.MyCanon.bool.go col.notNull col.isArray)
          else (Spec.myCanonOf col.dataType).map (fun c => Spec.docGoType c.go col.notNull col.isArray)
        else none
      else none
    let sp (got : String) : String := match doc with
      | some d => if got == d then "ok" else s!"fail:documented {d}, got {got}"
      | none => "na"
    let missing := env.engine == "postgresql" && Spec.pgKnownMissing.contains col.dataType
    { model := Json.mkObj [("type", m)], compare := asciiOK && env.engine != "_lemon",
      frag := if env.engine == "_lemon" then "out:sqlite" else "in",
      specImpl := sp (jstr impl "type"), specModel := sp m,
      trig := if missing then ["bareSpelling"] else [] }
  | "e2e" =>
    let eng := jstr inp "engine"
    let nn := jbool inp "notNull"
    let arr := jbool inp "isArray"
    let want : Option String :=
      if eng == "postgresql" then (pgCanonByName (jstr inp "canon")).map (fun c => Spec.docGoType c.go nn arr)
      else (myCanonByName (jstr inp "canon")).map (fun c => Spec.docGoType c.go nn arr)
    let verdict : String := match want with
      | none => "fail:harness names an unknown canonical type"
      | some w =>
        if !jbool impl "ok" then s!"fail:generation failed: {jstr impl "err"}"
        else
          let bad := ["model", "result", "param", "insparam"].filter (fun k => jstr impl k != w)
          let wnn : String := (if eng == "postgresql" then (pgCanonByName (jstr inp "canon")).map (fun c => Spec.docGoType c.go true arr)
                               else (myCanonByName (jstr inp "canon")).map (fun c => Spec.docGoType c.go true arr)).getD w
          -- a placeholder under a cast is typed by the cast (NOT NULL), whatever it is compared with or inserted into
          let badCast := ["castparam", "castins", "castset"].filter (fun k => jhas impl k && jstr impl k != wnn)
          if !bad.isEmpty then s!"fail:documented {w}; positions that differ: {bad} = {bad.map (jstr impl)}"
          else if !badCast.isEmpty then s!"fail:documented {wnn} for a placeholder cast to this type; positions that differ: {badCast} = {badCast.map (jstr impl)}"
          else if jhas impl "coalesced" && jstr impl "coalesced" != wnn then
            s!"fail:documented {wnn} for the NOT NULL result coalesce(c, c) AS c; {jstr impl "coalescedStruct"}.C is {jstr impl "coalesced"}"
          else "ok"
    let sp := jstr inp "spelling"
    { compare := false, frag := "e2e", specImpl := verdict,
      trig := (if eng == "postgresql" && Spec.pgKnownMissing.contains sp then ["bareSpelling"] else []) ++
              (if eng == "mysql" && (sp == "tinyint(1)" || sp == "boolean" || sp == "bool") then ["mysqlLength"] else []) ++
              (if eng == "mysql" && jstr inp "canon" == "blob" then ["mysqlBinary"] else []) }
  | _ => { compare := false, frag := "unknown-kind" }

end Sqlc.Drv
