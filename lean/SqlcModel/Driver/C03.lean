import SqlcModel.Driver.Analysis
import SqlcModel.Spec.SqlLex
import SqlcModel.Spec.Rewrite
namespace Sqlc.Drv
open Lean Sqlc Sqlc.Q

def fieldNamesJ (j : Json) (k : String) : List String := (jarr j k).map (jstr · "name")

/-- C03's predicate on the implementation's observation: the embedded SQL's placeholders, the driver
call's arguments and the params struct line up one to one, in order -/
def specC03 (inp impl : Json) : String :=
  let mysql := jstr inp "engine" == "mysql"
  let go := jobj impl "go"
  if !jbool go "ok" then "na" else
  let toks := Spec.Lex.lex mysql (jhex go "sql")
  let callargs := jstrs go "callargs"
  let params := (jarr impl "params")
  let numbers := params.map (jnat · "number")
  let sig := fieldNamesJ go "params"
  if mysql then
    let qm := Spec.Lex.qmarkCount toks
    if callargs.length != qm then s!"fail:{callargs.length} call arguments for {qm} `?` placeholders"
    else if numbers != (List.range qm).map (· + 1) then s!"fail:parameter numbers {numbers} are not 1..{qm}"
    else "ok"
  else
    let nums := (Spec.Lex.paramNumbers toks).eraseDups
    let n := nums.length
    let sorted := nums.mergeSort (· ≤ ·)
    if sorted != (List.range n).map (· + 1) then s!"fail:placeholder numbers {sorted} of the embedded SQL are not contiguous from 1"
    else if callargs.length != n then s!"fail:{callargs.length} call arguments for {n} distinct placeholders"
    else if numbers != (List.range n).map (· + 1) then s!"fail:the k-th parameter does not feed $k: numbers {numbers}"
    else
      -- the method's parameter is exactly these arguments
      let pstruct := fieldNamesJ go "paramsStruct"
      if n == 0 then (if sig.isEmpty then "ok" else "fail:method takes a parameter but the SQL has no placeholder")
      else if n == 1 then
        (if sig.length == 1 && (callargs == [sig.headD ""] || callargs == [s!"pq.Array({sig.headD ""})"]) then "ok"
         else s!"fail:single placeholder but signature {sig} / call {callargs}")
      else
        let want := pstruct.map (fun f => s!"arg.{f}")
        let got := callargs.map (fun a => if a.startsWith "pq.Array(" then ((a.drop 9).dropEnd 1).toString else a)
        if pstruct.length != n then s!"fail:params struct has {pstruct.length} fields for {n} placeholders"
        else if got != want then s!"fail:call arguments {got} are not the params struct's fields in order {want}"
        else "ok"

mutual
/-- every ParamRef anywhere in the tree (walked or not): (location, number) -/
partial def allParamRefs : Node → List (Int × Nat)
  | .nd k fs =>
    (if k == "ParamRef" then [((Node.nd k fs).get "Location" |>.intVal, (Node.nd k fs).get "Number" |>.natVal)] else []) ++
      fs.flatMap (fun f => allParamRefs f.2.2)
  | .list is => is.flatMap allParamRefs
  | _ => []
end

/-- MySQL: the conversion numbers the `?` marks; the k-th `?` in TEXT order must be parameter k -/
def mysqlTextOrder (inp : Json) : String :=
  let refs := (allParamRefs (readNode (jobj inp "ast"))).eraseDups
  let byLoc := refs.mergeSort (fun a b => a.1 ≤ b.1)
  let nums := byLoc.map (·.2)
  if nums == (List.range nums.length).map (· + 1) then "ok"
  else s!"fail:`?` marks in text order carry parameter numbers {nums}: the k-th argument does not feed the k-th `?`"

def c03 (kind : String) (inp impl : Json) : Verdict :=
  match kind with
  | "analysis" =>
    let walkPanic := jhas inp "walkPanics"
    if !jhas inp "ast" then { compare := false, frag := "out:unparsed", specImpl := "na" } else
    let run := runAnalysis inp
    let specv := if jstr impl "err" != "" then "na" else specC03 inp impl
    let specv := if specv == "ok" && jstr inp "engine" == "mysql" then mysqlTextOrder inp else specv
    -- named parameters: every occurrence of one name is written as one number, and two names as two numbers —
    -- otherwise an occurrence is fed by another parameter's argument (token-level, Spec.Rewrite)
    let specv := if specv == "ok" && jstr inp "engine" != "mysql" && !(jarr inp "names").isEmpty then
        let src := Spec.Rw.stripSemis (Spec.Lex.lex false (jhex inp "rawSQL"))
        let emb := Spec.Rw.stripSemis (Spec.Lex.lex false (jhex (jobj impl "go") "sql"))
        match Spec.Rw.matchToks false false (src.length + emb.length + 8) src emb {} with
        | some acc => if Spec.Rw.namesConsistent acc.names then "ok"
            else "fail:named parameters and the placeholder numbers written for them are not one-to-one: an occurrence is fed by another parameter's argument"
        | none => "ok"
      else specv
    { model := run.model, compare := !walkPanic && !reparseRejected impl, frag := if walkPanic then "out:walk-panic" else if reparseRejected impl then "out:reparse-rejected" else "in",
      specImpl := specv, trig := run.trig, implProj := some (implProjection impl) }
  | _ => { compare := false, frag := "e2e" }

end Sqlc.Drv
