import SqlcModel.Driver.C09
import SqlcModel.Config.GoTypeParse
/- C15 driver: goType under overrides (model + precedence specification), GoType.Parse -/
namespace Sqlc.Drv
open Lean Sqlc.GoGen Sqlc.Config

/-- the specification of override precedence, stated independently of the two loops: a column override that
names this column wins; otherwise the first db_type override for this type and nullability; otherwise the
engine's type. Array-ness wraps the latter two, never a column override. -/
def specGoType (env : TypeEnv) (col : Column) : String :=
  let colOv := env.overrides.filter (fun o => o.goTypeName != "" && o.column != "" && o.columnName == col.name &&
    sameTableName col.table o.table env.defaultSchema)
  match colOv.head? with
  | some o => o.goTypeName
  | none =>
    let nn := col.notNull || col.isArray
    let dbOv := env.overrides.filter (fun o => o.goTypeName != "" && o.dbType != "" && o.dbType == col.dataType && o.nullable == !nn)
    let inner := match dbOv.head? with
      | some o => o.goTypeName
      | none => goInnerType { env with overrides := [] } col
    if col.isArray then "[]" ++ inner else inner

def isAsciiStr (s : String) : Bool := s.toList.all (fun c => c.toNat < 128)

def c15 (kind : String) (inp impl : Json) : Verdict :=
  match kind with
  | "gotype" =>
    let env := readTypeEnv (jobj inp "env")
    let col := readColumn (jobj inp "col")
    let m := goType env col
    let want := specGoType env col
    let got := jstr impl "type"
    { model := Json.mkObj [("type", m)], compare := true,
      specImpl := if got == want then "ok" else s!"fail:override precedence: expected {want}, got {got}",
      specModel := if m == want then "ok" else s!"fail:override precedence (model): expected {want}, got {m}" }
  | "parse" =>
    let spec := jstr inp "spec"
    let ascii := isAsciiStr (jstr inp "json")
    let r : Option Parsed :=
      if spec != "" then parseSpec spec.toList
      else parseObject (jstr inp "path").toList (jstr inp "package").toList (jstr inp "name").toList (jbool inp "pointer")
    let mj : Json := match r with
      | none => Json.mkObj [("err", "reject")]
      | some p => Json.mkObj [("err", ""), ("importPath", String.ofList p.importPath), ("package", String.ofList p.pkg),
          ("typeName", String.ofList p.typeName), ("basic", p.basic)]
    { model := mj, compare := ascii && jstr impl "err" != "unmarshal", frag := if ascii then "in" else "out:non-ascii" }
  | "e2e" => { compare := false, frag := "e2e" }
  | _ => { compare := false, frag := "unknown-kind" }

end Sqlc.Drv
