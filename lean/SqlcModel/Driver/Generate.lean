import SqlcModel.Gen.DriverFacts
/-
L4 — the package loop of cmd.Generate as a fold. What each package does (parse, analyse, generate) is
abstracted to its outcome; the loop's control flow (what happens on a parse failure / on a
code-generation failure, the `if errored` gate, what is returned) is taken from REGENERATED facts.
-/
namespace Sqlc.Drv

abbrev Files := List (String × String)        -- path ↦ contents, later insertions override

inductive PkgOutcome where
  | ok (files : Files)
  | parseFail       -- schema or query errors: diagnostics were printed by parse()
  | genFail         -- the code generator returned an error: diagnostic printed in the loop
deriving Repr, DecidableEq

inductive Action where
  | brk | cont | other
deriving Repr, DecidableEq

structure LoopFacts where
  parseFailSetsErrored : Bool
  parseFailAction : Action
  genFailSetsErrored : Bool
  genFailAction : Action
  gateAfterLoop : Bool
  gateReturnsNilAndError : Bool
  finalReturnIsOutput : Bool
  outputWritesOffSuccessPath : Nat
deriving Repr, DecidableEq

def actionOf (s : String) : Action := if s == "brk" then .brk else if s == "cont" then .cont else .other

/-- the facts read off the current source -/
def genFacts : LoopFacts :=
  { parseFailSetsErrored := Gen.parseFailSetsErrored, parseFailAction := actionOf Gen.parseFailAction,
    genFailSetsErrored := Gen.genFailSetsErrored, genFailAction := actionOf Gen.genFailAction,
    gateAfterLoop := Gen.gateAfterLoop, gateReturnsNilAndError := Gen.gateReturnsNilAndError,
    finalReturnIsOutput := Gen.finalReturnIsOutput, outputWritesOffSuccessPath := Gen.outputWritesOffSuccessPath }

def insertFiles (out : Files) (fs : Files) : Files :=
  fs.foldl (fun o kv => (o.filter (·.1 != kv.1)) ++ [kv]) out

structure LoopState where
  output : Files := []
  errored : Bool := false
  diags : Nat := 0          -- number of diagnostics printed
deriving Repr, DecidableEq

/-- the loop body for one package; returns (state, keep going?) -/
def loopStep (f : LoopFacts) (st : LoopState) : PkgOutcome → LoopState × Bool
  | .ok files => ({ st with output := insertFiles st.output files }, true)
  | .parseFail =>
    ({ st with errored := st.errored || f.parseFailSetsErrored, diags := st.diags + 1 }, f.parseFailAction != .brk)
  | .genFail =>
    ({ st with errored := st.errored || f.genFailSetsErrored, diags := st.diags + 1 }, f.genFailAction != .brk)

def runLoop (f : LoopFacts) : List PkgOutcome → LoopState → LoopState
  | [], st => st
  | p :: ps, st =>
    let (st', go) := loopStep f st p
    if go then runLoop f ps st' else st'

/-- cmd.Generate after the configuration was read: `none` = (nil, error) -/
def generate (f : LoopFacts) (pkgs : List PkgOutcome) : Option Files × Nat :=
  let st := runLoop f pkgs {}
  if f.gateAfterLoop && st.errored then (none, st.diags) else (some st.output, st.diags)

/-- what the property demands of the loop's shape -/
def LoopFacts.sound (f : LoopFacts) : Bool :=
  f.parseFailSetsErrored && f.genFailSetsErrored && f.gateAfterLoop && f.gateReturnsNilAndError &&
  f.finalReturnIsOutput && f.outputWritesOffSuccessPath == 0 &&
  f.parseFailAction != .other && f.genFailAction != .other

def allOk : List PkgOutcome → Bool
  | [] => true
  | .ok _ :: ps => allOk ps
  | _ :: _ => false

def unionFiles : List PkgOutcome → Files → Files
  | [], out => out
  | .ok fs :: ps, out => unionFiles ps (insertFiles out fs)
  | _ :: ps, out => unionFiles ps out

end Sqlc.Drv
