import SqlcModel.Driver.Json
import SqlcModel.Catalog.Model
import SqlcModel.Spec.PgCatalog
namespace Sqlc.Drv
open Lean Sqlc.Cat

/-- parser glue entering as data: written type -> (schema, name, isArray) -/
def typeInfo (ti : Json) (written : String) : String × String × Bool :=
  match ti.getObjVal? written with
  | .ok (.arr #[.str s, .str n, .str a]) => (s, n, a == "true")
  | _ => ("?", written, false)

def readQ (j : Json) : QName := { schema := jstr j "schema", name := jstr j "name" }

def readOp (ti : Json) (j : Json) : Option DDL :=
  let q : QName := { schema := jstr j "schema", name := jstr j "name" }
  let guard := jbool j "guard"
  match jstr j "op" with
  | "createSchema" => some (.createSchema (jstr j "name") guard)
  | "dropSchema" => some (.dropSchema ((jarr j "names").map (jstr · "name")) guard)
  | "createTable" =>
    let tpk := jstrs j "tablepk"
    let cols := (jarr j "cols").map (fun c =>
      let (s, n, a) := typeInfo ti (jstr c "type")
      ({ name := jstr c "name", tschema := s, tname := n, isArray := a,
         notNull := jbool c "notnull" || jbool c "pk" || tpk.contains (jstr c "name") } : ColDef))
    some (.createTable q guard cols)
  | "dropTable" => some (.dropTable ((jarr j "names").map readQ) guard)
  | "renameTable" => some (.renameTable q (jstr j "new"))
  | "setSchema" => some (.setSchema q (jstr j "new"))
  | "alterTable" =>
    let cmds := (jarr j "cmds").map (fun c =>
      let (s, n, a) := typeInfo ti (jstr c "type")
      match jstr c "kind" with
      | "add" => AlterCmd.add { name := jstr c "col", tschema := s, tname := n, isArray := a, notNull := jbool c "notnull" } (jbool c "missingok")
      | "drop" => AlterCmd.drop (jstr c "col") (jbool c "missingok")
      | "type" => AlterCmd.setType (jstr c "col") s n a
      | "setnn" => AlterCmd.setNotNull (jstr c "col")
      | _ => AlterCmd.dropNotNull (jstr c "col"))
    some (.alterTable q cmds)
  | "renameColumn" => some (.renameColumn q (jstr j "col") (jstr j "new"))
  | "createEnum" => some (.createEnum q (jstrs j "vals"))
  | "createComposite" => some (.createComposite q)
  | "addValue" =>
    let pos := match jstr j "pos" with
      | "before" => some (false, jstr j "ref")
      | "after" => some (true, jstr j "ref")
      | _ => none
    some (.addValue q (jstr j "val") guard pos)
  | "renameValue" => some (.renameValue q (jstr j "val") (jstr j "new"))
  | "dropType" => some (.dropType ((jarr j "names").map readQ) guard)
  | "comment" =>
    let text := jopt j "text"
    match jstr j "on" with
    | "schema" => some (.commentSchema (jstr j "name") text)
    | "table" => some (.commentTable q text)
    | "column" => some (.commentColumn q (jstr j "col") text)
    | "type" => some (.commentType q text)
    | _ => none
  | _ => none

def dumpCatalog (c : Catalog) : Json :=
  Json.arr (c.schemas.map (fun s => Json.mkObj [
    ("name", s.name), ("comment", s.comment),
    ("tables", Json.arr (s.tables.map (fun t => Json.mkObj [
      ("name", t.name), ("relschema", t.relSchema), ("comment", t.comment),
      ("cols", Json.arr (t.cols.map (fun col => Json.mkObj [
        ("name", col.name), ("tschema", col.tschema), ("tname", col.tname), ("notnull", col.notNull),
        ("array", col.isArray), ("comment", col.comment)])).toArray)])).toArray),
    ("types", Json.arr (s.types.map (fun
      | .enum n vs cm => Json.mkObj [("kind", "enum"), ("name", n), ("vals", mkStrs vs), ("comment", cm)]
      | .composite n cm => Json.mkObj [("kind", "composite"), ("name", n), ("vals", mkStrs []), ("comment", cm)])).toArray)])).toArray

/-- trace of a run: one entry per applied statement, stopping at the first error -/
def trace (stepf : Catalog → DDL → Except Err Catalog) (c : Catalog) : List DDL → List Json
  | [] => []
  | op :: ops =>
    match stepf c op with
    | .error e => [Json.mkObj [("err", e)]]
    | .ok c' => Json.mkObj [("err", ""), ("dump", dumpCatalog c')] :: trace stepf c' ops

def c08 (kind : String) (inp impl : Json) : Verdict :=
  match kind with
  | "history" =>
    let ti := jobj inp "typeinfo"
    let opsJ := jarr inp "ops"
    let ops := opsJ.filterMap (readOp ti)
    if ops.length != opsJ.length then { compare := false, frag := "out:unreadable-op" } else
    let m := Json.arr (trace update initPg ops).toArray
    let s := Json.arr (trace Spec.Pg.step initPg ops).toArray
    let implSteps := jobj impl "steps"
    { model := Json.mkObj [("steps", m)],
      specImpl := if implSteps.compress == s.compress then "ok" else "fail:catalog after the history ≠ PostgreSQL's (Spec.Pg.run)",
      specModel := if m.compress == s.compress then "ok" else "fail:model ≠ Spec.Pg.run" }
  | _ => { compare := false, frag := "e2e" }

end Sqlc.Drv
