import SqlcModel.Driver.Json
import SqlcModel.Query.Analyze
import SqlcModel.Text.Source
/- reading analysis cases and running the L2 model (driver only) -/
namespace Sqlc.Drv
open Lean Sqlc Sqlc.Q

partial def readNode (j : Json) : Node :=
  match j with
  | .null => .null
  | .str s => .str s
  | .bool b => .bool b
  | .num n => .num n.mantissa
  | .arr _ => .null
  | .obj _ =>
    let k := jstr j "k"
    if k == "List" || k == "Slice" then .list ((jarr j "items").map readNode)
    else .nd k ((jarr j "f").filterMap (fun f => match f with
      | .arr #[.str name, .bool walked, v] => some (name, walked, readNode v)
      | _ => none))

def readCatCol (c : Json) : CatCol :=
  let l := jint c "length"
  { name := jstr c "name", tschema := jstr c "tschema", tname := jstr c "tname", notNull := jbool c "notNull", isArray := jbool c "isArray", length := if l < 0 then none else some l.toNat }

def readCatTable (t : Json) : CatTable := { name := jstr t "name", cols := (jarr t "cols").map readCatCol }

def readCatSchema (s : Json) : CatSchema := { name := jstr s "name", tables := (jarr s "tables").map readCatTable }

def readFuncArg (a : Json) : FuncArg :=
  { name := jstr a "name", tschema := jstr a "tschema", tname := jstr a "tname", hasDefault := jbool a "hasDefault", mode := jnat a "mode" }

def readFunc (f : Json) : Func :=
  { name := jstr f "name", argsNil := jbool f "argsNil", retSchema := jstr f "retSchema", retName := jstr f "retName", args := (jarr f "args").map readFuncArg }

def readFuncEntry (e : Json) : FuncEntry :=
  { schema := jstr e "schema", name := jstr e "name", err := jbool e "err", funcs := (jarr e "funcs").map readFunc }

def readCat (j : Json) (engine : String) : Cat :=
  { defaultSchema := jstr j "defaultSchema", engine := engine, schemas := (jarr j "schemas").map readCatSchema, funcs := (jarr j "funcs").map readFuncEntry }

def colJson (c : Column) : Json :=
  Json.mkObj [("name", c.name), ("dataType", c.dataType), ("notNull", c.notNull), ("isArray", c.isArray),
    ("length", match c.length with | some l => Json.num (l : Nat) | none => Json.num (-1 : Int)),
    ("table", match c.table with
      | some t => Json.mkObj [("catalog", t.catalog), ("schema", t.schema), ("name", t.name)]
      | none => Json.null)]

def classOfErr (e : String) : String :=
  if e.startsWith "panic" then "panic" else if e.startsWith "other" then "other" else e

structure AnalysisRun where
  trig : List String := []
  result : Except String Analysis
  sql : Option Bytes           -- embedded SQL the model predicts (after Mutate + StripComments)
  model : Json

def runAnalysis (inp : Json) : AnalysisRun :=
  let engine := jstr inp "engine"
  let cat := readCat (jobj inp "catalog") engine
  let raw := readNode (jobj inp "ast")
  let names : List (Nat × String) := (jarr inp "names").filterMap (fun p => match p with
    | .arr #[n, .str s] => some ((n.getNat?.toOption.getD 0), s)
    | _ => none)
  let pre := jobj inp "preflight"
  let r := do
    -- validate.ParamRef is decided by the model for positional statements (for named ones the rewrite has
    -- already numbered the placeholders; the verdict on the un-rewritten tree enters as data)
    let early : Bool :=
      if jhas pre "paramStyle" then
        jbool pre "paramStyle" || (if names.isEmpty then (paramRefCheck (paramNumbers raw)).isSome else jint pre "paramRef" != 0)
      else jbool pre "early"
    if jhas inp "preflight" then preflight raw early (jbool pre "late")
    analyze cat raw names (jbool inp "positional")
  let trig := paramTriggers cat raw names
  -- MySQL: IN / BETWEEN / LIKE … are converted to ast.TODO nodes, the placeholders inside them are lost
  let todo := engine == "mysql" && (raw.walk.any (·.isKind "TODO"))
  let trig := if todo then trig ++ ["mysqlTodoExpr"] else trig
  match r with
  | .error e => { trig := trig, result := .error e, sql := none, model := Json.mkObj [("err", classOfErr e)] }
  | .ok a =>
    let rawSQL := jhex inp "rawSQL"
    let named : List Edit := (jarr inp "namedEdits").map (fun e => ({ loc := jint e "loc", old := jhex e "old", new := jhex e "new" } : Edit))
    let exp : List Edit := a.edits.map (fun e => ({ loc := e.location, old := e.old.toUTF8.toList, new := e.new.toUTF8.toList } : Edit))
    -- positional mode replaces the named edits by `$n -> ?` edits; not modelled here (C20 compares end to end)
    match mutate rawSQL (named ++ exp) with
    | .error .panic => { trig := trig, result := .error "panic:source.Mutate: negative edit location", sql := none, model := Json.mkObj [("err", "panic")] }
    | .error _ => { trig := trig, result := .ok a, sql := none, model := Json.mkObj [("err", "other")] }
    | .ok expanded =>
      let sql := (stripComments expanded).1
      { trig := trig, result := .ok a, sql := some sql,
        model := Json.mkObj [("err", ""), ("sql", toHex sql),
          ("params", Json.arr (a.params.map (fun p => Json.mkObj [("number", p.number),
            ("column", match p.column with | some c => colJson c | none => Json.null)])).toArray),
          ("columns", Json.arr (a.columns.map colJson).toArray)] }

/-- after editing the text parseQuery re-parses it with the engine's parser (not modelled): a rejection
there is outside the fragment the model predicts -/
def reparseRejected (impl : Json) : Bool := (jstr impl "msg").startsWith "edited query syntax is invalid"

/-- the implementation's observation restricted to what the model also predicts -/
def implProjection (impl : Json) : Json :=
  if jstr impl "err" != "" then Json.mkObj [("err", classOfErr (jstr impl "err"))]
  else Json.mkObj [("err", ""), ("sql", jobj impl "sql"), ("params", jobj impl "params"), ("columns", jobj impl "columns")]

end Sqlc.Drv
