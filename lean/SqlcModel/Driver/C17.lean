import SqlcModel.Driver.Json
import SqlcModel.Text.Source
namespace Sqlc.Drv
open Lean

def c17 (kind : String) (inp _impl : Json) : Verdict :=
  match kind with
  | "linenumber" =>
    let src := jhex inp "src"
    let head := jnat inp "head"
    let (l, c) := lineNumber src head
    { model := Json.mkObj [("line", l), ("col", c)] }
  | _ => { compare := false, frag := "e2e" }

end Sqlc.Drv
