import SqlcModel.Driver.Json
import SqlcModel.Gen.ImportFacts
/- C01 driver: the regenerated import rules of modelImports applied to the observed model field types
must give exactly the imports models.go carries (validates the rule extraction end to end). -/
namespace Sqlc.Drv
open Lean

def trimSliceS (l : List Char) : List Char :=
  match l with
  | '[' :: ']' :: rest => rest
  | l => l

def predictModelImports (types : List String) (hasEnums : Bool) : List String :=
  let rules := match Gen.importRules.find? (·.1 == "modelImports") with
    | some (_, rs) => rs
    | none => []
  let fired := rules.filter (fun r => types.any (fun t => r.1.isPrefixOf (trimSliceS t.toList)))
  let paths := (fired.map (fun r => String.ofList r.2)) ++ (if hasEnums then ["fmt"] else [])
  (paths.eraseDups.toArray.qsort (· < ·)).toList

def c01 (kind : String) (_inp impl : Json) : Verdict :=
  if kind != "e2e" then { compare := false, frag := "unknown-kind" } else
  if !(jbool impl "ok") then { compare := false, frag := "out:generation-failed" } else
  if jbool impl "hasOverrides" then { compare := false, frag := "out:overrides" } else
  let pred := predictModelImports (jstrs impl "modelFieldTypes") (jbool impl "hasEnums")
  { model := Json.mkObj [("modelImports", mkStrs pred)], compare := true,
    implProj := some (Json.mkObj [("modelImports", mkStrs (jstrs impl "modelImports"))]) }

end Sqlc.Drv
