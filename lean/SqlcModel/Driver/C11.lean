import SqlcModel.Driver.Json
import SqlcModel.Text.Meta
import SqlcModel.Spec.Contract
import SqlcModel.Driver.Compile
namespace Sqlc.Drv
open Lean

def c11 (kind : String) (inp impl : Json) : Verdict :=
  match kind with
  | "meta" =>
    let t := jhex inp "text"
    let cs : CommentSyntax := { dash := jbool inp "dash", hash := jbool inp "hash", slashStar := jbool inp "slash" }
    let ascii := t.all (· < 128)
    let m := match metaParse t cs with
      | .none => Json.mkObj [("res", "none")]
      | .ok n c => Json.mkObj [("res", "ok"), ("name", toHex n), ("cmd", toHex c)]
      | .err .missingType => Json.mkObj [("res", "missingType")]
      | .err .invalidComment => Json.mkObj [("res", "invalidComment")]
      | .err .invalidType => Json.mkObj [("res", "invalidType")]
      | .err .invalidName => Json.mkObj [("res", "invalidName")]
    -- spec on the implementation's answer: an accepted annotation has one of the five commands and an identifier
    let sp (o : Json) : String :=
      if jstr o "res" == "ok" then
        let c := bytesToString (jhex o "cmd")
        if !Spec.commands.contains c then "fail:accepted command is not one of the five"
        else if !validQueryName (jhex o "name") && ascii then "fail:accepted name is not an identifier"
        else "ok"
      else "ok"
    { model := m, compare := ascii, frag := if ascii then "in" else "out:non-ascii",
      specImpl := sp impl, specModel := sp m }
  | "contract" =>
    let cmd := jstr inp "cmd"
    let k := jstr inp "kind"
    let kind : StmtKind := match k with
      | "select" => .select | "insert" => .insert | "update" => .update | "delete" => .delete
      | "truncate" => .truncate | _ => .other
    let mustReject := !validateCmd Spec.needsReturning cmd kind (jbool inp "returning")
    let ok := jbool impl "ok"
    let ncols := jnat inp "ncols"
    let verdict : String :=
      if jbool impl "panic" then "fail:panic"
      else if mustReject then (if ok then "fail::one/:many on a data-modifying statement without RETURNING was accepted" else "ok")
      else if !ok then
        -- :one/:many on a statement that returns no columns cannot have a result type: rejection with a diagnostic is allowed
        if (cmd == ":one" || cmd == ":many") && ncols == 0 && jstr impl "err" != "" then "ok"
        else s!"fail:valid annotated statement rejected: {jstr impl "err"}"
      else
        match Spec.contractOf cmd with
        | none => "fail:unknown command"
        | some (_, res, dp, dn, errs, cl, er, sc) =>
          let results := jstrs impl "results"
          let wantDriver := if jbool inp "prepared" then dp else dn
          let shape : Bool := match cmd with
            | ":exec" => results == ["error"]
            | ":execrows" => results == ["int64", "error"]
            | ":execresult" => results == ["sql.Result", "error"]
            | ":many" => results.length == 2 && (results.headD "").startsWith "[]" && results.getLast? == some "error"
            | ":one" => results.length == 2 && !(results.headD "").startsWith "[]" && results.getLast? == some "error"
            | _ => false
          if jnat impl "methods" != 1 then s!"fail:{jnat impl "methods"} methods generated for one annotated statement (unannotated ones yield none)"
          else if !shape then s!"fail:result shape {results} does not follow {cmd} {res}"
          else if jstr impl "driver" != wantDriver then s!"fail:driver entry {jstr impl "driver"}, documented {wantDriver}"
          else if jnat impl "errchecks" != errs then s!"fail:{jnat impl "errchecks"} checked error paths, documented {errs}"
          else if jbool impl "rowsclose" != cl || jbool impl "rowserr" != er then "fail:rows.Close / rows.Err checks"
          else if sc && jnat impl "scan" != ncols then s!"fail:scan arity {jnat impl "scan"} ≠ {ncols} result columns"
          else if !sc && jnat impl "scan" != 0 then "fail:exec-type method scans"
          else if jnat impl "nparams" != jnat inp "nparams" then s!"fail:{jnat impl "nparams"} call arguments for {jnat inp "nparams"} placeholders"
          else if jbool inp "iface" && (jnat impl "iface" != 1 || jstrs impl "iface_results" != results) then "fail:Querier interface does not list the method with the same result tuple"
          else "ok"
    { compare := false, frag := "e2e", specImpl := verdict }
  | _ => { compare := false, frag := "e2e" }

end Sqlc.Drv
