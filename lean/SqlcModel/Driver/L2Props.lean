import SqlcModel.Driver.Sem
namespace Sqlc.Drv
open Lean

/-- the shared L2 case: model correspondence + one property's spec predicate -/
def analysisVerdict (spec : Json → Json → String) (inp impl : Json) : Verdict :=
  let walkPanic := jhas inp "walkPanics"
  if !jhas inp "ast" then { compare := false, frag := "out:unparsed", specImpl := "na" } else
  let run := runAnalysis inp
  -- the whole-statement search list (every RangeVar of every query level) is a recorded defect class
  let src := readNode (jobj inp "ast")
  let ml := multiLevel src
  -- only the first occurrence of a placeholder number is resolved: later occurrences are never checked
  let repeated := (List.range 12).any (fun n => countParam (n + 1) src > 1)
  -- only plain columns, coalesce arguments and a few more shapes are resolved in the result list: a column
  -- buried in any other result expression is never looked up
  let exprCol := (src.search (fun n => n.isKind "ResTarget")).any (fun rt =>
    let v := rt.get "Val"
    !(v.isKind "ColumnRef") && !(v.isNull) && !(Spec.Sem.innerColRefs v).isEmpty)
  -- star expansion quotes reserved words only, and looks the QUOTED name up in a count table keyed by the
  -- bare name: (a) a column that needs quoting for another reason is emitted bare, (b) a reserved-word
  -- column shared by two relations in scope is emitted unqualified
  let cat := readCat (jobj inp "catalog") (jstr inp "engine")
  let hasStar := (src.search (fun n => n.isKind "ResTarget" && Q.hasStarRef (n.get "Val"))).length > 0
  let relNames := (src.search (·.isKind "RangeVar")).map (fun rv => (rv.get "Relname").strVal)
  let relTables := cat.schemas.flatMap (fun sc => sc.tables.filter (fun t => relNames.contains t.name))
  let plain (n : String) : Bool := n.toList.all (fun ch => ch.isLower || ch.isDigit || ch == '_')
  let needsQ := hasStar && relTables.any (fun t => t.cols.any (fun col => !plain col.name && !Q.isReserved cat.engine col.name))
  let resShared := hasStar && relNames.length > 1 &&
    relTables.any (fun t => t.cols.any (fun col => Q.isReserved cat.engine col.name &&
      ((relNames.map (fun rn => (relTables.filter (·.name == rn)).any (fun t2 => t2.cols.any (·.name == col.name)))).filter id).length > 1))
  -- the column length (MySQL tinyint(1) = bool) is not copied into result columns / parameters
  let lenDrop := relTables.any (fun t => t.cols.any (fun col => col.tname == "tinyint" && col.length == some 1))
  -- a coalesce() without a bare column argument is named "coalesce" whatever its AS alias says
  let coalesceAlias := (src.search (fun n => n.isKind "ResTarget")).any (fun rt =>
    !(rt.get "Name").isNull && (rt.get "Val").isKind "CoalesceExpr" &&
    !(((rt.get "Val").get "Args").items.any (·.isKind "ColumnRef")))
  -- column alias lists (`AS t(a, b)`, `WITH t(a, b) AS`) are ignored
  let aliasList := (src.search (fun n => n.isKind "Alias")).any (fun a => !(a.get "Colnames").items.isEmpty) ||
    (src.search (fun n => n.isKind "CommonTableExpr")).any (fun c => !(c.get "Aliascolnames").items.isEmpty)
  -- a qualifier that names no relation of the statement makes the parameter resolver search EVERY table
  let quals := (src.search (·.isKind "RangeVar")).flatMap (fun rv => [(rv.get "Relname").strVal] ++ (Q.aliasOf rv).toList) ++
    (src.search (·.isKind "RangeSubselect")).flatMap (fun rs => (Q.aliasOf rs).toList) ++
    (src.search (·.isKind "CommonTableExpr")).map (fun c => (c.get "Ctename").strVal)
  let unknownQual := (src.search (·.isKind "ColumnRef")).any (fun cr =>
    match (cr.get "Fields").stringItems with
    | [q, _] => !quals.contains q
    | _ => false)
  -- UPDATE … FROM … RETURNING *: sourceTables lists the FROM items BEFORE the updated relation, the database
  -- returns the updated relation's columns first
  let updFromStar := (src.search (·.isKind "UpdateStmt")).any (fun u =>
    !(u.get "FromClause").items.isEmpty &&
    (u.get "ReturningList").items.any (fun rt => Q.hasStarRef (rt.get "Val") && ((rt.get "Val").get "Fields").stringItems.isEmpty))
  -- a placeholder used inside a WITH clause AND in the main statement: the walker reaches the main statement's
  -- clauses first, so the parameter is typed and named after that use, not after its first use in the text
  let cteRepeat := (src.search (·.isKind "WithClause")).any (fun w =>
    (List.range 12).any (fun n => countParam (n + 1) w > 0 && countParam (n + 1) src > countParam (n + 1) w))
  -- two relations of the statement share a bare name across schemas: the parameter resolver's alias / name lookup
  -- goes by bare name and takes the LAST such relation
  let rvNames := (src.search (·.isKind "RangeVar")).map (fun rv => ((rv.get "Schemaname").strVal, (rv.get "Relname").strVal))
  let sameBare := rvNames.any (fun a => rvNames.any (fun b => a.2 == b.2 && a.1 != b.1))
  -- JOIN … USING: sqlc does not merge the join column, an unqualified reference to it is reported ambiguous
  let joinUsing := (src.search (·.isKind "JoinExpr")).any (fun j => !(j.get "UsingClause").isNull && !(j.get "UsingClause").items.isEmpty)
  -- a set-returning function in FROM contributes no relation in sqlc: its column cannot be named
  let rangeFunc := !(src.search (·.isKind "RangeFunction")).isEmpty
  { model := run.model, compare := !walkPanic && !reparseRejected impl, frag := if walkPanic then "out:walk-panic" else if reparseRejected impl then "out:reparse-rejected" else "in",
    specImpl := spec inp impl,
    trig := run.trig ++ (if ml then ["scopeLeak", "nestedLevel"] else []) ++ (if repeated then ["repeatedPlaceholder"] else []) ++
      (if exprCol then ["exprColumn"] else []) ++ (if needsQ then ["needsQuoting"] else []) ++
      (if resShared then ["reservedShared"] else []) ++ (if lenDrop then ["lengthDropped"] else []) ++
      (if coalesceAlias then ["coalesceAlias"] else []) ++ (if aliasList then ["aliasListIgnored"] else []) ++
      (if unknownQual then ["unknownQualifier"] else []) ++ (if updFromStar then ["updateFromStar"] else []) ++
      (if rangeFunc then ["funcFromItem"] else []) ++ (if cteRepeat then ["cteWalkOrder"] else []) ++
      (if joinUsing then ["joinUsing"] else []) ++ (if sameBare then ["sameBareName"] else []),
    implProj := some (implProjection impl) }

def c02 (kind : String) (inp impl : Json) : Verdict :=
  if kind == "analysis" then analysisVerdict specC02 inp impl else { compare := false, frag := "e2e" }
def c05 (kind : String) (inp impl : Json) : Verdict :=
  if kind == "analysis" then analysisVerdict specC05 inp impl else { compare := false, frag := "e2e" }
def c06 (kind : String) (inp impl : Json) : Verdict :=
  if kind == "analysis" then analysisVerdict specC06 inp impl else { compare := false, frag := "e2e" }
def c07 (kind : String) (inp impl : Json) : Verdict :=
  if kind == "analysis" then analysisVerdict specC07 inp impl else { compare := false, frag := "e2e" }
def c10 (kind : String) (inp impl : Json) : Verdict :=
  if kind == "analysis" then analysisVerdict specC10 inp impl else { compare := false, frag := "e2e" }

end Sqlc.Drv
