/-
L4 — config.Combine and V1GenerateSettings.Translate, as far as overrides / renames / Go options flow.
-/
namespace Sqlc.Cfg

structure GoOpts where
  emitInterface : Bool := false
  emitJSONTags : Bool := false
  emitDBTags : Bool := false
  emitPreparedQueries : Bool := false
  emitExactTableNames : Bool := false
  emitEmptySlices : Bool := false
  jsonTagsCaseStyle : String := ""
  package : String := ""
  out : String := ""
deriving Repr, DecidableEq

/-- an override is opaque here; C15 looks inside -/
structure Pkg (Ov : Type) where
  engine : String
  schema : List String
  queries : List String
  go : Option (GoOpts × List Ov)       -- gen.go with its package-level overrides
  kotlin : Bool := false
  python : Option (List Ov) := none

structure Config (Ov : Type) where
  globalOverrides : List Ov
  globalRename : List (String × String)
  packages : List (Pkg Ov)

structure Combined (Ov : Type) where
  go : GoOpts
  rename : List (String × String)
  overrides : List Ov

/-- config.Combine: global overrides first, then the package's own (Go, then Python) -/
def combine {Ov : Type} (conf : Config Ov) (p : Pkg Ov) : Combined Ov :=
  { go := (p.go.map (·.1)).getD {},
    rename := conf.globalRename,
    overrides := conf.globalOverrides ++ (p.go.map (·.2)).getD [] ++ p.python.getD [] }

/-- version-1 package settings -/
structure V1Pkg (Ov : Type) where
  name : String
  path : String
  engine : String
  schema : List String
  queries : List String
  opts : GoOpts            -- only the emit_* fields and the case style are meaningful here
  overrides : List Ov

structure V1Config (Ov : Type) where
  packages : List (V1Pkg Ov)
  overrides : List Ov
  rename : List (String × String)

/-- V1GenerateSettings.Translate -/
def translate {Ov : Type} (c : V1Config Ov) : Config Ov :=
  { globalOverrides := c.overrides, globalRename := c.rename,
    packages := c.packages.map (fun p =>
      { engine := p.engine, schema := p.schema, queries := p.queries,
        go := some ({ p.opts with package := p.name, out := p.path }, p.overrides) }) }

end Sqlc.Cfg
