import Lean.Data.Json
import SqlcModel.Text.Lines
/- JSON helpers for the line-protocol driver (executable only; nothing here is used in proofs). -/
namespace Sqlc.Drv
open Lean

def hexDigit (n : Nat) : Char := if n < 10 then Char.ofNat (48 + n) else Char.ofNat (87 + n)

def toHex (b : Bytes) : String :=
  String.ofList (b.flatMap (fun x => [hexDigit (x.toNat / 16), hexDigit (x.toNat % 16)]))

def hexVal (c : Char) : Nat :=
  if c.isDigit then c.toNat - 48 else if 'a' ≤ c ∧ c ≤ 'f' then c.toNat - 87 else if 'A' ≤ c ∧ c ≤ 'F' then c.toNat - 55 else 0

def fromHexAux : List Char → Bytes
  | a :: b :: rest => UInt8.ofNat (hexVal a * 16 + hexVal b) :: fromHexAux rest
  | _ => []

def fromHex (s : String) : Bytes := fromHexAux s.toList

def jstr (j : Json) (k : String) : String := (j.getObjValAs? String k).toOption.getD ""
def jhex (j : Json) (k : String) : Bytes := fromHex (jstr j k)
def jbool (j : Json) (k : String) : Bool := (j.getObjValAs? Bool k).toOption.getD false
def jnat (j : Json) (k : String) : Nat := (j.getObjValAs? Nat k).toOption.getD 0
def jint (j : Json) (k : String) : Int := (j.getObjValAs? Int k).toOption.getD 0
def jarr (j : Json) (k : String) : List Json :=
  match j.getObjVal? k with
  | .ok (.arr a) => a.toList
  | _ => []
def jobj (j : Json) (k : String) : Json := (j.getObjVal? k).toOption.getD Json.null
def jhas (j : Json) (k : String) : Bool := match j.getObjVal? k with | .ok .null => false | .ok _ => true | _ => false
def jstrs (j : Json) (k : String) : List String := (jarr j k).filterMap (fun x => x.getStr?.toOption)
def jhexs (j : Json) (k : String) : List Bytes := (jstrs j k).map fromHex
def jopt (j : Json) (k : String) : Option String :=
  match j.getObjVal? k with
  | .ok (.str s) => some s
  | _ => none

def mkHexs (l : List Bytes) : Json := Json.arr (l.map (fun b => Json.str (toHex b))).toArray
def mkStrs (l : List String) : Json := Json.arr (l.map Json.str).toArray

/-- one verdict per case -/
structure Verdict where
  model : Json := Json.null           -- the model's observation, same shape as the harness' "impl"
  compare : Bool := true              -- false: correspondence not applicable (out of fragment / e2e-only case)
  frag : String := "in"
  specImpl : String := "ok"           -- executable spec predicate on the implementation's observation
  specModel : String := "ok"          -- … and on the model's
  trig : List String := []            -- known-finding triggers true of the input
  implProj : Option Json := none      -- the part of the implementation's observation the model predicts

def Verdict.toJson (v : Verdict) (id : String) : Json :=
  Json.mkObj [("id", id), ("model", v.model), ("compare", v.compare), ("frag", v.frag),
    ("spec_impl", v.specImpl), ("spec_model", v.specModel), ("trig", mkStrs v.trig)] |>.mergeObj
    (match v.implProj with | some p => Json.mkObj [("impl_proj", p)] | none => Json.mkObj [])

end Sqlc.Drv
