import SqlcModel.Driver.Json
import SqlcModel.Text.Migrations
import SqlcModel.Spec.Migrations
namespace Sqlc.Drv
open Lean

def specDocKeep (p : Bytes) : Bool :=
  hasSuffix Spec.docSqlSuffix p && !(Spec.docHiddenPrefix.isPrefixOf (baseName p)) &&
  !(hasSuffix Spec.docDownSuffix (baseName p))

def c14 (kind : String) (inp impl : Json) : Verdict :=
  match kind with
  | "rollback" =>
    let text := jhex inp "text"
    let m := removeRollback text
    let want := joinNL (Spec.upLines (scanLines text))
    let long := hasLongLine text
    let near := (scanLines text).any (fun l => isMarker l && !Spec.isMarkerLine l)
    { model := Json.mkObj [("out", toHex m)],
      compare := !long, frag := if long then "out:long-line" else "in",
      specImpl := if jhex impl "out" == want then "ok" else "fail:kept-text≠lines-before-first-marker",
      specModel := if m == want then "ok" else "fail:kept-text≠lines-before-first-marker",
      trig := (if near then ["markerPrefix"] else []) ++ (if long then ["longLine"] else []) }
  | "glob" =>
    let paths := jhexs inp "paths"
    let fs := (jarr inp "fs").map (fun e => (jhex e "path", jstr e "kind", jhexs e "names"))
    let stat : Bytes → PathKind := fun p =>
      match fs.find? (fun e => e.1 == p) with
      | some (_, "file", _) => .file
      | some (_, "dir", names) => .dir names
      | _ => .missing
    let out (r : Except Bytes (List Bytes)) : Json := match r with
      | .ok files => Json.mkObj [("files", mkHexs files)]
      | .error p => Json.mkObj [("missing", toHex p)]
    let m := glob stat paths
    let want := (expandPaths stat paths).map (·.filter specDocKeep)
    { model := out m,
      specImpl := if impl.compress == (out want).compress then "ok" else "fail:selected-files≠documented-filter",
      specModel := if (out m).compress == (out want).compress then "ok" else "fail:selected-files≠documented-filter" }
  | _ => { compare := false, frag := "e2e" }

end Sqlc.Drv
