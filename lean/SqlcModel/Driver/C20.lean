import SqlcModel.Driver.Json
import SqlcModel.Kotlin.Bindings
/- C20 driver: the model of ktColumnsToStruct applied to the real per-occurrence parameter stream must give the
arguments and binds the emitted Kotlin has (names compared up to case style and underscores). -/
namespace Sqlc.Drv
open Lean Sqlc.Kotlin

def normKt (f : KtField) : String :=
  let b := String.ofList ((f.base.toList.filter (· != '_')).map Char.toLower)
  if f.suffix > 0 then b ++ toString f.suffix else b

def c20 (kind : String) (inp impl : Json) : Verdict :=
  if kind != "e2e" then { compare := false, frag := "unknown-kind" } else
  if !(jbool impl "ok") then { compare := false, frag := "out:generation-failed" } else
  match jobj inp "positional" with
  | .obj kvs =>
    let entries := kvs.toList
    let pred := entries.map (fun (q, stream) =>
      let cols : List KtCol := match stream with
        | .arr a => a.toList.filterMap (fun p => match p with
          | .arr #[n, .str s] => some ({ id := n.getNat?.toOption.getD 0, name := s } : KtCol)
          | _ => none)
        | _ => []
      let st := ktColumnsToStruct cols
      (q, Json.mkObj [("binds", mkStrs (st.binds.map normKt)), ("params", mkStrs (st.fields.map normKt))]))
    let got := entries.map (fun (q, _) => (q, jobj (jobj impl "kt") q))
    { model := Json.mkObj pred, compare := true, implProj := some (Json.mkObj got) }
  | _ => { compare := false, frag := "out:no-stream" }

end Sqlc.Drv
