import SqlcModel.Driver.Json
import SqlcModel.Text.Source
import SqlcModel.Spec.Rewrite
namespace Sqlc.Drv
open Lean

/-- independent spec of Mutate for well-formed inputs: simultaneous substitution, left to right -/
def substAll (raw : Bytes) (es : List Edit) : Option Bytes :=
  let sorted := es.mergeSort (fun a b => a.loc ≤ b.loc)
  let rec go : List Edit → Nat → Bytes → Bytes → Option Bytes
    | [], _, rest, acc => some (acc ++ rest)
    | e :: more, pos, rest, acc =>
      if e.loc < 0 then none else
      let l := e.loc.toNat
      if l < pos then none else
      let gap := rest.take (l - pos)
      let rest' := rest.drop (l - pos)
      if e.old.isEmpty || e.new.isEmpty then none
      else if !(e.old.isPrefixOf rest') then none
      else go more (l + e.old.length) (rest'.drop e.old.length) (acc ++ gap ++ e.new)
  go sorted 0 raw []

def asciiEdge (s : Bytes) : Bool :=
  -- leading/trailing white space must be ASCII for the TrimSpace model: after trimming ASCII white
  -- space the text must not begin or end with a non-ASCII byte (which could be a Unicode space)
  let t := trimSpace s
  match t.head?, t.getLast? with
  | some a, some b => a < 128 && b < 128
  | _, _ => true

def c04 (kind : String) (inp impl : Json) : Verdict :=
  match kind with
  | "mutate" =>
    let raw := jhex inp "raw"
    let es := (jarr inp "edits").map (fun e => ({ loc := jint e "loc", old := jhex e "old", new := jhex e "new" } : Edit))
    let distinctLocs := (es.map (·.loc)).eraseDups.length == es.length
    let m := match mutate raw es with
      | .ok out => Json.mkObj [("out", toHex out)]
      | .error .outOfBounds => Json.mkObj [("err", "outOfBounds")]
      | .error .emptyEdit => Json.mkObj [("err", "emptyEdit")]
      | .error .panic => Json.mkObj [("err", "panic")]
    let spec := substAll raw es
    let sp (out : Json) : String := match spec with
      | some w => if jstr out "out" == toHex w && !jhas out "err" then "ok" else "fail:well-formed non-overlapping edits must give the simultaneous substitution"
      | none => "na"
    { model := m, compare := distinctLocs, frag := if distinctLocs then "in" else "out:equal-locations",
      specImpl := sp impl, specModel := sp m }
  | "strip" =>
    let sql := jhex inp "sql"
    let (out, cs) := stripComments sql
    let ok := asciiEdge sql && !hasLongLine sql
    { model := Json.mkObj [("sql", toHex out), ("comments", mkHexs cs)], compare := ok,
      frag := if ok then "in" else "out:non-ascii-edge-or-long-line" }
  | "e2e" =>
    let mysql := jstr inp "engine" == "mysql"
    if !jbool impl "ok" then
      { compare := false, frag := "e2e", specImpl := s!"fail:generation of a valid query file failed: {jstr impl "err"}" }
    else
      let verdicts := (jarr impl "stmts").map (fun st =>
        let src := Spec.Rw.stripSemis (Spec.Lex.lex mysql (jhex st "source"))
        let emb := Spec.Rw.stripSemis (Spec.Lex.lex mysql (jhex st "embedded"))
        let name := jstr st "name"
        if !jbool st "reparses" then s!"fail:{name}: embedded SQL does not parse in the engine's dialect"
        else match Spec.Rw.matchToks mysql false (src.length + emb.length + 8) src emb {} with
          | none => s!"fail:{name}: embedded token sequence is not the source's modulo the documented rewrites"
          | some acc =>
            if !mysql && !Spec.Rw.namesConsistent acc.names then s!"fail:{name}: named parameters and placeholder numbers are not one-to-one"
            else if !mysql && !Spec.Rw.firstUseOrder acc.names then s!"order:{name}: placeholder numbers do not follow order of first use"
            else if (jstrs st "docs").map (·.trimAscii.toString) != (jstrs st "gotdocs").map (·.trimAscii.toString) then s!"fail:{name}: doc comment {jstrs st "gotdocs"} ≠ full-line comments {jstrs st "docs"}"
            else "ok")
      let bad := verdicts.filter (· != "ok")
      { compare := false, frag := "e2e",
        specImpl := match bad with | [] => "ok" | b :: _ => b,
        trig := if bad.any (·.startsWith "order:") && bad.all (·.startsWith "order:") then ["paramOrder"] else [] }
  | _ => { compare := false, frag := "unknown-kind" }

end Sqlc.Drv
