import SqlcModel.Driver.Analysis
/- C18 driver: the model carries panic sites as values; it must predict a crash exactly when the real
compiler crashes. The spec predicate is "no crash, no hang". -/
namespace Sqlc.Drv
open Lean Sqlc Sqlc.Q

/-- the recorded crash class a modelled panic value belongs to -/
def modelPanicClass (e : String) : String :=
  let has (sub : String) : Bool := (e.splitOn sub).length > 1
  if has "defaultTable is nil" then "defaultTableNil"
  else if has "n.Cols.Items" then "insertColsShort"
  else if has "source.Mutate" then "mutateNegative"
  else if has "n.Alias is nil" then "subselectNoAlias"
  else if has "named argument" then "namedArgNoType"
  else if has "n.FromClause is nil" then "updateNoFrom"
  else "modelled:" ++ String.ofList ((e.drop 6).toString.toList.map (fun c => if c.isAlphanum then c else '_'))

def c18 (kind : String) (inp impl : Json) : Verdict :=
  match kind with
  | "analysis" =>
    if !jhas inp "ast" then
      { compare := false, frag := "out:unparsed",
        specImpl := if jstr impl "err" == "panic" then s!"fail:sqlc aborts with a Go panic at {jstr impl "site"}: {jstr impl "panic"}" else "ok" }
    else
      let walkPanic := jhas inp "walkPanics"
      let run := runAnalysis inp
      let trig : List String := match run.result with
        | .error e => if e.startsWith "panic:" then [modelPanicClass e] else []
        | .ok _ => []
      { model := run.model, compare := !walkPanic && !reparseRejected impl, frag := if walkPanic then "out:walk-panic" else if reparseRejected impl then "out:reparse-rejected" else "in",
        specImpl := if jstr impl "err" == "panic" then s!"fail:sqlc aborts with a Go panic at {jstr impl "site"}: {jstr impl "panic"}" else "ok",
        trig := trig, implProj := some (implProjection impl) }
  | "gen" => { compare := false, frag := "e2e" }
  | _ => { compare := false, frag := "unknown-kind" }

end Sqlc.Drv
