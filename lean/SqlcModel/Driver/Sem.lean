import SqlcModel.Driver.Analysis
import SqlcModel.Driver.C09
import SqlcModel.GoGen.Query
import SqlcModel.Spec.PgSem
/- PgSem-based spec predicates for C02, C05, C06, C07, C10 (driver only) -/
namespace Sqlc.Drv
open Lean Sqlc Sqlc.Q Sqlc.Spec.Sem

def semErrStr : SemErr → String
  | .relationMissing n => s!"relation {n} does not exist"
  | .columnMissing n => s!"column {n} does not exist"
  | .columnAmbiguous n => s!"column reference {n} is ambiguous"
  | .qualifierMissing n => s!"missing FROM-clause entry for table {n}"
  | .unsupported w => s!"unsupported:{w}"

def isUnsupported : SemErr → Bool
  | .unsupported _ => true
  | _ => false

structure SemCase where
  cat : Cat
  src : Node
  emb : Option Node
  names : List (Nat × String)
  mysql : Bool

/-- columns the generator's own migration removed are removed from the oracle's catalog whatever sqlc's
catalog says (a column sqlc wrongly kept must not make the oracle accept the query) -/
def dropGone (c : Cat) (gone : List (String × String)) : Cat :=
  { c with schemas := c.schemas.map (fun sch =>
      if sch.name != c.defaultSchema then sch else
      { sch with tables := sch.tables.map (fun t =>
          { t with cols := t.cols.filter (fun col => !gone.contains (t.name, col.name)) }) }) }

def readGone (inp : Json) : List (String × String) :=
  (jarr inp "gone").filterMap (fun p => match p with
    | .arr #[.str t, .str c] => some (t, c)
    | _ => none)

/-- columns the generator's own history leaves in place are present in the oracle's catalog whatever sqlc's
catalog says (type unknown: only resolution is judged through them) -/
def addHas (c : Cat) (has : List (String × String)) : Cat :=
  { c with schemas := c.schemas.map (fun sch =>
      if sch.name != c.defaultSchema then sch else
      { sch with tables := sch.tables.map (fun t =>
          let missing := (has.filter (fun h => h.1 == t.name && !t.cols.any (·.name == h.2))).map (·.2)
          { t with cols := t.cols ++ missing.map (fun n => ({ name := n, tschema := "", tname := "?", notNull := false, isArray := false } : CatCol)) }) }) }

def readHas (inp : Json) : List (String × String) :=
  (jarr inp "has").filterMap (fun p => match p with
    | .arr #[.str t, .str c] => some (t, c)
    | _ => none)

def readSemCase (inp impl : Json) : SemCase :=
  let engine := jstr inp "engine"
  { cat := addHas (dropGone (readCat (jobj inp "catalog") engine) (readGone inp)) (readHas inp), src := readNode (jobj inp "ast"),
    emb := if jhas impl "embAst" then some (readNode (jobj impl "embAst")) else none,
    names := (jarr inp "names").filterMap (fun p => match p with
      | .arr #[n, .str s] => some ((n.getNat?.toOption.getD 0), s)
      | _ => none),
    mysql := engine == "mysql" }

def implCols (impl : Json) : List Json := jarr impl "columns"
def implParams (impl : Json) : List Json := jarr impl "params"

def scanning (inp : Json) : Bool := jstr inp "cmd" == ":one" || jstr inp "cmd" == ":many"

/-- `&i.Name` / `pq.Array(&i.Tags)` ↦ the struct field; lone destinations (`&name`, `&items`) have none -/
def scanField (d : String) : Option String :=
  match d.splitOn "&i." with
  | [_, rest] => some (String.ofList (rest.toList.takeWhile (fun c => c.isAlphanum || c == '_')))
  | _ => none

def normIdent (s : String) : String := String.ofList ((s.toList.filter (· != '_')).map Char.toLower)

/-- the field made from a column name: the name itself, possibly with a de-duplication number -/
def fieldMatches (f c : String) : Bool :=
  f == c || (f.startsWith c && ((f.drop c.length).toString.toList.all Char.isDigit))

/-- C02: the generated method scans exactly the columns the embedded SQL returns, in order, and named
columns keep their names -/
def specC02 (inp impl : Json) : String :=
  if jstr impl "err" != "" then "na" else
  let sc := readSemCase inp impl
  match sc.emb with
  | none => s!"fail:embedded SQL does not parse: {jstr impl "embErr"}"
  | some emb =>
    match analyzeStmt sc.cat emb with
    | .error e => if isUnsupported e then "na" else s!"fail:embedded SQL does not resolve against the schema: {semErrStr e}"
    | .ok sem =>
      let cols := implCols impl
      let go := jobj impl "go"
      if cols.length != sem.shape.length then s!"fail:{cols.length} result columns inferred, the embedded SQL returns {sem.shape.length}"
      else if scanning inp && jbool go "ok" && (jstrs go "scan").length != sem.shape.length && !(sem.shape.length == 0) then
        s!"fail:method scans {(jstrs go "scan").length} destinations, the embedded SQL returns {sem.shape.length} columns"
      else
        let bad := (cols.zip sem.shape).filter (fun (cj, ci) => ci.named && jstr cj "name" != ci.name)
        match bad with
        | (cj, ci) :: _ => s!"fail:result column {ci.name} is exposed as {jstr cj "name"}"
        | [] =>
          -- Go level: the k-th Scan destination is the field made from the k-th column the embedded SQL returns
          let badDest := if scanning inp && jbool go "ok" then
              ((jstrs go "scan").zip sem.shape).find? (fun (d, ci) =>
                match scanField d with
                | some f => ci.named && !fieldMatches (normIdent f) (normIdent ci.name)
                | none => false)
            else none
          match badDest with
          | some (d, ci) => s!"fail:column {ci.name} of the embedded SQL is scanned into {d}"
          | none => "ok"

/-- identifiers of the statement (column / table / alias names), for the "names the offender" clause -/
def stmtIdents (src : Node) : List String :=
  (src.search (fun n => n.isKind "ColumnRef")).flatMap (fun cr => (cr.get "Fields").stringItems) ++
  (src.search (fun n => n.isKind "RangeVar")).map (fun rv => (rv.get "Relname").strVal) ++
  (src.search (fun n => n.isKind "ResTarget")).filterMap (fun rt => (rt.get "Name").strOpt)

/-- C10: reject exactly the statements whose relation / result-list / parameter-paired names do not resolve -/
def specC10 (inp impl : Json) : String :=
  let sc := readSemCase inp impl
  let err := jstr impl "err"
  if err == "panic" || err == "schema" || err.startsWith "parse" then "na" else
  let named : Option String := match err.splitOn ":" with
    | [_, _, n] => some n
    | [_, n] => some n
    | _ => none
  let namesSomething : Bool := match named with
    | some n => (stmtIdents sc.src).contains n
    | none => true
  match analyzeStmt sc.cat sc.src with
  | .error e =>
    if isUnsupported e then "na"
    else if err == "" then s!"fail:accepted although {semErrStr e}"
    else if err.startsWith "42" && !namesSomething then s!"fail:rejected ({err}) naming something that is not in the statement"
    else "ok"
  | .ok sem =>
    match sem.pairs.find? (fun p => match p.col with | .error e => !isUnsupported e | .ok _ => false) with
    | some p =>
      (match p.col with
       | .error e => if err == "" then s!"fail:accepted although parameter ${p.number} is paired with a name that does not resolve: {semErrStr e}" else "ok"
       | .ok _ => "ok")
    | none =>
      if err == "" then "ok"
      else if sem.loose then "na"
      else if err.startsWith "42703" || err.startsWith "42P01" || err.startsWith "3F000" then s!"fail:rejected ({err}: {jstr impl "msg"}) although every name resolves"
      else "na"      -- other rejections (unsupported constructs, annotation errors) are not C10's business

def catColOf (c : Cat) (o : String × String × String) : Option CatCol :=
  match c.schemas.find? (·.name == o.1) with
  | none => none
  | some s => match s.tables.find? (·.name == o.2.1) with
    | none => none
    | some t => t.cols.find? (·.name == o.2.2)

def readQCol (j : Json) : Q.Column :=
  { name := jstr j "name", dataType := jstr j "dataType", notNull := jbool j "notNull", isArray := jbool j "isArray",
    length := (let l := jint j "length"; if l < 0 then none else some l.toNat),
    table := if jhas j "table" then
      let t := jobj j "table"
      some { catalog := jstr t "catalog", schema := jstr t "schema", name := jstr t "name" } else none }

def goFieldsOf (l : List Json) : List (String × String) := l.map (fun f => (jstr f "name", jstr f "type"))

/-- the Go fields the method really returns: its Row struct, or the model struct it returns -/
def returnedFields (go : Json) : Option (List (String × String) × Option String) :=
  let row := goFieldsOf (jarr go "rowStruct")
  if !row.isEmpty then some (row, none) else
  match (jstrs go "results").head? with
  | none => none
  | some r =>
    let elem := if (r.startsWith "[]") then (r.drop 2).toString else r
    let m := jarr (jobj go "models") elem
    if m.isEmpty then none else some (goFieldsOf m, some elem)

/-- the model struct of a catalog table: the one whose field names are the table's column names -/
def modelOfTable (env : GoGen.TypeEnv) (go : Json) (t : CatTable) : Option (String × List (String × String)) :=
  let want := (t.cols.zipIdx).map (fun (c, i) => GoGen.structName env.rename (GoGen.columnName c.name i))
  match jobj go "models" with
  | .obj kvs => (kvs.toList.map (fun (k, v) => (k, match v with | .arr a => goFieldsOf a.toList | _ => []))).find? (fun kv => kv.2.map (·.1) == want)
  | _ => none

/-- C05: (compiler level) a plain reference carries its catalog column's type, nullability, array-ness;
(Go level) the returned fields are exactly goType of the query's columns, a model struct is returned only
when its fields equal them, a plain reference has the model field's Go type, and the whole-table query
returns the model -/
def specC05 (inp impl : Json) : String :=
  if jstr impl "err" != "" then "na" else
  let sc := readSemCase inp impl
  match analyzeStmt sc.cat sc.src with
  | .error _ => "na"
  | .ok sem =>
    let cols := implCols impl
    if cols.length != sem.shape.length then "na" else
    let bad := (cols.zip sem.shape).filterMap (fun (cj, ci) =>
      match ci.origin with
      | none => none
      | some o => match catColOf sc.cat o with
        | none => none
        | some cc =>
          let dt := dataTypeOf cc.tschema cc.tname
          if jstr cj "dataType" != dt || jbool cj "notNull" != cc.notNull || jbool cj "isArray" != cc.isArray then
            some s!"fail:result column {ci.name} (from {o.2.1}.{o.2.2}: {dt} notnull={cc.notNull} array={cc.isArray}) is typed {jstr cj "dataType"} notnull={jbool cj "notNull"} array={jbool cj "isArray"}"
          else none)
    match bad with
    | b :: _ => b
    | [] =>
      let go := jobj impl "go"
      if !(jbool go "ok") || !scanning inp || cols.length < 2 then "ok" else
      let env := readTypeEnv (jobj inp "env")
      let qcols := cols.map readQCol
      let expect : List (String × String) := match (GoGen.retOfFresh env "Q" qcols).struct with
        | some st => st.fields.map (fun f => (f.name, f.type))
        | none => []
      -- the model structs as buildStructs makes them (name and fields observed, table from the catalog)
      let structs : List GoGen.Struct := sc.cat.schemas.flatMap (fun sch => sch.tables.filterMap (fun t =>
        (modelOfTable env go t).map (fun (mn, mf) =>
          ({ name := mn, fields := mf.map (fun f => { name := f.1, type := f.2 }), table := { schema := sch.name, rel := t.name } } : GoGen.Struct))))
      let predicted := GoGen.retOf env structs "Q" qcols
      let predictedModel : Option String := if predicted.emit then none else predicted.struct.map (·.name)
      match returnedFields go with
      | none => "na"
      | some (got, viaModel) =>
        if predictedModel != viaModel then
          s!"fail:MODEL-MISMATCH the model of buildQueries predicts the method returns {predictedModel.getD "a Row struct"}, it returns {viaModel.getD "a Row struct"}"
        else if got.map (·.2) != expect.map (·.2) || (viaModel.isSome && got.map (·.1) != expect.map (·.1)) then
          s!"fail:the method returns {viaModel.getD "its Row struct"} with fields {got}, the query's columns are {expect}"
        else
          -- plain references against the model struct of their table
          let refBad := ((got.zip sem.shape).filterMap (fun (g, ci) =>
            match ci.origin with
            | none => none
            | some o =>
              match sc.cat.schemas.find? (·.name == o.1) with
              | none => none
              | some sch => match sch.tables.find? (·.name == o.2.1) with
                | none => none
                | some t => match modelOfTable env go t with
                  | none => none
                  | some (mn, mf) =>
                    match (t.cols.zipIdx).find? (fun (c, _) => c.name == o.2.2) with
                    | none => none
                    | some (_, i) =>
                      let mt := (mf.getD i ("", "")).2
                      if mt != g.2 then some s!"fail:result column {ci.name} (a plain reference to {o.2.1}.{o.2.2}) has Go type {g.2}, the model struct {mn} gives that column {mt}"
                      else none))
          match refBad with
          | b :: _ => b
          | [] =>
            let mm := jstr inp "mustModel"
            if mm != "" && viaModel.isNone then s!"fail:selecting all columns of {mm} in declaration order does not return the model type"
            else "ok"

mutual
partial def countParam (n : Nat) : Node → Nat
  | .nd k fs => (if k == "ParamRef" && ((Node.nd k fs).get "Number").natVal == n then 1 else 0) + (fs.map (fun f => countParam n f.2.2)).sum
  | .list is => (is.map (countParam n)).sum
  | _ => 0
end

def multiLevel (src : Node) : Bool := (src.search (fun n => stmtKinds.contains n.kind)).length > 1

/-- the Go type of the k-th (0-based, in number order) parameter of the method -/
def goParamType (go : Json) (nparams k : Nat) : Option String :=
  if nparams == 1 then ((jarr go "params").head?).map (fun p => jstr p "type")
  else ((jarr go "paramsStruct")[k]?).map (fun f => jstr f "type")

def modelFieldType (sc : SemCase) (env : GoGen.TypeEnv) (go : Json) (o : String × String × String) : Option (String × String) :=
  match sc.cat.schemas.find? (·.name == o.1) with
  | none => none
  | some sch => match sch.tables.find? (·.name == o.2.1) with
    | none => none
    | some t => match modelOfTable env go t with
      | none => none
      | some (mn, mf) => match (t.cols.zipIdx).find? (fun (c, _) => c.name == o.2.2) with
        | none => none
        | some (_, i) => (mf[i]?).map (fun f => (mn, f.2))

/-- C06: a placeholder paired with a column takes that column's type, nullability, array-ness (compiler
level) and the model field's Go type (Go level), and its name unless the user named it; LIMIT / OFFSET
placeholders are non-null integers -/
def specC06 (inp impl : Json) : String :=
  if jstr impl "err" != "" then "na" else
  let sc := readSemCase inp impl
  match analyzeStmt sc.cat sc.src with
  | .error _ => "na"
  | .ok sem =>
    let params := implParams impl
    let go := jobj impl "go"
    let env := readTypeEnv (jobj inp "env")
    let firstLoc (n : Nat) : Option Int :=
      ((sc.src.search (fun x => x.isKind "ParamRef" && (x.get "Number").natVal == n)).map (fun x => (x.get "Location").intVal)).min?
    -- a number used both as a row count and as a column value is ill-typed in the database: not judged
    let inLimit (n : Nat) : Bool := (sc.src.search (fun x => stmtKinds.contains x.kind)).any (fun st =>
      countParam n (st.get "LimitCount") + countParam n (st.get "LimitOffset") > 0)
    let bad := sem.pairs.filterMap (fun p =>
      match p.col with
      | .error _ => none
      | .ok ci =>
        -- a placeholder used in several places takes its type where it occurs FIRST in the text (as the
        -- database does); later occurrences are not judged, nor is a placeholder whose first occurrence is
        -- not a column pairing
        if countParam p.number sc.src != 1 && (firstLoc p.number != some p.loc || inLimit p.number) then none else
        match (params.zipIdx).find? (fun (pj, _) => jnat pj "number" == p.number) with
        | none => none                 -- dropped parameters are C03's business
        | some (pj, k) =>
          let col := jobj pj "column"
          let wantName := match sc.names.find? (·.1 == p.number) with | some (_, n) => n | none => ci.name
          if jstr col "dataType" != ci.dataType || jbool col "notNull" != ci.notNull || jbool col "isArray" != ci.isArray then
            some s!"fail:parameter ${p.number} is paired with column {ci.name} ({ci.dataType} notnull={ci.notNull} array={ci.isArray}) but typed {jstr col "dataType"} notnull={jbool col "notNull"} array={jbool col "isArray"}"
          else if jstr col "name" != wantName then some s!"fail:parameter ${p.number} is named {jstr col "name"}, expected {wantName}"
          else if !(jbool go "ok") then none
          else match ci.origin, goParamType go params.length k with
            | some o, some gt =>
              (match modelFieldType sc env go o with
               | some (mn, mt) => if mt != gt then some s!"fail:parameter ${p.number} is paired with {o.2.1}.{o.2.2} and has Go type {gt}; the model struct {mn} gives that column {mt}" else none
               | none => none)
            | _, _ => none)
    match bad with
    | b :: _ => b
    | [] =>
      -- LIMIT / OFFSET placeholders
      -- (of the statement itself and of every sub-select, wherever it sits)
      let stmt := if sc.src.isKind "RawStmt" then sc.src.get "Stmt" else sc.src
      let lim := (([stmt] ++ sc.src.search (fun x => x.isKind "SelectStmt")).flatMap (fun st =>
        ([st.get "LimitCount", st.get "LimitOffset"].filterMap paramOf).map (·.1))).eraseDups
      let lbad := lim.filterMap (fun n =>
        if countParam n sc.src != 1 then none else
        match (params.zipIdx).find? (fun (pj, _) => jnat pj "number" == n) with
        | none => none
        | some (pj, k) =>
          let col := jobj pj "column"
          if !(jbool col "notNull") then some s!"fail:LIMIT/OFFSET parameter ${n} is nullable"
          else if !(jbool go "ok") then none
          else match goParamType go params.length k with
            | some gt => if gt == "int32" || gt == "int64" then none else some s!"fail:LIMIT/OFFSET parameter ${n} has Go type {gt}"
            | none => none)
      lbad.headD "ok"

/-- C07: the embedded SQL has no star left, resolves unambiguously, and returns exactly the columns the
source statement's stars denote -/
def specC07 (inp impl : Json) : String :=
  -- a statement whose only defect is the text star expansion wrote: the explicit list would have compiled
  if jstr impl "err" == "other" && (jstr impl "msg").startsWith "edited query syntax is invalid" &&
     !((readNode (jobj inp "ast")).search (fun n => n.isKind "ResTarget" && (n.get "Val").isKind "ColumnRef" && hasStarRef (n.get "Val"))).isEmpty &&
     (jarr inp "names").isEmpty then
    s!"fail:star expansion produced SQL the engine's own parser rejects: {jstr impl "msg"}" else
  if jstr impl "err" != "" then "na" else
  let sc := readSemCase inp impl
  let srcStars := sc.src.search (fun n => n.isKind "ResTarget" && (n.get "Val").isKind "ColumnRef" && hasStarRef (n.get "Val"))
  if srcStars.isEmpty then "na" else
  match sc.emb with
  | none => s!"fail:expanded SQL does not parse: {jstr impl "embErr"}"
  | some emb =>
    let embStars := emb.search (fun n => n.isKind "ResTarget" && (n.get "Val").isKind "ColumnRef" && hasStarRef (n.get "Val"))
    if !embStars.isEmpty then "fail:a star survived in the embedded SQL" else
    match analyzeStmt sc.cat sc.src, analyzeStmt sc.cat emb with
    | .error e, _ => if isUnsupported e then "na" else "na"
    | .ok _, .error e => if isUnsupported e then "na" else s!"fail:expanded SQL does not resolve: {semErrStr e}"
    | .ok a, .ok b =>
      let key (ci : ColInfo) := (ci.name, ci.origin)
      if a.shape.map key != b.shape.map key then
        s!"fail:expanded list {b.shape.map (·.name)} is not the catalog's columns for the stars {a.shape.map (·.name)} (or resolves to other columns)"
      else "ok"

end Sqlc.Drv
