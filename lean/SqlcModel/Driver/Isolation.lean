import SqlcModel.Driver.Generate
/-
L4 — isolation of packages inside one run and non-interference of concurrent runs.

Concurrency is modelled by an abstract interleaving semantics: each running generation owns a local
state (its catalog, parser, template context, output map — all allocated per call), every atomic
step of run `i` may read the process-global state and rewrites only run `i`'s local state. That no
step writes the global state is a REGENERATED fact (`Gen.globalWrites = []`).
-/
namespace Sqlc.Drv

/-- one atomic step of run `i`: new local state from (own local state, read-only global state) -/
structure Sys (L G : Type) where
  step : Nat → L → G → L

def Sys.exec {L G : Type} (s : Sys L G) (g : G) : List Nat → (Nat → L) → (Nat → L)
  | [], locals => locals
  | i :: rest, locals =>
    s.exec g rest (fun j => if j = i then s.step i (locals i) g else locals j)

def iter {L : Type} (f : L → L) : Nat → L → L
  | 0, x => x
  | n + 1, x => iter f n (f x)

/-- keys of a package's files -/
def keysOf : PkgOutcome → List String
  | .ok fs => fs.map (·.1)
  | _ => []

end Sqlc.Drv
