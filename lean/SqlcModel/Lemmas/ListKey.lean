import SqlcModel.Catalog.Model
/-
Helper lemmas: on a list whose keys are pairwise distinct, the Go code's first-match / last-match
slice operations coincide with set-like `map` / `filter` operations.
-/
namespace Sqlc.Cat

theorem modifyFirst_eq_map {α : Type} (key : α → String) (n : String) (f : α → α) :
    ∀ (l : List α), (l.map key).Nodup →
      modifyFirst (fun a => key a == n) f l = l.map (fun a => if key a == n then f a else a)
  | [], _ => rfl
  | a :: as, h => by
    simp only [List.map_cons, List.nodup_cons] at h
    unfold modifyFirst
    by_cases ha : (key a == n) = true
    · simp only [ha, if_true, List.map_cons]
      congr 1
      -- no later element has key n
      have hk : key a = n := by simpa using ha
      have : ∀ b ∈ as, (key b == n) = false := by
        intro b hb
        cases hbn : (key b == n) with
        | false => rfl
        | true =>
          have : key b = n := by simpa using hbn
          exact absurd (List.mem_map.mpr ⟨b, hb, by rw [this, hk]⟩) h.1
      clear h
      induction as with
      | nil => rfl
      | cons b bs ih =>
        have hb := this b (by simp)
        simp only [List.map_cons, hb]
        rw [← ih (fun x hx => this x (by simp [hx]))]
        simp
    · simp only [Bool.not_eq_true] at ha
      simp only [ha, List.map_cons]
      have ih := modifyFirst_eq_map key n f as h.2
      rw [ih]
      simp

theorem find?_isSome_eq_any {α : Type} (p : α → Bool) (l : List α) : (l.find? p).isSome = l.any p := by
  induction l with
  | nil => rfl
  | cons a as ih =>
    by_cases h : p a = true
    · simp [List.find?, h]
    · simp only [Bool.not_eq_true] at h
      simp [List.find?, h, ih]

theorem eraseIdx_findIdx_eq_filter {α : Type} (key : α → String) (n : String) :
    ∀ (l : List α) (i : Nat), (l.map key).Nodup → l.findIdx? (fun a => key a == n) = some i →
      l.eraseIdx i = l.filter (fun a => key a != n)
  | [], _, _, h => by simp at h
  | a :: as, i, hnd, h => by
    simp only [List.map_cons, List.nodup_cons] at hnd
    by_cases ha : (key a == n) = true
    · have hk : key a = n := by simpa using ha
      simp [List.findIdx?_cons, ha] at h
      subst h
      simp only [List.eraseIdx_cons_zero]
      have : ∀ b ∈ as, (key b != n) = true := by
        intro b hb
        cases hbn : (key b != n) with
        | true => rfl
        | false =>
          have : key b = n := by simpa using hbn
          exact absurd (List.mem_map.mpr ⟨b, hb, by rw [this, hk]⟩) hnd.1
      rw [List.filter_cons]
      simp only [bne, ha, Bool.not_true]
      simp
      symm
      apply List.filter_eq_self.mpr
      intro b hb
      have := this b hb
      simpa [bne] using this
    · simp only [Bool.not_eq_true] at ha
      simp [List.findIdx?_cons, ha] at h
      obtain ⟨j, hj, rfl⟩ := h
      simp only [List.eraseIdx_cons_succ]
      rw [List.filter_cons]
      simp only [bne, ha, Bool.not_false, if_true]
      congr 1
      have := eraseIdx_findIdx_eq_filter key n as j hnd.2 hj
      simpa [bne] using this

end Sqlc.Cat
