import SqlcModel.Catalog.Model
/-
Helper lemmas: on a list whose keys are pairwise distinct, the Go code's first-match / last-match
slice operations coincide with set-like `map` / `filter` operations.
-/
namespace Sqlc.Cat

theorem modifyFirst_eq_map {α : Type} (key : α → String) (n : String) (f : α → α) :
    ∀ (l : List α), (l.map key).Nodup →
      modifyFirst (fun a => key a == n) f l = l.map (fun a => if key a == n then f a else a)
  | [], _ => rfl
  | a :: as, h => by
    simp only [List.map_cons, List.nodup_cons] at h
    unfold modifyFirst
    by_cases ha : (key a == n) = true
    · simp only [ha, if_true, List.map_cons]
      congr 1
      -- no later element has key n
      have hk : key a = n := by simpa using ha
      have : ∀ b ∈ as, (key b == n) = false := by
        intro b hb
        cases hbn : (key b == n) with
        | false => rfl
        | true =>
          have : key b = n := by simpa using hbn
          exact absurd (List.mem_map.mpr ⟨b, hb, by rw [this, hk]⟩) h.1
      clear h
      induction as with
      | nil => rfl
      | cons b bs ih =>
        have hb := this b (by simp)
        simp only [List.map_cons, hb]
        rw [← ih (fun x hx => this x (by simp [hx]))]
        simp
    · simp only [Bool.not_eq_true] at ha
      simp only [ha, List.map_cons]
      have ih := modifyFirst_eq_map key n f as h.2
      rw [ih]
      simp

theorem find?_isSome_eq_any {α : Type} (p : α → Bool) (l : List α) : (l.find? p).isSome = l.any p := by
  induction l with
  | nil => rfl
  | cons a as ih =>
    by_cases h : p a = true
    · simp [List.find?, h]
    · simp only [Bool.not_eq_true] at h
      simp [List.find?, h, ih]

theorem eraseIdx_findIdx_eq_filter {α : Type} (key : α → String) (n : String) :
    ∀ (l : List α) (i : Nat), (l.map key).Nodup → l.findIdx? (fun a => key a == n) = some i →
      l.eraseIdx i = l.filter (fun a => key a != n)
  | [], _, _, h => by simp at h
  | a :: as, i, hnd, h => by
    simp only [List.map_cons, List.nodup_cons] at hnd
    by_cases ha : (key a == n) = true
    · have hk : key a = n := by simpa using ha
      simp [List.findIdx?_cons, ha] at h
      subst h
      simp only [List.eraseIdx_cons_zero]
      have : ∀ b ∈ as, (key b != n) = true := by
        intro b hb
        cases hbn : (key b != n) with
        | true => rfl
        | false =>
          have : key b = n := by simpa using hbn
          exact absurd (List.mem_map.mpr ⟨b, hb, by rw [this, hk]⟩) hnd.1
      rw [List.filter_cons]
      simp only [bne, ha, Bool.not_true]
      simp
      symm
      apply List.filter_eq_self.mpr
      intro b hb
      have := this b hb
      simpa [bne] using this
    · simp only [Bool.not_eq_true] at ha
      simp [List.findIdx?_cons, ha] at h
      obtain ⟨j, hj, rfl⟩ := h
      simp only [List.eraseIdx_cons_succ]
      rw [List.filter_cons]
      simp only [bne, ha, Bool.not_false, if_true]
      congr 1
      have := eraseIdx_findIdx_eq_filter key n as j hnd.2 hj
      simpa [bne] using this

end Sqlc.Cat

namespace Sqlc.Cat

theorem lastIdx_go_eq {α : Type} (p : α → Bool) :
    ∀ (l : List α) (i : Nat) (acc : Option Nat), (∀ a ∈ l, p a = false) → lastIdx?.go p l i acc = acc
  | [], _, _, _ => rfl
  | a :: as, i, acc, h => by
    unfold lastIdx?.go
    have ha := h a (by simp)
    simp only [ha]
    exact lastIdx_go_eq p as (i+1) acc (fun x hx => h x (by simp [hx]))

/-- with pairwise distinct keys the last match is the first match -/
theorem lastIdx_go_eq_findIdx {α : Type} (key : α → String) (n : String) :
    ∀ (l : List α) (i : Nat), (l.map key).Nodup →
      lastIdx?.go (fun a => key a == n) l i none = (l.findIdx? (fun a => key a == n)).map (· + i)
  | [], _, _ => rfl
  | a :: as, i, h => by
    simp only [List.map_cons, List.nodup_cons] at h
    unfold lastIdx?.go
    by_cases ha : (key a == n) = true
    · have hk : key a = n := by simpa using ha
      have hno : ∀ b ∈ as, (key b == n) = false := by
        intro b hb
        cases hbn : (key b == n) with
        | false => rfl
        | true =>
          have : key b = n := by simpa using hbn
          exact absurd (List.mem_map.mpr ⟨b, hb, by rw [this, hk]⟩) h.1
      simp only [ha, if_true, List.findIdx?_cons]
      rw [lastIdx_go_eq _ as (i+1) (some i) hno]
      simp
    · simp only [Bool.not_eq_true] at ha
      simp only [ha, List.findIdx?_cons, Bool.false_eq_true, if_false]
      rw [lastIdx_go_eq_findIdx key n as (i+1) h.2]
      simp only [Option.map_map]
      congr 1
      funext x
      simp [Nat.add_assoc, Nat.add_comm 1 i]

theorem lastIdx_eq_findIdx {α : Type} (key : α → String) (n : String) (l : List α) (h : (l.map key).Nodup) :
    lastIdx? (fun a => key a == n) l = l.findIdx? (fun a => key a == n) := by
  unfold lastIdx?
  rw [lastIdx_go_eq_findIdx key n l 0 h]
  simp

theorem findIdx?_isSome_eq_any {α : Type} (p : α → Bool) (l : List α) : (l.findIdx? p).isSome = l.any p := by
  induction l with
  | nil => rfl
  | cons a as ih =>
    by_cases h : p a = true
    · simp [List.findIdx?_cons, h]
    · simp only [Bool.not_eq_true] at h
      simp [List.findIdx?_cons, h, ih]

theorem findIdx?_none_iff_find?_none {α : Type} (p : α → Bool) (l : List α) :
    l.findIdx? p = none ↔ l.find? p = none := by
  constructor
  · intro h
    have := findIdx?_isSome_eq_any p l
    rw [h] at this
    have h2 := find?_isSome_eq_any p l
    rw [← this] at h2
    cases hf : l.find? p with
    | none => rfl
    | some x => rw [hf] at h2; simp at h2
  · intro h
    have := find?_isSome_eq_any p l
    rw [h] at this
    have h2 := findIdx?_isSome_eq_any p l
    rw [← this] at h2
    cases hf : l.findIdx? p with
    | none => rfl
    | some x => rw [hf] at h2; simp at h2

/-- `modify` at the first match = map-if, under distinct keys, when f keeps what `key`-equality tests -/
theorem modify_findIdx_eq_map {α : Type} (key : α → String) (n : String) (f : α → α) :
    ∀ (l : List α) (i : Nat), (l.map key).Nodup → l.findIdx? (fun a => key a == n) = some i →
      l.modify i f = l.map (fun a => if key a == n then f a else a)
  | [], _, _, h => by simp at h
  | a :: as, i, hnd, h => by
    simp only [List.map_cons, List.nodup_cons] at hnd
    by_cases ha : (key a == n) = true
    · have hk : key a = n := by simpa using ha
      simp [List.findIdx?_cons, ha] at h
      subst h
      have hno : ∀ b ∈ as, (key b == n) = false := by
        intro b hb
        cases hbn : (key b == n) with
        | false => rfl
        | true =>
          have : key b = n := by simpa using hbn
          exact absurd (List.mem_map.mpr ⟨b, hb, by rw [this, hk]⟩) hnd.1
      simp only [List.modify_zero_cons, List.map_cons, ha, if_true]
      congr 1
      symm
      rw [List.map_congr_left (g := id)]
      · simp
      · intro b hb; simp [hno b hb]
    · simp only [Bool.not_eq_true] at ha
      simp [List.findIdx?_cons, ha] at h
      obtain ⟨j, hj, rfl⟩ := h
      simp only [List.modify_succ_cons, List.map_cons, ha]
      simp
      have := modify_findIdx_eq_map key n f as j hnd.2 hj
      simpa using this

end Sqlc.Cat

namespace Sqlc.Cat

/-- with distinct keys, the element `find?` returns is the only one with that key -/
theorem eq_of_find?_of_key {α : Type} (key : α → String) (n : String) :
    ∀ (l : List α) (x a : α), (l.map key).Nodup → l.find? (fun a => key a == n) = some x →
      a ∈ l → (key a == n) = true → a = x
  | [], _, _, _, h, _, _ => by simp at h
  | b :: bs, x, a, hnd, h, ha, hk => by
    simp only [List.map_cons, List.nodup_cons] at hnd
    by_cases hb : (key b == n) = true
    · simp [List.find?, hb] at h
      subst h
      rcases List.mem_cons.mp ha with rfl | hmem
      · rfl
      · have h1 : key a = n := by simpa using hk
        have h2 : key b = n := by simpa using hb
        exact absurd (List.mem_map.mpr ⟨a, hmem, by rw [h1, h2]⟩) hnd.1
    · simp only [Bool.not_eq_true] at hb
      simp [List.find?, hb] at h
      rcases List.mem_cons.mp ha with rfl | hmem
      · rw [hb] at hk; exact absurd hk (by simp)
      · exact eq_of_find?_of_key key n bs x a hnd.2 h hmem hk

/-- map-if over a key only depends on the function's value at the unique element with that key -/
theorem map_if_congr_found {α : Type} (key : α → String) (n : String) (g1 g2 : α → α)
    (l : List α) (x : α) (hnd : (l.map key).Nodup) (hf : l.find? (fun a => key a == n) = some x)
    (hg : g1 x = g2 x) :
    l.map (fun a => if key a == n then g1 a else a) = l.map (fun a => if key a == n then g2 a else a) := by
  apply List.map_congr_left
  intro a ha
  by_cases hk : (key a == n) = true
  · have := eq_of_find?_of_key key n l x a hnd hf ha hk
    subst this
    simp [hk, hg]
  · simp only [Bool.not_eq_true] at hk
    simp [hk]

theorem map_if_none {α : Type} (key : α → String) (n : String) (g : α → α)
    (l : List α) (hf : l.find? (fun a => key a == n) = none) :
    l.map (fun a => if key a == n then g a else a) = l := by
  rw [List.map_congr_left (g := id)]
  · simp
  · intro a ha
    have := List.find?_eq_none.mp hf a ha
    simp only [Bool.not_eq_true] at this
    simp [this]

end Sqlc.Cat
