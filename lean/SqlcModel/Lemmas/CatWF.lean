import SqlcModel.Catalog.Model
import SqlcModel.Spec.PgCatalog
import SqlcModel.Lemmas.ListKey
/-
The catalog well-formedness invariant (names unique per namespace) and its preservation by the
set-like primitives of the reference semantics.
-/
set_option linter.unusedSimpArgs false
namespace Sqlc.C08
open Sqlc.Cat Sqlc.Spec

def WFTable (t : Table) : Prop := (t.cols.map (·.name)).Nodup
def WFTy : Ty → Prop
  | .enum _ vs _ => vs.Nodup
  | .composite _ _ => True
def WFSchema (s : Schema) : Prop :=
  (s.tables.map (·.name)).Nodup ∧ (s.types.map Ty.name).Nodup ∧
  (∀ t ∈ s.tables, WFTable t) ∧ (∀ t ∈ s.types, WFTy t)
def WF (c : Catalog) : Prop := (c.schemas.map (·.name)).Nodup ∧ ∀ s ∈ c.schemas, WFSchema s

/-! generic key lemmas -/

theorem nodup_filter_keys {α : Type} (key : α → String) (p : α → Bool) (l : List α)
    (h : (l.map key).Nodup) : ((l.filter p).map key).Nodup :=
  List.Nodup.sublist (List.Sublist.map key List.filter_sublist) h

theorem map_keys_preserved {α : Type} (key : α → String) (g : α → α) (l : List α)
    (hg : ∀ a ∈ l, key (g a) = key a) : (l.map g).map key = l.map key := by
  rw [List.map_map]
  apply List.map_congr_left
  intro a ha
  exact hg a ha

theorem nodup_append_fresh {α : Type} (key : α → String) (l : List α) (x : α)
    (h : (l.map key).Nodup) (hx : l.any (fun a => key a == key x) = false) :
    ((l ++ [x]).map key).Nodup := by
  rw [List.map_append, List.nodup_append]
  refine ⟨h, by simp, ?_⟩
  intro a ha b hb
  simp at hb
  subst hb
  intro heq
  obtain ⟨y, hy, hky⟩ := List.mem_map.mp ha
  have := List.any_eq_false.mp hx y hy
  simp [hky, heq] at this

/-- renaming the (unique) element with key `old` to a key that no element has keeps keys distinct -/
theorem nodup_rename {α : Type} (key : α → String) (old new : String) (g : α → α)
    (hg : ∀ a, key (g a) = new) :
    ∀ (l : List α), (l.map key).Nodup → l.any (fun a => key a == new) = false →
      ((l.map (fun a => if key a == old then g a else a)).map key).Nodup
  | [], _, _ => by simp
  | a :: as, hnd, hfresh => by
    simp only [List.map_cons, List.nodup_cons] at hnd
    simp only [List.any_cons, Bool.or_eq_false_iff] at hfresh
    have ih := nodup_rename key old new g hg as hnd.2 hfresh.2
    simp only [List.map_cons, List.nodup_cons]
    refine ⟨?_, ih⟩
    by_cases ha : (key a == old) = true
    · have hk : key a = old := by simpa using ha
      simp only [ha, if_true, hg]
      -- new ∉ keys of the rest: no element of `as` has key old (nodup) so none is renamed; none has key new
      intro hmem
      obtain ⟨y, hy, hky⟩ := List.mem_map.mp hmem
      obtain ⟨z, hz, rfl⟩ := List.mem_map.mp hy
      by_cases hzo : (key z == old) = true
      · have : key z = old := by simpa using hzo
        exact hnd.1 (List.mem_map.mpr ⟨z, hz, by rw [this, hk]⟩)
      · simp only [Bool.not_eq_true] at hzo
        simp only [hzo] at hky
        have := List.any_eq_false.mp hfresh.2 z hz
        simp at hky
        simp [hky] at this
    · simp only [Bool.not_eq_true] at ha
      simp only [ha]
      intro hmem
      obtain ⟨y, hy, hky⟩ := List.mem_map.mp hmem
      obtain ⟨z, hz, rfl⟩ := List.mem_map.mp hy
      by_cases hzo : (key z == old) = true
      · simp only [hzo, if_true, hg] at hky
        have : (key a == new) = true := by simp [hky]
        rw [hfresh.1] at this
        exact absurd this (by simp)
      · simp only [Bool.not_eq_true] at hzo
        simp only [hzo] at hky
        simp at hky
        exact hnd.1 (List.mem_map.mpr ⟨z, hz, hky⟩)

/-! catalog-level preservation -/

theorem wf_filter_schemas (c : Catalog) (p : Schema → Bool) (h : WF c) :
    WF { c with schemas := c.schemas.filter p } :=
  ⟨nodup_filter_keys _ p c.schemas h.1, fun s hs => h.2 s (List.mem_filter.mp hs).1⟩

theorem wf_mapSchema (c : Catalog) (n : String) (f : Schema → Schema) (h : WF c)
    (hf : ∀ s ∈ c.schemas, s.name == n → (f s).name = s.name ∧ WFSchema (f s)) :
    WF (Pg.mapSchema c n f) := by
  unfold Pg.mapSchema
  constructor
  · show ((c.schemas.map _).map _).Nodup
    rw [map_keys_preserved (fun s : Schema => s.name)]
    · exact h.1
    · intro s hs
      by_cases hn : (s.name == n) = true
      · simp only [hn, if_true]; exact (hf s hs hn).1
      · simp only [Bool.not_eq_true] at hn; simp [hn]
  · intro s hs
    obtain ⟨s0, hs0, rfl⟩ := List.mem_map.mp hs
    by_cases hn : (s0.name == n) = true
    · simp only [hn, if_true]; exact (hf s0 hs0 hn).2
    · simp only [Bool.not_eq_true] at hn; simp only [hn]; exact h.2 s0 hs0

theorem wf_append_schema (c : Catalog) (n : String) (h : WF c) (hfresh : Pg.hasSchema c n = false) :
    WF { c with schemas := c.schemas ++ [{ name := n }] } := by
  constructor
  · exact nodup_append_fresh (fun s : Schema => s.name) c.schemas { name := n } h.1 hfresh
  · intro s hs
    rcases List.mem_append.mp hs with hs | hs
    · exact h.2 s hs
    · simp at hs; subst hs; simp [WFSchema]

end Sqlc.C08
