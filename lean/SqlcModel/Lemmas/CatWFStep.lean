import SqlcModel.Lemmas.CatWF
/-
Every statement of the reference semantics preserves catalog well-formedness.
-/
set_option linter.unusedSimpArgs false
namespace Sqlc.C08
open Sqlc.Cat Sqlc.Spec

theorem distinct_nodup : ∀ (l : List String), Pg.distinct l = true → l.Nodup
  | [], _ => List.nodup_nil
  | a :: as, h => by
    simp only [Pg.distinct, Bool.and_eq_true, Bool.not_eq_true'] at h
    rw [List.nodup_cons]
    refine ⟨?_, distinct_nodup as h.2⟩
    intro hm
    have : as.contains a = true := by simpa using hm
    rw [h.1] at this; exact absurd this (by simp)

theorem mem_schemaOf (c : Catalog) (n : String) (s : Schema) (h : Pg.schemaOf c n = some s) :
    s ∈ c.schemas ∧ (s.name == n) = true :=
  ⟨List.mem_of_find?_eq_some h, by
    have := List.find?_some (p := fun s : Schema => s.name == n) (l := c.schemas) (a := s) h
    exact this⟩

theorem wfSchema_append_table (s : Schema) (t : Table) (h : WFSchema s) (hf : Pg.hasRel s t.name = false)
    (ht : WFTable t) : WFSchema { s with tables := s.tables ++ [t] } :=
  ⟨nodup_append_fresh (fun t : Table => t.name) s.tables t h.1 hf, h.2.1,
   fun x hx => by
     rcases List.mem_append.mp hx with hx | hx
     · exact h.2.2.1 x hx
     · simp at hx; subst hx; exact ht,
   h.2.2.2⟩

theorem wfSchema_append_type (s : Schema) (t : Ty) (h : WFSchema s) (hf : Pg.hasType s t.name = false)
    (ht : WFTy t) : WFSchema { s with types := s.types ++ [t] } :=
  ⟨h.1, nodup_append_fresh Ty.name s.types t h.2.1 hf, h.2.2.1,
   fun x hx => by
     rcases List.mem_append.mp hx with hx | hx
     · exact h.2.2.2 x hx
     · simp at hx; subst hx; exact ht⟩

theorem wfSchema_mapRel (s : Schema) (n : String) (f : Table → Table) (h : WFSchema s)
    (hf : ∀ t ∈ s.tables, (t.name == n) = true → (f t).name = t.name ∧ (WFTable t → WFTable (f t))) :
    WFSchema (Pg.mapRel s n f) := by
  unfold Pg.mapRel
  refine ⟨?_, h.2.1, ?_, h.2.2.2⟩
  · show ((s.tables.map _).map _).Nodup
    rw [map_keys_preserved (fun t : Table => t.name)]
    · exact h.1
    · intro t ht; by_cases hn : (t.name == n) = true
      · simp only [hn, if_true]; exact (hf t ht hn).1
      · simp only [Bool.not_eq_true] at hn; simp [hn]
  · intro t ht
    obtain ⟨t0, ht0, rfl⟩ := List.mem_map.mp ht
    by_cases hn : (t0.name == n) = true
    · simp only [hn, if_true]; exact (hf t0 ht0 hn).2 (h.2.2.1 t0 ht0)
    · simp only [Bool.not_eq_true] at hn; simp only [hn]; exact h.2.2.1 t0 ht0

theorem wfSchema_mapType (s : Schema) (n : String) (f : Ty → Ty) (h : WFSchema s)
    (hf : ∀ t ∈ s.types, (t.name == n) = true → (f t).name = t.name ∧ (WFTy t → WFTy (f t))) :
    WFSchema (Pg.mapType s n f) := by
  unfold Pg.mapType
  refine ⟨h.1, ?_, h.2.2.1, ?_⟩
  · show ((s.types.map _).map _).Nodup
    rw [map_keys_preserved Ty.name]
    · exact h.2.1
    · intro t ht; by_cases hn : (t.name == n) = true
      · simp only [hn, if_true]; exact (hf t ht hn).1
      · simp only [Bool.not_eq_true] at hn; simp [hn]
  · intro t ht
    obtain ⟨t0, ht0, rfl⟩ := List.mem_map.mp ht
    by_cases hn : (t0.name == n) = true
    · simp only [hn, if_true]; exact (hf t0 ht0 hn).2 (h.2.2.2 t0 ht0)
    · simp only [Bool.not_eq_true] at hn; simp only [hn]; exact h.2.2.2 t0 ht0

theorem wfTable_mapCol_same (t : Table) (n : String) (f : Column → Column) (h : WFTable t)
    (hf : ∀ c, (f c).name = c.name) : WFTable (Pg.mapCol t n f) := by
  unfold WFTable Pg.mapCol
  rw [map_keys_preserved (fun c : Column => c.name)]
  · exact h
  · intro a _; by_cases hn : (a.name == n) = true <;> simp [hn, hf]

theorem wfSchema_rename_table (s : Schema) (old new : String) (h : WFSchema s)
    (hfresh : Pg.hasRel s new = false) :
    WFSchema (Pg.mapRel s old (fun t => { t with name := new })) := by
  unfold Pg.mapRel
  refine ⟨?_, h.2.1, ?_, h.2.2.2⟩
  · exact nodup_rename (fun t : Table => t.name) old new _ (fun _ => rfl) s.tables h.1 hfresh
  · intro t ht
    obtain ⟨t0, ht0, rfl⟩ := List.mem_map.mp ht
    by_cases hn : (t0.name == old) = true
    · simp only [hn, if_true]; exact h.2.2.1 t0 ht0
    · simp only [Bool.not_eq_true] at hn; simp only [hn]; exact h.2.2.1 t0 ht0

theorem wfTable_rename_col (t : Table) (old new : String) (h : WFTable t) (hfresh : Pg.hasCol t new = false) :
    WFTable (Pg.mapCol t old (fun c => { c with name := new })) := by
  unfold WFTable Pg.mapCol
  exact nodup_rename (fun c : Column => c.name) old new _ (fun _ => rfl) t.cols h hfresh

theorem wf_foldlM {α : Type} (f : Catalog → α → Except Err Catalog)
    (hf : ∀ c a c', WF c → f c a = .ok c' → WF c') :
    ∀ (l : List α) (c c' : Catalog), WF c → l.foldlM f c = .ok c' → WF c'
  | [], c, c', h, hr => by simp [List.foldlM, pure, Except.pure] at hr; subst hr; exact h
  | a :: as, c, c', h, hr => by
    simp only [List.foldlM_cons, bind, Except.bind] at hr
    cases h1 : f c a with
    | error e => simp [h1] at hr
    | ok c1 => simp only [h1] at hr; exact wf_foldlM f hf as c1 c' (hf c a c1 h h1) hr

theorem wfTable_foldlM_alter : ∀ (cmds : List AlterCmd) (t t' : Table), WFTable t →
    cmds.foldlM Pg.alterCmd t = .ok t' → WFTable t'
  | [], t, t', h, hr => by simp [List.foldlM, pure, Except.pure] at hr; subst hr; exact h
  | cmd :: rest, t, t', h, hr => by
    simp only [List.foldlM_cons, bind, Except.bind] at hr
    cases h1 : Pg.alterCmd t cmd with
    | error e => simp [h1] at hr
    | ok t1 =>
      simp only [h1] at hr
      refine wfTable_foldlM_alter rest t1 t' ?_ hr
      -- one command preserves WFTable
      cases cmd with
      | add d g =>
        simp only [Pg.alterCmd] at h1
        cases hc : Pg.hasCol t d.name with
        | true => cases g <;> simp [hc] at h1; subst h1; exact h
        | false =>
          simp [hc] at h1; subst h1
          exact nodup_append_fresh (fun c : Column => c.name) t.cols (mkColumn d) h (by simpa [Pg.hasCol, mkColumn] using hc)
      | drop col g =>
        simp only [Pg.alterCmd] at h1
        cases hc : Pg.hasCol t col with
        | true => simp [hc] at h1; subst h1; exact nodup_filter_keys _ _ t.cols h
        | false => cases g <;> simp [hc] at h1; subst h1; exact h
      | setType col ts tn arr =>
        simp only [Pg.alterCmd] at h1
        cases hc : Pg.hasCol t col with
        | false => simp [hc] at h1
        | true => simp [hc] at h1; subst h1; exact wfTable_mapCol_same t col _ h (fun _ => rfl)
      | setNotNull col =>
        simp only [Pg.alterCmd] at h1
        cases hc : Pg.hasCol t col with
        | false => simp [hc] at h1
        | true => simp [hc] at h1; subst h1; exact wfTable_mapCol_same t col _ h (fun _ => rfl)
      | dropNotNull col =>
        simp only [Pg.alterCmd] at h1
        cases hc : Pg.hasCol t col with
        | false => simp [hc] at h1
        | true => simp [hc] at h1; subst h1; exact wfTable_mapCol_same t col _ h (fun _ => rfl)

end Sqlc.C08

namespace Sqlc.C08
open Sqlc.Cat Sqlc.Spec

theorem wfTable_mkColumns (cols : List ColDef) (h : Pg.distinct (cols.map (·.name)) = true) :
    WFTable { relSchema := "", name := "", cols := cols.map mkColumn } := by
  unfold WFTable
  simp only [List.map_map]
  have : (cols.map ((fun c : Column => c.name) ∘ mkColumn)) = cols.map (·.name) := by
    apply List.map_congr_left; intro a _; rfl
  rw [this]; exact distinct_nodup _ h

theorem typeOf_name (s : Schema) (n : String) (t : Ty) (h : Pg.typeOf s n = some t) : t ∈ s.types :=
  List.mem_of_find?_eq_some h

theorem relOf_mem (s : Schema) (n : String) (t : Table) (h : Pg.relOf s n = some t) : t ∈ s.tables :=
  List.mem_of_find?_eq_some h

theorem nodup_insert_fresh (l : List String) (i : Nat) (v : String) (h : l.Nodup) (hv : l.contains v = false) :
    (l.take i ++ v :: l.drop i).Nodup := by
  have hnm : v ∉ l := by
    intro hm; have : l.contains v = true := by simpa using hm
    rw [hv] at this; exact absurd this (by simp)
  have hsplit : l = l.take i ++ l.drop i := (List.take_append_drop i l).symm
  rw [hsplit] at h
  rw [List.nodup_append] at h ⊢
  obtain ⟨h1, h2, h3⟩ := h
  refine ⟨h1, ?_, ?_⟩
  · rw [List.nodup_cons]
    exact ⟨fun hm => hnm (List.mem_of_mem_drop hm), h2⟩
  · intro a ha b hb
    rcases List.mem_cons.mp hb with rfl | hb
    · intro heq; subst heq; exact hnm (List.mem_of_mem_take ha)
    · exact h3 a ha b hb

theorem nodup_rename_label (l : List String) (old new : String) (h : l.Nodup) (hn : l.contains new = false) :
    (l.map (fun v => if v == old then new else v)).Nodup := by
  have := nodup_rename (fun v : String => v) old new (fun _ => new) (fun _ => rfl) l (by simpa using h)
    (by rw [List.any_beq']; exact hn)
  simp only [List.map_map] at this
  have heq : ((fun v : String => v) ∘ fun a => if (a == old) = true then new else a) = (fun v => if (v == old) = true then new else v) := by
    funext v; rfl
  rw [heq] at this
  exact this

/-- every statement of the reference semantics preserves well-formedness -/
theorem wf_step (c c' : Catalog) (op : DDL) (h : WF c) (hr : Pg.step c op = .ok c') : WF c' := by
  cases op with
  | createSchema n g =>
    simp only [Pg.step] at hr
    cases hs : Pg.hasSchema c n with
    | true => cases g <;> simp [hs] at hr; subst hr; exact h
    | false => simp [hs] at hr; subst hr; exact wf_append_schema c n h hs
  | dropSchema names g =>
    simp only [Pg.step] at hr
    refine wf_foldlM (Pg.dropSchemaStep g) ?_ names c c' h hr
    intro c a c1 hc h1
    simp only [Pg.dropSchemaStep] at h1
    cases hs : Pg.hasSchema c a with
    | true => simp [hs] at h1; subst h1; exact wf_filter_schemas c _ hc
    | false => cases g <;> simp [hs] at h1; subst h1; exact hc
  | createTable q g cols =>
    simp only [Pg.step] at hr
    cases hs : Pg.schemaOf c (ns c q) with
    | none => simp [hs] at hr
    | some s =>
      simp only [hs] at hr
      cases h1 : Pg.hasRel s q.name with
      | true => cases g <;> simp [h1] at hr; subst hr; exact h
      | false =>
        cases h2 : Pg.hasType s q.name with
        | true => simp [h1, h2] at hr
        | false =>
          cases h3 : Pg.distinct (cols.map (·.name)) with
          | false => simp [h1, h2, h3] at hr
          | true =>
            simp [h1, h2, h3] at hr; subst hr
            apply wf_mapSchema c _ _ h
            intro s' hs' hn
            have : s' = s := eq_of_find?_of_key (fun s : Schema => s.name) (ns c q) c.schemas s s' h.1 hs hs' hn
            subst this
            exact ⟨rfl, wfSchema_append_table s' _ (h.2 s' hs') h1 (wfTable_mkColumns cols h3)⟩
  | dropTable rels g =>
    simp only [Pg.step] at hr
    refine wf_foldlM (Pg.dropTableStep g) ?_ rels c c' h hr
    intro c q c1 hc h1
    simp only [Pg.dropTableStep] at h1
    cases hs : Pg.schemaOf c (ns c q) with
    | none => cases g <;> simp [hs] at h1; subst h1; exact hc
    | some s =>
      simp only [hs] at h1
      cases hrel : Pg.hasRel s q.name with
      | true =>
        simp [hrel] at h1; subst h1
        exact wf_mapSchema c _ _ hc (fun s' hs' _ => ⟨rfl,
          ⟨nodup_filter_keys _ _ s'.tables (hc.2 s' hs').1, (hc.2 s' hs').2.1,
           fun t ht => (hc.2 s' hs').2.2.1 t (List.mem_filter.mp ht).1, (hc.2 s' hs').2.2.2⟩⟩)
      | false => cases g <;> simp [hrel] at h1; subst h1; exact hc
  | renameTable q n =>
    simp only [Pg.step] at hr
    cases hs : Pg.schemaOf c (ns c q) with
    | none => simp [hs] at hr
    | some s =>
      simp only [hs] at hr
      cases h0 : Pg.hasRel s q.name <;> cases h1 : Pg.hasRel s n <;> cases h2 : Pg.hasType s n <;>
        simp [h0, h1, h2] at hr
      subst hr
      apply wf_mapSchema c _ _ h
      intro s' hs' hn
      have : s' = s := eq_of_find?_of_key (fun s : Schema => s.name) (ns c q) c.schemas s s' h.1 hs hs' hn
      subst this
      exact ⟨rfl, wfSchema_rename_table s' q.name n (h.2 s' hs') h1⟩
  | setSchema q n =>
    simp only [Pg.step] at hr
    cases hs : Pg.schemaOf c (ns c q) with
    | none => simp [hs] at hr
    | some s =>
      simp only [hs] at hr
      cases ht : Pg.relOf s q.name with
      | none => simp [ht] at hr
      | some t =>
        simp only [ht] at hr
        cases hs2 : Pg.schemaOf c n with
        | none => simp [hs2] at hr
        | some s2 =>
          simp only [hs2] at hr
          cases h1 : Pg.hasRel s2 q.name <;> cases h2 : Pg.hasType s2 q.name <;> simp [h1, h2] at hr
          subst hr
          have hwt : WFTable t := (h.2 s (mem_schemaOf c _ s hs).1).2.2.1 t (relOf_mem s _ t ht)
          have htn : (t.name == q.name) = true := List.find?_some (p := fun t : Table => t.name == q.name) ht
          have htn' : t.name = q.name := by simpa using htn
          -- c1 := schemas with the table filtered out of `ns c q`
          have hc1 : WF (Pg.mapSchema c (ns c q) (fun s => { s with tables := s.tables.filter (·.name != q.name) })) :=
            wf_mapSchema c _ _ h (fun s' hs' _ => ⟨rfl,
              ⟨nodup_filter_keys _ _ s'.tables (h.2 s' hs').1, (h.2 s' hs').2.1,
               fun t ht => (h.2 s' hs').2.2.1 t (List.mem_filter.mp ht).1, (h.2 s' hs').2.2.2⟩⟩)
          apply wf_mapSchema _ _ _ hc1
          intro s' hs' hn
          refine ⟨rfl, ?_⟩
          -- s' is (possibly filtered) s2; it has no relation named q.name
          have hws' := hc1.2 s' hs'
          have hfresh : Pg.hasRel s' t.name = false := by
            rw [htn']
            unfold Pg.mapSchema at hs'
            obtain ⟨s0, hs0, rfl⟩ := List.mem_map.mp hs'
            by_cases hn0 : (s0.name == ns c q) = true
            · simp only [hn0, if_true, Pg.hasRel]
              rw [List.any_eq_false]
              intro x hx
              have := (List.mem_filter.mp hx).2
              simpa [bne] using this
            · simp only [Bool.not_eq_true] at hn0
              simp only [hn0] at hn ⊢
              have : s0 = s2 := eq_of_find?_of_key (fun s : Schema => s.name) n c.schemas s2 s0 h.1 hs2 hs0 (by simpa using hn)
              subst this; exact h1
          exact wfSchema_append_table s' t hws' hfresh hwt
  | alterTable q cmds =>
    simp only [Pg.step] at hr
    cases hcm : cmds.isEmpty with
    | true => simp [hcm] at hr; subst hr; exact h
    | false =>
      simp only [hcm, Bool.false_eq_true, if_false] at hr
      cases hs : Pg.schemaOf c (ns c q) with
      | none => simp [hs] at hr
      | some s =>
        simp only [hs] at hr
        cases ht : Pg.relOf s q.name with
        | none => simp [ht] at hr
        | some t =>
          simp only [ht] at hr
          cases hf : cmds.foldlM Pg.alterCmd t with
          | error e => simp [hf, Except.map] at hr
          | ok t' =>
            simp [hf, Except.map] at hr; subst hr
            have hwt : WFTable t := (h.2 s (mem_schemaOf c _ s hs).1).2.2.1 t (relOf_mem s _ t ht)
            have hwt' := wfTable_foldlM_alter cmds t t' hwt hf
            -- alter commands never change the table's name
            have hname : ∀ (cmds : List AlterCmd) (t t' : Table), cmds.foldlM Pg.alterCmd t = .ok t' → t'.name = t.name := by
              intro cmds
              induction cmds with
              | nil => intro t t' h; simp [List.foldlM, pure, Except.pure] at h; subst h; rfl
              | cons cmd rest ih =>
                intro t t' h
                simp only [List.foldlM_cons, bind, Except.bind] at h
                cases h1 : Pg.alterCmd t cmd with
                | error e => simp [h1] at h
                | ok t1 =>
                  simp only [h1] at h
                  have := ih t1 t' h
                  rw [this]
                  cases cmd <;> simp only [Pg.alterCmd] at h1 <;> (split at h1 <;> try split at h1) <;>
                    simp at h1 <;> (try subst h1) <;> simp [Pg.mapCol]
            have hn' := hname cmds t t' hf
            have htn : (t.name == q.name) = true := List.find?_some (p := fun t : Table => t.name == q.name) ht
            have htn' : t.name = q.name := by simpa using htn
            apply wf_mapSchema c _ _ h
            intro s' hs' hn
            refine ⟨rfl, wfSchema_mapRel s' q.name _ (h.2 s' hs') ?_⟩
            intro x _ hxn
            have hx' : x.name = q.name := by simpa using hxn
            exact ⟨by simp [hn', htn', hx'], fun _ => hwt'⟩
  | renameColumn q col n =>
    simp only [Pg.step] at hr
    cases hs : Pg.schemaOf c (ns c q) with
    | none => simp [hs] at hr
    | some s =>
      simp only [hs] at hr
      cases ht : Pg.relOf s q.name with
      | none => simp [ht] at hr
      | some t =>
        simp only [ht] at hr
        cases h1 : Pg.hasCol t n <;> cases h2 : Pg.hasCol t col <;> simp [h1, h2] at hr
        subst hr
        apply wf_mapSchema c _ _ h
        intro s' hs' hn
        have : s' = s := eq_of_find?_of_key (fun s : Schema => s.name) (ns c q) c.schemas s s' h.1 hs hs' hn
        subst this
        refine ⟨rfl, wfSchema_mapRel s' q.name _ (h.2 s' hs') ?_⟩
        intro x hx hxn
        have : x = t := eq_of_find?_of_key (fun t : Table => t.name) q.name s'.tables t x (h.2 s' hs').1 ht hx hxn
        subst this
        exact ⟨rfl, fun hw => wfTable_rename_col x col n hw h1⟩
  | createEnum q vs =>
    simp only [Pg.step] at hr
    cases hs : Pg.schemaOf c (ns c q) with
    | none => simp [hs] at hr
    | some s =>
      simp only [hs] at hr
      cases h1 : Pg.hasRel s q.name <;> cases h2 : Pg.hasType s q.name <;> cases h3 : Pg.distinct vs <;>
        simp [h1, h2, h3] at hr
      subst hr
      apply wf_mapSchema c _ _ h
      intro s' hs' hn
      have : s' = s := eq_of_find?_of_key (fun s : Schema => s.name) (ns c q) c.schemas s s' h.1 hs hs' hn
      subst this
      exact ⟨rfl, wfSchema_append_type s' (.enum q.name vs "") (h.2 s' hs') h2 (distinct_nodup vs h3)⟩
  | createComposite q =>
    simp only [Pg.step] at hr
    cases hs : Pg.schemaOf c (ns c q) with
    | none => simp [hs] at hr
    | some s =>
      simp only [hs] at hr
      cases h1 : Pg.hasRel s q.name <;> cases h2 : Pg.hasType s q.name <;> simp [h1, h2] at hr
      subst hr
      apply wf_mapSchema c _ _ h
      intro s' hs' hn
      have : s' = s := eq_of_find?_of_key (fun s : Schema => s.name) (ns c q) c.schemas s s' h.1 hs hs' hn
      subst this
      exact ⟨rfl, wfSchema_append_type s' (.composite q.name "") (h.2 s' hs') h2 trivial⟩
  | addValue q v g p =>
    simp only [Pg.step] at hr
    cases hs : Pg.schemaOf c (ns c q) with
    | none => simp [hs] at hr
    | some s =>
      simp only [hs] at hr
      cases ht : Pg.typeOf s q.name with
      | none => simp [ht] at hr
      | some t =>
        cases t with
        | composite n cm => simp [ht] at hr
        | enum en vals cm =>
          simp only [ht] at hr
          cases hc : vals.contains v with
          | true =>
            simp only [hc, if_true] at hr
            cases g <;> simp at hr; subst hr; exact h
          | false =>
            simp only [hc, Bool.false_eq_true, if_false] at hr
            have hwv : vals.Nodup := (h.2 s (mem_schemaOf c _ s hs).1).2.2.2 _ (typeOf_name s _ _ ht)
            have key : ∀ i, WF (Pg.mapSchema c (ns c q) (fun s => Pg.mapType s q.name (fun
                | .enum n vs cm => .enum n (vs.take i ++ v :: vs.drop i) cm
                | t => t))) := by
              intro i
              apply wf_mapSchema c _ _ h
              intro s' hs' hn
              have : s' = s := eq_of_find?_of_key (fun s : Schema => s.name) (ns c q) c.schemas s s' h.1 hs hs' hn
              subst this
              refine ⟨rfl, wfSchema_mapType s' q.name _ (h.2 s' hs') ?_⟩
              intro x hx hxn
              have : x = .enum en vals cm := eq_of_find?_of_key Ty.name q.name s'.types _ x (h.2 s' hs').2.1 ht hx hxn
              subst this
              exact ⟨rfl, fun _ => nodup_insert_fresh vals i v hwv hc⟩
            cases p with
            | none => simp at hr; subst hr; exact key vals.length
            | some pr =>
              obtain ⟨isAfter, nb⟩ := pr
              simp only [] at hr
              cases hi : vals.findIdx? (· == nb) with
              | none => simp [hi] at hr
              | some i => simp [hi] at hr; subst hr; exact key _
  | renameValue q a b =>
    simp only [Pg.step] at hr
    cases hs : Pg.schemaOf c (ns c q) with
    | none => simp [hs] at hr
    | some s =>
      simp only [hs] at hr
      cases ht : Pg.typeOf s q.name with
      | none => simp [ht] at hr
      | some t =>
        cases t with
        | composite n cm => simp [ht] at hr
        | enum en vals cm =>
          simp only [ht] at hr
          cases h1 : vals.contains a <;> cases h2 : vals.contains b <;>
            simp only [h1, h2, Bool.not_true, Bool.not_false, Bool.false_eq_true, ↓reduceIte, reduceCtorEq] at hr
          injection hr with hr
          subst hr
          have hwv : vals.Nodup := (h.2 s (mem_schemaOf c _ s hs).1).2.2.2 _ (typeOf_name s _ _ ht)
          apply wf_mapSchema c _ _ h
          intro s' hs' hn
          have : s' = s := eq_of_find?_of_key (fun s : Schema => s.name) (ns c q) c.schemas s s' h.1 hs hs' hn
          subst this
          refine ⟨rfl, wfSchema_mapType s' q.name _ (h.2 s' hs') ?_⟩
          intro x hx hxn
          have : x = .enum en vals cm := eq_of_find?_of_key Ty.name q.name s'.types _ x (h.2 s' hs').2.1 ht hx hxn
          subst this
          exact ⟨rfl, fun _ => nodup_rename_label vals a b hwv h2⟩
  | commentSchema n t =>
    simp only [Pg.step] at hr
    cases hs : Pg.hasSchema c n <;> simp [hs] at hr
    subst hr
    exact wf_mapSchema c _ _ h (fun s' hs' _ => ⟨rfl, h.2 s' hs'⟩)
  | commentTable q t =>
    simp only [Pg.step] at hr
    cases hs : Pg.schemaOf c (ns c q) with
    | none => simp [hs] at hr
    | some s =>
      simp only [hs] at hr
      cases h1 : Pg.hasRel s q.name <;> simp [h1] at hr
      subst hr
      apply wf_mapSchema c _ _ h
      intro s' hs' _
      exact ⟨rfl, wfSchema_mapRel s' q.name _ (h.2 s' hs') (fun x _ _ => ⟨rfl, fun hw => hw⟩)⟩
  | commentColumn q col t =>
    simp only [Pg.step] at hr
    cases hs : Pg.schemaOf c (ns c q) with
    | none => simp [hs] at hr
    | some s =>
      simp only [hs] at hr
      cases ht : Pg.relOf s q.name with
      | none => simp [ht] at hr
      | some tb =>
        simp only [ht] at hr
        cases h1 : Pg.hasCol tb col <;> simp [h1] at hr
        subst hr
        apply wf_mapSchema c _ _ h
        intro s' hs' _
        exact ⟨rfl, wfSchema_mapRel s' q.name _ (h.2 s' hs')
          (fun x _ _ => ⟨rfl, fun hw => wfTable_mapCol_same x col _ hw (fun _ => rfl)⟩)⟩
  | commentType q t =>
    simp only [Pg.step] at hr
    cases hs : Pg.schemaOf c (ns c q) with
    | none => simp [hs] at hr
    | some s =>
      simp only [hs] at hr
      cases h1 : Pg.hasType s q.name <;> simp [h1] at hr
      subst hr
      apply wf_mapSchema c _ _ h
      intro s' hs' _
      refine ⟨rfl, wfSchema_mapType s' q.name _ (h.2 s' hs') ?_⟩
      intro x _ _
      cases x <;> exact ⟨rfl, fun hw => hw⟩
  | dropType qs g =>
    simp only [Pg.step] at hr
    refine wf_foldlM (Pg.dropTypeStep g) ?_ qs c c' h hr
    intro c q c1 hc h1
    simp only [Pg.dropTypeStep] at h1
    cases hs : Pg.schemaOf c (ns c q) with
    | none => cases g <;> simp [hs] at h1; subst h1; exact hc
    | some s =>
      simp only [hs] at h1
      cases hty : Pg.hasType s q.name with
      | true =>
        simp [hty] at h1; subst h1
        exact wf_mapSchema c _ _ hc (fun s' hs' _ => ⟨rfl,
          ⟨(hc.2 s' hs').1, nodup_filter_keys _ _ s'.types (hc.2 s' hs').2.1, (hc.2 s' hs').2.2.1,
           fun t ht => (hc.2 s' hs').2.2.2 t (List.mem_filter.mp ht).1⟩⟩)
      | false => cases g <;> simp [hty] at h1; subst h1; exact hc

end Sqlc.C08
