import SqlcModel.Ast
import SqlcModel.Gen.Operators
import SqlcModel.Gen.Reserved
/-
L2 — model of internal/compiler: rangeVars, findParameters, uniqueParamRefs + sort,
resolveCatalogRefs, buildQueryCatalog, sourceTables, outputColumns, outputColumnRefs, expand.
Written function by function from the Go text, defects included.

Go subtleties modelled literally:
* `paramSearch.Visit` has a VALUE receiver: parent / rangeVar / limitCount / limitOffset flow only DOWN
  to descendants (threaded as an argument); `refs` and `seen` are shared (threaded as state).
* `sourceTables` renames a CTE's shared *Table in place when the CTE is referenced under an alias, so
  the CTE map is threaded as state.
* panics are values: `Except.error "panic:<site>"`.
-/
namespace Sqlc.Q
open Sqlc

abbrev Res := Except String

structure TableName where
  catalog : String := ""
  schema : String := ""
  name : String := ""
deriving Repr, DecidableEq, BEq, Inhabited

structure Column where
  name : String := ""
  dataType : String := ""
  notNull : Bool := false
  isArray : Bool := false
  length : Option Nat := none
  scope : String := ""
  table : Option TableName := none
deriving Repr, DecidableEq, Inhabited

structure Table where
  rel : TableName
  columns : List Column
deriving Repr, Inhabited

structure Parameter where
  number : Nat
  column : Option Column
deriving Repr, Inhabited

/-! ### the catalog as the compiler sees it -/

structure CatCol where
  name : String
  tschema : String
  tname : String
  notNull : Bool
  isArray : Bool
  length : Option Nat := none
deriving Repr, Inhabited

structure CatTable where
  name : String
  cols : List CatCol
deriving Repr, Inhabited

structure CatSchema where
  name : String
  tables : List CatTable
deriving Repr, Inhabited

structure FuncArg where
  name : String
  tschema : String
  tname : String
  hasDefault : Bool
  mode : Nat            -- ast.FuncParamMode: In 0, Out 1, InOut 2, Variadic 3, Table 4
deriving Repr, Inhabited

structure Func where
  name : String
  args : List FuncArg
  argsNil : Bool        -- `fun.Args == nil`
  retSchema : String
  retName : String
deriving Repr, Inhabited

/-- `c.ListFuncsByName(call.Func)` for every (schema, name) the statement calls — entering as data -/
structure FuncEntry where
  schema : String
  name : String
  err : Bool
  funcs : List Func
deriving Repr, Inhabited

structure Cat where
  defaultSchema : String
  schemas : List CatSchema
  funcs : List FuncEntry := []
  engine : String := "postgresql"
deriving Repr, Inhabited

def dataTypeOf (tschema tname : String) : String := if tschema != "" then tschema ++ "." ++ tname else tname

/-- Catalog.GetTable -/
def catGetTable (c : Cat) (rel : TableName) : Res CatTable :=
  let ns := if rel.schema == "" then c.defaultSchema else rel.schema
  match c.schemas.find? (·.name == ns) with
  | none => .error s!"3F000:{ns}"
  | some s =>
    match s.tables.find? (·.name == rel.name) with
    | none => .error s!"42P01:{rel.name}"
    | some t => .ok t

def convertColumn (rel : TableName) (c : CatCol) : Column :=
  { name := c.name, dataType := (dataTypeOf c.tschema c.tname), notNull := c.notNull, isArray := c.isArray, length := c.length, table := some rel }

/-- ParseTableName on a RangeVar -/
def rangeVarName (rv : Node) : TableName :=
  { catalog := (rv.get "Catalogname").strVal, schema := (rv.get "Schemaname").strVal, name := (rv.get "Relname").strVal }

def aliasOf (n : Node) : Option String :=
  let a := n.get "Alias"
  if a.isNull then none else (a.get "Aliasname").strOpt

/-! ### findParameters -/

inductive Parent where
  | none
  | node (n : Node)
  | limitCount
  | limitOffset
deriving Repr, Inhabited

structure ParamRef where
  parent : Parent
  rv : Option Node
  number : Nat
  location : Int
deriving Repr, Inhabited

/-- the fields of paramSearch that are copied with the visitor -/
structure PDown where
  parent : Parent := .none
  rangeVar : Option Node := none
  limitCount : Node := .null
  limitOffset : Node := .null
deriving Inhabited

structure PAcc where
  refs : List ParamRef := []
  seen : List Int := []
  panic : Option String := none
deriving Inhabited

def paramNumberOf (n : Node) : Option Nat := if n.isKind "ParamRef" then some (n.get "Number").natVal else none

/-- `n.Cols.Items[i]` -/
def colItem (cols : Node) (i : Nat) : Option Node := if cols.isNull then none else cols.items[i]?

/-- one step of the two loops of the InsertStmt arm: the i-th value, if a bare placeholder, is recorded with
the i-th target column as parent — `n.Cols.Items[i]` is not bounds-checked ("TODO: Out-of-bounds panic") -/
def insertStep (cols : Node) (rv : Option Node) (unwrapResTarget : Bool) (acc : PAcc) (it : Node × Nat) : PAcc :=
  if acc.panic.isSome then acc else
  let v := if unwrapResTarget then (if it.1.isKind "ResTarget" then it.1.get "Val" else .null) else it.1
  if !v.isKind "ParamRef" then acc else
  match colItem cols it.2 with
  | none => { acc with panic := some "find_params.go: n.Cols.Items[i] out of range" }
  | some c =>
    { acc with refs := acc.refs ++ [{ parent := .node c, rv := rv, number := (v.get "Number").natVal, location := (v.get "Location").intVal }], seen := (v.get "Location").intVal :: acc.seen }

def insertAddRefs (cols : Node) (rv : Option Node) (acc : PAcc) (items : List Node) (unwrapResTarget : Bool) : PAcc :=
  (items.zipIdx).foldl (insertStep cols rv unwrapResTarget) acc

/-- the InsertStmt arm of Visit -/
def insertArm (n : Node) (acc : PAcc) : PAcc :=
  let sel := n.get "SelectStmt"
  if !sel.isKind "SelectStmt" then acc else
  let cols := n.get "Cols"
  let rv := let r := n.get "Relation"; if r.isNull then none else some r
  let tl := sel.get "TargetList"
  if tl.isNull then { acc with panic := some "find_params.go: s.TargetList is nil" } else
  let acc := insertAddRefs cols rv acc tl.items true
  let vl := sel.get "ValuesLists"
  if vl.isNull then { acc with panic := some "find_params.go: s.ValuesLists is nil" } else
  vl.items.foldl (fun acc row => if row.isKind "List" then insertAddRefs cols rv acc row.items false else acc) acc

/-- the parent a placeholder is recorded with: the enclosing node, unless the placeholder IS the statement's
LIMIT / OFFSET expression (the offset test comes last and wins) -/
def effectiveParent (d : PDown) (num : Nat) : Parent :=
  let parent := d.parent
  let parent := if paramNumberOf d.limitCount == some num then Parent.limitCount else parent
  if paramNumberOf d.limitOffset == some num then Parent.limitOffset else parent

/-- whether Visit records the placeholder: always, except under a `(a, b) = ($1, $2)` multi-assignment target
that is not its own column -/
def paramSet (parent : Parent) (num : Nat) : Bool :=
  match parent with
  | .node p =>
    if p.isKind "ResTarget" && (p.get "Val").isKind "MultiAssignRef" then
      let multi := p.get "Val"
      let src := multi.get "Source"
      if src.isKind "RowExpr" then
        ((src.get "Args").items.zipIdx).any (fun a =>
          a.1.isKind "ParamRef" && (multi.get "Colno").natVal == a.2 + 1 && (a.1.get "Number").natVal == num)
      else false
    else true
  | _ => true

/-- the ParamRef arm of Visit -/
def paramArm (d : PDown) (n : Node) (acc : PAcc) : PAcc :=
  let num := (n.get "Number").natVal
  let loc := (n.get "Location").intVal
  let parent := effectiveParent d num
  if acc.seen.contains loc then acc else
  if paramSet parent num then { acc with refs := acc.refs ++ [{ parent := parent, rv := d.rangeVar, number := num, location := loc }], seen := loc :: acc.seen }
  else acc

/-- what Visit does to the copied fields -/
def visitDown (d : PDown) (n : Node) : PDown :=
  match n.kind with
  | "A_Expr" | "FuncCall" | "ResTarget" | "TypeCast" => { d with parent := .node n }
  | "RangeVar" => { d with rangeVar := some n }
  | "SelectStmt" =>
    let d := if !(n.get "LimitCount").isNull then { d with limitCount := n.get "LimitCount" } else d
    if !(n.get "LimitOffset").isNull then { d with limitOffset := n.get "LimitOffset" } else d
  | _ => d

mutual
def findP : PDown → Node → PAcc → PAcc
  | d, .nd k fs, acc =>
    let n := Node.nd k fs
    if k == "ParamRef" then paramArm d n acc
    else
      let acc := if k == "InsertStmt" then insertArm n acc else acc
      findPFields (visitDown d n) fs acc
  | d, .list is, acc => findPItems d is acc
  | _, _, acc => acc
def findPFields : PDown → List (String × Bool × Node) → PAcc → PAcc
  | _, [], acc => acc
  | d, (_, true, c) :: rest, acc => findPFields d rest (findP d c acc)
  | d, (_, false, _) :: rest, acc => findPFields d rest acc
def findPItems : PDown → List Node → PAcc → PAcc
  | _, [], acc => acc
  | d, c :: rest, acc => findPItems d rest (findP d c acc)
end

def findParameters (root : Node) : PAcc := findP {} root {}

def uniqueParamRefs (l : List ParamRef) : List ParamRef :=
  (l.foldl (fun (acc : List ParamRef × List Nat) r =>
    if acc.2.contains r.number then acc else (acc.1 ++ [r], r.number :: acc.2)) ([], [])).1

def sortRefs (l : List ParamRef) : List ParamRef := l.mergeSort (fun a b => a.number ≤ b.number)

def rangeVars (root : Node) : List Node := root.search (·.isKind "RangeVar")

/-! ### function resolution (Catalog.ResolveFuncCall after ListFuncsByName) -/

def funcsFor (c : Cat) (call : Node) : Option FuncEntry :=
  let fn := call.get "Func"
  c.funcs.find? (fun e => e.schema == (fn.get "Schema").strVal && e.name.toLower == (fn.get "Name").strVal.toLower)

def inArgs (f : Func) : List FuncArg := f.args.filter (fun a => a.mode != 4 && a.mode != 1)

/-- `some f` = resolved, `none` = error (any kind: the callers only test err == nil) -/
def resolveFuncCall (c : Cat) (call : Node) : Option Func :=
  match funcsFor c call with
  | none => none
  | some e =>
    if e.err || e.funcs.isEmpty then none else
    let args := (call.get "Args").items
    let named := args.filter (·.isKind "NamedArgExpr")
    let positional := args.filter (fun a => !a.isKind "NamedArgExpr")
    -- positional after named is an error
    let bad := (args.foldl (fun (st : Bool × Bool) a =>
      if a.isKind "NamedArgExpr" then (true, st.2) else (st.1, st.2 || st.1)) (false, false)).2
    if bad then none else
    e.funcs.find? (fun f =>
      let ia := inArgs f
      let defaults := (ia.filter (fun a => a.hasDefault)).length + (ia.filter (fun a => a.mode == 3)).length
      let variadic := ia.any (fun a => a.mode == 3)
      let n := named.length + positional.length
      let countOk := if variadic then !(n < ia.length - defaults) else !(n > ia.length) && !(n < ia.length - defaults)
      let known := (ia.filter (fun a => a.name != "")).map (·.name)
      let unknownName := named.any (fun ex => match (ex.get "Name").strOpt with
        | some nm => !known.contains nm
        | none => false)
      countOk && !unknownName)

/-! ### resolveCatalogRefs -/

def colDT (col : CatCol) : String := dataTypeOf col.tschema col.tname

def parameterName (names : List (Nat × String)) (n : Nat) (dflt : String) : String :=
  match names.find? (·.1 == n) with
  | some (_, s) => s
  | none => dflt

/-- toColumn(typeName) -/
def toColumn (tn : Node) : Res Column :=
  if tn.isNull then .error "panic:toColumn: nil type name" else
  let names := tn.get "Names"
  let parts := names.stringItems
  if parts.length < 1 || parts.length > 3 then .error "panic:toColumn: invalid name" else
  let dt := ".".intercalate parts
  let dt := if dt.startsWith "." then (dt.drop 1).toString else dt
  let ab := tn.get "ArrayBounds"
  if ab.isNull then .error "panic:toColumn: ArrayBounds is nil" else
  .ok { dataType := dt, notNull := true, isArray := ab.items.length > 0 }

structure TypeMapEntry where
  schema : String        -- as written in the RangeVar ("" and the default schema are different keys)
  name : String
  cols : List CatCol

def typeMapLookup (tm : List TypeMapEntry) (schema name col : String) : Option CatCol :=
  -- a later table with the same (schema, name) key overwrites the earlier entry
  match (tm.filter (fun e => e.schema == schema && e.name == name)).getLast? with
  | none => none
  | some e => e.cols.find? (·.name == col)   -- the inner map: last write wins, but column names are unique per table

/-- the tables a compared column is looked up in: the aliased table, else the table of that name, else
(no qualifier, or an unknown one) every table of the statement -/
def searchTables (tables : List TableName) (aliasMap : List (String × TableName)) (alias : String) : List TableName :=
  if alias != "" then
    match (aliasMap.filter (·.1 == alias)).getLast? with
    | some (_, orig) => [orig]
    | none =>
      match (tables.filter (·.name == alias)).getLast? with
      | some fqn => [fqn]
      | none => tables
  else tables

/-- the parameter a placeholder compared with column `key` of table `t` becomes -/
def compareParam (names : List (Nat × String)) (num : Nat) (key : String) (t : TableName) (cc : CatCol) : Parameter :=
  { number := num, column := some { name := parameterName names num key, dataType := colDT cc, notNull := cc.notNull, isArray := cc.isArray, table := some t } }

def compareMatches (names : List (Nat × String)) (num : Nat) (key : String) (tm : List TypeMapEntry) (search : List TableName) : List Parameter :=
  search.filterMap (fun t => (typeMapLookup tm t.schema t.name key).map (compareParam names num key t))

/-- the comparison arm of resolveCatalogRefs once the column (alias, key) is known -/
def resolveCompare (names : List (Nat × String)) (num : Nat) (key : String) (tm : List TypeMapEntry) (search : List TableName) : Res (List Parameter) :=
  let found := compareMatches names num key tm search
  if found.length == 0 then .error s!"42703:notexist:{key}"
  else if found.length > 1 then .error s!"42703:ambiguous:{key}"
  else .ok found

/-- the INSERT-column / SET-target arm once the target table is known -/
def resolveTarget (names : List (Nat × String)) (num : Nat) (key : String) (tm : List TypeMapEntry) (t : TableName) : Res (List Parameter) :=
  match typeMapLookup tm t.schema t.name key with
  | some col => .ok [{ number := num, column := some { name := parameterName names num key, dataType := (dataTypeOf col.tschema col.tname), notNull := col.notNull, isArray := col.isArray, table := some { schema := t.schema, name := t.name } } }]
  | none => .error s!"42703:notexist:{key}"

def resolveOne (c : Cat) (names : List (Nat × String)) (tables : List TableName)
    (aliasMap : List (String × TableName)) (tm : List TypeMapEntry) (defaultTable : Option TableName)
    (ref : ParamRef) : Res (List Parameter) :=
  let num := ref.number
  match ref.parent with
  | .limitOffset => .ok [{ number := num, column := some { name := parameterName names num "offset", dataType := "integer", notNull := true } }]
  | .limitCount => .ok [{ number := num, column := some { name := parameterName names num "limit", dataType := "integer", notNull := true } }]
  | .none => .ok []          -- `default:` prints "unsupported reference type" and drops the parameter
  | .node n =>
    match n.kind with
    | "A_Expr" =>
      let lex := n.get "Lexpr"
      let list := lex.search (·.isKind "ColumnRef")
      match list with
      | [] =>
        let dt := if (n.get "Name").joinStrings "." == "||" then "string" else "any"
        .ok [{ number := num, column := some { name := parameterName names num "", dataType := dt } }]
      | left :: _ =>
        let items := (left.get "Fields").stringItems
        match (match items with
               | [k] => some ("", k)
               | [a, k] => some (a, k)
               | _ => none) with
        | none => .error s!"other:column reference has too many parts: {items.length}"
        | some (alias, key) => resolveCompare names num key tm (searchTables tables aliasMap alias)
    | "FuncCall" =>
      let argsN := n.get "Args"
      if argsN.isNull then .error "panic:resolve.go: n.Args is nil" else
      let args := argsN.items
      let fn := n.get "Func"
      let (fname, fargs, argsNil) : String × List FuncArg × Bool := match resolveFuncCall c n with
        | some f => (f.name, f.args, f.argsNil)
        | none => ((fn.get "Name").strVal, args.map (fun _ => ({ name := "", tschema := "", tname := "any", hasDefault := false, mode := 0 } : FuncArg)), args.isEmpty)
      (args.zipIdx).foldlM (fun (acc : List Parameter) (it : Node × Nat) =>
        let item := it.1
        let i := it.2
        let matched : Option String :=      -- some argName when this argument is our parameter
          if item.isKind "ParamRef" then (if (item.get "Number").natVal == num then some "" else none)
          else if item.isKind "TypeCast" then
            (if paramNumberOf (item.get "Arg") == some num then some "" else none)
          else if item.isKind "NamedArgExpr" then
            (if paramNumberOf (item.get "Arg") == some num then some ((item.get "Name").strVal) else none)
          else none
        match matched with
        | none => .ok acc
        | some argName =>
          if argsNil then
            let dflt := if argName != "" then argName else fname
            .ok (acc ++ [{ number := num, column := some { name := parameterName names num dflt, dataType := "any" } }])
          else
            let r : Res (String × String) :=
              if argName == "" then
                match fargs[i]? with
                | none => .error "panic:resolve.go: fun.Args[i] out of range"
                | some a => .ok (a.name, (dataTypeOf a.tschema a.tname))
              else
                match (fargs.filter (·.name == argName)).getLast? with
                | none => .error s!"panic:named argument {argName} has no type"
                | some a => .ok (argName, (dataTypeOf a.tschema a.tname))
            match r with
            | .error e => .error e
            | .ok (pn, pt) =>
              let pn := if pn == "" then fname else pn
              .ok (acc ++ [{ number := num, column := some { name := parameterName names num pn, dataType := pt, notNull := true } }])) []
    | "ResTarget" =>
      match (n.get "Name").strOpt with
      | none => .error "other:*ast.ResTarget has nil name"
      | some key =>
        let tbl : Res TableName := match ref.rv with
          | some rv => .ok (rangeVarName rv)
          | none => match defaultTable with
            | some d => .ok d
            | none => .error "panic:resolve.go: defaultTable is nil"
        match tbl with
        | .error e => .error e
        | .ok t => resolveTarget names num key tm t
    | "TypeCast" =>
      let tn := n.get "TypeName"
      if tn.isNull then .error "other:*ast.TypeCast has nil type name" else
      match toColumn tn with
      | .error e => .error e
      | .ok col => .ok [{ number := num, column := some { col with name := parameterName names num col.name } }]
    | "ParamRef" => .ok [{ number := num, column := none }]
    | _ => .ok []

def resolveCatalogRefs (c : Cat) (rvs : List Node) (args : List ParamRef) (names : List (Nat × String)) : Res (List Parameter) :=
  let rvs := rvs.filter (fun rv => !(rv.get "Relname").isNull)
  let tables := rvs.map rangeVarName
  let defaultTable := tables.head?
  let aliasMap := rvs.filterMap (fun rv => (aliasOf rv).map (fun a => (a, rangeVarName rv)))
  let tm : List TypeMapEntry := tables.filterMap (fun fqn =>
    match catGetTable c fqn with
    | .ok t => some { schema := fqn.schema, name := fqn.name, cols := t.cols }
    | .error _ => none)
  args.foldlM (fun acc ref => do
    let ps ← resolveOne c names tables aliasMap tm defaultTable ref
    pure (acc ++ ps)) []

/-! ### output columns -/

abbrev Ctes := List (String × Table)

def hasStarRef (cf : Node) : Bool := (cf.get "Fields").items.any (·.isKind "A_Star")

/-- QueryCatalog.GetTable -/
def qcGetTable (c : Cat) (ctes : Ctes) (rel : TableName) : Res Table :=
  match (ctes.filter (·.1 == rel.name)).getLast? with
  | some (_, t) => .ok t
  | none => do
    let src ← catGetTable c rel
    pure { rel := rel, columns := src.cols.map (convertColumn rel) }

/-- the (alias, column) a one- or two-part column reference names -/
def refParts (node : Node) : Option (String × String) :=
  match (node.get "Fields").stringItems with
  | [n] => some ("", n)
  | [a, n] => some (a, n)
  | _ => none

/-- every column of every table in scope that a reference (alias, name) matches, as result columns -/
def refMatches (resName : Option String) (tables : List Table) (alias name : String) : List Column :=
  tables.flatMap (fun t =>
    if alias != "" && t.rel.name != alias then []
    else (t.columns.filter (·.name == name)).map (fun c =>
      ({ name := resName.getD c.name, table := c.table, dataType := c.dataType, notNull := c.notNull, isArray := c.isArray } : Column)))

def outputColumnRefs (res : Node) (tables : List Table) (node : Node) : Res (List Column) :=
  match refParts node with
  | none => .error s!"other:unknown number of fields: {((node.get "Fields").stringItems).length}"
  | some (alias, name) =>
    let cols := refMatches ((res.get "Name").strOpt) tables alias name
    if cols.length == 0 then .error s!"42703:notexist:{name}"
    else if cols.length > 1 then .error s!"42703:ambiguous:{name}"
    else .ok cols

/-- the columns a `*` / `scope.*` target contributes (the star arm of outputColumns) -/
def starColumns (tables : List Table) (scope : String) (resName : Option String) : List Column :=
  tables.flatMap (fun t =>
    if scope != "" && scope != t.rel.name then []
    else t.columns.map (fun c =>
      ({ name := resName.getD c.name, scope := scope, table := c.table, dataType := c.dataType, notNull := c.notNull, isArray := c.isArray } : Column)))

def isComparison (op : String) : Bool := Gen.comparisonOperators.contains op
def isMathematical (op : String) : Bool := Gen.mathematicalOperators.contains op

def stmtKinds : List String := ["DeleteStmt", "InsertStmt", "SelectStmt", "UpdateStmt"]

/-- outputColumns / sourceTables are mutually recursive (a FROM-subselect's columns are the output
columns of its query); fuel bounds the nesting depth by the size of the statement -/
def outputColumnsF (c : Cat) : Nat → Ctes → Node → Res (List Column × Ctes)
  | 0, _, _ => .error "other:fuel"
  | fuel + 1, ctes, node => do
    -- sourceTables
    let list : List Node ← (match node.kind with
      | "InsertStmt" => pure [node.get "Relation"]
      | "DeleteStmt" =>
        -- the relations named in USING follow the deleted-from relation (fix 499ff34)
        pure ([node.get "Relation"] ++ (if (node.get "UsingClause").isNull then [] else
          (node.get "UsingClause").search (fun n => n.isKind "RangeVar" || n.isKind "RangeSubselect")))
      | "SelectStmt" => pure ((node.get "FromClause").search (fun n => n.isKind "RangeVar" || n.isKind "RangeSubselect"))
      | "TruncateStmt" => pure ((node.get "Relations").search (·.isKind "RangeVar"))
      | "UpdateStmt" =>
        if (node.get "FromClause").isNull then .error "panic:output_columns.go: n.FromClause is nil"
        else pure ([node.get "Relation"] ++ (node.get "FromClause").items)
      | k => .error s!"other:sourceTables: unsupported node type: {k}" : Res (List Node))
    let (tables, ctes) ← list.foldlM (fun (st : List Table × Ctes) item => do
      let (tables, ctes) := st
      if item.isKind "RangeSubselect" then
        let (cols, ctes) ← outputColumnsF c fuel ctes (item.get "Subquery")
        match aliasOf item with
        | none => .error "panic:output_columns.go: n.Alias is nil"
        | some a => pure (tables ++ [{ rel := { name := a }, columns := cols }], ctes)
      else if item.isKind "RangeVar" then
        let fqn := rangeVarName item
        let table ← qcGetTable c ctes fqn
        match aliasOf item with
        | none => pure (tables ++ [table], ctes)
        | some a =>
          let t' : Table := { table with rel := { catalog := table.rel.catalog, schema := table.rel.schema, name := a } }
          -- a CTE's *Table is shared: the rename is visible to every later lookup
          let ctes' := if (ctes.any (·.1 == fqn.name)) then ctes.map (fun e => if e.1 == fqn.name then (e.1, t') else e) else ctes
          pure (tables ++ [t'], ctes')
      else .error s!"other:sourceTable: unsupported list item type: {item.kind}") ([], ctes)
    -- targets
    let targets : Res Node := match node.kind with
      | "DeleteStmt" | "InsertStmt" | "UpdateStmt" => pure (node.get "ReturningList")
      | "SelectStmt" => pure (node.get "TargetList")
      | "TruncateStmt" => pure (.list [])
      | k => .error s!"other:outputColumns: unsupported node type: {k}"
    let targets ← targets
    if node.isKind "SelectStmt" && targets.isNull then .error "panic:output_columns.go: targets is nil"
    else if node.isKind "SelectStmt" && targets.items.length == 0 && !(node.get "Larg").isNull then
      outputColumnsF c fuel ctes (node.get "Larg")
    else if targets.isNull then .error "panic:output_columns.go: targets is nil"
    else
      let cols ← targets.items.foldlM (fun (cols : List Column) res => do
        if !res.isKind "ResTarget" then pure cols else
        let resName : Option String := (res.get "Name").strOpt
        let nm := resName.getD ""
        let v := res.get "Val"
        match v.kind with
        | "A_Expr" =>
          let op := (v.get "Name").joinStrings ""
          if isComparison op then pure (cols ++ [{ name := nm, dataType := "bool", notNull := true }])
          else if isMathematical op then pure (cols ++ [{ name := nm, dataType := "int", notNull := true }])
          else pure (cols ++ [{ name := nm, dataType := "any" }])
        | "CaseExpr" =>
          let dr := v.get "Defresult"
          if dr.isKind "TypeCast" then
            if (dr.get "TypeName").isNull then .error "other:no type name type cast" else
            let name0 := if (dr.get "Arg").isKind "ColumnRef" then ((dr.get "Arg").get "Fields").joinStrings "_" else ""
            let name := resName.getD name0
            let col ← toColumn (dr.get "TypeName")
            pure (cols ++ [{ col with name := name }])
          else pure (cols ++ [{ name := nm, dataType := "any" }])
        | "CoalesceExpr" =>
          let r ← (v.get "Args").items.foldlM (fun (st : Bool × List Column) arg => do
            if st.1 then pure st else
            if arg.isKind "ColumnRef" then
              let columns ← outputColumnRefs res tables arg
              pure (!columns.isEmpty, st.2 ++ columns.map (fun c => { c with notNull := true }))
            else pure st) (false, [])
          if r.1 then pure (cols ++ r.2) else pure (cols ++ [{ name := "coalesce", dataType := "any" }])
        | "ColumnRef" =>
          if hasStarRef v then
            let scope := (v.get "Fields").joinStrings "."
            pure (cols ++ starColumns tables scope resName)
          else do
            let columns ← outputColumnRefs res tables v
            pure (cols ++ columns)
        | "FuncCall" =>
          let name := resName.getD ((v.get "Func").get "Name").strVal
          match resolveFuncCall c v with
          | some f => pure (cols ++ [{ name := name, dataType := (dataTypeOf f.retSchema f.retName), notNull := true }])
          | none => pure (cols ++ [{ name := name, dataType := "any" }])
        | "SubLink" =>
          let name := resName.getD "exists"
          if (v.get "SubLinkType").intVal == 0 then pure (cols ++ [{ name := name, dataType := "bool", notNull := true }])
          else pure (cols ++ [{ name := name, dataType := "any" }])
        | "TypeCast" =>
          if (v.get "TypeName").isNull then .error "other:no type name type cast" else
          let name0 := if (v.get "Arg").isKind "ColumnRef" then ((v.get "Arg").get "Fields").joinStrings "_" else ""
          let col ← toColumn (v.get "TypeName")
          pure (cols ++ [{ col with name := resName.getD name0 }])
        | _ => pure (cols ++ [{ name := nm, dataType := "any" }])) []
      pure (cols, ctes)

def nodeSize (n : Node) : Nat := n.walk.length + 2

def outputColumns (c : Cat) (ctes : Ctes) (node : Node) : Res (List Column × Ctes) :=
  outputColumnsF c (nodeSize node) ctes node

/-- sourceTables alone (for expand) = the table list the same code computes -/
def sourceTables (c : Cat) (ctes : Ctes) (node : Node) : Res (List Table × Ctes) := do
  let list : List Node ← (match node.kind with
    | "InsertStmt" => pure [node.get "Relation"]
    | "DeleteStmt" =>
      pure ([node.get "Relation"] ++ (if (node.get "UsingClause").isNull then [] else
        (node.get "UsingClause").search (fun n => n.isKind "RangeVar" || n.isKind "RangeSubselect")))
    | "SelectStmt" => pure ((node.get "FromClause").search (fun n => n.isKind "RangeVar" || n.isKind "RangeSubselect"))
    | "TruncateStmt" => pure ((node.get "Relations").search (·.isKind "RangeVar"))
    | "UpdateStmt" =>
      if (node.get "FromClause").isNull then .error "panic:output_columns.go: n.FromClause is nil"
      else pure ([node.get "Relation"] ++ (node.get "FromClause").items)
    | k => .error s!"other:sourceTables: unsupported node type: {k}" : Res (List Node))
  list.foldlM (fun (st : List Table × Ctes) item => do
    let (tables, ctes) := st
    if item.isKind "RangeSubselect" then
      let (cols, ctes) ← outputColumns c ctes (item.get "Subquery")
      match aliasOf item with
      | none => .error "panic:output_columns.go: n.Alias is nil"
      | some a => pure (tables ++ [{ rel := { name := a }, columns := cols }], ctes)
    else if item.isKind "RangeVar" then
      let fqn := rangeVarName item
      let table ← qcGetTable c ctes fqn
      match aliasOf item with
      | none => pure (tables ++ [table], ctes)
      | some a =>
        let t' : Table := { table with rel := { catalog := table.rel.catalog, schema := table.rel.schema, name := a } }
        let ctes' := if (ctes.any (·.1 == fqn.name)) then ctes.map (fun e => if e.1 == fqn.name then (e.1, t') else e) else ctes
        pure (tables ++ [t'], ctes')
    else .error s!"other:sourceTable: unsupported list item type: {item.kind}") ([], ctes)

/-- buildQueryCatalog -/
def buildQueryCatalog (c : Cat) (node : Node) : Res Ctes :=
  let w : Node := match node.kind with
    | "InsertStmt" | "UpdateStmt" | "SelectStmt" => node.get "WithClause"
    | _ => .null
  if w.isNull then .ok [] else
  (w.get "Ctes").items.foldlM (fun (ctes : Ctes) item => do
    if !item.isKind "CommonTableExpr" then pure ctes else
    let (cols, ctes) ← outputColumns c ctes (item.get "Ctequery")
    match (item.get "Ctename").strOpt with
    | none => .error "panic:query_catalog.go: cte.Ctename is nil"
    | some name =>
      let rel : TableName := { name := name }
      let t : Table := { rel := rel, columns := cols.map (fun col => { col with table := some rel }) }
      pure (ctes.filter (·.1 != name) ++ [(name, t)])) []

/-! ### star expansion -/

structure SEdit where
  location : Int
  old : String
  new : String
deriving Repr, DecidableEq, Inhabited

def isReserved (engine : String) (s : String) : Bool :=
  if engine == "mysql" then Gen.mysqlReserved.contains s.toLower
  else if engine == "_lemon" then Gen.sqliteReserved.contains s.toLower
  else Gen.pgReserved.contains s.toLower

def quoteIdent (engine ident : String) : String :=
  if isReserved engine ident then (if engine == "mysql" then "`" ++ ident ++ "`" else "\"" ++ ident ++ "\"") else ident

def countName (tables : List Table) (n : String) : Nat :=
  (tables.flatMap (fun t => t.columns.filter (·.name == n))).length

/-- what one column of a star is written as (the inner loop body of expandStmt) -/
def starName (engine : String) (tables : List Table) (scope : String) (resName : Option String) (t : Table) (column : Column) : String :=
  let tableName := quoteIdent engine t.rel.name
  let scopeName := quoteIdent engine scope
  let cname := resName.getD column.name
  let cname := quoteIdent engine cname
  let cname := if scope != "" then scopeName ++ "." ++ cname else cname
  -- `counts` is filled only when scope == "", and is consulted with the final (quoted / scoped) name
  let cnt := if scope == "" then countName tables cname else 0
  if cnt > 1 then tableName ++ "." ++ cname else cname

/-- the identifiers a `*` / `scope.*` target is replaced by (the star loop of expandStmt) -/
def starNames (engine : String) (tables : List Table) (scope : String) (resName : Option String) : List String :=
  tables.flatMap (fun t =>
    if scope != "" && scope != t.rel.name then []
    else t.columns.map (starName engine tables scope resName t))

def expandStmt (c : Cat) (ctes : Ctes) (stmtLocation : Int) (node : Node) : Res (List SEdit × Ctes) := do
  let (tables, ctes) ← sourceTables c ctes node
  let targets : Node := match node.kind with
    | "DeleteStmt" | "InsertStmt" | "UpdateStmt" => node.get "ReturningList"
    | _ => node.get "TargetList"
  if targets.isNull then .error "panic:expand.go: targets is nil" else
  let edits ← targets.items.foldlM (fun (edits : List SEdit) res => do
    if !res.isKind "ResTarget" then pure edits else
    let ref := res.get "Val"
    if !ref.isKind "ColumnRef" then pure edits else
    if !hasStarRef ref then pure edits else
    let fieldsN := (ref.get "Fields").items
    if fieldsN.any (fun f => !(f.isKind "String" || f.isKind "A_Star")) then .error "other:unknown field in ColumnRef" else
    let parts := fieldsN.map (fun f => if f.isKind "String" then (f.get "Str").strVal else "*")
    let scope := (ref.get "Fields").joinStrings "."
    let resName := (res.get "Name").strOpt
    let cols := starNames c.engine tables scope resName
    let old := ".".intercalate (parts.map (quoteIdent c.engine))
    pure (edits ++ [{ location := (res.get "Location").intVal - stmtLocation, old := old, new := ", ".intercalate cols }])) []
  pure (edits, ctes)

def expand (c : Cat) (ctes : Ctes) (raw : Node) : Res (List SEdit) := do
  let stmts := raw.search (fun n => stmtKinds.contains n.kind)
  let r ← stmts.foldlM (fun (st : List SEdit × Ctes) s => do
    let (e, ctes) ← expandStmt c st.2 (raw.get "StmtLocation").intVal s
    pure (st.1 ++ e, ctes)) ([], ctes)
  pure r.1

/-! ### parseQuery from NamedParameters' output onward -/

structure Analysis where
  params : List Parameter
  columns : List Column
  edits : List SEdit
deriving Repr, Inhabited

/-- validate.InsertStmt: a single VALUES row must have as many expressions as the statement names columns -/
def validateInsert (stmt : Node) : Res Unit :=
  let sel := stmt.get "SelectStmt"
  if !sel.isKind "SelectStmt" then .ok () else
  let vl := sel.get "ValuesLists"
  if vl.isNull then .ok () else
  match vl.items with
  | [sub] =>
    (match sub with
     | .list vals =>
       let cols := stmt.get "Cols"
       if cols.isNull then .error "panic:validate.InsertStmt: stmt.Cols is nil" else
       if cols.items.length > vals.length then .error "other:INSERT has more target columns than expressions"
       else if cols.items.length < vals.length then .error "other:INSERT has more expressions than target columns"
       else .ok ()
     | _ => .ok ())
  | _ => .ok ()

def supportedStmtKinds : List String := ["SelectStmt", "DeleteStmt", "InsertStmt", "TruncateStmt", "UpdateStmt"]

/-- the distinct numbers (Go: the key set of `seen` in validate.ParamRef) -/
def distinctNums : List Nat → List Nat
  | [] => []
  | n :: ns => if n ∈ distinctNums ns then distinctNums ns else n :: distinctNums ns

/-- validate.ParamRef: the first number in 1..len(seen) that no placeholder carries, if any -/
def paramRefCheck (nums : List Nat) : Option Nat :=
  (List.range' 1 (distinctNums nums).length).find? (fun i => !nums.contains i)

/-- the numbers of every ParamRef of a tree, in walk order -/
def paramNumbers (raw : Node) : List Nat :=
  (raw.search (·.isKind "ParamRef")).map (fun n => (n.get "Number").natVal)

/-- the checks parseQuery makes before the analysis proper; `early` / `late` are the verdicts of the
validators that enter as data (ParamStyle | Pluck, FuncCall, metadata.Parse, Cmd); validate.ParamRef is decided
by `paramRefCheck` (the driver computes `early` from it for positional statements) -/
def preflight (raw : Node) (early late : Bool) : Res Unit :=
  if early then .error "other:validate" else
  let stmt := raw.get "Stmt"
  if !supportedStmtKinds.contains stmt.kind then .error "other:unsupported statement type" else do
  if stmt.isKind "InsertStmt" then validateInsert stmt
  if late then .error "other:validate" else pure ()

def analyze (c : Cat) (raw : Node) (names : List (Nat × String)) (positional : Bool) : Res Analysis := do
  let stmt := raw.get "Stmt"
  let rvs := rangeVars stmt
  let found := findParameters stmt
  if let some p := found.panic then throw s!"panic:{p}"
  let refs := if positional then found.refs else sortRefs (uniqueParamRefs found.refs)
  let params ← resolveCatalogRefs c rvs refs names
  let ctes ← buildQueryCatalog c stmt
  let (cols, ctes) ← outputColumns c ctes stmt
  let edits ← expand c ctes raw
  pure { params := params, columns := cols, edits := edits }

end Sqlc.Q

namespace Sqlc.Q

/-- which recorded C03 defect classes a statement falls into, computed from the faithful model: a
reference for which resolveCatalogRefs emits no parameter (dropped) or more than one (duplicated) -/
def paramTriggers (c : Cat) (raw : Node) (names : List (Nat × String)) : List String :=
  let stmt := raw.get "Stmt"
  let rvs := (rangeVars stmt).filter (fun rv => !(rv.get "Relname").isNull)
  let tables := rvs.map rangeVarName
  let aliasMap := rvs.filterMap (fun rv => (aliasOf rv).map (fun a => (a, rangeVarName rv)))
  let tm : List TypeMapEntry := tables.filterMap (fun fqn =>
    match catGetTable c fqn with
    | .ok t => some { schema := fqn.schema, name := fqn.name, cols := t.cols }
    | .error _ => none)
  let refs := sortRefs (uniqueParamRefs (findParameters stmt).refs)
  (refs.flatMap (fun ref =>
    match resolveOne c names tables aliasMap tm tables.head? ref with
    | .ok [] => (match ref.parent with
        | .node p => if p.isKind "FuncCall" then ["funcArgNested"] else ["noParent"]
        | _ => ["noParent"])
    | .ok (_ :: _ :: _) => ["funcArgRepeated"]
    | _ => [])).eraseDups

end Sqlc.Q
